//! Rich text: every local call on a text (insert, insert_with_attributes, format, remove_range, insert_embed incl. embedded shared
//! types) against the Coq model of the item-level algorithm (Crdt/RichText.v: the item list after the call, from the hook dump) and
//! against the sequential specification "a list of elements each with its attribute map" (what Text::diff reports).
use crate::model::Model;
use crate::report::Report;
use crate::rng::Rng;
use crate::sim::*;
use serde_json::json;
use std::collections::HashMap;
use yrs::types::text::YChange;
use yrs::types::Attrs;
use yrs::verif::{dump_store, VContent, VParent, VStore};
use yrs::{Any, Out, SharedRef, Text, Transact, WriteTxn};

struct Intern { m: HashMap<String, u64> }
impl Intern { fn tok(&mut self, s: &str) -> u64 { let n = self.m.len() as u64 + 1; *self.m.entry(s.to_string()).or_insert(n) } fn val(&mut self, a: &Any) -> u64 { if matches!(a, Any::Null) { 0 } else { self.tok(&format!("v{}", print_any(a))) } } }

fn items(vs: &VStore, it: &mut Intern) -> String {
    let mut out: Vec<String> = vec![];
    for b in &vs.branches { if let VParent::Root(n) = &b.id { if n == ROOT_TEXT { for x in &b.seq {
        let (c, k, d) = (x.id.client.get(), x.id.clock, if x.deleted { 1 } else { 0 });
        match &x.content {
            VContent::String(s) => for (j, u) in s.encode_utf16().enumerate() { out.push(format!("{:x}:{:x}:{}:u{:x}", c, k + j as u32, d, u)); },
            VContent::Embed(a) => out.push(format!("{:x}:{:x}:{}:e{:x}", c, k, d, it.tok(&format!("e{}", print_any(a))))),
            VContent::Type(_) => out.push(format!("{:x}:{:x}:{}:t{:x}", c, k, d, it.tok(&format!("T{:x}:{:x}", c, k)))),
            VContent::Format(key, v) => out.push(format!("{:x}:{:x}:{}:f{:x}.{:x}", c, k, d, it.tok(&format!("k{}", key)), it.val(v))),
            VContent::Deleted(n) => for j in 0..*n { out.push(format!("{:x}:{:x}:1:g", c, k + j)); },
            _ => out.push(format!("{:x}:{:x}:{}:e{:x}", c, k, d, it.tok("other"))),
        }
    } } } }
    if out.is_empty() { "_".into() } else { out.join(",") }
}
fn attrs_str(a: &Attrs, it: &mut Intern) -> String { let mut v: Vec<String> = a.iter().map(|(k, v)| format!("{:x}={:x}", it.tok(&format!("k{}", k)), it.val(v))).collect(); v.sort(); if v.is_empty() { "_".into() } else { v.join(";") } }

pub fn case(seed: u64, index: u64, md: &mut Model, rep: &mut Report) {
    let mut r = Rng::for_case(seed, 131, index);
    let gc = r.chance(1, 2);
    let doc = mk_doc(1, DocCfg { gc, bytes_offsets: false, cleanup: false });
    let t = doc.get_or_insert_text(ROOT_TEXT);
    let mut it = Intern { m: HashMap::new() };
    let mut script: Vec<String> = vec![format!("gc={}", gc)];
    let chars = ["a", "b", "c", "é", "ß", "中", " "];
    let rand_attrs = |r: &mut Rng| -> Attrs { let mut a = Attrs::new(); for _ in 0..r.range(1, 2) { let k = *r.pick(&["b", "i", "c"]); let v = match r.below(4) { 0 => Any::Null, 1 => Any::Bool(true), 2 => Any::String("red".into()), _ => Any::Number(2.0) }; a.insert(k.into(), v); } a };
    let ncalls = r.range(4, 14);
    let mut k = 0;
    rep.evaluations += 1;
    while k < ncalls {
        let group = r.range(1, 3);
        let mut txn = doc.transact_mut();
        for _ in 0..group {
            k += 1;
            let before_vs = dump_store(&txn);
            let before = items(&before_vs, &mut it);
            let n: u32 = t.len(&txn);
            let clock = before_vs.blocks.iter().find(|(c, _)| *c == 1).map(|(_, bs)| bs.iter().map(|b| match b { yrs::verif::VBlock::Item(x) => x.id.clock + x.len, yrs::verif::VBlock::GC(id, l) | yrs::verif::VBlock::Skip(id, l) => id.clock + l }).max().unwrap_or(0)).unwrap_or(0);
            let s: String = (0..r.range(1, 3)).map(|_| *r.pick(&chars)).collect();
            let units = s.encode_utf16().map(|u| format!("{:x}", u)).collect::<Vec<_>>().join("-");
            let op = match r.below(10) {
                0..=2 => { let i = r.below(n as u64 + 1) as u32; t.insert(&mut txn, i, &s); script.push(format!("insert({i},{s:?})")); format!("I/{}/{}", i, units) }
                3..=4 => { let i = r.below(n as u64 + 1) as u32; let a = rand_attrs(&mut r); let o = format!("IW/{}/{}/{}", i, units, attrs_str(&a, &mut it)); script.push(format!("insert_with_attributes({i},{s:?},{:?})", a)); t.insert_with_attributes(&mut txn, i, &s, a); o }
                5..=6 if n > 0 => { let i = r.below(n as u64) as u32; let l = r.range(1, (n - i).min(5) as u64) as u32; let a = rand_attrs(&mut r); let o = format!("F/{}/{}/{}", i, l, attrs_str(&a, &mut it)); script.push(format!("format({i},{l},{:?})", a)); t.format(&mut txn, i, l, a); o }
                7 if n > 0 => { let i = r.below(n as u64) as u32; let l = r.range(0, (n - i).min(4) as u64) as u32; script.push(format!("remove_range({i},{l})")); t.remove_range(&mut txn, i, l); format!("R/{}/{}", i, l) }
                8 => { let i = r.below(n as u64 + 1) as u32; let a = rand_json_any(&mut r); let o = format!("E/{}/0/{:x}", i, it.tok(&format!("e{}", print_any(&a)))); script.push(format!("insert_embed({i},{})", print_any(&a))); t.insert_embed(&mut txn, i, a); o }
                _ => { let i = r.below(n as u64 + 1) as u32; script.push(format!("insert_embed({i},MapPrelim)")); let m = t.insert_embed(&mut txn, i, yrs::MapPrelim::default()); let id = match m.hook().id() { yrs::branch::BranchID::Nested(id) => *id, _ => yrs::ID::new(yrs::block::ClientID::new(0), 0) }; format!("E/{}/1/{:x}", i, it.tok(&format!("T{:x}:{:x}", id.client.get(), id.clock))) }
            };
            let after = items(&dump_store(&txn), &mut it);
            let diff: Vec<String> = t.diff(&txn, YChange::identity).iter().flat_map(|d| { let at = d.attributes.as_ref().map(|a| attrs_str(&a.iter().filter(|(_, v)| !matches!(v, Any::Null)).map(|(k, v)| (k.clone(), v.clone())).collect(), &mut it)).unwrap_or("_".into()); let at = if at == "_" { String::new() } else { at };
                match &d.insert { Out::Any(Any::String(s)) => s.encode_utf16().map(|u| format!("u{:x}{{{}}}", u, at)).collect::<Vec<_>>(), Out::Any(a) => vec![format!("e{:x}{{{}}}", it.tok(&format!("e{}", print_any(a))), at)],
                    Out::YMap(m) => { let id = match m.hook().id() { yrs::branch::BranchID::Nested(id) => *id, _ => yrs::ID::new(yrs::block::ClientID::new(0), 0) }; vec![format!("e{:x}{{{}}}", it.tok(&format!("T{:x}:{:x}", id.client.get(), id.clock)), at)] }
                    _ => vec![format!("e{:x}{{{}}}", it.tok("other"), at)] } }).collect();
            let diff = if diff.is_empty() { "_".to_string() } else { diff.join(",") };
            let m = md.ask(&format!("RT step {} {} {} 1 {:x} {}", before, after, op, clock, diff));
            rep.count("rich_text_calls_compared_with_model_and_specification");
            if m.ends_with("spec") && m.starts_with("ok") { rep.count("rich_text_calls_within_the_hypotheses_of_rt_apply_refines"); }
            if !m.starts_with("ok") {
                rep.disagree(json!({"kind": "rich text call", "model": m, "op": op, "before": before, "after": after, "diff": diff, "script": script, "case": {"stream": 131, "index": index, "seed": seed}}));
                return;
            }
        }
    }
    rep.nontrivial_case(&format!("rt:{}", index));
}
