//! C12: undo / redo. Replica A carries an UndoManager over a random non-empty subset of the four
//! roots with a controlled clock (so the grouping of transactions into capture steps is the
//! harness's choice); replica B is a remote peer.
//!
//! mode "inverse": every other origin (a second local origin, remote updates) edits only roots
//!   outside the scope. The harness mirrors the two stacks with the content after each captured
//!   step; after every undo / redo call the scoped roots must show exactly the content of the step
//!   the call went back / forward to, passing over only steps that changed nothing visible.
//! mode "interference": other origins edit the scoped roots too. Checked: elements inserted by
//!   untracked origins stay visible across undo / redo unless a container above them went away,
//!   everything an undo / redo transaction deletes is a tracked contribution (or a descendant of a
//!   container it deletes), roots outside the scope never change in an undo / redo call, and A and
//!   B converge after exchanging all updates.
use crate::report::{catch, Report};
use crate::rng::Rng;
use crate::sim::*;
use serde_json::json;
use std::collections::{BTreeMap, BTreeSet};
use std::sync::atomic::{AtomicU64, Ordering};
use std::sync::{Arc, Mutex};
use yrs::undo::{Options, UndoManager};
use yrs::updates::decoder::Decode;
use yrs::verif::{VBlock, VContent, VParent};
use yrs::{IdSet, Origin, Transact, Update, ID};

fn contents(doc: &yrs::Doc) -> Vec<String> { public_dump(doc).split(" || ").map(|s| s.to_string()).collect() }
const NAMES: [&str; 4] = ["t", "a", "m", "x"];

#[derive(Clone, Default)]
struct Units { live: BTreeSet<(u64, u32)>, all: BTreeSet<(u64, u32)>, parent: BTreeMap<(u64, u32), Option<(u64, u32)>>, is_type: BTreeSet<(u64, u32)> }
fn units(doc: &yrs::Doc) -> Units {
    let vs = store_dump(doc); let mut u = Units::default();
    for (c, blocks) in vs.blocks.iter() { for b in blocks { match b {
        VBlock::Item(it) => for k in 0..it.len {
            let id = (*c, it.id.clock + k); u.all.insert(id); if !it.deleted { u.live.insert(id); }
            u.parent.insert(id, match &it.parent { VParent::Nested(p) => Some((p.client.get(), p.clock)), _ => None });
            if matches!(it.content, VContent::Type(_)) { u.is_type.insert(id); }
        },
        VBlock::GC(id, len) => for k in 0..*len { u.all.insert((*c, id.clock + k)); },
        _ => {}
    } } }
    u
}
/// history feature: some undo / redo call has re-created a nested shared type (an item with Type content carries a `redone` pointer)
fn nested_type_recreated(doc: &yrs::Doc) -> bool {
    let vs = store_dump(doc);
    vs.blocks.iter().any(|(_, bs)| bs.iter().any(|b| matches!(b, VBlock::Item(it) if it.redone.is_some() && matches!(it.content, VContent::Type(_)))))
}
fn has_dead_ancestor(u: &Units, id: (u64, u32)) -> bool {
    let mut cur = u.parent.get(&id).cloned().flatten(); let mut n = 0;
    while let Some(p) = cur { if !u.live.contains(&p) { return true; } cur = u.parent.get(&p).cloned().flatten(); n += 1; if n > 64 { break; } }
    false
}

fn txn_with(rep: &Replica, origin: Option<&str>, r: &mut Rng, cfg: &EditCfg, max_calls: u64, script: &mut Vec<String>, tag: &mut u64) {
    let n = r.range(1, max_calls);
    match origin {
        Some(o) => { let mut txn = rep.doc.transact_mut_with(o); for _ in 0..n { random_call(&rep.doc, &mut txn, r, cfg, false, script, tag); } }
        None => { let mut txn = rep.doc.transact_mut(); for _ in 0..n { random_call(&rep.doc, &mut txn, r, cfg, false, script, tag); } }
    }
}
fn apply_remote(rep: &Replica, u: &[u8]) { if let Ok(upd) = Update::decode_v1(u) { let _ = rep.doc.transact_mut_with("remote").apply_update(upd); } }

fn run_case(seed: u64, index: u64, interference: bool, rep: &mut Report) {
    let mut r = Rng::for_case(seed, if interference { 122 } else { 121 }, index);
    let gc = r.chance(1, 2);
    let a = Replica::new(1, DocCfg { gc, ..DocCfg::default() });
    let b = Replica::new(2, DocCfg { gc, ..DocCfg::default() });
    let mask: Vec<bool> = loop { let m: Vec<bool> = (0..4).map(|_| r.chance(1, 2)).collect(); if m.iter().any(|x| *x) { break m; } };
    let scoped: Vec<usize> = (0..4).filter(|i| mask[*i]).collect();
    let unscoped: Vec<usize> = (0..4).filter(|i| !mask[*i]).collect();
    let all = EditCfg::default();
    let outside = EditCfg { text: !mask[0], array: !mask[1], map: !mask[2], xml: !mask[3], ..EditCfg::default() };
    let other_cfg = if interference { all } else { outside };
    let others_can_edit = interference || !unscoped.is_empty();
    // tracked origin: either "no origin" (the manager's default) or an explicit one
    let explicit = r.chance(1, 2);
    let clock = Arc::new(AtomicU64::new(10_000));
    let ck = clock.clone();
    let mut mgr: UndoManager<()> = UndoManager::with_options(Options { capture_timeout_millis: 500, timestamp: Arc::new(move || ck.load(Ordering::SeqCst)), ..Options::default() });
    {
        let (t, ar, m, x) = (a.doc.get_or_insert_text(ROOT_TEXT), a.doc.get_or_insert_array(ROOT_ARRAY), a.doc.get_or_insert_map(ROOT_MAP), a.doc.get_or_insert_xml_fragment(ROOT_XML));
        if mask[0] { mgr.expand_scope(&a.doc, &t); } if mask[1] { mgr.expand_scope(&a.doc, &ar); } if mask[2] { mgr.expand_scope(&a.doc, &m); } if mask[3] { mgr.expand_scope(&a.doc, &x); }
    }
    if explicit { mgr.include_origin("me"); }
    let tracked_origin: Option<&str> = if explicit { Some("me") } else { None };
    let other_origin: Option<&str> = Some("other");
    // what each transaction on A deleted, and under which origin
    let dels: Arc<Mutex<Vec<(Option<Origin>, IdSet)>>> = Arc::new(Mutex::new(vec![]));
    let d2 = dels.clone();
    let _sub = a.doc.observe_transaction_cleanup(move |txn, e| { if !e.delete_set.is_empty() { d2.lock().unwrap().push((txn.origin().cloned(), e.delete_set.clone())); } }).unwrap();
    let mgr_origin = mgr.as_origin();

    let mut script = vec![format!("scope={} gc={} tracked_origin={:?} mode={}", scoped.iter().map(|i| NAMES[*i]).collect::<Vec<_>>().join(""), gc, tracked_origin, if interference { "interference" } else { "inverse" })];
    if std::env::var("YV_DEBUG").is_ok() { eprintln!("{}", script[0]); }
    let mut fails: Vec<serde_json::Value> = vec![];
    let mut tag = 0u64;
    let (mut to_a, mut to_b): (Vec<Vec<u8>>, Vec<Vec<u8>>) = (vec![], vec![]);
    // mirrors of the two stacks: content of the scoped roots after each captured step
    let proj = |c: &Vec<String>, idx: &Vec<usize>| -> Vec<String> { idx.iter().map(|i| c[*i].clone()).collect() };
    let mut ustack: Vec<Vec<String>> = vec![proj(&contents(&a.doc), &scoped)];   // ustack[j] = scoped content with j steps on the undo stack
    let mut rstack: Vec<Vec<String>> = vec![];                                    // rstack[i] = scoped content a redo that pops down to i entries leads to
    let mut tracked_ids: BTreeSet<(u64, u32)> = BTreeSet::new();
    let mut untracked_ids: BTreeSet<(u64, u32)> = BTreeSet::new();
    let mut prev_units = units(&a.doc);
    let (mut n_undo, mut n_redo, mut n_passed) = (0u64, 0u64, 0u64);
    let small = std::env::var("YV_SMALL").is_ok();
    let steps = if small { r.range(4, std::env::var("YV_SMALL").unwrap().parse::<u64>().unwrap_or(9)) } else { r.range(8, 30) };
    let maxc = if small { 2 } else { 3 };
    for step in 0..steps {
        a.drain1(); dels.lock().unwrap().clear();
        let before = contents(&a.doc);
        let (ul0, rl0) = (mgr.undo_stack().len(), mgr.redo_stack().len());
        let choice = r.below(100);
        let mut kind = "";
        if choice < 40 {
            kind = "tracked";
            clock.fetch_add(1000, Ordering::SeqCst);
            let mut sc = vec![];
            for _ in 0..r.range(1, if small { 1 } else { 3 }) { txn_with(&a, tracked_origin, &mut r, &all, maxc, &mut sc, &mut tag); clock.fetch_add(1, Ordering::SeqCst); if r.chance(1, 4) { sc.push("|".into()); } }
            script.push(format!("A step {{{}}}", sc.join("; ")));
        } else if choice < 50 && others_can_edit {
            kind = "untracked";
            let mut sc = vec![];
            txn_with(&a, other_origin, &mut r, &other_cfg, 3, &mut sc, &mut tag);
            script.push(format!("A other-origin txn {{{}}}", sc.join("; ")));
        } else if choice < 60 && others_can_edit {
            let mut sc = vec![];
            b.drain1(); txn_with(&b, None, &mut r, &other_cfg, 3, &mut sc, &mut tag); to_a.extend(b.drain1());
            script.push(format!("B txn {{{}}}", sc.join("; ")));
            continue;
        } else if choice < 70 && !to_a.is_empty() {
            kind = "untracked";
            let i = if r.chance(3, 4) { 0 } else { r.below(to_a.len() as u64) as usize };
            let u = to_a.remove(i); apply_remote(&a, &u);
            script.push("A <- B".into());
        } else if choice < 75 && !to_b.is_empty() {
            let u = to_b.remove(0); apply_remote(&b, &u); b.drain1();
            script.push("B <- A".into());
            continue;
        } else if choice < 90 {
            kind = "undo";
            if std::env::var("YV_DEBUG").is_ok() { eprintln!("undo: store {} stack {:?}", internal_dump(&store_dump(&a.doc)), mgr.undo_stack()); }
            let did = mgr.undo_blocking(); n_undo += 1;
            script.push(format!("A undo -> {}", did));
        } else {
            kind = "redo";
            let did = mgr.redo_blocking(); n_redo += 1;
            script.push(format!("A redo -> {}", did));
        }
        if std::env::var("YV_DEBUG").is_ok() { eprintln!("{}", script.last().unwrap()); }
        if kind.is_empty() { continue; }
        to_b.extend(a.drain1());
        let after = contents(&a.doc);
        let (ul1, rl1) = (mgr.undo_stack().len(), mgr.redo_stack().len());
        let now_units = units(&a.doc);
        let new_ids: Vec<(u64, u32)> = now_units.all.difference(&prev_units.all).cloned().collect();
        let cur = proj(&after, &scoped);
        let what = script.last().unwrap().clone();
        match kind {
            "tracked" => {
                for id in new_ids { tracked_ids.insert(id); }
                if !interference {
                    if ul1 == ul0 + 1 { ustack.truncate(ul0 + 1); ustack.push(cur.clone()); if rl1 != 0 { fails.push(json!({"class": "redo-stack-survives-a-new-captured-step", "after": what, "step": step})); } rstack.clear(); }
                    else if ul1 == ul0 { if proj(&before, &scoped) != cur { fails.push(json!({"class": "tracked-change-to-scoped-type-not-captured", "after": what, "step": step, "before": proj(&before, &scoped), "now": cur})); } }
                    else { fails.push(json!({"class": "one-capture-step-produced-several-stack-items", "after": what, "step": step, "undo_stack": [ul0, ul1]})); }
                }
            }
            "untracked" => {
                for id in new_ids { untracked_ids.insert(id); }
                if !interference {
                    if proj(&before, &scoped) != cur { fails.push(json!({"class": "harness-error-untracked-edit-touched-scope", "after": what})); }
                    if (ul1, rl1) != (ul0, rl0) { fails.push(json!({"class": "untracked-origin-changed-the-stacks", "after": what, "step": step, "stacks": [[ul0, rl0], [ul1, rl1]]})); }
                }
            }
            "undo" | "redo" => {
                for id in new_ids { tracked_ids.insert(id); }   // re-created copies are the tracked origin's contributions
                // roots outside the scope never move
                for i in unscoped.iter() { if before[*i] != after[*i] { fails.push(json!({"class": format!("{kind}-changed-a-type-outside-the-scope"), "root": NAMES[*i], "after": what, "step": step, "before": before[*i], "now": after[*i]})); } }
                // everything the call deleted is a tracked contribution or sits below a container it deleted
                for (o, ds) in dels.lock().unwrap().iter() { if o.as_ref() == Some(&mgr_origin) {
                    for id in prev_units.live.iter() { if ds.contains(&ID::new(yrs::block::ClientID::new(id.0), id.1)) && !tracked_ids.contains(id) && !has_dead_ancestor(&now_units, *id) {
                        fails.push(json!({"class": format!("{kind}-deleted-an-element-of-another-origin"), "id": format!("{:x}:{:x}", id.0, id.1), "after": what, "step": step}));
                    } }
                } }
                // untracked insertions stay visible unless a container above them went away
                for id in untracked_ids.iter() { if prev_units.live.contains(id) && !now_units.live.contains(id) && !has_dead_ancestor(&now_units, *id) {
                    fails.push(json!({"class": format!("{kind}-removed-an-element-inserted-by-another-origin"), "id": format!("{:x}:{:x}", id.0, id.1), "after": what, "step": step}));
                } }
                if !interference {
                    let undo = kind == "undo";
                    // the stack the call popped from / pushed to, as mirrored content
                    if undo {
                        if ul1 > ul0 { fails.push(json!({"class": "undo-grew-the-undo-stack", "after": what, "step": step})); }
                        else {
                            let popped = ul0 - ul1;
                            let want = ustack[ul1].clone();
                            if cur != want { fails.push(json!({"class": "undo-does-not-restore-the-content-before-the-step", "after": what, "step": step, "popped": popped, "expected": want, "now": cur, "had": proj(&before, &scoped)})); }
                            // steps passed over on the way changed nothing visible
                            for j in (ul1 + 2)..=ul0 { if ustack[j] != ustack[j - 1] { fails.push(json!({"class": "undo-call-reverted-more-than-one-visible-step", "after": what, "step": step, "popped": popped})); break; } }
                            if popped > 1 { n_passed += 1; }
                            let pushed = rl1 as i64 - rl0 as i64;
                            if pushed == 1 { rstack.truncate(rl0); rstack.push(ustack[ul0].clone()); }
                            else if pushed == 0 { if cur != proj(&before, &scoped) { fails.push(json!({"class": "undo-changed-content-without-a-redo-entry", "after": what, "step": step})); } }
                            else { fails.push(json!({"class": "undo-moved-the-redo-stack-by-more-than-one", "after": what, "step": step, "redo_stack": [rl0, rl1]})); }
                            ustack.truncate(ul1 + 1);
                        }
                    } else {
                        if rl1 > rl0 { fails.push(json!({"class": "redo-grew-the-redo-stack", "after": what, "step": step})); }
                        else if rl0 > 0 || rl1 > 0 {
                            let popped = rl0 - rl1;
                            if popped > 0 {
                                let want = rstack[rl1].clone();
                                let pushed = ul1 as i64 - ul0 as i64;
                                if pushed == 1 {
                                    if cur != want { fails.push(json!({"class": "redo-does-not-restore-the-content-after-the-step", "after": what, "step": step, "popped": popped, "expected": want, "now": cur, "had": proj(&before, &scoped)})); }
                                    for j in (rl1 + 1)..rl0 { if rstack[j] != proj(&before, &scoped) { fails.push(json!({"class": "redo-call-replayed-more-than-one-visible-step", "after": what, "step": step, "popped": popped})); break; } }
                                    ustack.truncate(ul0 + 1); ustack.push(cur.clone());
                                } else if pushed == 0 {
                                    if cur != proj(&before, &scoped) { fails.push(json!({"class": "redo-changed-content-without-an-undo-entry", "after": what, "step": step})); }
                                    for j in rl1..rl0 { if rstack[j] != proj(&before, &scoped) { fails.push(json!({"class": "redo-dropped-a-step-that-changed-something-visible", "after": what, "step": step, "expected": rstack[j], "now": cur})); break; } }
                                } else { fails.push(json!({"class": "redo-moved-the-undo-stack-by-more-than-one", "after": what, "step": step, "undo_stack": [ul0, ul1]})); }
                                if popped > 1 { n_passed += 1; }
                                rstack.truncate(rl1);
                            }
                        }
                    }
                }
            }
            _ => {}
        }
        prev_units = now_units;
        if !fails.is_empty() { break; }
    }
    // convergence: undo and redo are ordinary replicated operations
    if fails.is_empty() {
        to_b.extend(a.drain1());
        for u in to_b.drain(..) { apply_remote(&b, &u); }
        to_a.extend(b.drain1());
        for u in to_a.drain(..) { apply_remote(&a, &u); }
        // second round for anything that was waiting on a dependency
        let sva = { use yrs::ReadTxn; a.doc.transact().state_vector() }; let svb = { use yrs::ReadTxn; b.doc.transact().state_vector() };
        let ua = { use yrs::ReadTxn; a.doc.transact().encode_state_as_update_v1(&svb) }; let ub = { use yrs::ReadTxn; b.doc.transact().encode_state_as_update_v1(&sva) };
        apply_remote(&b, &ua); apply_remote(&a, &ub);
        let (ca, cb) = (public_dump(&a.doc), public_dump(&b.doc));
        if ca != cb { fails.push(json!({"class": "replicas-diverge-after-undo-redo", "a": ca, "b": cb})); }
    }
    rep.evaluations += 1;
    rep.add("undo_calls", n_undo); rep.add("redo_calls", n_redo); rep.add("calls_that_passed_over_steps", n_passed);
    if n_undo > 0 { rep.nontrivial_case(&format!("c12:{}:{}", interference, index)); }
    let recreated = nested_type_recreated(&a.doc);
    rep.add(if recreated { "histories_with_a_re_created_nested_type" } else { "histories_without_a_re_created_nested_type" }, 1);
    for mut f in fails {
        f["nested_type_was_re_created"] = json!(recreated);
        f["property"] = json!("C12"); f["case"] = json!({"stream": if interference { 122 } else { 121 }, "index": index, "seed": seed}); f["script"] = json!(script); rep.fail(f); }
    if rep.samples.len() < 2 && n_undo > 1 && n_redo > 0 { rep.sample(json!({"case": index, "script": script})); }
}


// ---- flat scope, compared with the Coq model (coq/Crdt/Undo.v) after every action ----
fn flat_content(doc: &yrs::Doc, tab: &mut std::collections::HashMap<String, u64>) -> String {
    use yrs::{Array, Map};
    let (ar, m) = (doc.get_or_insert_array(ROOT_ARRAY), doc.get_or_insert_map(ROOT_MAP));
    let txn = doc.transact();
    let mut tk = |s: String| -> u64 { let n = tab.len() as u64 + 1; *tab.entry(s).or_insert(n) };
    let seq: Vec<String> = ar.iter(&txn).map(|v| format!("{:x}", tk(print_out(&v, &txn, 0)))).collect();
    let mut es: Vec<(u64, u64)> = m.iter(&txn).map(|(k, v)| (key_tok(k), tk(print_out(&v, &txn, 0)))).collect();
    es.sort();
    format!("seq={} | map={}", if seq.is_empty() { "_".to_string() } else { seq.join(".") }, es.iter().map(|(k, v)| format!("{:x}:{:x}", k, v)).collect::<Vec<_>>().join(","))
}
fn key_tok(k: &str) -> u64 { match k { "k1" => 1, "k2" => 2, _ => 3 } }
const FKEYS: [&str; 3] = ["k1", "k2", "κ3"];

fn run_flat_case(seed: u64, index: u64, rep: &mut Report, model: &mut crate::model::Model) {
    use yrs::{Array, Map};
    let mut r = Rng::for_case(seed, 123, index);
    let gc = r.chance(1, 2);
    let a = Replica::new(1, DocCfg { gc, ..DocCfg::default() });
    let clock = Arc::new(AtomicU64::new(10_000));
    let ck = clock.clone();
    let mut mgr: UndoManager<()> = UndoManager::with_options(Options { capture_timeout_millis: 500, timestamp: Arc::new(move || ck.load(Ordering::SeqCst)), ..Options::default() });
    let (ar, m) = (a.doc.get_or_insert_array(ROOT_ARRAY), a.doc.get_or_insert_map(ROOT_MAP));
    mgr.expand_scope(&a.doc, &ar); mgr.expand_scope(&a.doc, &m);
    let explicit = r.chance(1, 2);
    if explicit { mgr.include_origin("me"); }
    let mut tab = std::collections::HashMap::new();
    let mut script = vec![format!("flat scope=am gc={} explicit_origin={}", gc, explicit)];
    let name = format!("f{}", index);
    model.ask(&format!("U new {}", name));
    let mut vtag = 0u64;
    let mut n_undo = 0;
    // one random call executed on the document and described for the model
    let mut call = |txn: &mut yrs::TransactionMut, r: &mut Rng, tab: &mut std::collections::HashMap<String, u64>, sc: &mut Vec<String>, mc: &mut Vec<String>| {
        let len = ar.len(txn);
        match r.below(10) {
            0..=3 => { let p = r.below(len as u64 + 1) as u32; vtag += 1; let v = yrs::Any::Number((vtag * 10) as f64); let n = tab.len() as u64 + 1; let t = *tab.entry(print_any(&v)).or_insert(n);
                       ar.insert(txn, p, v); sc.push(format!("a.insert({p},#{t:x})")); mc.push(format!("i{}.{:x}", p, t)); }
            4..=5 => { if len > 0 { let p = r.below(len as u64) as u32; ar.remove(txn, p); sc.push(format!("a.remove({p})")); mc.push(format!("d{}", p)); } }
            6..=8 => { let k = *r.pick(&FKEYS); vtag += 1; let v = yrs::Any::Number((vtag * 10 + 1) as f64); let n = tab.len() as u64 + 1; let t = *tab.entry(print_any(&v)).or_insert(n);
                       m.insert(txn, k, v); sc.push(format!("m.insert({k},#{t:x})")); mc.push(format!("s{:x}.{:x}", key_tok(k), t)); }
            _ => { let k = *r.pick(&FKEYS); m.remove(txn, k); sc.push(format!("m.remove({k})")); mc.push(format!("r{:x}", key_tok(k))); }
        }
    };
    for step in 0..r.range(6, 40) {
        let choice = r.below(100);
        let resp;
        let impl_changed: Option<bool>;
        if choice < 45 {
            clock.fetch_add(1000, Ordering::SeqCst);
            let mut sc = vec![]; let mut txns: Vec<String> = vec![];
            for _ in 0..r.range(1, 3) {
                let mut mc = vec![];
                { let mut txn = if explicit { a.doc.transact_mut_with("me") } else { a.doc.transact_mut() }; for _ in 0..r.range(1, 3) { call(&mut txn, &mut r, &mut tab, &mut sc, &mut mc); } }
                clock.fetch_add(1, Ordering::SeqCst); sc.push("|".into());
                txns.push(if mc.is_empty() { "_".into() } else { mc.join(",") });
            }
            script.push(format!("step {{{}}}", sc.join("; ")));
            resp = model.ask(&format!("U step {} {}", name, txns.join("|"))); impl_changed = None;
        } else if choice < 55 {
            let mut sc = vec![]; let mut mc = vec![];
            { let mut txn = a.doc.transact_mut_with("other"); for _ in 0..r.range(1, 2) { call(&mut txn, &mut r, &mut tab, &mut sc, &mut mc); } }
            script.push(format!("other-origin txn {{{}}}", sc.join("; ")));
            resp = model.ask(&format!("U other {} {}", name, if mc.is_empty() { "_".into() } else { mc.join(",") })); impl_changed = None;
        } else if choice < 82 {
            let did = mgr.undo_blocking(); n_undo += 1; script.push(format!("undo -> {}", did));
            resp = model.ask(&format!("U undo {}", name)); impl_changed = Some(did);
        } else {
            let did = mgr.redo_blocking(); script.push(format!("redo -> {}", did));
            resp = model.ask(&format!("U redo {}", name)); impl_changed = Some(did);
        }
        let mut want = format!("ok {} | u={} r={}", flat_content(&a.doc, &mut tab), mgr.undo_stack().len(), mgr.redo_stack().len());
        if let Some(c) = impl_changed { want.push_str(&format!(" | changed={}", c as u8)); }
        rep.add("model_steps_compared", 1);
        if std::env::var("YV_DEBUG").is_ok() { eprintln!("{} => {}\n   store {}", script.last().unwrap(), want, internal_dump(&store_dump(&a.doc))); }
        if resp != want {
            rep.disagree(json!({"property": "C12", "class": "flat-undo-model-differs", "after": script.last().unwrap(), "step": step, "implementation": want, "model": resp, "script": script, "case": {"stream": 123, "index": index, "seed": seed}}));
            break;
        }
    }
    rep.evaluations += 1;
    if n_undo > 0 { rep.nontrivial_case(&format!("c12flat:{}", index)); }
}

/// Fixed inputs found by the Coq transcription of ItemPtr::redo for nested scopes (Crdt/Redo.v) and replayed against the code.
fn fixed_nested_cases(rep: &mut Report) {
    use yrs::{Array, ArrayPrelim, Map, MapPrelim, Transact};
    let mk = || { let d = mk_doc(1, DocCfg::default()); let m = d.get_or_insert_map("m");
        let mut mgr: yrs::undo::UndoManager<()> = yrs::undo::UndoManager::with_options(yrs::undo::Options { capture_timeout_millis: 1_000_000_000, ..yrs::undo::Options::default() });
        mgr.expand_scope(&d, &m); mgr.include_origin("me"); (d, m, mgr) };
    let show = |d: &yrs::Doc| public_dump(d);
    rep.count("c12_fixed_nested_inputs");
    // (B) an array below a map key; an element is deleted and re-created by undo, its copy is squashed behind its left neighbour; the
    // key is overwritten (which deletes the array) and that is undone: every element has to be back
    {
        let (d, m, mut mgr) = mk();
        let arr = { let mut t = d.transact_mut_with("me"); let a = m.insert(&mut t, "k1", ArrayPrelim::default()); a.insert(&mut t, 0, 38); a }; mgr.reset();
        { let mut t = d.transact_mut_with("me"); arr.insert(&mut t, 1, MapPrelim::default()); arr.insert(&mut t, 2, 50); } mgr.reset();
        { let mut t = d.transact_mut_with("me"); arr.insert(&mut t, 2, 52); } mgr.reset();
        { let mut t = d.transact_mut_with("me"); arr.remove(&mut t, 3); } mgr.reset();
        mgr.undo_blocking();
        let before = show(&d);
        { let mut t = d.transact_mut_with("me"); m.insert(&mut t, "k1", 64); } mgr.reset();
        mgr.undo_blocking();
        let after = show(&d);
        if after != before { rep.fail(json!({"property": "C12", "class": "undo-does-not-restore-the-content-before-the-step", "input": "fixed: an element re-created by undo and squashed behind its neighbour, then the container deleted and that undone", "expected": before, "got": after, "case": {"stream": 124, "index": 0}})); }
    }
    // (C) found by the thorough tier (seed 7, 1 of 124 000 histories) and minimised: a nested text; one of its characters is deleted
    // and re-created by undo (the copy stands left of the tombstone); an embed is inserted between the copy and the tombstone and a
    // character behind the tombstone; the key is overwritten (which deletes the text with its children) and that is undone: the
    // children have to come back in the order they had
    {
        use yrs::{GetString, Text, TextPrelim};
        let (d, m, mut mgr) = mk();
        let k1 = { let mut t = d.transact_mut_with("me"); m.insert(&mut t, "k1", TextPrelim::new("ab")) }; mgr.reset();
        { let mut t = d.transact_mut_with("me"); k1.remove_range(&mut t, 1, 1); } mgr.reset();
        mgr.undo_blocking();
        { let mut t = d.transact_mut_with("me"); k1.insert_embed(&mut t, 2, 7); k1.push(&mut t, "d"); } mgr.reset();
        let before = show(&d);
        { let mut t = d.transact_mut_with("me"); m.insert(&mut t, "k1", 1); } mgr.reset();
        mgr.undo_blocking();
        let after = show(&d);
        if after != before { rep.fail(json!({"property": "C12", "class": "undo-does-not-restore-the-content-before-the-step", "input": "fixed: a nested text with an element between a copy and the tombstone it re-creates, the key overwritten and that undone", "expected": before, "got": after, "case": {"stream": 124, "index": 2}})); }
    }
    // (A) a map below a map key is deleted and re-created by undo; another origin then writes a key of the re-created map; a further
    // undo of the tracked origin (which would restore an older value of that key) must not erase what the other origin wrote
    {
        let (d, m, mut mgr) = mk();
        let c = { let mut t = d.transact_mut_with("me"); m.insert(&mut t, "k0", MapPrelim::default()) }; mgr.reset();
        { let mut t = d.transact_mut_with("me"); c.insert(&mut t, "k1", 11); } mgr.reset();
        { let mut t = d.transact_mut_with("me"); c.remove(&mut t, "k1"); } mgr.reset();
        { let mut t = d.transact_mut_with("me"); m.remove(&mut t, "k0"); } mgr.reset();
        mgr.undo_blocking();
        { let mut t = d.transact_mut_with("someone else"); if let Some(yrs::Out::YMap(c2)) = m.get(&t, "k0") { c2.insert(&mut t, "k1", 99); } }
        let before = show(&d);
        mgr.undo_blocking();
        let after = show(&d);
        if std::env::var("YV_DEBUG").is_ok() { eprintln!("fixed A: before {} after {}", before, after); }
        if before.contains("i63") && !after.contains("i63") { rep.fail(json!({"property": "C12", "class": "undo-erases-an-entry-written-by-another-origin", "input": "fixed: map re-created by undo, foreign write into it, tracked undo of an older removal of the same key", "before": before, "after": after, "case": {"stream": 124, "index": 1}})); }
    }
    // (D) one step overwrites an entry of a nested map and then removes the nested map; undo re-creates the map and the OLD entry: it
    // has to be back here and on a replica that receives the whole state (a copy linked to an entry of the old, deleted map is filed
    // under that map by every other replica) - the same below an array element
    for combo in 0..(2 * 3 * 7 * 2) as u32 {
        let below_array = combo % 2 == 1; let pre = (combo / 2) % 3 + 1; let edits = (combo / 6) % 7 + 1; let overwrite_holder = (combo / 42) % 2 == 1;
        let (d, m, mut mgr) = mk();
        let inner = { let mut t = d.transact_mut_with("me");
            if below_array { let a = m.insert(&mut t, "k0", ArrayPrelim::default()); a.insert(&mut t, 0, 7); a.insert(&mut t, 1, MapPrelim::default()) } else { m.insert(&mut t, "k1", MapPrelim::default()) } };
        { let mut t = d.transact_mut_with("me"); inner.insert(&mut t, "k2", 1); if pre >= 2 { inner.insert(&mut t, "k3", 5); } if pre >= 3 { inner.insert(&mut t, "k2", 9); } } mgr.reset();
        let before = show(&d);
        if edits & 1 != 0 { let mut t = d.transact_mut_with("me"); inner.insert(&mut t, "k2", 2); }
        if edits & 2 != 0 { let mut t = d.transact_mut_with("me"); inner.remove(&mut t, "k3"); }
        if edits & 4 != 0 { let mut t = d.transact_mut_with("me"); inner.insert(&mut t, "k4", 3); }
        { let mut t = d.transact_mut_with("me"); let key = if below_array { "k0" } else { "k1" }; if overwrite_holder { m.insert(&mut t, key, 64); } else { m.remove(&mut t, key); } } mgr.reset();
        let removed = show(&d);
        let on_replica = |d: &yrs::Doc| { let d2 = mk_doc(2, DocCfg::default());
            { use yrs::ReadTxn; let u = d.transact().encode_state_as_update_v1(&yrs::StateVector::default()); if let Ok(u) = Update::decode_v1(&u) { let _ = d2.transact_mut().apply_update(u); } } show(&d2) };
        mgr.undo_blocking();
        let after = show(&d); let remote = on_replica(&d);
        mgr.redo_blocking();
        let again = show(&d); let remote2 = on_replica(&d);
        rep.count("c12_fixed_nested_inputs");
        let input = format!("fixed family D: a nested map{} with {} writes; one step edits it (mask {}: overwrite k2 / remove k3 / add k4) and {} its holder; undo, redo", if below_array { " below an array" } else { "" }, pre, edits, if overwrite_holder { "overwrites" } else { "removes" });
        if after != before { rep.fail(json!({"property": "C12", "class": "undo-does-not-restore-the-content-before-the-step", "input": input, "before": before, "after": after})); }
        else if remote != after { rep.fail(json!({"property": "C12", "class": "replicas-diverge-after-undo-redo", "input": input, "a": after, "b": remote})); }
        else if again != removed { rep.fail(json!({"property": "C12", "class": "redo-does-not-restore-the-content-after-the-step", "input": input, "before": removed, "after": again})); }
        else if remote2 != again { rep.fail(json!({"property": "C12", "class": "replicas-diverge-after-undo-redo", "input": input, "a": again, "b": remote2})); }
    }
}

pub fn cases(tier: &str) -> u64 { if tier == "thorough" { 40000 } else { 15000 } }
pub fn run_range(_tier: &str, seed: u64, lo: u64, hi: u64) -> Report {
    let trace = std::env::var("YV_TRACE").is_ok();
    let mut rep = Report::default();
    let mut model = crate::model::Model::spawn();
    // nested scopes against the Coq transcription of nested redo (Crdt/Redo.v): one history per 10 case indexes
    for ci in lo..hi { if ci % 10 != 0 { continue; }
        match catch(std::panic::AssertUnwindSafe(|| { let mut r2 = Report::default(); crate::rdo::case(seed, ci / 10, &mut model, &mut r2); r2 })) {
            Ok(r2) => rep.merge(r2),
            Err(e) => { rep.evaluations += 1; model = crate::model::Model::spawn(); rep.fail(json!({"property": "C12", "class": "panic", "error": e, "case": {"stream": 125, "index": ci / 10, "seed": seed}})); }
        }
    }
    if lo == 0 { if let Err(e) = catch(std::panic::AssertUnwindSafe(|| fixed_nested_cases(&mut rep))) { rep.fail(json!({"property": "C12", "class": "panic", "error": e, "case": {"stream": 124, "index": 0}})); } }
    for ci in lo..hi {
        if let Ok(o) = std::env::var("YV_ONLY") { if o.parse::<u64>().ok() != Some(ci) { continue; } }
        if std::env::var("YV_MODE").map(|m| m == "flat").unwrap_or(true) {
            match catch(std::panic::AssertUnwindSafe(|| { let mut r2 = Report::default(); run_flat_case(seed, ci, &mut r2, &mut model); r2 })) {
                Ok(r2) => rep.merge(r2),
                Err(e) => { rep.evaluations += 1; model = crate::model::Model::spawn(); rep.fail(json!({"property": "C12", "class": "panic", "error": e, "case": {"stream": 123, "index": ci, "seed": seed}})); }
            }
        }
        for interference in [false, true] {
            if trace { eprintln!("case {} {}", ci, interference); }
            if let Ok(o) = std::env::var("YV_MODE") { if (o == "interference") != interference { continue; } }
            match catch(std::panic::AssertUnwindSafe(|| { let mut r2 = Report::default(); run_case(seed, ci, interference, &mut r2); r2 })) {
                Ok(r2) => rep.merge(r2),
                Err(e) => { rep.evaluations += 1; rep.fail(json!({"property": "C12", "class": "panic", "error": e, "case": {"stream": if interference { 122 } else { 121 }, "index": ci, "seed": seed}})); }
            }
        }
    }
    rep
}
pub fn run(tier: &str, seed: u64, workers: usize) -> Report {
    // the undo manager works through raw pointers: every chunk of cases runs in its own process
    let mut total = if std::env::var("YV_ONLY").is_ok() { run_range(tier, seed, 0, cases(tier)) } else { crate::report::isolated("C12", tier, seed, cases(tier), 250, workers) };
    total.notes.push("replica A with an UndoManager over a random non-empty subset of the four roots (nested types included), controlled clock so every 'step' of 1..3 transactions is one capture group, tracked origin either none or explicit; replica B as remote peer; 8..30 actions: tracked steps over all types, other-origin local transactions, remote edits and deliveries, undo, redo. inverse mode: other origins edit only roots outside the scope; the harness mirrors both stacks with the scoped content after each captured step and requires every undo / redo call to land exactly on the mirrored content, passing over only steps that changed nothing visible. interference mode: other origins edit scoped roots too; checks: undo / redo never changes a root outside the scope, deletes only tracked contributions (or descendants of a container it deletes), leaves other origins' insertions visible unless a container above them went away, and A and B converge after exchanging all updates".into());
    total
}
