//! Multi-replica histories x delivery schedules, with the model consulted after every step.
//! Serves C01 (convergence), C02 (causal-gap buffer), C04 (exactly once / stable order), C05 (map LWW).
use crate::model::{hex, Model};
use crate::report::{catch, Report};
use crate::rng::Rng;
use crate::sim::*;
use serde_json::json;
use std::collections::{BTreeMap, BTreeSet, HashMap};
use yrs::{ReadTxn, Transact};

pub const CLIENT_IDS: [u64; 6] = [1, 2, 3, 77, (1u64 << 32) + 5, (1u64 << 53) - 1];

#[derive(Clone)]
pub struct Msg { pub from: usize, pub v1: Vec<u8>, pub v2: Vec<u8> }

#[derive(Clone, Copy, PartialEq, Debug)]
pub enum Focus { General, TextOnly, MapOnly, ArrayOnly, Typing }

pub struct HistCfg { pub focus: Focus, pub max_steps: u64, pub max_replicas: u64, pub exhaustive_perms: bool, pub model: bool }

pub struct CaseOut {
    pub script: Vec<String>,
    pub failures: Vec<serde_json::Value>,      // property oracle failed on the implementation
    pub disagreements: Vec<serde_json::Value>, // model vs implementation
    pub stats: BTreeMap<String, u64>,
    pub nontrivial: bool,
}

fn strip_w(s: &str) -> &str { match s.find(" |W ") { Some(i) => &s[..i], None => s } }
fn w_part(s: &str) -> &str {
    let t = match s.find(" |W ") { Some(i) => &s[i + 4..], None => "" };
    match t.find(" |P") { Some(i) => t[..i].trim(), None => t.trim() }
}
fn p_part(s: &str) -> &str { match s.find(" |P") { Some(i) => s[i + 3..].trim(), None => "" } }

struct World<'a> {
    reps: Vec<Replica>,
    md: Option<&'a mut Model>,
    out: CaseOut,
    step: u64,
    /// (replica, element id) -> first position info, for C04 order checks: per replica, per list, last seen order of visible ids
    seen_pairs: HashMap<(String, String, String), bool>,
    /// per replica: the last reply of the runner's ITG model
    itg: Vec<String>,
}

impl<'a> World<'a> {
    fn model_apply(&mut self, r: usize, v1: &[u8]) { self.model_apply_units(r, v1); self.model_apply_itg(r, v1); }
    /// the unit-level model: only the SET of delivered operations matters to it
    fn model_apply_units(&mut self, r: usize, v1: &[u8]) {
        if let Some(md) = self.md.as_mut() {
            let ans = md.ask(&format!("D apply r{} {}", r, hex(v1)));
            if !ans.starts_with("ok") {
                self.out.disagreements.push(json!({"kind": "model-decode", "step": self.step, "replica": r, "model": ans, "update": hex(v1)}));
            }
        }
    }
    /// the transcription of apply_update / Update::integrate / BlockPicker (Crdt/Integrate.v): what it integrates and what it sets
    /// aside depends on how the blocks are batched, so it is fed exactly the update the implementation was given (in v1 form)
    fn model_apply_itg(&mut self, r: usize, v1: &[u8]) {
        if let Some(md) = self.md.as_mut() {
            let a2 = md.ask(&format!("ITG apply r{} {}", r, hex(v1)));
            while self.itg.len() <= r { self.itg.push(String::new()); }
            self.itg[r] = a2;
        }
    }
    /// integrated ranges, holes, pending flag and missing vector of a replica in the format of the runner's ITG reply
    fn itg_string(vs: &yrs::verif::VStore) -> String {
        let fmt = |skip: bool| -> String {
            let mut cs: Vec<(usize, String, String)> = vec![];
            for (c, bs) in &vs.blocks {
                let mut runs: Vec<(u32, u32)> = vec![];
                for b in bs { let (k, l, is_skip) = match b { yrs::verif::VBlock::Item(it) => (it.id.clock, it.len, false), yrs::verif::VBlock::GC(id, l) => (id.clock, *l, false), yrs::verif::VBlock::Skip(id, l) => (id.clock, *l, true) };
                    if is_skip != skip { continue; }
                    match runs.last_mut() { Some(last) if last.1 == k => last.1 = k + l, _ => runs.push((k, k + l)) } }
                if !runs.is_empty() { let h = format!("{:x}", c); cs.push((h.len(), h.clone(), format!("{}={}", h, runs.iter().map(|(a, b)| format!("{:x}-{:x}", a, b)).collect::<Vec<_>>().join(",")))); }
            }
            cs.sort(); if cs.is_empty() { "_".into() } else { cs.into_iter().map(|x| x.2).collect::<Vec<_>>().join(";") }
        };
        let mut ms: Vec<(usize, String, String)> = vs.pending_missing.iter().map(|(c, k)| { let h = format!("{:x}", c); (h.len(), h, format!("{:x}", k)) }).collect(); ms.sort();
        format!("ok ranges={} holes={} pending={} missing={}", fmt(false), fmt(true), if vs.has_pending { "1" } else { "0" }, if ms.is_empty() { "_".into() } else { ms.iter().map(|(_, c, k)| format!("{}:{}", c, k)).collect::<Vec<_>>().join(",") })
    }

    /// compare replica r with the model after a step; record C02 / C04 observations
    fn check_state(&mut self, r: usize, what: &str) {
        let vs = store_dump(&self.reps[r].doc);
        let imp = internal_dump(&vs);
        let ids = integrated_ids(&vs);
        let pending = { let t = self.reps[r].doc.transact(); t.has_missing_updates() };
        *self.out.stats.entry("states_compared".into()).or_insert(0) += 1;
        if vs.blocks.iter().any(|(_, b)| b.iter().any(|x| matches!(x, yrs::verif::VBlock::Skip(..)))) { *self.out.stats.entry("states_with_skip".into()).or_insert(0) += 1; }
        if pending { *self.out.stats.entry("states_pending".into()).or_insert(0) += 1; }
        // what is integrated, where the holes are, whether something is set aside and what for: exactly what the transcription says
        if self.md.is_some() && r < self.itg.len() && !self.itg[r].is_empty() {
            let want = World::itg_string(&vs);
            let got = self.itg[r].clone();
            *self.out.stats.entry("stores_compared_with_the_transcription_of_apply_update".into()).or_insert(0) += 1;
            if !got.starts_with(&want) || !got.ends_with("wf=1") {
                self.out.disagreements.push(json!({"kind": "apply_update transcription (integrated ranges / holes / pending / missing)", "step": self.step, "after": what, "replica": r, "impl": want, "model": got}));
            }
        }
        if let Some(md) = self.md.as_mut() {
            let m1 = md.ask(&format!("D stateof r{} {}", r, ids));
            let m1n = if let Some(x) = m1.strip_prefix("ok ") { normalize_model_dump(x) } else { m1.clone() };
            if strip_w(&m1n) != strip_w(&imp) || !w_part(&m1n).is_empty() {
                self.out.disagreements.push(json!({"kind": "render-of-integrated-set", "step": self.step, "after": what, "replica": r,
                    "impl": strip_w(&imp), "model": m1n, "integrated": ids}));
            }
            let m2 = md.ask(&format!("D state r{}", r));
            let m2n = if let Some(x) = m2.strip_prefix("ok ") { normalize_model_dump(x) } else { m2.clone() };
            let model_stash_empty = w_part(&m2n).is_empty() && p_part(&m2n).is_empty();
            if model_stash_empty {
                if pending {
                    self.out.failures.push(json!({"property": "C02", "class": "stash-stuck", "step": self.step, "after": what, "replica": r,
                        "what": "every dependency of every delivered block is present (model stash empty) but the replica still reports missing updates",
                        "impl_integrated": ids, "sv": sv_string(&self.reps[r].doc), "pending_missing": format!("{:?}", vs.pending_missing)}));
                } else if strip_w(&m2n) != strip_w(&imp) {
                    self.out.disagreements.push(json!({"kind": "state-after-closure", "step": self.step, "after": what, "replica": r, "impl": strip_w(&imp), "model": strip_w(&m2n)}));
                }
            } else if !pending {
                self.out.failures.push(json!({"property": "C02", "class": "missing-not-reported", "step": self.step, "after": what, "replica": r,
                    "what": "a delivered block still lacks a dependency (model stash non-empty) but has_missing_updates() is false",
                    "model_stash": w_part(&m2n), "model_pending_deletes": p_part(&m2n)}));
            }
        }
        // C04: exactly once + stable relative order of visible units inside each list of this replica
        for b in &vs.branches {
            let key = match &b.id { yrs::verif::VParent::Root(n) => format!("R{n}"), yrs::verif::VParent::Nested(id) => format!("N{}", print_id(id)), _ => "?".into() };
            let mut vis: Vec<String> = vec![];
            let mut all: BTreeSet<String> = BTreeSet::new();
            for it in &b.seq { for j in 0..it.len {
                let id = format!("{:x}:{:x}", it.id.client.get(), it.id.clock + j);
                if !all.insert(id.clone()) {
                    self.out.failures.push(json!({"property": "C04", "class": "duplicate-element", "step": self.step, "replica": r, "list": key, "id": id}));
                }
                if !it.deleted { vis.push(id); }
            } }
            // pairwise order must agree with every earlier observation on any replica
            for i in 0..vis.len() { for j in (i + 1)..vis.len() {
                let k1 = (key.clone(), vis[i].clone(), vis[j].clone());
                let k2 = (key.clone(), vis[j].clone(), vis[i].clone());
                if self.seen_pairs.contains_key(&k2) {
                    self.out.failures.push(json!({"property": "C04", "class": "order-flip", "step": self.step, "replica": r, "list": key, "a": vis[i], "b": vis[j]}));
                }
                self.seen_pairs.insert(k1, true);
            } }
        }
    }
}

fn perms(n: usize) -> Vec<Vec<usize>> {
    if n == 0 { return vec![vec![]]; }
    let mut out = vec![];
    for p in perms(n - 1) { for i in 0..=p.len() { let mut q = p.clone(); q.insert(i, n - 1); out.push(q); } }
    out
}

pub fn edit_cfg(f: Focus) -> EditCfg {
    match f {
        Focus::General => EditCfg::default(),
        Focus::TextOnly => EditCfg { text: true, array: false, map: false, xml: false, nested: false, formatting: false, deletes: true },
        Focus::MapOnly => EditCfg { text: false, array: false, map: true, xml: false, nested: true, formatting: false, deletes: true },
        Focus::ArrayOnly => EditCfg { text: false, array: true, map: false, xml: false, nested: true, formatting: false, deletes: true },
        Focus::Typing => EditCfg { text: true, array: true, map: false, xml: false, nested: false, formatting: false, deletes: true },
    }
}

/// One history + schedules. Deterministic in (seed, stream, index).
pub fn run_case(seed: u64, stream: u64, index: u64, cfg: &HistCfg, md: Option<&mut Model>) -> CaseOut {
    let mut r = Rng::for_case(seed, stream, index);
    let nrep = r.range(2, cfg.max_replicas) as usize;
    let mut ids: Vec<u64> = CLIENT_IDS.to_vec();
    r.shuffle(&mut ids);
    // half of the histories count text offsets in bytes (the default of a Doc), half in UTF-16 units
    let bytes = r.chance(1, 2);
    let reps: Vec<Replica> = (0..nrep).map(|i| Replica::new(ids[i], DocCfg { bytes_offsets: bytes, ..DocCfg::default() })).collect();
    let mut w = World { reps, md, out: CaseOut { script: vec![], failures: vec![], disagreements: vec![], stats: BTreeMap::new(), nontrivial: false }, step: 0, seen_pairs: HashMap::new(), itg: vec![] };
    if let Some(md) = w.md.as_mut() { for i in 0..nrep + 1 { md.ask(&format!("D new r{}", i)); md.ask(&format!("ITG new r{}", i)); } }
    let ecfg = edit_cfg(cfg.focus);
    let mut msgs: Vec<Msg> = vec![];
    let mut delivered: Vec<BTreeSet<usize>> = vec![BTreeSet::new(); nrep];
    let mut tag = 0u64;
    let mut cursors: Vec<(u32, u32)> = vec![(0, 0); nrep];
    let steps = r.range(3, cfg.max_steps);
    let mut concurrent = false;
    // ---- history phase: local transactions interleaved with deliveries
    for _ in 0..steps {
        w.step += 1;
        let i = r.below(nrep as u64) as usize;
        let undelivered: Vec<usize> = (0..msgs.len()).filter(|m| !delivered[i].contains(m)).collect();
        if r.chance(3, 5) || undelivered.is_empty() {
            let mut sc = vec![];
            let (u1, u2) = if matches!(cfg.focus, Focus::Typing) { typing_txn(&w.reps[i], &mut r, &mut cursors[i], &mut sc, &mut tag) } else { local_txn(&w.reps[i], &mut r, &ecfg, bytes, 3, &mut sc, &mut tag) };
            w.out.script.push(format!("r{} txn {{{}}}", i, sc.join("; ")));
            for e in sc.iter().filter(|e| e.starts_with("!!PLACEMENT")) { w.out.failures.push(json!({"property": "C04", "class": "not-placed-where-inserted", "step": w.step, "replica": i, "what": e})); }
            if u1.len() > 1 || u1.len() != u2.len() {
                w.out.failures.push(json!({"property": "C07", "class": "event-count", "step": w.step, "v1_events": u1.len(), "v2_events": u2.len()}));
            }
            if let (Some(a), Some(b)) = (u1.into_iter().next(), u2.into_iter().next()) {
                if !undelivered.is_empty() { concurrent = true; }
                w.model_apply(i, &a);
                msgs.push(Msg { from: i, v1: a, v2: b });
                delivered[i].insert(msgs.len() - 1);
            }
            w.check_state(i, "local txn");
        } else {
            let m = *r.pick(&undelivered);
            let v2 = r.chance(1, 3);
            w.out.script.push(format!("r{} <- msg{} ({})", i, m, if v2 { "v2" } else { "v1" }));
            let res = if v2 { w.reps[i].apply_v2(&msgs[m].v2) } else { w.reps[i].apply_v1(&msgs[m].v1) };
            if let Err(e) = res { w.out.failures.push(json!({"property": "C09", "class": "emitted-update-rejected", "step": w.step, "error": e, "v2": v2, "update": hex(if v2 { &msgs[m].v2 } else { &msgs[m].v1 })})); }
            w.reps[i].drain1(); w.reps[i].drain2();
            delivered[i].insert(m);
            let bytes = msgs[m].v1.clone();
            w.model_apply(i, &bytes);
            w.check_state(i, "delivery");
        }
    }
    w.out.nontrivial = concurrent && msgs.len() >= 2;
    *w.out.stats.entry("messages".into()).or_insert(0) += msgs.len() as u64;
    // ---- schedule phase: every replica receives what it lacks, in an adversarial order
    for i in 0..nrep {
        let mut rest: Vec<usize> = (0..msgs.len()).filter(|m| !delivered[i].contains(m)).collect();
        let kind = r.below(5);
        match kind { 0 => {} 1 => rest.reverse(), _ => r.shuffle(&mut rest) }
        if !rest.windows(2).all(|p| p[0] < p[1]) { *w.out.stats.entry("non_fifo_schedules".into()).or_insert(0) += 1; }
        let mut k = 0;
        while k < rest.len() {
            w.step += 1;
            let m = rest[k];
            if delivered[i].contains(&m) { k += 1; continue; }   // arrived through a state relay in the meantime
            let v2 = r.chance(1, 3);
            let dup = r.chance(1, 8);
            // occasionally another replica relays its whole state (what it integrated, what it has stashed and its stashed
            // delete set) as one update: full, or as the difference to the receiver's state vector, v1 or v2
            if nrep > 1 && r.chance(1, 5) {
                // prefer a relay that is itself waiting for something: its stash and stashed delete set travel with its state
                let waiting: Vec<usize> = (0..nrep).filter(|&j| j != i && { let t = w.reps[j].doc.transact(); t.has_missing_updates() }).collect();
                let j = if !waiting.is_empty() && r.chance(3, 4) { *r.pick(&waiting) } else { let mut j = r.below(nrep as u64 - 1) as usize; if j >= i { j += 1; } j };
                let full = r.chance(1, 2);
                let sv = if full { yrs::StateVector::default() } else { w.reps[i].doc.transact().state_vector() };
                let bytes = { let t = w.reps[j].doc.transact(); if v2 { t.encode_state_as_update_v2(&sv) } else { t.encode_state_as_update_v1(&sv) } };
                w.out.script.push(format!("r{} <- state of r{} ({}, {})", i, j, if full { "full" } else { "diff" }, if v2 { "v2" } else { "v1" }));
                let res = if v2 { w.reps[i].apply_v2(&bytes) } else { w.reps[i].apply_v1(&bytes) };
                if let Err(e) = res { w.out.failures.push(json!({"property": "C09", "class": "emitted-update-rejected", "step": w.step, "error": e, "v2": v2, "what": "state relay"})); }
                w.reps[i].drain1(); w.reps[i].drain2();
                let gained: Vec<usize> = delivered[j].iter().filter(|x| !delivered[i].contains(x)).cloned().collect();
                for g in gained { let b = msgs[g].v1.clone(); w.model_apply_units(i, &b); delivered[i].insert(g); }
                { use yrs::updates::decoder::Decode; use yrs::updates::encoder::Encode; let as_v1 = if v2 { yrs::Update::decode_v2(&bytes).map(|u| u.encode_v1()).unwrap_or_default() } else { bytes.clone() }; w.model_apply_itg(i, &as_v1); }
                // the relayed state also carries deletions that are in no message: entries the relay overwrote when IT integrated a
                // concurrent map entry. They reach the receiver with the relay's delete set even when the overwriting entry itself
                // ends up in the receiver's stash, so the model gets the delete set of the relayed update as well
                {
                    use yrs::updates::decoder::Decode;
                    let upd = if v2 { yrs::Update::decode_v2(&bytes) } else { yrs::Update::decode_v1(&bytes) };
                    if let Ok(u) = upd { use yrs::updates::encoder::{Encode, Encoder, EncoderV1}; use yrs::encoding::write::Write; let mut enc = EncoderV1::new(); enc.write_var(0u32); u.delete_set().encode(&mut enc); let ds_only = enc.to_vec(); w.model_apply_units(i, &ds_only); }
                }
                w.check_state(i, "state relay");
                *w.out.stats.entry("state_relays".into()).or_insert(0) += 1;
                continue;
            }
            // occasionally relay two messages as one merged update
            if k + 1 < rest.len() && r.chance(1, 6) {
                let m2 = rest[k + 1];
                let merged = catch(|| yrs::merge_updates_v1(&[msgs[m].v1.as_slice(), msgs[m2].v1.as_slice()]));
                match merged {
                    Ok(Ok(bytes)) => {
                        w.out.script.push(format!("r{} <- merge(msg{},msg{})", i, m, m2));
                        if let Err(e) = w.reps[i].apply_v1(&bytes) { w.out.failures.push(json!({"property": "C08", "class": "merged-update-rejected", "error": e})); }
                        let (a, b) = (msgs[m].v1.clone(), msgs[m2].v1.clone());
                        w.model_apply_units(i, &a); w.model_apply_units(i, &b); w.model_apply_itg(i, &bytes);
                        delivered[i].insert(m); delivered[i].insert(m2);
                        w.reps[i].drain1(); w.reps[i].drain2();
                        w.check_state(i, "merged delivery");
                        *w.out.stats.entry("merged_deliveries".into()).or_insert(0) += 1;
                        k += 2; continue;
                    }
                    Ok(Err(e)) => w.out.failures.push(json!({"property": "C08", "class": "merge-error", "error": format!("{e}")})),
                    Err(p) => w.out.failures.push(json!({"property": "C08", "class": "merge-panic", "error": p})),
                }
            }
            w.out.script.push(format!("r{} <- msg{} ({}){}", i, m, if v2 { "v2" } else { "v1" }, if dup { " twice" } else { "" }));
            for _ in 0..(if dup { 2 } else { 1 }) {
                let res = if v2 { w.reps[i].apply_v2(&msgs[m].v2) } else { w.reps[i].apply_v1(&msgs[m].v1) };
                if let Err(e) = res { w.out.failures.push(json!({"property": "C09", "class": "emitted-update-rejected", "step": w.step, "error": e, "v2": v2})); }
            }
            w.reps[i].drain1(); w.reps[i].drain2();
            let bytes = msgs[m].v1.clone();
            w.model_apply(i, &bytes);
            if dup { w.model_apply_itg(i, &bytes); }
            delivered[i].insert(m);
            w.check_state(i, "late delivery");
            k += 1;
        }
    }
    // ---- quiescence: every replica has every message
    let pubs: Vec<String> = w.reps.iter().map(|x| public_dump(&x.doc)).collect();
    let ints: Vec<String> = w.reps.iter().map(|x| internal_dump(&store_dump(&x.doc))).collect();
    let any_pending = w.reps.iter().any(|x| x.doc.transact().has_missing_updates());
    for i in 0..nrep {
        let pend = w.reps[i].doc.transact().has_missing_updates();
        if pend {
            w.out.failures.push(json!({"property": "C02", "class": "stash-stuck", "step": "quiescence", "replica": i,
                "what": "all updates delivered but the replica still reports missing updates", "sv": sv_string(&w.reps[i].doc)}));
        }
        if i > 0 && pubs[i] != pubs[0] {
            w.out.failures.push(json!({"property": "C01", "class": if any_pending { "diverged-while-stuck" } else { "diverged" },
                "replica": i, "content_0": pubs[0], "content_i": pubs[i]}));
        } else if i > 0 && ints[i] != ints[0] {
            w.out.failures.push(json!({"property": "C01", "class": if any_pending { "diverged-while-stuck" } else { "tombstone-order-diverged" }, "replica": i, "internal_0": ints[0], "internal_i": ints[i]}));
        }
    }
    // ---- block layer: whatever splits and squashes a replica's store went through, the unit-level view of its full state (ids,
    // origins, right origins, parents where transmitted, contents) is the unit-level view of the updates as they were first emitted
    if w.md.is_some() && !msgs.is_empty() {
        for i in 0..nrep {
            if w.reps[i].doc.transact().has_missing_updates() { continue; }
            let full = w.reps[i].doc.transact().encode_state_as_update_v1(&yrs::StateVector::default());
            let req = format!("DEC unitcmp {} {}", hex(&full), msgs.iter().map(|m| hex(&m.v1)).collect::<Vec<_>>().join(" "));
            let ans = w.md.as_mut().unwrap().ask(&req);
            *w.out.stats.entry("full_states_compared_unit_by_unit_with_the_original_updates".into()).or_insert(0) += 1;
            if !ans.starts_with("ok ") {
                w.out.failures.push(json!({"property": "C04", "class": "units-of-the-store-differ-from-the-units-as-emitted", "replica": i, "model": ans, "full_state": hex(&full),
                    "what": "a unit of the replica's full state has another origin / right origin / parent / content than the same unit in the update that created it: a block split or squash changed it"}));
            }
        }
    }
    // ---- exhaustive tier: a fresh replica per permutation of all messages (<= 5 messages)
    if cfg.exhaustive_perms && msgs.len() >= 2 && msgs.len() <= 5 {
        let expect = &pubs[0];
        for p in perms(msgs.len()) {
            let fresh = Replica::new(900, DocCfg::default());
            let mut ok = true;
            for &m in &p { if fresh.apply_v1(&msgs[m].v1).is_err() { ok = false; } }
            *w.out.stats.entry("permutation_runs".into()).or_insert(0) += 1;
            let pend = fresh.doc.transact().has_missing_updates();
            let d = public_dump(&fresh.doc);
            if pend {
                w.out.failures.push(json!({"property": "C02", "class": "stash-stuck", "step": "permutation", "order": p,
                    "what": "all updates delivered (one permutation of the history's messages) but the replica still reports missing updates"}));
            }
            if !ok || d != *expect {
                w.out.failures.push(json!({"property": "C01", "class": if pend { "diverged-while-stuck" } else { "diverged" }, "order": p, "content_expected": expect, "content": d}));
            }
            if !w.out.failures.is_empty() { break; }
        }
    }
    w.out
}

pub fn run_many(rep: &mut Report, seed: u64, stream: u64, cases: u64, wi: usize, nw: usize, cfg: &HistCfg, props: &[&str]) {
    let mut md = if cfg.model { Some(Model::spawn()) } else { None };
    for ci in 0..cases {
        if ci as usize % nw != wi { continue; }
        let res = { let mdr = md.as_mut(); catch(std::panic::AssertUnwindSafe(move || run_case(seed, stream, ci, cfg, mdr))) };
        rep.evaluations += 1;
        let out = match res {
            Ok(o) => o,
            Err(e) => {
                // a panic inside the implementation on valid API use / emitted updates
                for p in props { rep.fail(json!({"property": p, "class": "panic", "error": e, "case": {"stream": stream, "index": ci, "seed": seed}})); }
                if cfg.model { md = Some(Model::spawn()); }
                continue;
            }
        };
        if out.nontrivial { rep.nontrivial_case(&format!("{}:{}", stream, ci)); }
        for (k, v) in &out.stats { rep.add(k, *v); }
        rep.add("script_steps", out.script.len() as u64);
        for f in out.failures {
            let p = f.get("property").and_then(|x| x.as_str()).unwrap_or("");
            if props.contains(&p) {
                let mut f = f.clone();
                f["case"] = json!({"stream": stream, "index": ci, "seed": seed});
                f["script"] = json!(out.script);
                rep.fail(f);
            } else { rep.count(&format!("other_property_failures_{}", p)); }
        }
        for d in out.disagreements {
            let mut d = d.clone();
            d["case"] = json!({"stream": stream, "index": ci, "seed": seed});
            d["script"] = json!(out.script);
            rep.disagree(d);
        }
        if rep.samples.len() < 3 && out.nontrivial { rep.sample(json!({"case": ci, "script": out.script})); }
    }
}
