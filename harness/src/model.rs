//! The extracted Coq model behind a pipe.
use std::io::{BufRead, BufReader, Write};
use std::process::{Child, ChildStdin, ChildStdout, Command, Stdio};

pub struct Model { child: Child, inp: ChildStdin, out: BufReader<ChildStdout>, pub asked: u64 }

impl Model {
    pub fn spawn() -> Model {
        let exe = std::env::var("YV_MODEL_EXE").unwrap_or_else(|_| "/verif/.build/runner/model.exe".to_string());
        let mut child = Command::new(exe).stdin(Stdio::piped()).stdout(Stdio::piped()).spawn().expect("spawn model.exe");
        let inp = child.stdin.take().unwrap();
        let out = BufReader::new(child.stdout.take().unwrap());
        Model { child, inp, out, asked: 0 }
    }
    pub fn ask(&mut self, cmd: &str) -> String {
        self.asked += 1;
        self.inp.write_all(cmd.as_bytes()).unwrap();
        self.inp.write_all(b"\n").unwrap();
        self.inp.flush().unwrap();
        let mut line = String::new();
        self.out.read_line(&mut line).unwrap();
        while line.ends_with('\n') || line.ends_with('\r') { line.pop(); }
        line
    }
}
impl Drop for Model { fn drop(&mut self) { let _ = self.child.kill(); let _ = self.child.wait(); } }

pub fn hex(bytes: &[u8]) -> String {
    if bytes.is_empty() { return "_".to_string(); }
    let mut s = String::with_capacity(bytes.len() * 2);
    for b in bytes { s.push_str(&format!("{:02x}", b)); }
    s
}
pub fn unhex(s: &str) -> Vec<u8> {
    if s == "_" { return vec![]; }
    (0..s.len() / 2).map(|i| u8::from_str_radix(&s[2 * i..2 * i + 2], 16).unwrap()).collect()
}
