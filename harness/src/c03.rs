//! C03 (each shared type behaves like its sequential data structure on one replica) and
//! C17 (all read paths agree): generated single-replica programs run against plain reference
//! structures; after EVERY call every read accessor of every live type is compared with the
//! reference and with the other accessors.
use crate::model::{hex, Model};
use crate::report::{catch, parallel, Report};
use crate::rng::Rng;
use crate::sim::{integrated_ids, internal_dump, mk_doc, print_any, print_id, rand_any, rand_json_any, rawhex, store_dump, DocCfg, Replica, ROOT_ARRAY, ROOT_TEXT, ROOT_XML};
use serde_json::json;
use std::collections::BTreeMap;
use yrs::types::text::YChange;
use yrs::types::{Attrs, ToJson};
use yrs::{
    Any, Array, ArrayPrelim, ArrayRef, GetString, Map, MapPrelim, MapRef, Out, ReadTxn, Text, TextPrelim, TextRef, Transact,
    TransactionMut, WriteTxn, Xml, XmlElementPrelim, XmlElementRef, XmlFragment, XmlFragmentRef, XmlOut, XmlTextPrelim, XmlTextRef,
};

type AttrMap = BTreeMap<String, String>; // key -> printed value (null never stored)

#[derive(Clone, Debug, PartialEq)]
enum Elem { Ch(char, AttrMap), Embed(String, AttrMap) }
#[derive(Clone, Debug, PartialEq)]
enum RVal { Prim(String), Text(Vec<Elem>), Array(Vec<RVal>), Map(BTreeMap<String, RVal>), XElem(String, BTreeMap<String, String>, Vec<RVal>), XText(Vec<Elem>), XFrag(Vec<RVal>) }

const ALPHA: [&str; 10] = ["a", "b", "c", "é", "ß", "中", "😀", "𝄞", " ", "x"];
const KEYS: [&str; 3] = ["k1", "k2", "κ3"];

fn unit(c: char, bytes: bool) -> u32 { if bytes { c.len_utf8() as u32 } else { c.len_utf16() as u32 } }
fn elem_units(e: &Elem, bytes: bool) -> u32 { match e { Elem::Ch(c, _) => unit(*c, bytes), Elem::Embed(..) => 1 } }
/// offset (in the document's unit) of element index i
fn off(v: &[Elem], i: usize, bytes: bool) -> u32 { v[..i].iter().map(|e| elem_units(e, bytes)).sum() }
fn attrs_of(a: &Attrs) -> AttrMap { a.iter().filter(|(_, v)| !matches!(v, Any::Null)).map(|(k, v)| (k.to_string(), print_any(v))).collect() }
fn rand_attr_arg(r: &mut Rng) -> Attrs { let mut a = Attrs::new(); let k = *r.pick(&["b", "i", "c"]); let v = match r.below(4) { 0 => Any::Null, 1 => Any::Bool(true), 2 => Any::String("red".into()), _ => Any::Number(2.0) }; a.insert(k.into(), v); if r.chance(1, 4) { a.insert("u".into(), Any::Bool(true)); } a }
fn rand_chars(r: &mut Rng) -> String { (0..r.range(1, 4)).map(|_| *r.pick(&ALPHA)).collect::<Vec<_>>().join("") }

/// reference semantics of the rich text calls
fn ref_text_op(v: &mut Vec<Elem>, op: &TextOp) {
    match op {
        TextOp::Insert(i, s) => { let inherit = if *i > 0 { match &v[*i - 1] { Elem::Ch(_, a) | Elem::Embed(_, a) => a.clone() } } else { AttrMap::new() }; let new: Vec<Elem> = s.chars().map(|c| Elem::Ch(c, inherit.clone())).collect(); v.splice(*i..*i, new); }
        TextOp::InsertAttr(i, s, a) => { let am = attrs_of(a); let new: Vec<Elem> = s.chars().map(|c| Elem::Ch(c, am.clone())).collect(); v.splice(*i..*i, new); }
        TextOp::Embed(i, e) => { let inherit = if *i > 0 { match &v[*i - 1] { Elem::Ch(_, a) | Elem::Embed(_, a) => a.clone() } } else { AttrMap::new() }; v.insert(*i, Elem::Embed(print_any(e), inherit)); }
        // an embedded shared type (a map) is an element like any other embed
        TextOp::EmbedType(i) => { let inherit = if *i > 0 { match &v[*i - 1] { Elem::Ch(_, a) | Elem::Embed(_, a) => a.clone() } } else { AttrMap::new() }; v.insert(*i, Elem::Embed("YMap".into(), inherit)); }
        TextOp::Remove(i, n) => { v.drain(*i..*i + *n); }
        TextOp::Format(i, n, a) => { for e in v[*i..*i + *n].iter_mut() { let m = match e { Elem::Ch(_, m) | Elem::Embed(_, m) => m }; for (k, val) in a.iter() { if matches!(val, Any::Null) { m.remove(k.as_ref()); } else { m.insert(k.to_string(), print_any(val)); } } } }
    }
}
enum TextOp { Insert(usize, String), InsertAttr(usize, String, Attrs), Embed(usize, Any), EmbedType(usize), Remove(usize, usize), Format(usize, usize, Attrs) }

fn rand_text_op(r: &mut Rng, v: &[Elem], rich: bool) -> TextOp {
    let n = v.len();
    let c = r.below(if rich { 10 } else { 6 });
    if n == 0 || c < 3 { TextOp::Insert(r.below(n as u64 + 1) as usize, rand_chars(r)) }
    else if c < 5 { let i = r.below(n as u64) as usize; TextOp::Remove(i, r.range(1, (n - i).min(4) as u64) as usize) }
    else if c < 6 { TextOp::Insert(n, rand_chars(r)) }
    else if c < 7 { TextOp::InsertAttr(r.below(n as u64 + 1) as usize, rand_chars(r), rand_attr_arg(r)) }
    else if c < 9 { let i = r.below(n as u64) as usize; TextOp::Format(i, r.range(1, (n - i).min(5) as u64) as usize, rand_attr_arg(r)) }
    else if r.chance(2, 3) { TextOp::Embed(r.below(n as u64 + 1) as usize, rand_json_any(r)) }
    else { TextOp::EmbedType(r.below(n as u64 + 1) as usize) }
}
fn show_text_op(op: &TextOp, v: &[Elem], bytes: bool) -> String {
    match op {
        TextOp::Insert(i, s) => format!("insert({},{:?})", off(v, *i, bytes), s),
        TextOp::InsertAttr(i, s, a) => format!("insert_with_attributes({},{:?},{:?})", off(v, *i, bytes), s, attrs_of(a)),
        TextOp::Embed(i, e) => format!("insert_embed({},{})", off(v, *i, bytes), print_any(e)),
        TextOp::EmbedType(i) => format!("insert_embed({},MapPrelim)", off(v, *i, bytes)),
        TextOp::Remove(i, n) => format!("remove_range({},{})", off(v, *i, bytes), off(v, *i + *n, bytes) - off(v, *i, bytes)),
        TextOp::Format(i, n, a) => format!("format({},{},{:?})", off(v, *i, bytes), off(v, *i + *n, bytes) - off(v, *i, bytes), a.iter().map(|(k, v)| format!("{}={}", k, print_any(v))).collect::<Vec<_>>()),
    }
}
fn apply_text_op<T: Text>(t: &T, txn: &mut TransactionMut, op: &TextOp, v: &[Elem], bytes: bool) {
    match op {
        TextOp::Insert(i, s) => t.insert(txn, off(v, *i, bytes), s),
        TextOp::InsertAttr(i, s, a) => t.insert_with_attributes(txn, off(v, *i, bytes), s, a.clone()),
        TextOp::Embed(i, e) => { t.insert_embed(txn, off(v, *i, bytes), e.clone()); }
        TextOp::EmbedType(i) => { t.insert_embed(txn, off(v, *i, bytes), yrs::MapPrelim::default()); }
        TextOp::Remove(i, n) => t.remove_range(txn, off(v, *i, bytes), off(v, *i + *n, bytes) - off(v, *i, bytes)),
        TextOp::Format(i, n, a) => t.format(txn, off(v, *i, bytes), off(v, *i + *n, bytes) - off(v, *i, bytes), a.clone()),
    }
}

// ------------------------------------------------------------------------------------------------ reading the implementation
fn read_text<T: Text + GetString, R: ReadTxn>(t: &T, txn: &R, bytes: bool, issues: &mut Vec<String>, name: &str) -> Vec<Elem> {
    let chunks = t.diff(txn, YChange::identity);
    let mut out = vec![]; let mut concat = String::new();
    for d in &chunks {
        let am = d.attributes.as_ref().map(|a| attrs_of(a)).unwrap_or_default();
        match &d.insert { Out::Any(Any::String(s)) => { concat.push_str(s); for c in s.chars() { out.push(Elem::Ch(c, am.clone())); } } Out::Any(a) => out.push(Elem::Embed(print_any(a), am)), Out::YMap(_) => out.push(Elem::Embed("YMap".into(), am)), other => out.push(Elem::Embed(format!("{:?}", other), am)) }
    }
    // C17: read paths of a text
    let s = t.get_string(txn);
    if s != concat { issues.push(format!("{name}: concat(diff chunks)={concat:?} but get_string={s:?}")); }
    let units: u32 = s.chars().map(|c| unit(c, bytes)).sum::<u32>() + out.iter().filter(|e| matches!(e, Elem::Embed(..))).count() as u32;
    if t.len(txn) != units { issues.push(format!("{name}: len()={} but get_string units + embeds = {}", t.len(txn), units)); }
    out
}
fn read_out<R: ReadTxn>(o: &Out, txn: &R, bytes: bool, issues: &mut Vec<String>, name: &str) -> RVal {
    match o {
        Out::Any(a) => RVal::Prim(print_any(a)),
        Out::YText(t) => RVal::Text(read_text(t, txn, bytes, issues, name)),
        Out::YArray(a) => read_array(a, txn, bytes, issues, name),
        Out::YMap(m) => read_map(m, txn, bytes, issues, name),
        Out::YXmlElement(e) => read_xelem(e, txn, bytes, issues, name),
        Out::YXmlFragment(f) => RVal::XFrag(read_xchildren(f, txn, bytes, issues, name)),
        Out::YXmlText(t) => RVal::XText(read_text(t, txn, bytes, issues, name)),
        other => RVal::Prim(format!("{:?}", other)),
    }
}
fn read_array<R: ReadTxn>(a: &ArrayRef, txn: &R, bytes: bool, issues: &mut Vec<String>, name: &str) -> RVal {
    let items: Vec<Out> = a.iter(txn).collect();
    let len = a.len(txn) as usize;
    if items.len() != len { issues.push(format!("{name}: len()={} but iter yields {}", len, items.len())); }
    for i in 0..len + 2 {
        match (a.get(txn, i as u32), items.get(i)) {
            (Some(x), Some(y)) => { let (px, py) = (read_out(&x, txn, bytes, &mut vec![], name), read_out(y, txn, bytes, &mut vec![], name)); if px != py { issues.push(format!("{name}: get({i}) != {i}-th iterated element")); } }
            (None, None) => {}
            (g, it) => issues.push(format!("{name}: get({i}) is_some={} but iteration has element: {}", g.is_some(), it.is_some())),
        }
    }
    if let Any::Array(j) = a.to_json(txn) { if j.len() != len { issues.push(format!("{name}: to_json has {} entries, len()={}", j.len(), len)); } } else { issues.push(format!("{name}: to_json is not an array")); }
    RVal::Array(items.iter().enumerate().map(|(i, o)| read_out(o, txn, bytes, issues, &format!("{name}[{i}]"))).collect())
}
fn read_map<R: ReadTxn>(m: &MapRef, txn: &R, bytes: bool, issues: &mut Vec<String>, name: &str) -> RVal {
    let entries: BTreeMap<String, Out> = m.iter(txn).map(|(k, v)| (k.to_string(), v)).collect();
    let mut keys: Vec<String> = m.keys(txn).map(|k| k.to_string()).collect(); keys.sort();
    let nvals = m.values(txn).count();
    let len = m.len(txn) as usize;
    if entries.len() != len || keys.len() != len || nvals != len { issues.push(format!("{name}: len()={} iter={} keys={} values={}", len, entries.len(), keys.len(), nvals)); }
    if keys != entries.keys().cloned().collect::<Vec<_>>() { issues.push(format!("{name}: keys() and iter() disagree")); }
    for k in KEYS.iter().chain(["zz"].iter()) {
        let (c, g) = (m.contains_key(txn, k), m.get(txn, k).is_some());
        if c != g || c != entries.contains_key(*k) { issues.push(format!("{name}: contains_key({k})={c} get.is_some={g} in iter={}", entries.contains_key(*k))); }
    }
    if let Any::Map(j) = m.to_json(txn) { if j.len() != len { issues.push(format!("{name}: to_json has {} entries, len()={}", j.len(), len)); } } else { issues.push(format!("{name}: to_json is not a map")); }
    RVal::Map(entries.iter().map(|(k, o)| (k.clone(), read_out(o, txn, bytes, issues, &format!("{name}.{k}")))).collect())
}
fn xml_out_to_out(n: XmlOut) -> Out { match n { XmlOut::Element(e) => Out::YXmlElement(e), XmlOut::Fragment(f) => Out::YXmlFragment(f), XmlOut::Text(t) => Out::YXmlText(t) } }
fn read_xchildren<X: XmlFragment, R: ReadTxn>(x: &X, txn: &R, bytes: bool, issues: &mut Vec<String>, name: &str) -> Vec<RVal> {
    let len = x.len(txn) as usize;
    let kids: Vec<XmlOut> = x.children(txn).collect();
    if kids.len() != len { issues.push(format!("{name}: len()={} but children() yields {}", len, kids.len())); }
    // get(i), first_child, siblings
    for i in 0..len + 1 { if x.get(txn, i as u32).is_some() != (i < kids.len()) { issues.push(format!("{name}: get({i}) presence disagrees with children()")); } }
    if x.first_child().is_some() != !kids.is_empty() { issues.push(format!("{name}: first_child presence disagrees with children()")); }
    // siblings (forward from every child, backward from every child), parent, successors (depth first) against children()
    let bid = |n: &XmlOut| -> String { match n { XmlOut::Element(e) => format!("{:?}", AsRef::<yrs::branch::Branch>::as_ref(e).id()), XmlOut::Fragment(f) => format!("{:?}", AsRef::<yrs::branch::Branch>::as_ref(f).id()), XmlOut::Text(t) => format!("{:?}", AsRef::<yrs::branch::Branch>::as_ref(t).id()) } };
    let ids: Vec<String> = kids.iter().map(|k| bid(k)).collect();
    if let Some(f) = x.first_child() { if Some(&bid(&f)) != ids.first() { issues.push(format!("{name}: first_child is not the first of children()")); } }
    for (i, k) in kids.iter().enumerate() {
        let (fwd, bwd): (Vec<String>, Vec<String>) = match k {
            XmlOut::Element(e) => (e.siblings(txn).map(|n| bid(&n)).collect(), e.siblings(txn).rev().map(|n| bid(&n)).collect()),
            XmlOut::Text(t) => (t.siblings(txn).map(|n| bid(&n)).collect(), t.siblings(txn).rev().map(|n| bid(&n)).collect()),
            XmlOut::Fragment(_) => continue,
        };
        if fwd[..] != ids[i + 1..] { issues.push(format!("{name}<{i}>: siblings() yields {:?} but children() continues with {:?}", fwd, &ids[i + 1..])); }
        let want_b: Vec<String> = ids[..i].iter().rev().cloned().collect();
        if bwd != want_b { issues.push(format!("{name}<{i}>: siblings().rev() yields {:?} but children() before it are {:?}", bwd, want_b)); }
        let par = match k { XmlOut::Element(e) => e.parent().map(|p| bid(&p)), XmlOut::Text(t) => t.parent().map(|p| bid(&p)), _ => None };
        let me = format!("{:?}", AsRef::<yrs::branch::Branch>::as_ref(x).id());
        if par.as_deref() != Some(me.as_str()) { issues.push(format!("{name}<{i}>: parent() = {:?} but it is a child of {}", par, me)); }
    }
    fn preorder<R: ReadTxn>(kids: &[XmlOut], txn: &R, out: &mut Vec<String>, bid: &dyn Fn(&XmlOut) -> String) {
        for k in kids { out.push(bid(k)); if let XmlOut::Element(e) = k { let sub: Vec<XmlOut> = e.children(txn).collect(); preorder(&sub, txn, out, bid); } }
    }
    let mut want = vec![]; preorder(&kids, txn, &mut want, &bid);
    let got: Vec<String> = x.successors(txn).map(|n| bid(&n)).collect();
    if got != want { issues.push(format!("{name}: successors() yields {:?} but the tree read through children() is {:?}", got, want)); }
    kids.into_iter().enumerate().map(|(i, k)| read_out(&xml_out_to_out(k), txn, bytes, issues, &format!("{name}<{i}>"))).collect()
}
fn read_xelem<R: ReadTxn>(e: &XmlElementRef, txn: &R, bytes: bool, issues: &mut Vec<String>, name: &str) -> RVal {
    let attrs: BTreeMap<String, String> = e.attributes(txn).map(|(k, v)| (k.to_string(), match v { Out::Any(Any::String(s)) => s.to_string(), o => format!("{:?}", o) })).collect();
    for (k, v) in &attrs { match e.get_attribute(txn, k) { Some(Out::Any(Any::String(s))) if s.as_ref() == v.as_str() => {}, other => issues.push(format!("{name}: get_attribute({k}) = {:?} but attributes() has {v}", other.map(|o| o.to_string(txn)))) } }
    RVal::XElem(e.tag().to_string(), attrs, read_xchildren(e, txn, bytes, issues, name))
}

// ------------------------------------------------------------------------------------------------ programs
fn run_case(seed: u64, index: u64, rich: bool, rep: &mut Report) {
    let mut r = Rng::for_case(seed, if rich { 303 } else { 203 }, index);
    let bytes = r.chance(1, 2); let gc = r.chance(1, 2);
    let doc = mk_doc(1, DocCfg { gc, bytes_offsets: bytes, cleanup: false });
    let (t, a, m, x) = (doc.get_or_insert_text("t"), doc.get_or_insert_array("a"), doc.get_or_insert_map("m"), doc.get_or_insert_xml_fragment("x"));
    let mut rt: Vec<Elem> = vec![]; let mut ra: Vec<RVal> = vec![]; let mut rm: BTreeMap<String, RVal> = BTreeMap::new(); let mut rx: Vec<RVal> = vec![];
    let mut script: Vec<String> = vec![format!("config offset_kind={} gc={}", if bytes { "bytes" } else { "utf16" }, gc)];
    let mut fails: Vec<serde_json::Value> = vec![];
    let ncalls = r.range(10, 60);
    let mut tag = 0u64;
    let mut txn_opt: Option<TransactionMut> = None;
    let mut k = 0;
    while k < ncalls {
        k += 1;
        // arbitrary transaction grouping: 1..4 calls per transaction
        let group = r.range(1, 4);
        {
            let mut txn = doc.transact_mut();
            for _ in 0..group {
                let call = catch(std::panic::AssertUnwindSafe(|| {
                    match r.below(10) {
                        0..=3 => { let op = rand_text_op(&mut r, &rt, rich); script.push(format!("t.{}", show_text_op(&op, &rt, bytes))); apply_text_op(&t, &mut txn, &op, &rt, bytes); ref_text_op(&mut rt, &op); }
                        4..=5 => { // array
                            let n = ra.len();
                            match r.below(8) {
                                0 | 1 => { let i = r.below(n as u64 + 1) as usize; tag += 1; let v = Any::Number(tag as f64); script.push(format!("a.insert({i},{})", print_any(&v))); a.insert(&mut txn, i as u32, v.clone()); ra.insert(i, RVal::Prim(print_any(&v))); }
                                2 => { let i = r.below(n as u64 + 1) as usize; let vs: Vec<Any> = (0..r.range(2, 3)).map(|_| rand_any(&mut r, 1)).collect(); script.push(format!("a.insert_range({i},{} values)", vs.len())); a.insert_range(&mut txn, i as u32, vs.clone()); ra.splice(i..i, vs.iter().map(|v| RVal::Prim(print_any(v)))); }
                                3 => { tag += 1; let v = Any::Number(tag as f64); if r.chance(1, 2) { script.push("a.push_back".into()); a.push_back(&mut txn, v.clone()); ra.push(RVal::Prim(print_any(&v))); } else { script.push("a.push_front".into()); a.push_front(&mut txn, v.clone()); ra.insert(0, RVal::Prim(print_any(&v))); } }
                                4 if n > 0 => { let i = r.below(n as u64) as usize; script.push(format!("a.remove({i})")); a.remove(&mut txn, i as u32); ra.remove(i); }
                                5 if n > 0 => { let i = r.below(n as u64) as usize; let l = r.range(1, (n - i).min(3) as u64) as usize; script.push(format!("a.remove_range({i},{l})")); a.remove_range(&mut txn, i as u32, l as u32); ra.drain(i..i + l); }
                                6 => { let i = r.below(n as u64 + 1) as usize; script.push(format!("a.insert({i},MapPrelim{{n:1}})")); a.insert(&mut txn, i as u32, MapPrelim::from([("n", Any::Number(1.0))])); ra.insert(i, RVal::Map([("n".to_string(), RVal::Prim("i1".into()))].into_iter().collect())); }
                                _ => { let i = r.below(n as u64 + 1) as usize; script.push(format!("a.insert({i},TextPrelim(\"né\"))")); a.insert(&mut txn, i as u32, TextPrelim::new("né")); ra.insert(i, RVal::Text("né".chars().map(|c| Elem::Ch(c, AttrMap::new())).collect())); }
                            }
                            // edit a nested text / map inside the array through a freshly obtained reference
                            if r.chance(1, 3) { for (i, v) in ra.iter_mut().enumerate() { match v {
                                RVal::Text(rv) => { if let Some(Out::YText(nt)) = a.get(&txn, i as u32) { let op = rand_text_op(&mut r, rv, false); script.push(format!("a[{i}].{}", show_text_op(&op, rv, bytes))); apply_text_op(&nt, &mut txn, &op, rv, bytes); ref_text_op(rv, &op); } break; }
                                RVal::Map(rmv) => { if let Some(Out::YMap(nm)) = a.get(&txn, i as u32) { tag += 1; script.push(format!("a[{i}].insert(q,{tag})")); nm.insert(&mut txn, "q", Any::Number(tag as f64)); rmv.insert("q".into(), RVal::Prim(print_any(&Any::Number(tag as f64)))); } break; }
                                _ => {} } } }
                        }
                        6..=7 => { // map
                            let key = *r.pick(&KEYS);
                            match r.below(8) {
                                0..=2 => { tag += 1; let v = if r.chance(1, 3) { rand_any(&mut r, 0) } else { Any::Number(tag as f64) }; script.push(format!("m.insert({key},{})", print_any(&v))); m.insert(&mut txn, key, v.clone()); rm.insert(key.into(), RVal::Prim(print_any(&v))); }
                                3 => { script.push(format!("m.remove({key})")); let got = m.remove(&mut txn, key); let had = rm.remove(key); if got.is_some() != had.is_some() { fails.push(json!({"class": "map-remove-return-value", "key": key})); } }
                                4 => { tag += 1; let v = Any::Number((tag % 3) as f64); script.push(format!("m.try_update({key},{})", print_any(&v))); let changed = m.try_update(&mut txn, key, v.clone()); let want = rm.get(key) != Some(&RVal::Prim(print_any(&v))); if changed != want { fails.push(json!({"class": "map-try_update-return-value", "key": key, "returned": changed, "expected": want})); } rm.insert(key.into(), RVal::Prim(print_any(&v))); }
                                5 => { script.push("m.clear()".into()); m.clear(&mut txn); rm.clear(); }
                                6 => { script.push(format!("m.insert({key},ArrayPrelim[1,2])")); m.insert(&mut txn, key, ArrayPrelim::from([Any::Number(1.0), Any::Number(2.0)])); rm.insert(key.into(), RVal::Array(vec![RVal::Prim("i1".into()), RVal::Prim("i2".into())])); }
                                _ => { script.push(format!("m.get_or_init::<TextRef>({key})")); let existing_text = matches!(rm.get(key), Some(RVal::Text(_))); let _tr: TextRef = m.get_or_init(&mut txn, key); if !existing_text { rm.insert(key.into(), RVal::Text(vec![])); } }
                            }
                        }
                        _ => { // xml
                            let n = rx.len();
                            match r.below(6) {
                                0 | 1 => { let i = r.below(n as u64 + 1) as usize; let tg = *r.pick(&["p", "div"]); script.push(format!("x.insert({i},<{tg}>)")); x.insert(&mut txn, i as u32, XmlElementPrelim::empty(tg)); rx.insert(i, RVal::XElem(tg.into(), BTreeMap::new(), vec![])); }
                                2 => { let i = r.below(n as u64 + 1) as usize; let s = rand_chars(&mut r); script.push(format!("x.insert({i},xmltext {s:?})")); x.insert(&mut txn, i as u32, XmlTextPrelim::new(s.clone())); rx.insert(i, RVal::XText(s.chars().map(|c| Elem::Ch(c, AttrMap::new())).collect())); }
                                3 if n > 0 => { let i = r.below(n as u64) as usize; let l = r.range(1, (n - i).min(2) as u64) as usize; script.push(format!("x.remove_range({i},{l})")); x.remove_range(&mut txn, i as u32, l as u32); rx.drain(i..i + l); }
                                _ => { // attributes / children of the first element
                                    for (i, v) in rx.iter_mut().enumerate() { if let RVal::XElem(_, at, kids) = v { if let Some(XmlOut::Element(e)) = x.get(&txn, i as u32) {
                                        match r.below(4) {
                                            0 | 1 => { let kk = *r.pick(&["id", "cls"]); let vv = rand_chars(&mut r); script.push(format!("x<{i}>.insert_attribute({kk},{vv:?})")); e.insert_attribute(&mut txn, kk, vv.clone()); at.insert(kk.into(), vv); }
                                            2 => { let kk = *r.pick(&["id", "cls"]); script.push(format!("x<{i}>.remove_attribute({kk})")); e.remove_attribute(&mut txn, &kk); at.remove(kk); }
                                            _ => { let j = r.below(kids.len() as u64 + 1) as usize; script.push(format!("x<{i}>.insert({j},<b>)")); e.insert(&mut txn, j as u32, XmlElementPrelim::empty("b")); kids.insert(j, RVal::XElem("b".into(), BTreeMap::new(), vec![])); }
                                        } } break; } }
                                }
                            }
                        }
                    }
                }));
                if let Err(p) = call { fails.push(json!({"class": "panic-on-valid-call", "error": p, "last_call": script.last()})); break; }
            }
        }
        let _ = &mut txn_opt;
        if !fails.is_empty() { break; }
        // ---- compare everything with the reference, and the read paths with each other
        let txn = doc.transact();
        let mut issues = vec![];
        let it = read_text(&t, &txn, bytes, &mut issues, "t");
        let ia = read_array(&a, &txn, bytes, &mut issues, "a");
        let im = read_map(&m, &txn, bytes, &mut issues, "m");
        let ix = read_xchildren(&x, &txn, bytes, &mut issues, "x");
        rep.add("states_compared", 1);
        for is in issues { fails.push(json!({"property": "C17", "class": "read-paths-disagree", "detail": is, "after": script.last()})); }
        if it != rt { fails.push(json!({"property": "C03", "class": if rich { "rich-text-differs-from-reference" } else { "text-differs-from-reference" }, "after": script.last(), "impl": format!("{:?}", it), "reference": format!("{:?}", rt)})); }
        if ia != RVal::Array(ra.clone()) { fails.push(json!({"property": "C03", "class": "array-differs-from-reference", "after": script.last(), "impl": format!("{:?}", ia), "reference": format!("{:?}", ra)})); }
        if im != RVal::Map(rm.clone()) { fails.push(json!({"property": "C03", "class": "map-differs-from-reference", "after": script.last(), "impl": format!("{:?}", im), "reference": format!("{:?}", rm)})); }
        if ix != rx { fails.push(json!({"property": "C03", "class": "xml-differs-from-reference", "after": script.last(), "impl": format!("{:?}", ix), "reference": format!("{:?}", rx)})); }
        // lengths in the configured unit (embeds count one) against the reference structures
        let want_t: u32 = rt.iter().map(|e| match e { Elem::Ch(c, _) => unit(*c, bytes), Elem::Embed(..) => 1 }).sum();
        for (what, got, want) in [("text", t.len(&txn), want_t), ("array", a.len(&txn), ra.len() as u32), ("map", m.len(&txn), rm.len() as u32), ("xml children", x.len(&txn), rx.len() as u32)] {
            if got != want { fails.push(json!({"property": "C03", "class": "length-differs-from-reference", "type": what, "len": got, "reference_len": want, "after": script.last()})); }
        }
        if !fails.is_empty() { break; }
    }
    rep.evaluations += 1;
    if script.len() > 10 { rep.nontrivial_case(&format!("c03:{}:{}", rich, index)); }
    rep.add("api_calls", script.len() as u64 - 1);
    for mut f in fails { if f.get("property").is_none() { f["property"] = json!("C03"); } f["case"] = json!({"rich": rich, "index": index, "seed": seed}); f["script"] = json!(script); rep.fail(f); }
    if rep.samples.len() < 2 { rep.sample(json!({"case": index, "rich": rich, "script": script.iter().take(25).collect::<Vec<_>>()})); }
}


// ------------------------------------------------------------------------------------------------ where local insertions land
/// The Coq model's `local_op` (Crdt/Local.v: split_gap) predicts, from the item list before the call, the origin and the
/// right origin of the unit a local insertion creates; the implementation's new item must carry exactly those.
/// One replica, single-call transactions on the root text (plain + formatting), array and XML children, deletions in
/// between so that tombstones and format markers surround the insertion points.
fn placement_case(seed: u64, index: u64, md: &mut crate::model::Model, rep: &mut Report) {
    use yrs::verif::{VBlock, VParent};
    let mut r = Rng::for_case(seed, 403, index);
    let gc = r.chance(1, 3);
    let rp = Replica::new(5, DocCfg { gc, ..DocCfg::default() });
    let (t, a, x) = (rp.doc.get_or_insert_text(ROOT_TEXT), rp.doc.get_or_insert_array(ROOT_ARRAY), rp.doc.get_or_insert_xml_fragment(ROOT_XML));
    let name = format!("p{}", index);
    md.ask(&format!("D new {}", name));
    let mut script: Vec<String> = vec![format!("gc={}", gc)];
    let mut tag = 0u64;
    for _step in 0..r.range(10, 40) {
        rp.drain1(); rp.drain2();
        let before = store_dump(&rp.doc);
        let ids = integrated_ids(&before);
        let clock = rp.doc.transact().state_vector().get(&yrs::block::ClientID::new(5));
        let live_units = |root: &str| -> u32 { before.branches.iter().filter(|b| matches!(&b.id, VParent::Root(n) if n == root)).flat_map(|b| b.seq.iter()).filter(|it| !it.deleted && it.countable).map(|it| it.len).sum() };
        let mut predict: Option<(String, u32)> = None;   // (sequence key in the model's syntax, live index)
        let mut direct = false;                           // Branch::insert_at (XML children): no move over following tombstones
        match r.below(10) {
            0..=2 => { let n = live_units(ROOT_TEXT); let i = r.below(n as u64 + 1) as u32; let s = if r.chance(1, 2) { "ab" } else { "c" }; script.push(format!("t.insert({i},{s:?})")); t.insert(&mut rp.doc.transact_mut(), i, s); predict = Some((format!("R{}", rawhex(ROOT_TEXT.as_bytes())), i)); }
            3 => { let n = live_units(ROOT_TEXT); if n > 0 { let i = r.below(n as u64) as u32; let l = r.range(1, (n - i).min(3) as u64) as u32; script.push(format!("t.remove_range({i},{l})")); t.remove_range(&mut rp.doc.transact_mut(), i, l); } }
            4 => { let n = live_units(ROOT_TEXT); if n > 0 { let i = r.below(n as u64) as u32; let l = r.range(1, (n - i).min(3) as u64) as u32; let mut at = yrs::types::Attrs::new(); at.insert("b".into(), if r.chance(1, 3) { Any::Null } else { Any::Bool(true) }); script.push(format!("t.format({i},{l},b)")); t.format(&mut rp.doc.transact_mut(), i, l, at); } }
            5..=6 => { let n = live_units(ROOT_ARRAY); let i = r.below(n as u64 + 1) as u32; tag += 1; script.push(format!("a.insert({i},{tag})")); a.insert(&mut rp.doc.transact_mut(), i, Any::Number(tag as f64)); predict = Some((format!("R{}", rawhex(ROOT_ARRAY.as_bytes())), i)); }
            7 => { let n = live_units(ROOT_ARRAY); if n > 0 { let i = r.below(n as u64) as u32; let l = r.range(1, (n - i).min(3) as u64) as u32; script.push(format!("a.remove_range({i},{l})")); a.remove_range(&mut rp.doc.transact_mut(), i, l); } }
            8 => { let n = live_units(ROOT_XML); let i = r.below(n as u64 + 1) as u32; script.push(format!("x.insert({i},<p>)")); x.insert(&mut rp.doc.transact_mut(), i, XmlElementPrelim::empty("p")); predict = Some((format!("R{}", rawhex(ROOT_XML.as_bytes())), i)); direct = true; }
            _ => { let n = live_units(ROOT_XML); if n > 0 { let i = r.below(n as u64) as u32; script.push(format!("x.remove_range({i},1)")); x.remove_range(&mut rp.doc.transact_mut(), i, 1); } }
        }
        if let Some((key, i)) = predict {
            let want = md.ask(&format!("D localop {} {} {} {}{}", name, ids, key, i, if direct { " direct" } else { "" }));
            let after = store_dump(&rp.doc);
            // the created unit: the item that starts at the old clock, or - when the run was squashed into its predecessor -
            // the unit inside that block (its origin is then the preceding unit)
            let created = after.blocks.iter().filter(|(c, _)| *c == 5).flat_map(|(_, bl)| bl.iter()).find_map(|b| match b {
                VBlock::Item(it) if it.id.clock <= clock && clock < it.id.clock + it.len => { let mut it = it.clone(); if it.id.clock < clock { it.origin = Some(yrs::ID::new(it.id.client, clock - 1)); } Some(it) } _ => None });
            rep.add("placements_compared", 1);
            match created {
                Some(it) => {
                    let got = format!("ok {} {}", it.origin.map(|i| print_id(&i)).unwrap_or_else(|| "-".into()), it.right_origin.map(|i| print_id(&i)).unwrap_or_else(|| "-".into()));
                    if got != want { rep.disagree(json!({"class": "origins-of-a-local-insertion-differ-from-the-model", "implementation": got, "model": want, "call": script.last(), "script": script, "items_before": internal_dump(&before), "case": {"stream": 403, "index": index, "seed": seed}})); break; }
                }
                None => { rep.fail(json!({"property": "C03", "class": "local-insertion-created-no-item", "call": script.last(), "script": script, "case": {"stream": 403, "index": index, "seed": seed}})); break; }
            }
        }
        for u in rp.drain1() { let a = md.ask(&format!("D apply {} {}", name, crate::model::hex(&u))); if !a.starts_with("ok") { rep.disagree(json!({"class": "model-rejects-emitted-update", "model": a, "script": script})); } }
    }
    rep.evaluations += 1;
    rep.nontrivial_case(&format!("place:{}", index));
}

pub fn run(prop: &str, tier: &str, seed: u64, workers: usize) -> Report {
    let n = if tier == "thorough" { 5000 } else { 1500 };
    let props: Vec<&str> = if prop == "C17" { vec!["C17"] } else { vec!["C03"] };
    let mut total = parallel(workers, |w, nw| {
        let mut rep = Report::default();
        let mut md: Option<crate::model::Model> = None;
        for ci in 0..n { if ci as usize % nw != w { continue; }
            if prop == "C17" {
                // XML read paths against the model of the pointer walks (Crdt/XmlWalk.v)
                if md.is_none() { md = Some(crate::model::Model::spawn()); }
                let res = { let m = md.as_mut().unwrap(); catch(std::panic::AssertUnwindSafe(|| { let mut r2 = Report::default(); crate::xw::case(seed, ci, m, &mut r2); r2 })) };
                match res { Ok(r2) => rep.merge(r2), Err(e) => { md = None; rep.evaluations += 1; rep.fail(json!({"property": prop, "class": "panic", "error": e, "case": {"stream": 132, "index": ci}})); } }
            }
            if prop == "C03" {
                if md.is_none() { md = Some(crate::model::Model::spawn()); }
                let res = { let m = md.as_mut().unwrap(); catch(std::panic::AssertUnwindSafe(|| { let mut r2 = Report::default(); placement_case(seed, ci, m, &mut r2); r2 })) };
                match res { Ok(r2) => rep.merge(r2), Err(e) => { md = None; rep.evaluations += 1; rep.fail(json!({"property": prop, "class": "panic", "error": e, "case": {"stream": 403, "index": ci}})); } }
                // array calls through the cursor against the block-level transcription (Crdt/BlockIter.v), on editor sessions
                if md.is_none() { md = Some(crate::model::Model::spawn()); }
                let res = { let m = md.as_mut().unwrap(); catch(std::panic::AssertUnwindSafe(|| { let mut r2 = Report::default(); crate::yib::case(seed, ci, m, &mut r2); r2 })) };
                match res { Ok(r2) => rep.merge(r2), Err(e) => { md = None; rep.evaluations += 1; rep.fail(json!({"property": prop, "class": "panic", "error": e, "case": {"stream": 140, "index": ci, "seed": seed}})); } }
                // rich text calls against the item-level model and the sequential specification (Crdt/RichText.v)
                if md.is_none() { md = Some(crate::model::Model::spawn()); }
                let res = { let m = md.as_mut().unwrap(); catch(std::panic::AssertUnwindSafe(|| { let mut r2 = Report::default(); crate::rtx::case(seed, ci, m, &mut r2); r2 })) };
                match res { Ok(r2) => rep.merge(r2), Err(e) => { md = None; rep.evaluations += 1; rep.fail(json!({"property": prop, "class": "panic", "error": e, "case": {"stream": 131, "index": ci}})); } }
            }
            for rich in [false, true] {
                match catch(std::panic::AssertUnwindSafe(|| { let mut r2 = Report::default(); run_case(seed, ci, rich, &mut r2); r2 })) {
                    Ok(mut r2) => { let fs = std::mem::take(&mut r2.failures); r2.class_counts.clear(); for f in fs { if props.contains(&f.get("property").and_then(|p| p.as_str()).unwrap_or("")) { r2.fail(f); } else { r2.count("failures_of_the_sibling_property"); } } rep.merge(r2) }
                    Err(e) => { rep.evaluations += 1; rep.fail(json!({"property": prop, "class": "panic", "error": e, "case": {"index": ci, "rich": rich}})); }
                }
            }
        }
        rep
    });
    total.notes.push("single-replica programs of 10..60 transactions x 1..4 calls (text insert / push / remove_range [/ insert_with_attributes / format / insert_embed in the rich stream], array insert / insert_range / push_back / push_front / remove / remove_range / nested map+text prelims edited through fresh references, map insert / remove / try_update / clear / nested array / get_or_init, XML children and attributes), random offset kind (UTF-16 / bytes, positions on character boundaries of a multi-byte alphabet incl. astral characters) and gc on/off; after every transaction all roots are read back through every accessor (len, iter, get(i) incl. out of range, to_json, keys/values/contains_key/get, diff / get_string, XML children / get / first_child / siblings forward and backward / parent / successors / attributes) and compared with plain reference structures and with each other; C03 additionally: single-call insertions on the root text (with formatting markers and tombstones around), array and XML children whose created item must carry exactly the origin and right origin the Coq model (Crdt/Local.v local_op / split_gap) predicts from the item list before the call".into());
    total
}
