//! C01 / C02 / C04 / C05 drivers on top of hist.rs
use crate::hist::*;
use crate::report::{parallel, Report};

pub fn run(prop: &str, tier: &str, seed: u64, workers: usize) -> Report {
    let thorough = tier == "thorough";
    let (n_general, n_text, n_map, n_arr, n_typing) = if thorough { (6000, 4000, 3000, 2000, 6000) } else { (2500, 1500, 800, 600, 2000) };
    let n_adl: u64 = if thorough { 20000 } else { 4000 };
    let props: Vec<&str> = match prop { "C01" => vec!["C01"], "C02" => vec!["C02"], "C04" => vec!["C04"], "C05" => vec!["C05"], _ => vec![] };
    let mut total = parallel(workers, |w, nw| {
        let mut rep = Report::default();
        let g = HistCfg { focus: Focus::General, max_steps: 14, max_replicas: 4, exhaustive_perms: true, model: true };
        run_many(&mut rep, seed, 101, n_general, w, nw, &g, &props);
        let t = HistCfg { focus: Focus::TextOnly, max_steps: 10, max_replicas: 3, exhaustive_perms: true, model: true };
        run_many(&mut rep, seed, 102, n_text, w, nw, &t, &props);
        let m = HistCfg { focus: Focus::MapOnly, max_steps: 10, max_replicas: 4, exhaustive_perms: true, model: true };
        run_many(&mut rep, seed, 103, n_map, w, nw, &m, &props);
        let a = HistCfg { focus: Focus::ArrayOnly, max_steps: 10, max_replicas: 3, exhaustive_perms: true, model: true };
        run_many(&mut rep, seed, 104, n_arr, w, nw, &a, &props);
        // C01 only: delete sets applied to real stores (holes included) against the transcription of apply_delete
        if prop == "C01" { let mut md = crate::model::Model::spawn(); for ci in 0..n_adl { if ci as usize % nw == w { if let Err(e) = crate::report::catch(std::panic::AssertUnwindSafe(|| crate::adl::case(seed, ci, &mut md, &mut rep))) { rep.fail(serde_json::json!({"property": "C01", "class": "panic", "error": e, "case": {"stream": 130, "index": ci, "seed": seed}})); md = crate::model::Model::spawn(); } } } }
        // C01 / C04: the block-level transcription of Item::integrate (Crdt/YataBlocks.v) on editor sessions
        if prop == "C01" || prop == "C04" { let n_yib: u64 = if thorough { 12000 } else { 3000 }; let mut md = crate::model::Model::spawn(); for ci in 0..n_yib { if ci as usize % nw == w { if let Err(e) = crate::report::catch(std::panic::AssertUnwindSafe(|| crate::yib::case(seed, ci, &mut md, &mut rep))) { rep.fail(serde_json::json!({"property": prop, "class": "panic", "error": e, "case": {"stream": 140, "index": ci, "seed": seed}})); } } } }
        let ty = HistCfg { focus: Focus::Typing, max_steps: 16, max_replicas: 3, exhaustive_perms: true, model: true };
        run_many(&mut rep, seed, 105, n_typing, w, nw, &ty, &props);
        rep
    });
    total.notes.push("stream 105: editor sessions (every replica keeps a cursor in the root text and the root array and mostly continues typing where it stopped, so that its transactions produce runs with consecutive ids and chained origins)".into());
    total.notes.push("histories: 2..4 replicas, local transactions of 1..3 API calls interleaved with deliveries (v1/v2), then every replica receives the rest in FIFO / reverse / random order with duplicates and merged relays; after EVERY step the hook dump (tombstone order in units, integrated ids) is compared with the model's render of the integrated id set; histories with <= 5 messages are additionally replayed on a fresh replica in every permutation".into());
    total
}
