//! C05: map entries are causal last-writer-wins registers.  The harness computes happened-before
//! itself (per key operation: which messages its author had integrated) and checks, on every
//! causally closed replica state, that the visible value of every key comes from an operation
//! that no received operation on that key causally follows, that a removal only removes what it
//! had seen, and that removed nested types take their subtree with them.  The same executions are
//! compared with the model after every step (hist.rs machinery is reused through sim.rs).
use crate::model::{hex, Model};
use crate::report::{catch, parallel, Report};
use crate::rng::Rng;
use crate::sim::*;
use serde_json::json;
use std::collections::{BTreeMap, BTreeSet};
use yrs::types::ToJson;
use yrs::{Any, Map, MapPrelim, MapRef, Out, ReadTxn, Transact, WriteTxn};

const KEYS: [&str; 3] = ["k1", "k2", "k3"];

#[derive(Clone, Debug)]
enum Kind { Write(u64), Remove }
#[derive(Clone, Debug)]
struct KeyOp { msg: usize, seq: usize, key: String, kind: Kind, seen: BTreeSet<usize> }

fn hb(a: &KeyOp, b: &KeyOp) -> bool { (a.msg != b.msg && b.seen.contains(&a.msg)) || (a.msg == b.msg && a.seq < b.seq) }

fn read_key(m: &MapRef, txn: &impl ReadTxn, k: &str) -> Option<u64> {
    match m.get(txn, k) {
        Some(Out::Any(Any::Number(f))) => Some(f as u64),
        Some(Out::YMap(inner)) => match inner.get(txn, "tag") { Some(Out::Any(Any::Number(f))) => Some(f as u64), _ => Some(u64::MAX) },
        Some(_) => Some(u64::MAX),
        None => None,
    }
}

fn check_lww(rep: &Replica, ops: &[KeyOp], have: &BTreeSet<usize>, failures: &mut Vec<serde_json::Value>, step: u64, ri: usize) {
    let m = rep.doc.get_or_insert_map(ROOT_MAP);
    let txn = rep.doc.transact();
    for k in KEYS.iter() {
        let on_key: Vec<&KeyOp> = ops.iter().filter(|o| o.key == *k && have.contains(&o.msg)).collect();
        let maximal: Vec<&&KeyOp> = on_key.iter().filter(|a| !on_key.iter().any(|b| hb(a, b))).collect();
        let v = read_key(&m, &txn, k);
        let contains = m.contains_key(&txn, k);
        if contains != v.is_some() {
            failures.push(json!({"property": "C05", "class": "contains-vs-get", "key": k, "replica": ri, "step": step}));
        }
        match v {
            Some(tag) => {
                let ok = maximal.iter().any(|o| matches!(o.kind, Kind::Write(t) if t == tag));
                if !ok {
                    let resurfaced = on_key.iter().any(|o| matches!(o.kind, Kind::Write(t) if t == tag));
                    failures.push(json!({"property": "C05", "class": if resurfaced { "dominated-value-visible" } else { "unknown-value-visible" }, "key": k, "replica": ri, "step": step,
                        "visible_tag": tag, "maximal_ops": format!("{:?}", maximal), "what": "the visible value was written by an operation that a received operation on the same key causally follows"}));
                }
            }
            None => {
                // absent: must be the outcome of a maximal removal (or of no operation at all)
                if !on_key.is_empty() && !maximal.iter().any(|o| matches!(o.kind, Kind::Remove)) {
                    failures.push(json!({"property": "C05", "class": "absent-without-maximal-removal", "key": k, "replica": ri, "step": step,
                        "maximal_ops": format!("{:?}", maximal), "what": "the key is absent although no received removal is causally maximal"}));
                }
                // a write concurrent with a removal survives it: a causally maximal write may be invisible only
                // because it lost the tie against a concurrent WRITE, never because of removals alone
                for w in maximal.iter().filter(|o| matches!(o.kind, Kind::Write(_))) {
                    let has_concurrent_write = on_key.iter().any(|o| matches!(o.kind, Kind::Write(_)) && (o.msg, o.seq) != (w.msg, w.seq) && !hb(o, w) && !hb(w, o));
                    if !has_concurrent_write {
                        failures.push(json!({"property": "C05", "class": "maximal-write-lost", "key": k, "replica": ri, "step": step,
                            "lost": format!("{:?}", w), "what": "a write that no received operation follows and that has no concurrent write is not visible (a concurrent removal erased it)"}));
                    }
                }
            }
        }
    }
    // len / keys / to_json agree with get
    let live: Vec<&str> = KEYS.iter().copied().filter(|k| m.contains_key(&txn, k)).collect();
    if m.len(&txn) as usize != live.len() {
        failures.push(json!({"property": "C05", "class": "len-mismatch", "replica": ri, "step": step, "len": m.len(&txn), "live_keys": live}));
    }
}

/// removed / overwritten nested types take their subtree with them (hook dump)
fn check_subtrees(rep: &Replica, failures: &mut Vec<serde_json::Value>, step: u64, ri: usize) {
    let vs = store_dump(&rep.doc);
    let mut deleted_types: BTreeSet<String> = BTreeSet::new();
    for (_, bl) in &vs.blocks { for b in bl { if let yrs::verif::VBlock::Item(it) = b {
        if it.deleted { if let yrs::verif::VContent::Type(_) = it.content { deleted_types.insert(print_id(&it.id)); } }
    } } }
    for (_, bl) in &vs.blocks { for b in bl { if let yrs::verif::VBlock::Item(it) = b {
        if let yrs::verif::VParent::Nested(p) = &it.parent {
            if deleted_types.contains(&print_id(p)) && !it.deleted {
                failures.push(json!({"property": "C05", "class": "subtree-not-removed", "replica": ri, "step": step, "item": print_id(&it.id), "parent": print_id(p)}));
            }
        }
    } } }
}

fn run_case(seed: u64, index: u64, md: &mut Model, rep: &mut Report) {
    let mut r = Rng::for_case(seed, 105, index);
    let nrep = r.range(2, 5) as usize;
    let mut ids: Vec<u64> = crate::hist::CLIENT_IDS.to_vec();
    r.shuffle(&mut ids);
    let reps: Vec<Replica> = (0..nrep).map(|i| Replica::new(ids[i], DocCfg::default())).collect();
    for i in 0..nrep { md.ask(&format!("D new r{}", i)); }
    let mut msgs: Vec<Vec<u8>> = vec![];
    let mut msg_seen: Vec<BTreeSet<usize>> = vec![];
    let mut delivered: Vec<BTreeSet<usize>> = vec![BTreeSet::new(); nrep];
    let mut ops: Vec<KeyOp> = vec![];
    let mut script: Vec<String> = vec![];
    let mut failures: Vec<serde_json::Value> = vec![];
    let mut disagreements: Vec<serde_json::Value> = vec![];
    let mut tag = 0u64;
    let mut step = 0u64;
    let mut concurrent_on_key = false;
    let steps = r.range(4, 14);
    let mut compare = |i: usize, reps: &Vec<Replica>, md: &mut Model, what: &str, script: &Vec<String>, disagreements: &mut Vec<serde_json::Value>, step: u64| {
        let vs = store_dump(&reps[i].doc);
        let imp = internal_dump(&vs);
        let ids = integrated_ids(&vs);
        let m1 = md.ask(&format!("D stateof r{} {}", i, ids));
        let m1n = if let Some(x) = m1.strip_prefix("ok ") { normalize_model_dump(x) } else { m1.clone() };
        let cut = |s: &str| -> String { match s.find(" |W ") { Some(i) => s[..i].to_string(), None => s.to_string() } };
        if cut(&m1n) != cut(&imp) {
            disagreements.push(json!({"kind": "render-of-integrated-set", "step": step, "after": what, "replica": i, "impl": cut(&imp), "model": m1n, "script": script}));
        }
    };
    for _ in 0..steps {
        step += 1;
        let i = r.below(nrep as u64) as usize;
        // causally deliverable messages only (history phase keeps every author's view causally closed)
        let deliverable: Vec<usize> = (0..msgs.len()).filter(|m| !delivered[i].contains(m) && msg_seen[*m].is_subset(&delivered[i])).collect();
        if r.chance(3, 5) || deliverable.is_empty() {
            reps[i].drain1();
            let m = reps[i].doc.get_or_insert_map(ROOT_MAP);
            let mut sc = vec![];
            let mut new_ops: Vec<(usize, String, Kind)> = vec![];
            {
                let mut txn = reps[i].doc.transact_mut();
                for seq in 0..r.range(1, 3) as usize {
                    let k = *r.pick(&KEYS);
                    match r.below(12) {
                        // the conditional writes of the API: get_or_init writes a fresh nested map unless the key holds a (live) map;
                        // try_update writes unless the key holds an equal value
                        10 => { let holds_map = matches!(m.get(&txn, k), Some(Out::YMap(_))); sc.push(format!("m.get_or_init::<MapRef>({k})")); let inner: MapRef = m.get_or_init(&mut txn, k); if !holds_map { tag += 1; inner.insert(&mut txn, "tag", Any::Number(tag as f64)); sc.push(format!("  .insert(tag,{tag})")); new_ops.push((seq, k.to_string(), Kind::Write(tag))); } }
                        11 => { tag += 1; sc.push(format!("m.try_update({k},{tag})")); m.try_update(&mut txn, k, Any::Number(tag as f64)); new_ops.push((seq, k.to_string(), Kind::Write(tag))); }
                        0..=4 => { tag += 1; sc.push(format!("m.insert({k},{tag})")); m.insert(&mut txn, k, Any::Number(tag as f64)); new_ops.push((seq, k.to_string(), Kind::Write(tag))); }
                        5 => { tag += 1; sc.push(format!("m.insert({k},Map{{tag:{tag}}})")); m.insert(&mut txn, k, MapPrelim::from([("tag", Any::Number(tag as f64))])); new_ops.push((seq, k.to_string(), Kind::Write(tag))); }
                        6..=8 => { if m.contains_key(&txn, k) { sc.push(format!("m.remove({k})")); m.remove(&mut txn, k); new_ops.push((seq, k.to_string(), Kind::Remove)); } }
                        _ => { sc.push("m.clear()".into()); for kk in KEYS.iter() { if m.contains_key(&txn, kk) { new_ops.push((seq, kk.to_string(), Kind::Remove)); } } m.clear(&mut txn); }
                    }
                }
            }
            script.push(format!("r{} txn {{{}}}", i, sc.join("; ")));
            if let Some(u) = reps[i].drain1().into_iter().next() {
                let mi = msgs.len();
                let seen = delivered[i].clone();
                for (seq, key, kind) in new_ops {
                    let o = KeyOp { msg: mi, seq, key, kind, seen: seen.clone() };
                    if ops.iter().any(|p| p.key == o.key && !hb(p, &o) && p.msg != o.msg) { concurrent_on_key = true; }
                    ops.push(o);
                }
                md.ask(&format!("D apply r{} {}", i, hex(&u)));
                msgs.push(u); msg_seen.push(seen);
                delivered[i].insert(mi);
            }
        } else {
            let m = *r.pick(&deliverable);
            script.push(format!("r{} <- msg{}", i, m));
            if let Err(e) = reps[i].apply_v1(&msgs[m]) { failures.push(json!({"property": "C05", "class": "apply-error", "error": e})); }
            delivered[i].insert(m);
            md.ask(&format!("D apply r{} {}", i, hex(&msgs[m])));
        }
        check_lww(&reps[i], &ops, &delivered[i], &mut failures, step, i);
        check_subtrees(&reps[i], &mut failures, step, i);
        compare(i, &reps, md, "history step", &script, &mut disagreements, step);
    }
    // schedule phase: arbitrary order; oracle evaluated whenever the delivered set is causally closed
    for i in 0..nrep {
        let mut rest: Vec<usize> = (0..msgs.len()).filter(|m| !delivered[i].contains(m)).collect();
        r.shuffle(&mut rest);
        for m in rest {
            step += 1;
            script.push(format!("r{} <- msg{} (late)", i, m));
            if let Err(e) = reps[i].apply_v1(&msgs[m]) { failures.push(json!({"property": "C05", "class": "apply-error", "error": e})); }
            delivered[i].insert(m);
            md.ask(&format!("D apply r{} {}", i, hex(&msgs[m])));
            let closed = delivered[i].iter().all(|x| msg_seen[*x].is_subset(&delivered[i]));
            if closed { check_lww(&reps[i], &ops, &delivered[i], &mut failures, step, i); rep.count("closed_states_checked"); }
            check_subtrees(&reps[i], &mut failures, step, i);
            compare(i, &reps, md, "late delivery", &script, &mut disagreements, step);
        }
    }
    // all replicas agree on every key
    let views: Vec<String> = reps.iter().map(|x| { let m = x.doc.get_or_insert_map(ROOT_MAP); let t = x.doc.transact(); print_map(&m, &t, 0) }).collect();
    for i in 1..nrep { if views[i] != views[0] { failures.push(json!({"property": "C05", "class": "replicas-disagree", "a": views[0], "b": views[i]})); } }
    rep.evaluations += 1;
    rep.add("key_ops", ops.len() as u64);
    if concurrent_on_key { rep.nontrivial_case(&format!("c05:{}", index)); rep.count("histories_with_concurrent_ops_on_a_key"); }
    for mut f in failures { f["case"] = json!({"stream": 105, "index": index, "seed": seed}); f["script"] = json!(script); rep.fail(f); }
    for mut d in disagreements { d["case"] = json!({"stream": 105, "index": index, "seed": seed}); rep.disagree(d); }
    if rep.samples.len() < 3 && concurrent_on_key { rep.sample(json!({"case": index, "script": script, "final": views[0]})); }
}

pub fn run(tier: &str, seed: u64, workers: usize) -> Report {
    let n = if tier == "thorough" { 12000 } else { 3000 };
    let mut total = parallel(workers, |w, nw| {
        let mut rep = Report::default();
        let mut md = Model::spawn();
        for ci in 0..n {
            if ci as usize % nw != w { continue; }
            let res = catch(std::panic::AssertUnwindSafe(|| { let mut r2 = Report::default(); let mut m2 = Model::spawn(); run_case(seed, ci, &mut m2, &mut r2); r2 }));
            match res {
                Ok(r2) => rep.merge(r2),
                Err(e) => { rep.evaluations += 1; rep.fail(json!({"property": "C05", "class": "panic", "error": e, "case": {"stream": 105, "index": ci, "seed": seed}})); }
            }
            let _ = &mut md;
        }
        rep
    });
    total.notes.push("key-focused histories on the root map (2..5 replicas, keys k1..k3, set of unique tags / nested map with a tag / remove / clear, 1..3 calls per transaction); happened-before computed by the harness from what each author had integrated; oracle on every causally closed state of every replica; model render compared after every step".into());
    total
}
