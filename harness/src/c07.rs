//! C07: update events form a complete, minimal replication log.
//! A leader document performs local edits, applies remote updates (in any order, with duplicates),
//! undoes / redoes; passive followers fed only by the v1 and by the v2 event stream (and a model
//! follower fed by the v1 stream through the Coq decoder) must equal the leader after EVERY transaction.
use crate::model::{hex, Model};
use crate::report::{catch, parallel, Report};
use crate::rng::Rng;
use crate::sim::*;
use serde_json::json;
use std::collections::BTreeSet;
use yrs::undo::UndoManager;
use yrs::{Any, Array, Doc, ReadTxn, Text, Transact, WriteTxn};

fn id_sets(doc: &Doc) -> (String, BTreeSet<String>) {
    let vs = store_dump(doc);
    let ids = integrated_ids(&vs);
    let mut del = BTreeSet::new();
    for (c, bl) in &vs.blocks { for b in bl { match b {
        yrs::verif::VBlock::Item(i) => if i.deleted { for j in 0..i.len { del.insert(format!("{:x}:{:x}", c, i.id.clock + j)); } },
        yrs::verif::VBlock::GC(id, l) => for j in 0..*l { del.insert(format!("{:x}:{:x}", c, id.clock + j)); },
        _ => {}
    } } }
    (ids, del)
}

/// every integrated unit (items incl. tombstones, collected ranges; holes excluded)
fn unit_ids(doc: &Doc) -> BTreeSet<(u64, u32)> {
    let vs = store_dump(doc); let mut s = BTreeSet::new();
    for (c, bl) in &vs.blocks { for b in bl { match b {
        yrs::verif::VBlock::Item(i) => for j in 0..i.len { s.insert((*c, i.id.clock + j)); },
        yrs::verif::VBlock::GC(id, l) => for j in 0..*l { s.insert((*c, id.clock + j)); },
        _ => {}
    } } }
    s
}

fn run_case(seed: u64, index: u64, md: &mut Model, rep: &mut Report) {
    let mut r = Rng::for_case(seed, 107, index);
    let gc = r.chance(1, 2);
    let cleanup = r.chance(1, 2);   // the leader cleans up redundant formatting after remote transactions; the followers never do
    let leader = Replica::new(1, DocCfg { gc, cleanup, ..DocCfg::default() });
    let others = [Replica::new(2, DocCfg::default()), Replica::new(3, DocCfg { gc: r.chance(1, 2), ..DocCfg::default() })];
    let f1 = Replica::new(11, DocCfg { gc: r.chance(1, 2), ..DocCfg::default() });
    let f2 = Replica::new(12, DocCfg { gc: r.chance(1, 2), ..DocCfg::default() });
    let all_nogc = false; // followers may gc: internal comparison goes through the model follower only when the leader does not gc
    md.ask("D new mf");
    // (an undo manager keeps what it tracks from being collected: half of the leaders have none)
    let with_undo = r.chance(1, 2);
    let mut undo = {
        let t = leader.doc.get_or_insert_text(ROOT_TEXT);
        let mut u: UndoManager<()> = UndoManager::new();
        if with_undo {
            u.expand_scope(&leader.doc, &t);
            u.expand_scope(&leader.doc, &leader.doc.get_or_insert_array(ROOT_ARRAY));
            u.expand_scope(&leader.doc, &leader.doc.get_or_insert_map(ROOT_MAP));
        }
        u
    };
    let ecfg = EditCfg::default();
    let mut inbox: Vec<Vec<u8>> = vec![];
    let mut script: Vec<String> = vec![];
    let mut tag = 0u64;
    let mut failures: Vec<serde_json::Value> = vec![];
    let mut disagreements: Vec<serde_json::Value> = vec![];
    let mut interesting = false;
    let steps = r.range(6, 16);
    let mut streak = false;
    leader.drain1(); leader.drain2();
    for step in 0..steps {
        let (ids_before, del_before) = id_sets(&leader.doc);
        let units_before = unit_ids(&leader.doc);
        let mut kind = r.below(12);
        // an editor session also has transactions that leave nothing visible (composition that is cancelled: insert and remove in
        // one transaction), often several in a row: with gc on they leave adjacent collected tombstones that get squashed
        if kind == 3 || (streak && r.chance(1, 2)) { kind = 100; }
        streak = kind == 100;
        let mut what = String::new();
        match kind {
            100 => {
                let mut txn = leader.doc.transact_mut();
                if r.chance(2, 3) { let t = txn.get_or_insert_text(ROOT_TEXT); let n = t.len(&txn); let s = ["x", "yz", "abc"][r.below(3) as usize]; t.insert(&mut txn, n, s); t.remove_range(&mut txn, n, s.len() as u32); what = format!("L txn {{t.insert({n},{s:?}); t.remove_range({n},{})}}", s.len()); }
                else { let a = txn.get_or_insert_array(ROOT_ARRAY); let n = a.len(&txn); tag += 1; a.insert(&mut txn, n, Any::Number((tag * 1000) as f64)); a.remove(&mut txn, n); what = format!("L txn {{a.insert({n},..); a.remove({n})}}"); }
            }
            0..=3 => { let mut sc = vec![]; { let mut txn = leader.doc.transact_mut(); for _ in 0..r.range(1, 3) { random_call(&leader.doc, &mut txn, &mut r, &ecfg, false, &mut sc, &mut tag); } } what = format!("L txn {{{}}}", sc.join("; ")); }
            4 | 5 => {
                let o = r.below(2) as usize;
                if r.chance(1, 2) { // the other replica first learns (part of) the leader's state
                    let sv = others[o].doc.transact().state_vector();
                    let u = leader.doc.transact().encode_state_as_update_v1(&sv);
                    let _ = others[o].apply_v1(&u);
                    others[o].drain1(); others[o].drain2();
                }
                let mut sc = vec![];
                let (u1, _) = local_txn(&others[o], &mut r, &ecfg, false, 3, &mut sc, &mut tag);
                inbox.extend(u1);
                what = format!("O{} txn {{{}}} (leader idle)", o, sc.join("; "));
                script.push(what); continue;
            }
            6..=8 if r.chance(1, 3) => {
                // the difference between another replica's state (possibly garbage-collected: GC ranges travel here) and the leader's
                let o = r.below(2) as usize;
                let sv = leader.doc.transact().state_vector();
                let u = others[o].doc.transact().encode_state_as_update_v1(&sv);
                let v = leader.apply_v1(&u);
                what = format!("L apply state diff of O{} ({} bytes){}", o, u.len(), if v.is_err() { " ERR" } else { "" });
                interesting = true;
            }
            6..=8 => {
                if inbox.is_empty() { continue; }
                let i = r.below(inbox.len() as u64) as usize;
                let u = if r.chance(1, 4) { inbox[i].clone() } else { inbox.remove(i) };
                let v = leader.apply_v1(&u);
                what = format!("L apply remote #{} ({} bytes){}", i, u.len(), if v.is_err() { " ERR" } else { "" });
                interesting = true;
            }
            9 => { let ok = undo.undo_blocking(); what = format!("L undo -> {}", ok); }
            10 => { let ok = undo.redo_blocking(); what = format!("L redo -> {}", ok); }
            _ => { { let _txn = leader.doc.transact_mut(); } what = "L empty txn".into(); }
        }
        script.push(what.clone());
        let e1 = leader.drain1(); let e2 = leader.drain2();
        let (ids_after, del_after) = id_sets(&leader.doc);
        let changed = ids_before != ids_after || del_before != del_after;
        // minimal: the event carries no block that was integrated before the transaction (a block written again travels without
        // the delete set entries that came with it: whoever hears only this event sees deleted content alive)
        if let Some(ev) = e1.first() {
            use yrs::updates::decoder::Decode;
            if let Ok(u) = yrs::Update::decode_v1(ev) {
                let again: Vec<String> = u.insertions(true).iter().flat_map(|(c, rs)| { let c = c.get(); rs.iter().flat_map(move |r| (r.start..r.end).map(move |k| (c, k))).collect::<Vec<_>>() }).filter(|x| units_before.contains(x)).take(6).map(|(c, k)| format!("{:x}:{:x}", c, k)).collect();
                rep.count("events_checked_for_blocks_written_again");
                // the transcription of TransactionMut::encode_update (Crdt/WriteBlocks.v) on the leader's store, the ids the
                // transaction integrated and the ids it deleted writes the same event
                {
                    let units_after = unit_ids(&leader.doc);
                    let ranges = |set: Vec<(u64, u32)>| -> String { let mut by: std::collections::BTreeMap<u64, Vec<(u32, u32)>> = std::collections::BTreeMap::new(); for (c, k) in set { let v = by.entry(c).or_default(); match v.last_mut() { Some(l) if l.1 == k => l.1 = k + 1, _ => v.push((k, k + 1)) } }
                        if by.is_empty() { "_".into() } else { by.iter().map(|(c, rs)| format!("{:x}={}", c, rs.iter().map(|(a, b)| format!("{:x}-{:x}", a, b)).collect::<Vec<_>>().join(","))).collect::<Vec<_>>().join(";") } };
                    let ins = ranges(units_after.iter().filter(|x| !units_before.contains(x)).cloned().collect());
                    let parse = |s: &BTreeSet<String>| -> BTreeSet<(u64, u32)> { s.iter().filter_map(|x| { let mut p = x.split(':'); Some((u64::from_str_radix(p.next()?, 16).ok()?, u32::from_str_radix(p.next()?, 16).ok()?)) }).collect() };
                    let (db, da) = (parse(&del_before), parse(&del_after));
                    let ds = ranges(da.iter().filter(|x| !db.contains(x)).cloned().collect());
                    let whole = leader.doc.transact().encode_diff_v1(&yrs::StateVector::default());
                    let m = md.ask(&format!("WBF txn {} {} {}", crate::model::hex(&whole), ins, ds));
                    rep.count("events_compared_with_the_transcription_of_encode_update");
                    let mut it = m.split(' ');
                    match (it.next(), it.next()) {
                        (Some("ok"), Some(hx)) if *hx == crate::model::hex(ev) || md.ask(&format!("DEC update {}", hx)) == md.ask(&format!("DEC update {}", crate::model::hex(ev))) => {
                            // ... and the v2 event of the same transaction carries the same blocks and the same delete set
                            if let Some(ev2) = e2.first() {
                                let c = md.ask(&format!("DEC same12 {} {}", hx, crate::model::hex(ev2)));
                                rep.count("v2_events_compared_with_the_transcription_of_encode_update");
                                if c != "ok same" { disagreements.push(json!({"kind": "encode_update transcription vs the v2 event (DEC same12)", "step": step, "what": what, "answer": c.chars().take(700).collect::<String>(), "model_v1": hx, "impl_v2": crate::model::hex(ev2)})); }
                            }
                        }
                        _ => disagreements.push(json!({"kind": "encode_update transcription", "step": step, "what": what, "model": m.chars().take(400).collect::<String>(), "impl": crate::model::hex(ev), "ins": ins, "ds": ds})),
                    }
                }
                if !again.is_empty() { failures.push(json!({"class": "event-writes-blocks-again-that-were-integrated-before", "step": step, "what": what, "ids": again, "event": crate::model::hex(ev)})); }
            }
        }
        rep.count(if changed { "txns_changing" } else { "txns_not_changing" });
        if changed && (e1.len() != 1 || e2.len() != 1) {
            failures.push(json!({"class": "changed-but-event-count-wrong", "step": step, "what": what, "v1_events": e1.len(), "v2_events": e2.len(),
                "ids_before": ids_before, "ids_after": ids_after}));
        }
        if !changed && (!e1.is_empty() || !e2.is_empty()) {
            failures.push(json!({"class": "nothing-changed-but-event-emitted", "step": step, "what": what, "v1_events": e1.len(), "v2_events": e2.len(), "event": e1.get(0).map(|x| hex(x))}));
        }
        for u in &e1 {
            if let Err(e) = f1.apply_v1(u) { failures.push(json!({"class": "v1-event-rejected", "step": step, "error": e, "event": hex(u)})); }
            let a = md.ask(&format!("D apply mf {}", hex(u)));
            if !a.starts_with("ok") { disagreements.push(json!({"kind": "model-decode-event", "model": a, "event": hex(u)})); }
        }
        for u in &e2 { if let Err(e) = f2.apply_v2(u) { failures.push(json!({"class": "v2-event-rejected", "step": step, "error": e, "event": hex(u)})); } }
        f1.drain1(); f1.drain2(); f2.drain1(); f2.drain2();
        let (pl, p1, p2) = (public_dump(&leader.doc), public_dump(&f1.doc), public_dump(&f2.doc));
        if pl != p1 { failures.push(json!({"class": "v1-follower-differs", "step": step, "what": what, "leader": pl, "follower": p1,
            "leader_pending": leader.doc.transact().has_missing_updates(), "follower_pending": f1.doc.transact().has_missing_updates(), "events": e1.iter().map(|x| hex(x)).collect::<Vec<_>>()})); }
        if pl != p2 { failures.push(json!({"class": "v2-follower-differs", "step": step, "what": what, "leader": pl, "follower": p2})); }
        // equal means equal state, not only equal content: integrated ids, deleted ids, state vector
        if failures.is_empty() {
            let (li, ld) = id_sets(&leader.doc); let lsv = leader.doc.transact().state_vector();
            for (name, f) in [("v1", &f1), ("v2", &f2)] {
                let (fi, fd) = id_sets(&f.doc);
                if fi != li { failures.push(json!({"class": format!("{name}-follower-integrated-ids-differ"), "step": step, "what": what, "leader": li, "follower": fi})); }
                else if fd != ld { failures.push(json!({"class": format!("{name}-follower-deleted-ids-differ"), "step": step, "what": what, "leader_only": ld.difference(&fd).take(8).collect::<Vec<_>>(), "follower_only": fd.difference(&ld).take(8).collect::<Vec<_>>()})); }
                else if f.doc.transact().state_vector() != lsv { failures.push(json!({"class": format!("{name}-follower-state-vector-differs"), "step": step, "what": what})); }
            }
        }
        // model follower: what the v1 events carry, decoded by the Coq decoder, must reproduce the leader's integrated set
        if !gc {
            let vs = store_dump(&leader.doc);
            let imp = internal_dump(&vs);
            let m = md.ask("D state mf");
            let mn = if let Some(x) = m.strip_prefix("ok ") { normalize_model_dump(x) } else { m.clone() };
            let cut = |s: &str| -> String { match s.find(" |W ") { Some(i) => s[..i].to_string(), None => s.to_string() } };
            // the model follower integrates by dependency closure; equality is required when the leader has nothing pending
            if !leader.doc.transact().has_missing_updates() && cut(&mn) != cut(&imp) {
                disagreements.push(json!({"kind": "model-follower-differs", "step": step, "what": what, "leader": cut(&imp), "model_follower": mn, "script": script}));
            }
        }
        let _ = all_nogc;
        if !failures.is_empty() { break; }
    }
    rep.evaluations += 1;
    if interesting { rep.nontrivial_case(&format!("c07:{}", index)); }
    for mut f in failures { f["property"] = json!("C07"); f["case"] = json!({"stream": 107, "index": index, "seed": seed}); f["script"] = json!(script); f["leader_gc"] = json!(gc); f["leader_cleanup"] = json!(cleanup); rep.fail(f); }
    for mut d in disagreements { d["case"] = json!({"stream": 107, "index": index, "seed": seed}); rep.disagree(d); }
    if rep.samples.len() < 3 && interesting { rep.sample(json!({"case": index, "leader_gc": gc, "script": script})); }
}

/// Fixed input found by the Coq transcription of commit (Crdt/Commit.v: the firing condition compared two cached state vectors): a
/// transaction that reads `after_state()` while it is still open and inserts afterwards must still emit its update.
fn fixed_inputs(rep: &mut Report) {
    use std::sync::{Arc, Mutex};
    use yrs::{GetString, Text, Transact};
    use yrs::updates::decoder::Decode;
    rep.count("c07_fixed_inputs");
    let leader = mk_doc(2, DocCfg::default());
    let t = leader.get_or_insert_text("t");
    let log: Arc<Mutex<Vec<Vec<u8>>>> = Arc::new(Mutex::new(vec![])); let l2 = log.clone();
    let _sub = leader.observe_update_v1(move |_, e| l2.lock().unwrap().push(e.update.clone())).unwrap();
    { let mut txn = leader.transact_mut(); t.insert(&mut txn, 0, "a"); }
    { let mut txn = leader.transact_mut(); let _ = txn.after_state().clone(); t.insert(&mut txn, 1, "b"); }
    let follower = mk_doc(9, DocCfg::default());
    let ft = follower.get_or_insert_text("t");
    for u in log.lock().unwrap().iter() { if let Ok(up) = yrs::Update::decode_v1(u) { let _ = follower.transact_mut().apply_update(up); } }
    let (a, b) = (t.get_string(&leader.transact()), ft.get_string(&follower.transact()));
    if a != b { rep.fail(json!({"property": "C07", "class": "no-event-for-a-transaction-that-changed-the-document", "input": "fixed: a transaction reads after_state() and inserts afterwards", "leader": a, "follower_fed_by_the_events": b, "events": log.lock().unwrap().len(), "case": {"stream": 108, "index": 0}})); }
}

pub fn run(tier: &str, seed: u64, workers: usize) -> Report {
    let n = if tier == "thorough" { 80000 } else { 12000 };
    let mut total = parallel(workers, |w, nw| {
        let mut rep = Report::default();
        if w == 0 { if let Err(e) = catch(std::panic::AssertUnwindSafe(|| fixed_inputs(&mut rep))) { rep.fail(json!({"property": "C07", "class": "panic", "error": e, "case": {"stream": 108, "index": 0}})); } }
        for ci in 0..n {
            if ci as usize % nw != w { continue; }
            let res = catch(std::panic::AssertUnwindSafe(|| { let mut r2 = Report::default(); let mut m2 = Model::spawn(); run_case(seed, ci, &mut m2, &mut r2); r2 }));
            match res {
                Ok(r2) => rep.merge(r2),
                Err(e) => { rep.evaluations += 1; rep.fail(json!({"property": "C07", "class": "panic", "error": e, "case": {"stream": 107, "index": ci, "seed": seed}})); }
            }
        }
        rep
    });
    total.notes.push("leader with v1+v2 update observers; transactions: local edits over all types, remote updates from two other replicas (any order, duplicates, partially known), undo/redo, empty transactions; followers fed only by the v1 / v2 stream compared (public content) after every leader transaction; a model follower fed by the v1 stream through the Coq decoder compared at item level (leader without gc); event count checked against whether the transaction changed the integrated id set or the deleted id set".into());
    total
}
