//! TransactionMut::apply_delete on real stores (block lists with Skip holes from out-of-order delivery) against its
//! transcription (Crdt/ApplyDelete.v): block lists (clock, length, kind) right after the delete set has been applied -
//! inside the transaction, before the commit squashes anything - and the unapplied rest (Store::pending_ds).
use crate::model::{hex, Model};
use crate::report::Report;
use crate::rng::Rng;
use crate::sim::*;
use serde_json::json;
use yrs::updates::decoder::Decode;
use yrs::updates::encoder::{Encode, Encoder, EncoderV1};
use yrs::verif::{dump_store, VBlock, VStore};
use yrs::{IdSet, ReadTxn, Transact, Update, ID};
use yrs::block::ClientID;
use yrs::encoding::write::Write;

fn store_string(vs: &VStore) -> String {
    let cs: Vec<String> = vs.blocks.iter().filter(|(_, bs)| !bs.is_empty()).map(|(c, bs)| format!("{:x}={}", c, bs.iter().map(|b| match b {
        VBlock::Item(it) => format!("{:x}.{:x}.{}", it.id.clock, it.len, if it.deleted { "D" } else { "L" }),
        VBlock::GC(id, len) => format!("{:x}.{:x}.G", id.clock, len),
        VBlock::Skip(id, len) => format!("{:x}.{:x}.S", id.clock, len) }).collect::<Vec<_>>().join(","))).collect();
    if cs.is_empty() { "_".into() } else { let mut cs = cs; cs.sort_by_key(|s| { let c = s.split('=').next().unwrap().to_string(); (c.len(), c) }); cs.join(";") }
}
fn ds_string(ds: &[(u64, Vec<(u32, u32)>)]) -> String {
    let mut cs: Vec<(u64, String)> = ds.iter().filter(|(_, r)| !r.is_empty()).map(|(c, rs)| (*c, format!("{:x}={}", c, rs.iter().map(|(a, b)| format!("{:x}-{:x}", a, b)).collect::<Vec<_>>().join(",")))).collect();
    cs.sort(); if cs.is_empty() { "_".into() } else { cs.into_iter().map(|x| x.1).collect::<Vec<_>>().join(";") }
}
fn idset_ranges(s: &IdSet) -> Vec<(u64, Vec<(u32, u32)>)> {
    let mut v: Vec<(u64, Vec<(u32, u32)>)> = s.iter().map(|(c, rs)| (c.get(), rs.iter().map(|r| (r.start, r.end)).collect())).collect(); v.sort(); v
}

pub fn case(seed: u64, index: u64, md: &mut Model, rep: &mut Report) {
    let mut r = Rng::for_case(seed, 130, index);
    let n = r.range(2, 3) as usize;
    let reps: Vec<Replica> = (0..n).map(|i| Replica::new([1u64, 2, 3][i], DocCfg::default())).collect();
    let ecfg = EditCfg { text: true, array: true, map: true, xml: false, nested: false, formatting: false, deletes: true };
    let mut msgs: Vec<(usize, Vec<u8>)> = vec![]; let mut delivered: Vec<Vec<bool>> = vec![vec![]; n];
    let mut tag = 0u64; let mut script = vec![];
    for _ in 0..r.range(5, 14) {
        let i = r.below(n as u64) as usize;
        let cand: Vec<usize> = (0..msgs.len()).filter(|m| !delivered[i][*m]).collect();
        if cand.is_empty() || r.chance(3, 5) {
            let mut sc = vec![]; let (u1, _) = local_txn(&reps[i], &mut r, &ecfg, false, 2, &mut sc, &mut tag);
            if let Some(u) = u1.into_iter().next() { msgs.push((i, u)); for (j, d) in delivered.iter_mut().enumerate() { d.push(j == i); } script.push(format!("r{} txn {{{}}}", i, sc.join("; "))); }
        } else { let m = *r.pick(&cand); let _ = reps[i].apply_v1(&msgs[m].1); reps[i].drain1(); reps[i].drain2(); delivered[i][m] = true; script.push(format!("r{} <- msg{}", i, m)); }
    }
    let i = r.below(n as u64) as usize;
    let before = store_dump(&reps[i].doc);
    rep.evaluations += 1;
    if before.has_pending || before.has_pending_ds { rep.count("apply_delete_cases_skipped_receiver_has_a_stash"); return; }
    // the delete set: the one of a message the replica has not seen, or ranges around what it knows (inside blocks, over holes,
    // beyond the clock, unknown clients)
    let undel: Vec<usize> = (0..msgs.len()).filter(|m| !delivered[i][*m]).collect();
    let mut ds = IdSet::new();
    if !undel.is_empty() && r.chance(1, 2) { if let Ok(u) = Update::decode_v1(&msgs[*r.pick(&undel)].1) { ds = u.delete_set().clone(); } }
    if ds.is_empty() {
        for _ in 0..r.range(1, 3) {
            let c = if r.chance(1, 8) { 99 } else { [1u64, 2, 3][r.below(n as u64) as usize] };
            let top = before.blocks.iter().find(|(cc, _)| *cc == c).map(|(_, bs)| bs.iter().map(|b| match b { VBlock::Item(it) => it.id.clock + it.len, VBlock::GC(id, l) | VBlock::Skip(id, l) => id.clock + l }).max().unwrap_or(0)).unwrap_or(0);
            for _ in 0..r.range(1, 3) { let s = r.below(top as u64 + 4) as u32; ds.insert(ID::new(ClientID::new(c), s), r.range(1, 6) as u32); }
        }
    }
    let ds_r = idset_ranges(&ds);
    let bytes = { let mut enc = EncoderV1::new(); enc.write_var(0u32); ds.encode(&mut enc); enc.to_vec() };
    let (after, pending) = { let mut txn = reps[i].doc.transact_mut(); let res = txn.apply_update(Update::decode_v1(&bytes).unwrap()); let vs = dump_store(&txn); if let Err(e) = res { rep.fail(json!({"property": "C01", "class": "apply-delete-error", "error": e.to_string(), "case": {"stream": 130, "index": index, "seed": seed}})); return; } (store_string(&vs), ds_string(&vs.pending_ds)) };
    let m = md.ask(&format!("ADL apply {} {}", store_string(&before), ds_string(&ds_r)));
    rep.count("apply_delete_compared_with_the_transcription");
    if before.blocks.iter().any(|(_, bs)| bs.iter().any(|b| matches!(b, VBlock::Skip(..)))) { rep.count("apply_delete_on_stores_with_holes"); rep.nontrivial_case(&format!("adl:{}", index)); }
    if pending != "_" { rep.count("apply_delete_with_an_unapplied_rest"); }
    let want = format!("ok {} | {}", after, pending);
    if !m.starts_with(&want) || !m.contains("wf=1") || !m.contains("ds=1") {
        rep.disagree(json!({"kind": "apply_delete transcription", "model": m, "impl": want, "before": store_string(&before), "delete_set": ds_string(&ds_r), "script": script, "case": {"stream": 130, "index": index, "seed": seed}}));
    }
    let _ = hex(&bytes);
}
