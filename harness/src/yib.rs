//! Item::integrate at block level (Crdt/YataBlocks.v) against the implementation: editor sessions on the root text and the root
//! array (multi-unit blocks, concurrent runs with the same origin, insertions into the middle of blocks). For every local
//! insertion and every delivered update that consists of exactly one sequence item the extracted transcription - fed the
//! replica's block sequence BEFORE the step and the incoming block - must place every unit where the implementation has it
//! afterwards (compared unit by unit, tombstones included, because the commit squashes blocks again).
use crate::model::{hex, Model};
use crate::report::Report;
use crate::rng::Rng;
use crate::sim::*;
use serde_json::json;
use yrs::types::text::YChange;
use yrs::verif::{VParent, VStore};
use yrs::{Any, Array, ReadTxn, StateVector, Text, Transact};

fn seq_of<'a>(vs: &'a VStore, root: &str) -> Option<&'a yrs::verif::VBranch> { vs.branches.iter().find(|b| matches!(&b.id, VParent::Root(n) if n == root)) }
fn seq_ids(vs: &VStore, root: &str) -> String {
    match seq_of(vs, root) { Some(b) if !b.seq.is_empty() => b.seq.iter().map(|i| format!("{:x}:{:x}", i.id.client.get(), i.id.clock)).collect::<Vec<_>>().join(","), _ => "_".to_string() }
}
/// every unit with its deletedness, origin and right origin (units inside a block: origin = the unit before, right origin = the block's)
fn units_with_origins(vs: &VStore, root: &str) -> String {
    let p = |o: &Option<yrs::ID>| match o { Some(i) => format!("{:x}:{:x}", i.client.get(), i.clock), None => "-".to_string() };
    match seq_of(vs, root) { Some(b) => b.seq.iter().flat_map(|i| { let (c, k0) = (i.id.client.get(), i.id.clock); let (o, r, d) = (p(&i.origin), p(&i.right_origin), i.deleted);
        (0..i.len).map(move |j| format!("{:x}:{:x}{}{}/{}", c, k0 + j, if d { "-" } else { "+" }, if j == 0 { o.clone() } else { format!("{:x}:{:x}", c, k0 + j - 1) }, r)) }).collect::<Vec<_>>().join(","), None => String::new() }
}
fn units(vs: &VStore, root: &str) -> String {
    match seq_of(vs, root) { Some(b) => b.seq.iter().flat_map(|i| (0..i.len).map(move |j| format!("{:x}:{:x}{}", i.id.client.get(), i.id.clock + j, if i.deleted { "-" } else { "+" }))).collect::<Vec<_>>().join(","), None => String::new() }
}

pub fn case(seed: u64, index: u64, md: &mut Model, rep: &mut Report) {
    let mut r = Rng::for_case(seed, 140, index);
    let n = r.range(2, 3) as usize;
    let gc = r.chance(1, 3);
    let reps: Vec<Replica> = (0..n).map(|i| Replica::new([1u64, 2, 3][i], DocCfg { gc, ..DocCfg::default() })).collect();
    let mut msgs: Vec<Vec<Vec<u8>>> = vec![vec![]; n];            // per author, in order
    let mut next: Vec<Vec<usize>> = vec![vec![0; n]; n];           // next[receiver][author]
    let mut cursor: Vec<(u32, u32)> = vec![(0, 0); n];
    let mut script: Vec<String> = vec![];
    let alphabet = ["a", "b", "c", "é", "中", "😀", "x", "y"];
    for step in 0..r.range(8, 26) {
        let i = r.below(n as u64) as usize;
        let deliverable: Vec<usize> = (0..n).filter(|a| *a != i && next[i][*a] < msgs[*a].len()).collect();
        let vs0 = store_dump(&reps[i].doc);
        let whole = reps[i].doc.transact().encode_diff_v1(&StateVector::default());
        let pending0 = vs0.has_pending || vs0.has_pending_ds;
        let (t, a) = (reps[i].doc.get_or_insert_text(ROOT_TEXT), reps[i].doc.get_or_insert_array(ROOT_ARRAY));
        let update: Vec<u8>; let what: String;
        let mut array_op: Option<(bool, u32, u32)> = None;   // (insert?, index, length) of a local call on the root array
        if r.chance(3, 5) || deliverable.is_empty() {
            reps[i].drain1();
            let on_text = r.chance(1, 2);
            {
                let mut txn = reps[i].doc.transact_mut();
                if on_text {
                    let pos = text_positions(&t.diff(&txn, YChange::identity), &txn, false);
                    // mostly continue at the cursor (runs with chained origins), sometimes jump
                    let at = if r.chance(2, 3) && pos.contains(&cursor[i].0) { cursor[i].0 } else { *r.pick(&pos) };
                    if r.chance(1, 5) && pos.len() > 1 {
                        let k = r.below(pos.len() as u64 - 1) as usize; let l = r.range(1, (pos.len() - 1 - k).min(3) as u64) as usize;
                        t.remove_range(&mut txn, pos[k], pos[k + l] - pos[k]); what = format!("r{} t.remove({},{})", i, pos[k], pos[k + l] - pos[k]);
                    } else {
                        let s: String = (0..r.range(1, 4)).map(|_| *r.pick(&alphabet)).collect();
                        t.insert(&mut txn, at, &s); cursor[i].0 = at + s.encode_utf16().count() as u32; what = format!("r{} t.insert({},{:?})", i, at, s);
                    }
                } else {
                    let len = a.len(&txn);
                    let at = if r.chance(2, 3) && cursor[i].1 <= len { cursor[i].1 } else { r.below(len as u64 + 1) as u32 };
                    if r.chance(1, 5) && len > 0 {
                        let k = r.below(len as u64) as u32; let l = r.range(1, (len - k).min(3) as u64) as u32;
                        a.remove_range(&mut txn, k, l); what = format!("r{} a.remove({},{})", i, k, l); array_op = Some((false, k, l));
                    } else {
                        let cnt = r.range(1, 3) as u32;
                        let vals: Vec<Any> = (0..cnt).map(|j| Any::from((step * 10 + j as u64) as f64)).collect();
                        a.insert_range(&mut txn, at, vals); cursor[i].1 = at + cnt; what = format!("r{} a.insert({},{} values)", i, at, cnt); array_op = Some((true, at, cnt));
                    }
                }
            }
            match reps[i].drain1().into_iter().next() { Some(u) => { update = u.clone(); msgs[i].push(u); next[i][i] = msgs[i].len(); } None => { reps[i].drain2(); continue; } }
            reps[i].drain2();
        } else {
            let au = *r.pick(&deliverable);
            update = msgs[au][next[i][au]].clone(); next[i][au] += 1;
            what = format!("r{} <- r{}#{}", i, au, next[i][au] - 1);
            let _ = reps[i].apply_v1(&update); reps[i].drain1(); reps[i].drain2();
        }
        script.push(what.clone());
        let vs1 = store_dump(&reps[i].doc);
        rep.count("yib_steps");
        // ---- the cursor (Crdt/BlockIter.v): Array::insert / remove_range through BlockIter::try_forward, split_rel, insert_contents,
        // delete - fed the array's block sequence before the call, the transcription must produce the sequence the implementation has
        // afterwards: every unit with its deletedness, origin and right origin, and the cached length
        if let Some((ins, at, len)) = array_op {
            let clen0 = seq_of(&vs0, ROOT_ARRAY).map(|b| b.content_len).unwrap_or(0);
            let cmd = if ins { format!("BIT ins {} {} {:x} {:x} {}", hex(&whole), seq_ids(&vs0, ROOT_ARRAY), clen0, at, hex(&update)) } else { format!("BIT rem {} {} {:x} {:x} {:x}", hex(&whole), seq_ids(&vs0, ROOT_ARRAY), clen0, at, len) };
            let ans = md.ask(&cmd);
            if !ans.starts_with("skip") {
                rep.count(if ins { "bit_array_inserts_compared_with_the_transcription" } else { "bit_array_removals_compared_with_the_transcription" });
                let want = format!("ok {} clen={:x}", units_with_origins(&vs1, ROOT_ARRAY), seq_of(&vs1, ROOT_ARRAY).map(|b| b.content_len).unwrap_or(0));
                let got = ans.split(" ok=").next().unwrap_or("").to_string();
                if got != want { rep.disagree(json!({"kind": "cursor transcription (BIT)", "model": ans.chars().take(900).collect::<String>(), "impl": want.chars().take(900).collect::<String>(), "step": what, "command": cmd.chars().take(1200).collect::<String>(), "script": script, "case": {"stream": 140, "index": index, "seed": seed}})); }
                else if !(ans.contains(" ok=1") && ans.contains("ncd=1")) { rep.disagree(json!({"kind": "a reachable array is outside the hypotheses of bit_insert_refines_units", "answer": ans.chars().rev().take(16).collect::<String>().chars().rev().collect::<String>(), "step": what})); }
            }
        }
        if pending0 || vs1.has_pending || vs1.has_pending_ds { rep.count("yib_steps_with_a_stash_skipped"); continue; }
        // which root sequence received units
        let changed: Vec<&str> = [ROOT_TEXT, ROOT_ARRAY].into_iter().filter(|root| {
            let ids = |vs: &VStore| seq_of(vs, root).map(|b| b.seq.iter().map(|x| x.len).sum::<u32>()).unwrap_or(0);
            ids(&vs0) != ids(&vs1) }).collect();
        if changed.len() != 1 { rep.count("yib_steps_without_a_new_block"); continue; }
        let root = changed[0];
        let ans = md.ask(&format!("YIB step {} {} {}", hex(&whole), seq_ids(&vs0, root), hex(&update)));
        if ans.starts_with("skip") { rep.count("yib_steps_not_a_single_sequence_item"); continue; }
        rep.count("yib_integrations_compared_with_the_block_level_transcription");
        let want = units(&vs1, root);
        let mut it = ans.split(' ');
        match (it.next(), it.next()) {
            (Some("ok"), Some(u)) if u == want => {
                if ans.contains("seq_ok=1") && ans.contains("fresh=1") { rep.count("yib_integrations_within_the_hypotheses_of_yib_integrate_refines_units"); }
                else { rep.disagree(json!({"kind": "a reachable sequence / incoming block is outside the hypotheses of yib_integrate_refines_units", "answer": ans.chars().rev().take(24).collect::<String>().chars().rev().collect::<String>(), "step": what, "script": script, "case": {"stream": 140, "index": index, "seed": seed}})); }
                if seq_of(&vs0, root).map_or(false, |b| b.seq.iter().any(|x| x.len > 1)) { rep.count("yib_integrations_into_sequences_with_multi_unit_blocks"); }
            }
            _ => rep.disagree(json!({"kind": "block-level integration (YIB step)", "model": ans.chars().take(800).collect::<String>(), "impl": want, "root": root, "step": what, "store": hex(&whole), "sequence": seq_ids(&vs0, root), "update": hex(&update), "script": script, "case": {"stream": 140, "index": index, "seed": seed}})),
        }
    }
    rep.evaluations += 1;
    rep.nontrivial_case(&format!("yib:{}", index));
}
