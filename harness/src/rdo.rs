//! Undo / redo over NESTED scopes against the Coq transcription of ItemPtr::redo (Crdt/Redo.v, runner RDO run): random histories of
//! capture steps (one or two calls, one or two transactions), transactions of another origin, undo and redo over a root array and a
//! root map in scope (nested arrays / maps up to depth 3) and a root array outside the scope; after EVERY action the recursive
//! rendering of the three roots must be what the model renders. (World, Op, Act and the renderer are the driver the sub-agent
//! that wrote the model used for its agreement runs, notes/rdo_nested.rs.)
#![allow(dead_code)]
use crate::model::Model;
use crate::report::Report;
use crate::rng::Rng;
use serde_json::json;
use yrs::undo::Options as UOptions;
use yrs::{
    Any, Array, ArrayPrelim, ArrayRef, Doc, Map, MapPrelim, MapRef, Options, Out, ReadTxn,
    Transact, UndoManager,
};

#[derive(Clone, Debug, PartialEq)]
enum StepK {
    Idx(u32),
    Key(u32),
}
#[derive(Clone, Debug, PartialEq)]
enum Cnt {
    Val(u32),
    Type(u32), // 0 = array, 1 = map
}
#[derive(Clone, Debug, PartialEq)]
enum Op {
    Ins(u32, Vec<StepK>, u32, Cnt),
    Del(u32, Vec<StepK>, u32),
    Set(u32, Vec<StepK>, u32, Cnt),
    Rem(u32, Vec<StepK>, u32),
}
#[derive(Clone, Debug, PartialEq)]
enum Act {
    Step(Vec<Vec<Op>>),
    Other(Vec<Op>),
    Undo,
    Redo,
}

// roots: 0 = array "r0" (scope), 1 = map "r1" (scope), 2 = array "r2" (outside the scope)
struct World {
    doc: Doc,
    a: ArrayRef,
    m: MapRef,
    x: ArrayRef,
    mgr: UndoManager,
}

fn key_name(k: u32) -> String {
    format!("k{}", k)
}

impl World {
    fn new(skip_gc: bool) -> World {
        let mut o = Options::with_client_id(yrs::block::ClientID::new(1));
        o.skip_gc = skip_gc;
        let doc = Doc::with_options(o);
        let a = doc.get_or_insert_array("r0");
        let m = doc.get_or_insert_map("r1");
        let x = doc.get_or_insert_array("r2");
        let mut uo = UOptions::default();
        uo.capture_timeout_millis = 1_000_000_000;
        let mut mgr = UndoManager::with_options(uo);
        mgr.expand_scope(&doc, &a);
        mgr.expand_scope(&doc, &m);
        World { doc, a, m, x, mgr }
    }

    fn root(&self, r: u32) -> Out {
        match r {
            0 => Out::YArray(self.a.clone()),
            1 => Out::YMap(self.m.clone()),
            _ => Out::YArray(self.x.clone()),
        }
    }

    fn resolve<T: ReadTxn>(&self, txn: &T, r: u32, path: &[StepK]) -> Option<Out> {
        let mut cur = self.root(r);
        for s in path {
            let next = match (s, &cur) {
                (StepK::Idx(n), Out::YArray(a)) => a.get(txn, *n),
                (StepK::Key(k), Out::YMap(m)) => m.get(txn, &key_name(*k)),
                _ => None,
            };
            match next {
                Some(Out::YArray(a)) => cur = Out::YArray(a),
                Some(Out::YMap(m)) => cur = Out::YMap(m),
                _ => return None,
            }
        }
        Some(cur)
    }

    // returns false when the call is not well-typed here (the model is then not comparable)
    fn apply_ops(&mut self, ops: &[Op], origin: Option<&str>) -> bool {
        let mut txn = match origin {
            Some(o) => self.doc.transact_mut_with(o),
            None => self.doc.transact_mut(),
        };
        let mut ok = true;
        for op in ops {
            match op {
                Op::Ins(r, p, pos, c) => match self.resolve(&txn, *r, p) {
                    Some(Out::YArray(a)) => {
                        let pos = (*pos).min(a.len(&txn));
                        match c {
                            Cnt::Val(v) => {
                                a.insert(&mut txn, pos, Any::BigInt(*v as i64));
                            }
                            Cnt::Type(0) => {
                                a.insert(&mut txn, pos, ArrayPrelim::default());
                            }
                            Cnt::Type(_) => {
                                a.insert(&mut txn, pos, MapPrelim::default());
                            }
                        }
                    }
                    Some(_) => ok = false,
                    None => {}
                },
                Op::Del(r, p, pos) => match self.resolve(&txn, *r, p) {
                    Some(Out::YArray(a)) => {
                        if *pos < a.len(&txn) {
                            a.remove(&mut txn, *pos);
                        }
                    }
                    Some(_) => ok = false,
                    None => {}
                },
                Op::Set(r, p, k, c) => match self.resolve(&txn, *r, p) {
                    Some(Out::YMap(m)) => match c {
                        Cnt::Val(v) => {
                            m.insert(&mut txn, key_name(*k), Any::BigInt(*v as i64));
                        }
                        Cnt::Type(0) => {
                            m.insert(&mut txn, key_name(*k), ArrayPrelim::default());
                        }
                        Cnt::Type(_) => {
                            m.insert(&mut txn, key_name(*k), MapPrelim::default());
                        }
                    },
                    Some(_) => ok = false,
                    None => {}
                },
                Op::Rem(r, p, k) => match self.resolve(&txn, *r, p) {
                    Some(Out::YMap(m)) => {
                        m.remove(&mut txn, &key_name(*k));
                    }
                    Some(_) => ok = false,
                    None => {}
                },
            }
        }
        txn.commit();
        ok
    }

    fn act(&mut self, a: &Act) -> bool {
        match a {
            Act::Step(txns) => {
                self.mgr.reset();
                let mut ok = true;
                for ops in txns {
                    ok &= self.apply_ops(ops, None);
                }
                ok
            }
            Act::Other(ops) => self.apply_ops(ops, Some("other")),
            Act::Undo => {
                self.mgr.undo_blocking();
                true
            }
            Act::Redo => {
                self.mgr.redo_blocking();
                true
            }
        }
    }

    fn render_out<T: ReadTxn>(&self, txn: &T, o: &Out, out: &mut Vec<u64>, top: bool) {
        match o {
            Out::Any(Any::BigInt(v)) => {
                out.push(0);
                out.push(*v as u64);
            }
            Out::Any(Any::Number(v)) => {
                out.push(0);
                out.push(*v as u64);
            }
            Out::YArray(a) => {
                if !top {
                    out.push(1);
                    out.push(0);
                }
                for i in 0..a.len(txn) {
                    let c = a.get(txn, i).unwrap();
                    self.render_out(txn, &c, out, false);
                }
                out.push(2);
                out.push(3);
            }
            Out::YMap(m) => {
                if !top {
                    out.push(1);
                    out.push(1);
                }
                out.push(2);
                let mut keys: Vec<String> = m.keys(txn).map(|k| k.to_string()).collect();
                keys.sort();
                for k in keys {
                    let c = m.get(txn, &k).unwrap();
                    out.push(k[1..].parse::<u64>().unwrap());
                    self.render_out(txn, &c, out, false);
                }
                out.push(3);
            }
            other => panic!("unexpected value {:?}", other),
        }
    }

    fn render(&self) -> Vec<Vec<u64>> {
        let txn = self.doc.transact();
        (0..3)
            .map(|r| {
                let mut v = Vec::new();
                self.render_out(&txn, &self.root(r), &mut v, true);
                v
            })
            .collect()
    }

    // the containers visible below the roots 0 and 1 (and 2 when `all`): (root, path, is_map, len)
    fn containers(&self, all: bool) -> Vec<(u32, Vec<StepK>, bool, u32)> {
        let txn = self.doc.transact();
        let mut res = Vec::new();
        let mut todo: Vec<(u32, Vec<StepK>, Out)> = vec![
            (0, vec![], self.root(0)),
            (1, vec![], self.root(1)),
        ];
        if all {
            todo.push((2, vec![], self.root(2)));
        }
        while let Some((r, p, o)) = todo.pop() {
            match &o {
                Out::YArray(a) => {
                    let len = a.len(&txn);
                    res.push((r, p.clone(), false, len));
                    for i in 0..len {
                        let c = a.get(&txn, i).unwrap();
                        if matches!(c, Out::YArray(_) | Out::YMap(_)) {
                            let mut q = p.clone();
                            q.push(StepK::Idx(i));
                            todo.push((r, q, c));
                        }
                    }
                }
                Out::YMap(m) => {
                    res.push((r, p.clone(), true, 0));
                    for k in 0..2u32 {
                        if let Some(c) = m.get(&txn, &key_name(k)) {
                            if matches!(c, Out::YArray(_) | Out::YMap(_)) {
                                let mut q = p.clone();
                                q.push(StepK::Key(k));
                                todo.push((r, q, c));
                            }
                        }
                    }
                }
                _ => {}
            }
        }
        res.sort_by(|x, y| format!("{:?}", (x.0, &x.1)).cmp(&format!("{:?}", (y.0, &y.1))));
        res
    }

    fn has_key(&self, r: u32, p: &[StepK], k: u32) -> bool {
        let txn = self.doc.transact();
        match self.resolve(&txn, r, p) {
            Some(Out::YMap(m)) => m.get(&txn, &key_name(k)).is_some(),
            _ => false,
        }
    }

    // the calls that make sense in the current state; `tok` = value token for new values
    fn calls(&self, tok: u32, all_roots: bool, small: bool) -> Vec<Op> {
        let mut res = Vec::new();
        for (r, p, is_map, len) in self.containers(all_roots) {
            if p.len() > 2 {
                continue;
            }
            if !is_map {
                let positions: Vec<u32> = if small && len > 1 { vec![0, len] } else { (0..=len).collect() };
                for pos in positions {
                    res.push(Op::Ins(r, p.clone(), pos, Cnt::Val(tok)));
                    if p.len() < 2 {
                        res.push(Op::Ins(r, p.clone(), pos, Cnt::Type(0)));
                        res.push(Op::Ins(r, p.clone(), pos, Cnt::Type(1)));
                    }
                }
                for pos in 0..len {
                    res.push(Op::Del(r, p.clone(), pos));
                }
            } else {
                let keys: u32 = if small { 1 } else { 2 };
                for k in 0..keys {
                    res.push(Op::Set(r, p.clone(), k, Cnt::Val(tok)));
                    if p.len() < 2 {
                        res.push(Op::Set(r, p.clone(), k, Cnt::Type(0)));
                        res.push(Op::Set(r, p.clone(), k, Cnt::Type(1)));
                    }
                    if self.has_key(r, &p, k) {
                        res.push(Op::Rem(r, p.clone(), k));
                    }
                }
            }
        }
        res
    }
}


fn p_path(p: &[StepK]) -> String { if p.is_empty() { "_".to_string() } else { p.iter().map(|s| match s { StepK::Idx(n) => format!("i{:x}", n), StepK::Key(k) => format!("k{:x}", k) }).collect::<Vec<_>>().join("/") } }
fn p_cnt(c: &Cnt) -> String { match c { Cnt::Val(v) => format!("v{:x}", v), Cnt::Type(k) => format!("t{:x}", k) } }
fn p_op(o: &Op) -> String { match o {
    Op::Ins(r, p, pos, c) => format!("I.{:x}.{}.{:x}.{}", r, p_path(p), pos, p_cnt(c)), Op::Del(r, p, pos) => format!("D.{:x}.{}.{:x}", r, p_path(p), pos),
    Op::Set(r, p, k, c) => format!("E.{:x}.{}.{:x}.{}", r, p_path(p), k, p_cnt(c)), Op::Rem(r, p, k) => format!("M.{:x}.{}.{:x}", r, p_path(p), k) } }
fn p_ops(ops: &[Op]) -> String { if ops.is_empty() { "_".to_string() } else { ops.iter().map(p_op).collect::<Vec<_>>().join(",") } }
fn p_act(a: &Act) -> String { match a { Act::Step(t) => format!("S{}", t.iter().map(|x| p_ops(x)).collect::<Vec<_>>().join("|")), Act::Other(o) => format!("O{}", p_ops(o)), Act::Undo => "U".to_string(), Act::Redo => "R".to_string() } }

pub fn case(seed: u64, index: u64, md: &mut Model, rep: &mut Report) {
    let mut r = Rng::for_case(seed, 125, index);
    let len = r.range(6, 14) as usize;
    let other = r.chance(1, 2); let multi = r.chance(1, 2); let bias = r.chance(1, 2);
    let gc = r.chance(1, 2);
    let mut h: Vec<Act> = vec![];
    while h.len() < len {
        let mut w = World::new(true);
        for a in h.iter() { w.act(a); }
        let tok = 10 + 3 * h.len() as u32;
        let roll = r.below(10);
        let a = if roll < 2 && w.mgr.can_undo() { Act::Undo } else if roll < 4 && w.mgr.can_redo() { Act::Redo }
            else if roll == 4 && other { let cs = w.calls(tok, true, false); Act::Other(vec![r.pick(&cs).clone()]) }
            else {
                let mut cs = w.calls(tok, other, false);
                if bias && r.chance(1, 3) { let dels: Vec<Op> = cs.iter().filter(|c| matches!(c, Op::Del(..) | Op::Rem(..))).cloned().collect(); if !dels.is_empty() { cs = dels; } }
                let c1 = r.pick(&cs).clone();
                if multi && r.chance(1, 3) {
                    let mut w2 = World::new(true); for a in h.iter() { w2.act(a); } w2.mgr.reset(); w2.apply_ops(&[c1.clone()], None);
                    let cs2 = w2.calls(tok + 1, other, false); let c2 = r.pick(&cs2).clone();
                    if r.chance(1, 2) { Act::Step(vec![vec![c1, c2]]) } else { Act::Step(vec![vec![c1], vec![c2]]) }
                } else { Act::Step(vec![vec![c1]]) }
            };
        h.push(a);
    }
    // the history on the implementation (collection on or off: the model has no collector, the renders must not depend on it)
    let mut w = World::new(!gc);
    let mut renders: Vec<String> = vec![]; let mut typed = true;
    for a in h.iter() { typed &= w.act(a); renders.push(w.render().iter().map(|v| v.iter().map(|x| format!("{:x}", x)).collect::<Vec<_>>().join(",")).collect::<Vec<_>>().join("|")); }
    rep.evaluations += 1;
    if !typed { rep.count("rdo_histories_with_an_ill_typed_call_skipped"); return; }
    let prog = h.iter().map(p_act).collect::<Vec<_>>().join(";");
    let ans = md.ask(&format!("RDO run 0,1 0,1,2 {}", prog));
    rep.count("rdo_nested_histories_compared_with_the_transcription"); rep.add("rdo_nested_actions_compared_with_the_transcription", h.len() as u64);
    if h.iter().any(|a| matches!(a, Act::Undo | Act::Redo)) { rep.nontrivial_case(&format!("rdo:{}", index)); }
    let want = format!("ok {}", renders.join(";"));
    if ans != want {
        // first action at which they differ
        let (ma, ia): (Vec<&str>, Vec<&str>) = (ans.strip_prefix("ok ").unwrap_or("").split(';').collect(), renders.iter().map(|s| s.as_str()).collect());
        let at = (0..ia.len()).find(|i| ma.get(*i) != Some(&ia[*i])).unwrap_or(ia.len());
        rep.disagree(json!({"kind": "nested undo / redo (RDO run)", "first_difference_after_action": at, "action": h.get(at).map(p_act), "model": ma.get(at), "impl": ia.get(at), "program": prog, "gc": gc, "case": {"stream": 125, "index": index, "seed": seed}}));
    }
}
