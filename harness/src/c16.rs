//! C16: IdRanges / IdSet / IdMap against (a) a bit-set oracle computed here and (b) the Coq model,
//! representation-exact.
use crate::model::Model;
use crate::report::{catch, parallel, Report};
use crate::rng::Rng;
use serde_json::json;
use std::ops::Range;
use yrs::block::{BlockRange, ClientID};
use yrs::verif::IdRanges;
use yrs::{ContentAttribute, Diff, IdMap, IdSet, ID};

type Bits = Vec<bool>;
type Cells = Vec<u8>; // per clock: bit mask of attributes (0 = absent)

fn bits_of(mask: u32, n: usize) -> Bits { (0..n).map(|i| mask >> i & 1 == 1).collect() }
fn canon_set(b: &Bits) -> Vec<Range<u32>> {
    let mut out = vec![]; let mut cur: Option<u32> = None;
    for (i, &x) in b.iter().enumerate() {
        match (x, cur) { (true, None) => cur = Some(i as u32), (false, Some(s)) => { out.push(s..i as u32); cur = None } _ => {} }
    }
    if let Some(s) = cur { out.push(s..b.len() as u32); }
    out
}
fn canon_cells(c: &Cells) -> Vec<(Range<u32>, u8)> {
    let mut out: Vec<(Range<u32>, u8)> = vec![];
    for (i, &m) in c.iter().enumerate() {
        if m == 0 { continue; }
        if let Some(last) = out.last_mut() { if last.0.end == i as u32 && last.1 == m { last.0.end += 1; continue; } }
        out.push((i as u32..i as u32 + 1, m));
    }
    out
}
fn pr_set(r: &[Range<u32>]) -> String {
    if r.is_empty() { return "_".into(); }
    r.iter().map(|x| format!("{:x}-{:x}", x.start, x.end)).collect::<Vec<_>>().join(",")
}
fn pr_idr(r: &IdRanges<()>) -> String { pr_set(&r.ranges().cloned().collect::<Vec<_>>()) }
fn mask_attrs(m: u8) -> Vec<u32> { (0..8).filter(|i| m >> i & 1 == 1).map(|i| i as u32 + 1).collect() }
fn pr_cells(r: &[(Range<u32>, u8)]) -> String {
    if r.is_empty() { return "_".into(); }
    r.iter().map(|(x, m)| format!("{:x}-{:x}:{}", x.start, x.end,
        mask_attrs(*m).iter().map(|a| format!("{:x}", a)).collect::<Vec<_>>().join("."))).collect::<Vec<_>>().join(",")
}
fn mk(r: &[Range<u32>]) -> IdRanges<()> { IdRanges::from_ranges(r.iter().cloned()) }
fn attr(i: u32) -> ContentAttribute<u32> { ContentAttribute::new(format!("a{}", i), i) }
fn client() -> ClientID { ClientID::new(7) }
fn mk_map(c: &Cells) -> IdMap<u32> {
    let mut m = IdMap::new();
    for (r, mask) in canon_cells(c) {
        m.insert(BlockRange::new(ID::new(client(), r.start), r.end - r.start), mask_attrs(mask).into_iter().map(attr).collect());
    }
    m
}
fn pr_map(m: &IdMap<u32>) -> String {
    let mut v: Vec<(Range<u32>, u8)> = vec![];
    for (_, ar) in m.iter() {
        let mut mask = 0u8;
        for a in ar.attrs.iter() { mask |= 1 << (*a.value() - 1); }
        v.push((ar.range.clone(), mask));
    }
    pr_cells(&v)
}
/// IdMap equality with a canonically built value also detects empty per-client entries
fn map_canonical(m: &IdMap<u32>, expect: &Cells) -> bool { *m == mk_map(expect) && pr_map(m) == pr_cells(&canon_cells(expect)) }

fn check(rep: &mut Report, md: &mut Model, what: &str, cmd: String, got: Result<String, String>, expect: String) {
    rep.evaluations += 1;
    let got_s = match &got { Ok(s) => format!("ok {}", s), Err(e) => format!("panic {}", e) };
    let m = md.ask(&cmd);
    if m != got_s && !(m.starts_with("panic") && got_s.starts_with("panic")) {
        rep.disagree(json!({"op": what, "cmd": cmd, "model": m, "impl": got_s}));
    }
    if got_s != format!("ok {}", expect) {
        rep.fail(json!({"op": what, "cmd": cmd, "impl": got_s, "expected_by_set_algebra": expect}));
    }
}

fn set_exhaustive(n: usize, w: usize, nw: usize) -> Report {
    let mut rep = Report::default();
    let mut md = Model::spawn();
    let total = 1u32 << n;
    for xm in 0..total {
        if xm as usize % nw != w { continue; }
        let x = bits_of(xm, n); let cx = canon_set(&x); let sx = pr_set(&cx);
        for ym in 0..total {
            let y = bits_of(ym, n); let cy = canon_set(&y); let sy = pr_set(&cy);
            let nontrivial = cx.len() >= 2 && cy.len() >= 1 && xm & ym != 0 && xm != ym;
            if nontrivial { rep.nontrivial_case(&format!("S{}|{}", sx, sy)); }
            let zip = |f: fn(bool, bool) -> bool| -> Bits { x.iter().zip(y.iter()).map(|(a, b)| f(*a, *b)).collect() };
            let (a, b) = (cx.clone(), cy.clone());
            check(&mut rep, &mut md, "merge", format!("R S merge {} {}", sx, sy),
                catch(move || { let mut r = mk(&a); r.merge(&mk(&b)); pr_idr(&r) }), pr_set(&canon_set(&zip(|a, b| a || b))));
            let (a, b) = (cx.clone(), cy.clone());
            check(&mut rep, &mut md, "exclude", format!("R S excl {} {}", sx, sy),
                catch(move || { let mut r = mk(&a); r.exclude(&mk(&b)); pr_idr(&r) }), pr_set(&canon_set(&zip(|a, b| a && !b))));
            let (a, b) = (cx.clone(), cy.clone());
            check(&mut rep, &mut md, "intersect", format!("R S isect {} {}", sx, sy),
                catch(move || { let mut r = mk(&a); r.intersect(&mk(&b)); pr_idr(&r) }), pr_set(&canon_set(&zip(|a, b| a && b))));
            let (a, b) = (cx.clone(), cy.clone());
            let sub = x.iter().zip(y.iter()).all(|(a, b)| !*a || *b);
            check(&mut rep, &mut md, "subset_of", format!("R S subset {} {}", sx, sy),
                catch(move || (if mk(&a).subset_of(&mk(&b)) { "1" } else { "0" }).to_string()), (if sub { "1" } else { "0" }).to_string());
            if rep.samples.len() < 2 && nontrivial { rep.sample(json!({"kind": "set pair", "a": sx, "b": sy})); }
        }
        for s in 0..n as u32 { for e in (s + 1)..=(n as u32) {
            let mut ins = x.clone(); let mut rem = x.clone();
            for k in s..e { ins[k as usize] = true; rem[k as usize] = false; }
            if cx.len() >= 2 { rep.nontrivial_case(&format!("SI{}|{}-{}", sx, s, e)); }
            let a = cx.clone();
            check(&mut rep, &mut md, "insert", format!("R S ins {} {:x} {:x}", sx, s, e),
                catch(move || { let mut r = mk(&a); r.insert(s..e); pr_idr(&r) }), pr_set(&canon_set(&ins)));
            let a = cx.clone();
            check(&mut rep, &mut md, "remove", format!("R S rem {} {:x} {:x}", sx, s, e),
                catch(move || { let mut r = mk(&a); r.remove(s..e); pr_idr(&r) }), pr_set(&canon_set(&rem)));
        } }
        for k in 0..=n as u32 {
            let a = cx.clone();
            let exp = (k as usize) < n && x[k as usize];
            check(&mut rep, &mut md, "contains_clock", format!("R S contains {} {:x}", sx, k),
                catch(move || (if mk(&a).contains_clock(k) { "1" } else { "0" }).to_string()), (if exp { "1" } else { "0" }).to_string());
        }
    }
    rep.count(&format!("set_universe_clocks_{}", n));
    rep
}

fn all_cells(n: usize) -> Vec<Cells> {
    let mut out = vec![vec![]];
    for _ in 0..n { let mut nx = vec![]; for c in &out { for m in 0..4u8 { let mut d: Cells = c.clone(); d.push(m); nx.push(d); } } out = nx; }
    out
}

fn map_exhaustive(n: usize, w: usize, nw: usize, stride: usize) -> Report {
    let mut rep = Report::default();
    let mut md = Model::spawn();
    let univ = all_cells(n);
    for (xi, x) in univ.iter().enumerate() {
        if xi % nw != w { continue; }
        let sx = pr_cells(&canon_cells(x));
        for (yi, y) in univ.iter().enumerate() {
            if stride > 1 && (xi * 31 + yi) % stride != 0 { continue; }
            let sy = pr_cells(&canon_cells(y));
            let ov = x.iter().zip(y.iter()).filter(|(a, b)| **a != 0 && **b != 0 && a != b).count();
            if ov > 0 { rep.nontrivial_case(&format!("M{}|{}", sx, sy)); }
            let (a, b) = (x.clone(), y.clone());
            let exp: Cells = x.iter().zip(y.iter()).map(|(a, b)| a | b).collect();
            let e2 = exp.clone();
            check(&mut rep, &mut md, "map.merge_with", format!("R M merge {} {}", sx, sy),
                catch(move || { let mut r = mk_map(&a); r.merge_with(mk_map(&b)); if !map_canonical(&r, &e2) { format!("{} (not canonical / != canonical build)", pr_map(&r)) } else { pr_map(&r) } }),
                pr_cells(&canon_cells(&exp)));
            let (a, b) = (x.clone(), y.clone());
            let exp: Cells = x.iter().zip(y.iter()).map(|(a, b)| if *a != 0 && *b != 0 { a | b } else { 0 }).collect();
            let e2 = exp.clone();
            check(&mut rep, &mut md, "map.intersect_with", format!("R M isect {} {}", sx, sy),
                catch(move || { let mut r = mk_map(&a); r.intersect_with(&mk_map(&b)); if !map_canonical(&r, &e2) { format!("{} (not canonical / != canonical build)", pr_map(&r)) } else { pr_map(&r) } }),
                pr_cells(&canon_cells(&exp)));
            let (a, b) = (x.clone(), y.clone());
            let exp: Cells = x.iter().zip(y.iter()).map(|(a, b)| if *b != 0 { 0 } else { *a }).collect();
            let e2 = exp.clone();
            check(&mut rep, &mut md, "map.diff_with", format!("R M excl {} {}", sx, sy),
                catch(move || { let mut r = mk_map(&a); r.diff_with(&mk_map(&b)); if !map_canonical(&r, &e2) { format!("{} (not canonical / != canonical build)", pr_map(&r)) } else { pr_map(&r) } }),
                pr_cells(&canon_cells(&exp)));
            if rep.samples.len() < 2 && ov > 0 { rep.sample(json!({"kind": "map pair", "a": sx, "b": sy})); }
        }
        for s in 0..n as u32 { for e in (s + 1)..=(n as u32) {
            for m in 1..4u8 {
                let mut ins = x.clone(); for k in s..e { ins[k as usize] |= m; }
                let a = x.clone(); let e2 = ins.clone();
                let at = mask_attrs(m).iter().map(|a| format!("{:x}", a)).collect::<Vec<_>>().join(".");
                check(&mut rep, &mut md, "map.insert", format!("R M ins {} {:x} {:x} {}", sx, s, e, at),
                    catch(move || { let mut r = mk_map(&a); r.insert(BlockRange::new(ID::new(client(), s), e - s), mask_attrs(m).into_iter().map(attr).collect());
                        if !map_canonical(&r, &e2) { format!("{} (not canonical / != canonical build)", pr_map(&r)) } else { pr_map(&r) } }),
                    pr_cells(&canon_cells(&ins)));
            }
            let mut rem = x.clone(); for k in s..e { rem[k as usize] = 0; }
            let a = x.clone(); let e2 = rem.clone();
            check(&mut rep, &mut md, "map.remove", format!("R M rem {} {:x} {:x}", sx, s, e),
                catch(move || { let mut r = mk_map(&a); r.remove(&BlockRange::new(ID::new(client(), s), e - s));
                    if !map_canonical(&r, &e2) { format!("{} (not canonical / != canonical build)", pr_map(&r)) } else { pr_map(&r) } }),
                pr_cells(&canon_cells(&rem)));
        } }
    }
    rep.count(&format!("map_universe_clocks_{}", n));
    rep
}

// ---------- multi-client IdSet: random construction programs ----------
const CLIENTS: [u64; 3] = [1, 5, 0x1f_ffff_ffff_ffff];
fn pr_idset(s: &IdSet) -> String {
    let parts: Vec<String> = s.iter().map(|(c, r)| format!("{:x}[{}]", c.get(), if r.is_empty() { String::new() } else { pr_set(&r.iter().cloned().collect::<Vec<_>>()) })).collect();
    if parts.is_empty() { "_".into() } else { parts.join(";") }
}
type MBits = Vec<Bits>;
fn pr_mbits(b: &MBits) -> String {
    let parts: Vec<String> = b.iter().enumerate().filter(|(_, x)| x.iter().any(|y| *y)).map(|(i, x)| format!("{:x}[{}]", CLIENTS[i], pr_set(&canon_set(x)))).collect();
    if parts.is_empty() { "_".into() } else { parts.join(";") }
}
fn mk_idset(b: &MBits) -> IdSet {
    let mut s = IdSet::new();
    for (i, x) in b.iter().enumerate() { for r in canon_set(x) { s.insert(ID::new(ClientID::new(CLIENTS[i]), r.start), r.end - r.start); } }
    s
}
fn rand_mbits(r: &mut Rng, n: usize) -> MBits {
    (0..3).map(|_| { let dens = r.below(4); (0..n).map(|_| dens > 0 && r.below(4) < dens).collect() }).collect()
}

fn idset_random(seed: u64, cases: u64, w: usize, nw: usize) -> Report {
    let mut rep = Report::default();
    let mut md = Model::spawn();
    let n = 12usize;
    for ci in 0..cases {
        if ci as usize % nw != w { continue; }
        let mut r = Rng::for_case(seed, 16, ci);
        // binary ops on two random sets
        let x = rand_mbits(&mut r, n); let y = rand_mbits(&mut r, n);
        let (sx, sy) = (pr_mbits(&x), pr_mbits(&y));
        rep.nontrivial_case(&format!("IS{}|{}", sx, sy));
        let zip = |f: fn(bool, bool) -> bool| -> MBits { x.iter().zip(y.iter()).map(|(a, b)| a.iter().zip(b.iter()).map(|(p, q)| f(*p, *q)).collect()).collect() };
        let (a, b) = (x.clone(), y.clone());
        check(&mut rep, &mut md, "IdSet.merge", format!("R IS merge {} {}", sx, sy), catch(move || pr_idset(&mk_idset(&a).merge(&mk_idset(&b)))), pr_mbits(&zip(|a, b| a || b)));
        let (a, b) = (x.clone(), y.clone());
        check(&mut rep, &mut md, "IdSet.merge_with", format!("R IS merge {} {}", sx, sy), catch(move || { let mut s = mk_idset(&a); s.merge_with(mk_idset(&b)); pr_idset(&s) }), pr_mbits(&zip(|a, b| a || b)));
        let (a, b) = (x.clone(), y.clone());
        check(&mut rep, &mut md, "IdSet.diff", format!("R IS diff {} {}", sx, sy), catch(move || pr_idset(&mk_idset(&a).diff(&mk_idset(&b)))), pr_mbits(&zip(|a, b| a && !b)));
        let (a, b) = (x.clone(), y.clone());
        check(&mut rep, &mut md, "IdSet.intersect", format!("R IS isect {} {}", sx, sy), catch(move || pr_idset(&mk_idset(&a).intersect(&mk_idset(&b)))), pr_mbits(&zip(|a, b| a && b)));
        // a construction program, compared after every step
        let mut spec: MBits = vec![vec![false; n]; 3];
        let mut prog = vec![];
        let steps = r.range(1, 8);
        let mut cur = IdSet::new();
        for _ in 0..steps {
            let c = r.below(3) as usize; let s = r.below(n as u64) as u32; let lo = if r.chance(1, 10) { 0 } else { 1 }; let len = r.range(lo, n as u64 - s as u64) as u32;
            let before = pr_idset(&cur);
            let ins = r.chance(3, 5);
            for k in s..s + len { spec[c][k as usize] = ins; }
            prog.push(format!("{}({:x},{},{})", if ins { "insert" } else { "remove_range" }, CLIENTS[c], s, len));
            let id = ID::new(ClientID::new(CLIENTS[c]), s);
            let res = { let cur2 = cur.clone(); catch(move || { let mut cur2 = cur2; if ins { cur2.insert(id, len) } else { cur2.remove_range(&BlockRange::new(id, len)) }; cur2 }) };
            match res {
                Ok(nx) => {
                    cur = nx;
                    let got = pr_idset(&cur);
                    let eq_canon = cur == mk_idset(&spec);
                    let got2 = if eq_canon { got.clone() } else { format!("{} (!= canonically built equal set)", got) };
                    let cmd = format!("R IS {} {} {:x} {:x} {:x}", if ins { "insert" } else { "remove" }, before, CLIENTS[c], s, len);
                    let m = md.ask(&cmd);
                    rep.evaluations += 1;
                    if m != format!("ok {}", got) { rep.disagree(json!({"op": "IdSet.step", "cmd": cmd, "model": m, "impl": got})); }
                    if got2 != pr_mbits(&spec) {
                        rep.fail(json!({"op": if ins { "IdSet.insert" } else { "IdSet.remove_range" }, "cmd": cmd, "impl": got2, "expected_by_set_algebra": pr_mbits(&spec),
                                        "class": if ins && len == 0 { "empty-range-insert-leaves-empty-client-entry" } else { "other" }}));
                    }
                    if !eq_canon { break; }
                }
                Err(e) => { check(&mut rep, &mut md, "IdSet.step", format!("R IS {} {} {:x} {:x} {:x}", if ins { "insert" } else { "remove" }, before, CLIENTS[c], s, len), Err(e), pr_mbits(&spec)); break; }
            }
            // contains on every point
            for (ci2, row) in spec.iter().enumerate() { for (k, b) in row.iter().enumerate() {
                rep.evaluations += 1;
                if cur.contains(&ID::new(ClientID::new(CLIENTS[ci2]), k as u32)) != *b {
                    rep.fail(json!({"op": "IdSet.contains", "set": pr_idset(&cur), "client": CLIENTS[ci2], "clock": k, "expected": b}));
                }
            } }
        }
        rep.sample(json!({"kind": "idset program", "steps": prog, "result": pr_idset(&cur)}));
    }
    rep
}


/// "Delete sets computed from a document contain exactly the ids of its deleted content": random histories on one
/// or two replicas (nested types deleted with and without GC), then the delete set of the snapshot and the one
/// carried by the full-state update are compared with the ids of deleted items and collected ranges in the hook dump.
fn from_store(seed: u64, cases: u64, w: usize, nw: usize) -> Report {
    use crate::sim::*;
    use yrs::updates::decoder::Decode;
    use yrs::{ReadTxn, Transact};
    let mut rep = Report::default();
    for ci in 0..cases { if ci as usize % nw != w { continue; }
        let mut r = Rng::for_case(seed, 116, ci);
        let gc = r.chance(2, 3);
        let a = Replica::new(1, DocCfg { gc, ..DocCfg::default() });
        let b = Replica::new(2, DocCfg { gc, ..DocCfg::default() });
        let ecfg = EditCfg::default(); let mut tag = 0u64; let mut script = vec![format!("gc={gc}")];
        for _ in 0..r.range(4, 14) {
            let (src, dst) = if r.chance(2, 3) { (&a, &b) } else { (&b, &a) };
            let mut sc = vec![]; let (u1, _) = local_txn(src, &mut r, &ecfg, false, 4, &mut sc, &mut tag); script.push(sc.join("; "));
            if r.chance(2, 3) { for u in u1 { let _ = dst.apply_v1(&u); } dst.drain1(); }
        }
        for rp in [&a, &b] {
            let vs = store_dump(&rp.doc);
            let mut want: Vec<(u64, u32)> = vec![];
            for (c, bl) in &vs.blocks { for blk in bl { match blk {
                yrs::verif::VBlock::Item(it) if it.deleted => for k in 0..it.len { want.push((*c, it.id.clock + k)); },
                yrs::verif::VBlock::GC(id, len) => for k in 0..*len { want.push((*c, id.clock + k)); },
                _ => {}
            } } }
            want.sort();
            let flat = |s: &IdSet| -> Vec<(u64, u32)> { let mut v = vec![]; for (c, rs) in s.iter() { for rg in rs.iter() { for k in rg.start..rg.end { v.push((c.get(), k)); } } } v.sort(); v };
            let snap = rp.doc.transact().snapshot();
            let full = rp.doc.transact().encode_state_as_update_v1(&yrs::StateVector::default());
            let upd_ds = yrs::Update::decode_v1(&full).map(|u| flat(u.delete_set())).unwrap_or_default();
            rep.evaluations += 1;
            if !want.is_empty() { rep.nontrivial_case(&format!("fs:{}:{}", ci, rp.client)); }
            if vs.blocks.iter().any(|(_, bl)| bl.iter().any(|x| matches!(x, yrs::verif::VBlock::GC(..)))) { rep.count("from_store_docs_with_collected_ranges"); }
            for (name, got) in [("snapshot", flat(&snap.delete_set)), ("full-state-update", upd_ds)] {
                // encode_state_as_update appends the stashed update and the stashed delete set: ids that are not in the store yet
                if name == "full-state-update" && (vs.has_pending || vs.has_pending_ds) { rep.count("from_store_update_skipped_pending"); continue; }
                if got != want {
                    rep.fail(json!({"property": "C16", "class": "delete-set-from-store-differs-from-deleted-ids", "where": name, "case": {"stream": 116, "index": ci, "seed": seed}, "script": script,
                        "missing": want.iter().filter(|x| !got.contains(x)).take(12).map(|(c, k)| format!("{:x}:{:x}", c, k)).collect::<Vec<_>>(),
                        "extra": got.iter().filter(|x| !want.contains(x)).take(12).map(|(c, k)| format!("{:x}:{:x}", c, k)).collect::<Vec<_>>()}));
                }
            }
        }
    }
    rep
}

pub fn run(tier: &str, seed: u64, workers: usize) -> Report {
    let (nset, nmap, stride, rnd) = if tier == "thorough" { (10, 5, 1, 200000) } else { (8, 4, 1, 5000) };
    let mut total = parallel(workers, |w, nw| {
        let mut r = set_exhaustive(nset, w, nw);
        r.merge(map_exhaustive(nmap, w, nw, stride));
        r.merge(idset_random(seed, rnd, w, nw));
        r.merge(from_store(seed, if rnd > 5000 { 20000 } else { 1500 }, w, nw));
        r
    });
    total.exhaustive = true;
    total.notes.push(format!("exhaustive: IdRanges<()> over {} clocks (all pairs x merge/exclude/intersect/subset_of, all ranges x insert/remove, contains); IdMap over {} clocks x 2 attributes (all pairs x merge/intersect/diff, all ranges x insert(3 attr sets)/remove); plus {} random multi-client IdSet programs; plus delete sets computed from documents (snapshot and full-state update) compared with the deleted / collected ids of the hook dump on random two-replica histories with nested types, GC on and off", nset, nmap, rnd));
    total
}
