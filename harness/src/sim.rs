//! Multi-replica simulation engine shared by the history-based checks (C01, C02, C04, C05, ...):
//! documents with explicit options, random API calls over every shared type, captured update
//! streams, canonical dumps (internal = hook dump expanded to units; public = read API only).
use crate::model::hex;
use crate::rng::Rng;
use std::collections::BTreeMap;
use std::sync::{Arc, Mutex};
use yrs::block::ClientID;
use yrs::types::text::YChange;
use yrs::types::{Attrs, ToJson};
use yrs::updates::decoder::Decode;
use yrs::verif::{dump_store, VBlock, VContent, VItem, VParent, VStore};
use yrs::{
    Any, Array, ArrayPrelim, ArrayRef, Doc, GetString, Map, MapPrelim, MapRef, OffsetKind, Options, Out, ReadTxn, Text,
    TextPrelim, TextRef, Transact, TransactionMut, Update, Xml, XmlElementPrelim, XmlElementRef, XmlFragment, XmlFragmentRef,
    XmlTextPrelim, XmlTextRef, ID, WriteTxn,
};

pub type Log = Arc<Mutex<Vec<Vec<u8>>>>;

pub struct Replica {
    pub doc: Doc,
    pub client: u64,
    pub log1: Log,
    pub log2: Log,
    _subs: Vec<yrs::Subscription>,
}

#[derive(Clone, Copy, Debug)]
pub struct DocCfg { pub gc: bool, pub bytes_offsets: bool, pub cleanup: bool }
impl Default for DocCfg { fn default() -> Self { DocCfg { gc: false, bytes_offsets: false, cleanup: false } } }

pub fn mk_doc(client: u64, cfg: DocCfg) -> Doc {
    Doc::with_options(Options {
        client_id: ClientID::new(client),
        guid: format!("g{client}").into(),
        collection_id: None,
        offset_kind: if cfg.bytes_offsets { OffsetKind::Bytes } else { OffsetKind::Utf16 },
        skip_gc: !cfg.gc,
        auto_load: false,
        should_load: true,
        cleanup_formatting: cfg.cleanup,
    })
}

pub const ROOT_TEXT: &str = "t";
pub const ROOT_ARRAY: &str = "a";
pub const ROOT_MAP: &str = "m";
pub const ROOT_XML: &str = "x";

pub fn declare_roots(doc: &Doc) {
    doc.get_or_insert_text(ROOT_TEXT);
    doc.get_or_insert_array(ROOT_ARRAY);
    doc.get_or_insert_map(ROOT_MAP);
    doc.get_or_insert_xml_fragment(ROOT_XML);
}

impl Replica {
    pub fn new(client: u64, cfg: DocCfg) -> Replica {
        let doc = mk_doc(client, cfg);
        declare_roots(&doc);
        let log1: Log = Arc::new(Mutex::new(vec![]));
        let log2: Log = Arc::new(Mutex::new(vec![]));
        let (c1, c2) = (log1.clone(), log2.clone());
        let s1 = doc.observe_update_v1(move |_, e| c1.lock().unwrap().push(e.update.clone())).unwrap();
        let s2 = doc.observe_update_v2(move |_, e| c2.lock().unwrap().push(e.update.clone())).unwrap();
        Replica { doc, client, log1, log2, _subs: vec![s1, s2] }
    }
    pub fn drain1(&self) -> Vec<Vec<u8>> { self.log1.lock().unwrap().drain(..).collect() }
    pub fn drain2(&self) -> Vec<Vec<u8>> { self.log2.lock().unwrap().drain(..).collect() }
    pub fn apply_v1(&self, u: &[u8]) -> Result<(), String> {
        let upd = Update::decode_v1(u).map_err(|e| format!("decode_v1: {e}"))?;
        self.doc.transact_mut().apply_update(upd).map_err(|e| format!("apply: {e}"))
    }
    pub fn apply_v2(&self, u: &[u8]) -> Result<(), String> {
        let upd = Update::decode_v2(u).map_err(|e| format!("decode_v2: {e}"))?;
        self.doc.transact_mut().apply_update(upd).map_err(|e| format!("apply: {e}"))
    }
}

// ------------------------------------------------------------------------------------------------
// canonical printing (must agree with runner/main.ml)
// ------------------------------------------------------------------------------------------------
pub fn rawhex(b: &[u8]) -> String { let mut s = String::new(); for x in b { s.push_str(&format!("{:02x}", x)); } s }

pub fn print_any(a: &Any) -> String {
    match a {
        Any::Undefined => "u".into(),
        Any::Null => "n".into(),
        Any::Bool(b) => if *b { "T".into() } else { "F".into() },
        Any::Number(f) => {
            let t = f.trunc();
            if t == *f && t <= yrs::any::F64_MAX_SAFE_INTEGER && t >= yrs::any::F64_MIN_SAFE_INTEGER {
                let z = t as i64;
                if z < 0 { format!("i-{:x}", -(z as i128)) } else { format!("i{:x}", z) }
            } else if ((*f as f32) as f64) == *f {
                format!("f{:x}", (*f as f32).to_bits())
            } else {
                format!("D{:x}", f.to_bits())
            }
        }
        Any::BigInt(i) => format!("g{:x}", *i as u64),
        Any::String(s) => format!("s{}", rawhex(s.as_bytes())),
        Any::Buffer(b) => format!("x{}", rawhex(b)),
        Any::Array(l) => format!("[{}]", l.iter().map(print_any).collect::<Vec<_>>().join(",")),
        Any::Map(m) => {
            let mut es: Vec<(String, String)> = m.iter().map(|(k, v)| (rawhex(k.as_bytes()), print_any(v))).collect();
            es.sort();
            format!("{{{}}}", es.iter().map(|(k, v)| format!("{}:{}", k, v)).collect::<Vec<_>>().join(","))
        }
    }
}

pub fn print_id(id: &ID) -> String { format!("{:x}:{:x}", id.client.get(), id.clock) }

fn print_parent(p: &VParent) -> String {
    match p { VParent::Root(n) => format!("R{}", rawhex(n.as_bytes())), VParent::Nested(id) => format!("N{}", print_id(id)), VParent::Unknown => "?".into() }
}

fn type_token(t: &yrs::types::TypeRef) -> String {
    use yrs::types::TypeRef::*;
    match t {
        Array => "0".into(), Map => "1".into(), Text => "2".into(),
        XmlElement(n) => format!("3:{}", rawhex(n.as_bytes())),
        XmlFragment => "4".into(), XmlHook => "5".into(), XmlText => "6".into(), SubDoc => "9".into(),
        WeakLink(_) => "7".into(), Undefined => "f".into(),
    }
}

/// content tokens of the units of one item
fn unit_tokens(it: &VItem) -> Vec<String> {
    let n = it.len as usize;
    match &it.content {
        VContent::Any(v) => v.iter().map(|a| format!("a{}", print_any(a))).collect(),
        VContent::Binary(b) => vec![format!("b{}", rawhex(b))],
        VContent::Deleted(_) => vec!["x".to_string(); n],
        VContent::Doc(g) => vec![format!("d{}", rawhex(g.as_bytes()))],
        VContent::Json(v) => v.iter().map(|s| format!("j{}", rawhex(s.as_bytes()))).collect(),
        VContent::Embed(a) => vec![format!("e{}", print_any(a))],
        VContent::Format(k, a) => vec![format!("f{}:{}", rawhex(k.as_bytes()), print_any(a))],
        VContent::String(s) => {
            if s.len() == 1 { vec![format!("u{:x}", s.as_bytes()[0])] } else { s.encode_utf16().map(|u| format!("u{:x}", u)).collect() }
        }
        VContent::Type(t) => vec![format!("t{}", type_token(t))],
    }
}

fn print_units(items: &[VItem]) -> String {
    let mut out = vec![];
    for it in items {
        let toks = unit_tokens(it);
        for j in 0..it.len {
            let tok = toks.get(j as usize).cloned().unwrap_or_else(|| "?".into());
            out.push(format!("{:x}:{:x}{}={}", it.id.client.get(), it.id.clock + j, if it.deleted { "~" } else { "" }, tok));
        }
    }
    out.join(",")
}

/// Only the last entry of a key's chain is observable (reads look at `branch.map[key]` alone). An entry left of
/// it can be live in the implementation where the model has it deleted: a replica that integrated a squashed
/// two-element block (re-emitted by a peer that had both elements deleted) without the delete set entry of its
/// first element holds it live until that delete set arrives. Entries left of the last one are therefore
/// printed as deleted on the implementation side, as the model has them.
fn hide_all_but_last(units: &str) -> String {
    let us = split_top(units);
    let n = us.len();
    us.into_iter().enumerate().map(|(i, u)| {
        if i + 1 == n { return u; }
        match u.find('=') { Some(e) if !u[..e].ends_with('~') => format!("{}~{}", &u[..e], &u[e..]), _ => u }
    }).collect::<Vec<_>>().join(",")
}

/// The internal dump in the model's `print_doc` format: `key=[units];... |G ids |W`
/// (the stash part is left empty: it is compared separately).
pub fn internal_dump(vs: &VStore) -> String {
    let mut lists = vec![];
    for b in &vs.branches {
        if !b.seq.is_empty() { lists.push(format!("{}=[{}]", print_parent(&b.id), print_units(&b.seq))); }
        for (k, chain) in &b.map {
            if !chain.is_empty() { lists.push(format!("{}/{}=[{}]", print_parent(&b.id), rawhex(k.as_bytes()), hide_all_but_last(&print_units(chain)))); }
        }
    }
    lists.sort();
    let mut gc: Vec<(u64, u32)> = vec![];
    for (c, bl) in &vs.blocks { for b in bl { if let VBlock::GC(id, len) = b { for j in 0..*len { gc.push((*c, id.clock + j)); } } } }
    gc.sort();
    format!("{} |G {} |W ", lists.join(";"), gc.iter().map(|(c, k)| format!("{:x}:{:x}", c, k)).collect::<Vec<_>>().join(","))
}

/// integrated id set of the implementation (items + GC, not Skip) in the runner's client syntax
pub fn integrated_ids(vs: &VStore) -> String {
    let mut parts = vec![];
    for (c, bl) in &vs.blocks {
        let mut rs: Vec<(u32, u32)> = vec![];
        for b in bl {
            let (s, l) = match b { VBlock::Item(i) => (i.id.clock, i.len), VBlock::GC(id, l) => (id.clock, *l), VBlock::Skip(..) => continue };
            if let Some(last) = rs.last_mut() { if last.1 == s { last.1 = s + l; continue; } }
            rs.push((s, s + l));
        }
        if !rs.is_empty() { parts.push(format!("{:x}[{}]", c, rs.iter().map(|(a, b)| format!("{:x}-{:x}", a, b)).collect::<Vec<_>>().join(","))); }
    }
    if parts.is_empty() { "_".into() } else { parts.join(";") }
}

/// Normalise a model dump so that it can be compared with `internal_dump`:
/// JSON payloads of embeds / formats are parsed and re-printed canonically, weak link details and
/// sub-document options are dropped.
pub fn normalize_model_dump(s: &str) -> String {
    let (lists, tail) = match s.find(" |G ") { Some(i) => (&s[..i], &s[i..]), None => (s, "") };
    let mut out_lists = vec![];
    for l in lists.split(';') {
        if l.is_empty() { continue; }
        let (k, body) = match l.find("=[") { Some(i) => (&l[..i], &l[i + 2..l.len() - 1]), None => (l, "") };
        let units: Vec<String> = split_top(body).into_iter().map(|u| {
            let (idp, tok) = match u.find('=') { Some(i) => (&u[..i], &u[i + 1..]), None => (u.as_str(), "") };
            format!("{}={}", idp, normalize_token(tok))
        }).collect();
        out_lists.push(format!("{}=[{}]", k, units.join(",")));
    }
    out_lists.sort();
    format!("{}{}", out_lists.join(";"), tail)
}
/// split on commas that are not inside brackets / braces
fn split_top(s: &str) -> Vec<String> {
    let mut out = vec![]; let mut depth = 0; let mut cur = String::new();
    for ch in s.chars() {
        match ch { '[' | '{' => { depth += 1; cur.push(ch) } ']' | '}' => { depth -= 1; cur.push(ch) }
                   ',' if depth == 0 => { out.push(std::mem::take(&mut cur)); } _ => cur.push(ch) }
    }
    if !cur.is_empty() { out.push(cur); }
    out
}
fn json_hex_to_any(h: &str) -> String {
    let bytes = crate::model::unhex(if h.is_empty() { "_" } else { h });
    match std::str::from_utf8(&bytes).ok().and_then(|s| Any::from_json(s).ok()) { Some(a) => print_any(&a), None => format!("!badjson{}", h) }
}
fn normalize_token(tok: &str) -> String {
    if let Some(rest) = tok.strip_prefix('e') { return format!("e{}", json_hex_to_any(rest)); }
    if let Some(rest) = tok.strip_prefix('f') {
        if let Some(i) = rest.find(':') { return format!("f{}:{}", &rest[..i], json_hex_to_any(&rest[i + 1..])); }
    }
    if let Some(rest) = tok.strip_prefix("t7") { let _ = rest; return "t7".into(); }
    if let Some(rest) = tok.strip_prefix('d') { if let Some(i) = rest.find(':') { return format!("d{}", &rest[..i]); } }
    if let Some(rest) = tok.strip_prefix('a') { return format!("a{}", normalize_any_numbers(rest)); }
    tok.to_string()
}
/// the model prints numbers by wire form; values produced by the Rust encoder are already canonical
fn normalize_any_numbers(s: &str) -> String { s.to_string() }

// ------------------------------------------------------------------------------------------------
// public dump: read API only
// ------------------------------------------------------------------------------------------------
fn print_attrs(a: &Attrs) -> String {
    let mut es: Vec<String> = a.iter().map(|(k, v)| format!("{}={}", k, print_any(v))).collect();
    es.sort();
    es.join("&")
}
pub fn print_out<T: ReadTxn>(o: &Out, txn: &T, depth: usize) -> String {
    if depth > 8 { return "<deep>".into(); }
    match o {
        Out::Any(a) => print_any(a),
        Out::YText(t) => format!("Text({})", print_text(t, txn, depth)),
        Out::YArray(a) => format!("Array[{}]", a.iter(txn).map(|v| print_out(&v, txn, depth + 1)).collect::<Vec<_>>().join(",")),
        Out::YMap(m) => print_map(m, txn, depth),
        Out::YXmlElement(e) => print_xml_elem(e, txn, depth),
        Out::YXmlFragment(e) => format!("XmlFrag({})", print_xml_children(e, txn, depth)),
        Out::YXmlText(e) => format!("XmlText({})", print_xmltext(e, txn, depth)),
        Out::YDoc(d) => format!("Doc({})", d.guid()),
        Out::YWeakLink(_) => "Weak".into(),
        Out::UndefinedRef(_) => "UndefinedRef".into(),
    }
}
pub fn print_text<T: ReadTxn>(t: &TextRef, txn: &T, depth: usize) -> String {
    t.diff(txn, YChange::identity).iter().map(|d| {
        let at = d.attributes.as_ref().map(|a| print_attrs(a)).unwrap_or_default();
        format!("<{}|{}>", match &d.insert { Out::Any(Any::String(s)) => format!("'{}'", s), o => print_out(o, txn, depth + 1) }, at)
    }).collect::<Vec<_>>().join("")
}
pub fn print_xmltext<T: ReadTxn>(t: &XmlTextRef, txn: &T, depth: usize) -> String {
    let mut at: Vec<String> = t.attributes(txn).map(|(k, v)| format!("{}={}", k, print_out(&v, txn, depth + 1))).collect();
    at.sort();
    let at = if at.is_empty() { String::new() } else { format!("@{} ", at.join(" ")) };
    at + &t.diff(txn, YChange::identity).iter().map(|d| {
        let at = d.attributes.as_ref().map(|a| print_attrs(a)).unwrap_or_default();
        format!("<{}|{}>", match &d.insert { Out::Any(Any::String(s)) => format!("'{}'", s), o => print_out(o, txn, depth + 1) }, at)
    }).collect::<Vec<_>>().join("")
}
/// canonical XML rendering: attributes sorted by name (get_string() follows HashMap order)
pub fn print_xml_children<T: ReadTxn, X: XmlFragment>(x: &X, txn: &T, depth: usize) -> String {
    (0..x.len(txn)).filter_map(|i| x.get(txn, i)).map(|n| match n {
        yrs::XmlOut::Element(e) => print_xml_elem(&e, txn, depth + 1),
        yrs::XmlOut::Fragment(f) => format!("XmlFrag({})", print_xml_children(&f, txn, depth + 1)),
        yrs::XmlOut::Text(t) => format!("XmlText({})", print_xmltext(&t, txn, depth + 1)),
    }).collect::<Vec<_>>().join("")
}
pub fn print_xml_elem<T: ReadTxn>(e: &XmlElementRef, txn: &T, depth: usize) -> String {
    if depth > 8 { return "<deep>".into(); }
    let mut at: Vec<String> = e.attributes(txn).map(|(k, v)| format!("{}={}", k, print_out(&v, txn, depth + 1))).collect();
    at.sort();
    format!("<{} {}>{}</>", e.tag(), at.join(" "), print_xml_children(e, txn, depth))
}
pub fn print_map<T: ReadTxn>(m: &MapRef, txn: &T, depth: usize) -> String {
    let mut es: Vec<(String, String)> = m.iter(txn).map(|(k, v)| (k.to_string(), print_out(&v, txn, depth + 1))).collect();
    es.sort();
    format!("Map{{{}}}", es.iter().map(|(k, v)| format!("{}:{}", k, v)).collect::<Vec<_>>().join(","))
}
pub fn public_dump(doc: &Doc) -> String {
    let t = doc.get_or_insert_text(ROOT_TEXT);
    let a = doc.get_or_insert_array(ROOT_ARRAY);
    let m = doc.get_or_insert_map(ROOT_MAP);
    let x = doc.get_or_insert_xml_fragment(ROOT_XML);
    let txn = doc.transact();
    format!("t={} || a={} || m={} || x={}", print_text(&t, &txn, 0), print_out(&Out::YArray(a), &txn, 0), print_map(&m, &txn, 0), print_xml_children(&x, &txn, 0))
}

// ------------------------------------------------------------------------------------------------
// random API calls
// ------------------------------------------------------------------------------------------------
const ALPHABET: [&str; 12] = ["a", "b", "c", "d", "é", "ß", "中", "😀", "x", "y", " ", "𝄞"];
const KEYS: [&str; 3] = ["k1", "k2", "κ3"];

#[derive(Clone, Copy, Debug)]
pub struct EditCfg { pub text: bool, pub array: bool, pub map: bool, pub xml: bool, pub nested: bool, pub formatting: bool, pub deletes: bool }
impl Default for EditCfg { fn default() -> Self { EditCfg { text: true, array: true, map: true, xml: true, nested: true, formatting: true, deletes: true } } }

fn rand_string(r: &mut Rng) -> String { let n = r.range(1, 3); (0..n).map(|_| *r.pick(&ALPHABET)).collect::<Vec<_>>().join("") }
pub fn rand_any(r: &mut Rng, depth: u32) -> Any {
    match r.below(if depth > 1 { 6 } else { 9 }) {
        0 => Any::Null,
        1 => Any::Bool(r.chance(1, 2)),
        2 => Any::Number(r.below(1000) as f64 - 300.0),
        3 => Any::Number(0.5 + r.below(100) as f64),
        4 => Any::String(rand_string(r).into()),
        5 => Any::BigInt(r.next() as i64 >> r.below(60)),
        6 => Any::Buffer(vec![r.below(256) as u8; r.below(4) as usize].into()),
        7 => Any::Array((0..r.below(3)).map(|_| rand_any(r, depth + 1)).collect::<Vec<_>>().into()),
        _ => { let mut m = std::collections::HashMap::new(); for _ in 0..r.below(3) { m.insert(r.pick(&KEYS).to_string(), rand_any(r, depth + 1)); } Any::Map(Arc::new(m)) }
    }
}
/// embeds and format values travel as JSON text: only JSON-representable values are in range
pub fn rand_json_any(r: &mut Rng) -> Any {
    match r.below(5) {
        0 => Any::Bool(r.chance(1, 2)),
        1 => Any::Number(r.below(1000) as f64),
        2 => Any::Array(vec![Any::String(rand_string(r).into())].into()),
        3 => { let mut m = std::collections::HashMap::new(); m.insert("src".to_string(), Any::String(rand_string(r).into())); Any::Map(Arc::new(m)) }
        _ => Any::Number(0.25 + r.below(10) as f64),
    }
}
fn rand_attrs(r: &mut Rng) -> Attrs {
    let mut a = Attrs::new();
    let k = *r.pick(&["b", "i"]);
    let v = match r.below(3) { 0 => Any::Bool(true), 1 => Any::Null, _ => Any::String("red".into()) };
    a.insert(k.into(), v);
    a
}

/// element boundaries of a text in the document's offset unit
pub fn text_positions<T: ReadTxn>(chunks: &[yrs::types::text::Diff<YChange>], _txn: &T, bytes: bool) -> Vec<u32> {
    let mut pos = vec![0u32]; let mut cur = 0u32;
    for d in chunks {
        match &d.insert {
            Out::Any(Any::String(s)) => for ch in s.chars() { cur += if bytes { ch.len_utf8() } else { ch.len_utf16() } as u32; pos.push(cur); },
            _ => { cur += 1; pos.push(cur); }
        }
    }
    pos
}

fn edit_text(t: &TextRef, txn: &mut TransactionMut, r: &mut Rng, cfg: &EditCfg, bytes: bool, script: &mut Vec<String>, name: &str) {
    let chunks = t.diff(txn, YChange::identity);
    let pos = text_positions(&chunks, txn, bytes);
    let n = pos.len() - 1;
    let choice = r.below(10);
    if choice < 4 || n == 0 {
        let p = *r.pick(&pos); let s = rand_string(r);
        script.push(format!("{name}.insert({p},{s:?})"));
        // placed where inserted: on a text without embeds the new string is the old one with `s` spliced in at offset p (in the
        // document's offset unit); a mismatch is reported through the script (entries starting with "!!PLACEMENT")
        let before = if chunks.iter().all(|d| matches!(d.insert, Out::Any(Any::String(_)))) { Some(t.get_string(txn)) } else { None };
        t.insert(txn, p, &s);
        if let Some(b) = before {
            let mut acc = 0u32; let mut cut = b.len();
            for (bi, ch) in b.char_indices() { if acc >= p { cut = bi; break; } acc += if bytes { ch.len_utf8() } else { ch.len_utf16() } as u32; }
            let exp = format!("{}{}{}", &b[..cut], s, &b[cut..]);
            let got = t.get_string(txn);
            if got != exp { script.push(format!("!!PLACEMENT {name}.insert({p},{s:?}) on {b:?}: expected {exp:?}, the text is {got:?}")); }
        }
    } else if choice < 6 && cfg.deletes {
        let i = r.below(n as u64) as usize; let j = r.range(i as u64 + 1, (n as u64).min(i as u64 + 4)) as usize;
        script.push(format!("{name}.remove_range({},{})", pos[i], pos[j] - pos[i]));
        t.remove_range(txn, pos[i], pos[j] - pos[i]);
    } else if choice < 7 && cfg.formatting {
        let p = *r.pick(&pos); let s = rand_string(r); let a = rand_attrs(r);
        script.push(format!("{name}.insert_with_attributes({p},{s:?},{})", print_attrs(&a)));
        t.insert_with_attributes(txn, p, &s, a);
    } else if choice < 8 && cfg.formatting {
        let i = r.below(n as u64) as usize; let j = r.range(i as u64 + 1, (n as u64).min(i as u64 + 4)) as usize; let a = rand_attrs(r);
        script.push(format!("{name}.format({},{},{})", pos[i], pos[j] - pos[i], print_attrs(&a)));
        t.format(txn, pos[i], pos[j] - pos[i], a);
    } else if choice < 9 && cfg.formatting {
        let p = *r.pick(&pos); let e = rand_json_any(r);
        script.push(format!("{name}.insert_embed({p},{})", print_any(&e)));
        t.insert_embed(txn, p, e);
    } else {
        let s = rand_string(r);
        script.push(format!("{name}.push({s:?})"));
        t.push(txn, &s);
    }
}

fn edit_array(a: &ArrayRef, txn: &mut TransactionMut, r: &mut Rng, cfg: &EditCfg, script: &mut Vec<String>, name: &str, tag: &mut u64) {
    let len = a.len(txn);
    let choice = r.below(10);
    // placed where inserted: the array afterwards is the array before with the new values spliced in at the index (elements are
    // compared by a shallow print); a mismatch is reported through the script (entries starting with "!!PLACEMENT")
    let shallow = |txn: &TransactionMut| -> Vec<String> { a.iter(txn).map(|o| match o { Out::Any(x) => print_any(&x), Out::YMap(_) => "YMap".into(), Out::YArray(_) => "YArray".into(), Out::YText(_) => "YText".into(), _ => "Y?".into() }).collect() };
    if choice < 3 || len == 0 {
        let p = r.below(len as u64 + 1) as u32; *tag += 1; let v = Any::Number((*tag * 1000 + r.below(7)) as f64);
        script.push(format!("{name}.insert({p},{})", print_any(&v)));
        let mut exp = shallow(txn); exp.insert(p as usize, print_any(&v));
        a.insert(txn, p, v);
        let got = shallow(txn);
        if got != exp { script.push(format!("!!PLACEMENT {name}.insert({p},..): expected {exp:?}, the array is {got:?}")); }
    } else if choice < 5 {
        let p = r.below(len as u64 + 1) as u32;
        let vs: Vec<Any> = (0..r.range(2, 3)).map(|_| { *tag += 1; if r.chance(1, 4) { rand_any(r, 0) } else { Any::Number((*tag * 1000) as f64) } }).collect();
        script.push(format!("{name}.insert_range({p},[{}])", vs.iter().map(print_any).collect::<Vec<_>>().join(",")));
        let mut exp = shallow(txn); for (j, v) in vs.iter().enumerate() { exp.insert(p as usize + j, print_any(v)); }
        a.insert_range(txn, p, vs);
        let got = shallow(txn);
        if got != exp { script.push(format!("!!PLACEMENT {name}.insert_range({p},..): expected {exp:?}, the array is {got:?}")); }
    } else if choice < 7 && cfg.deletes {
        let p = r.below(len as u64) as u32; let l = r.range(1, (len - p).min(3) as u64) as u32;
        script.push(format!("{name}.remove_range({p},{l})"));
        a.remove_range(txn, p, l);
    } else if choice < 9 && cfg.nested {
        let p = r.below(len as u64 + 1) as u32;
        match r.below(3) {
            0 => { script.push(format!("{name}.insert({p},MapPrelim)")); a.insert(txn, p, MapPrelim::default()); }
            1 => { script.push(format!("{name}.insert({p},ArrayPrelim[1,2])")); a.insert(txn, p, ArrayPrelim::from([Any::Number(1.0), Any::Number(2.0)])); }
            _ => { script.push(format!("{name}.insert({p},TextPrelim)")); a.insert(txn, p, TextPrelim::new("nx")); }
        }
    } else {
        *tag += 1; let v = Any::Number((*tag * 1000) as f64);
        script.push(format!("{name}.push_back({})", print_any(&v)));
        a.push_back(txn, v);
    }
}

fn edit_map(m: &MapRef, txn: &mut TransactionMut, r: &mut Rng, cfg: &EditCfg, script: &mut Vec<String>, name: &str, tag: &mut u64) {
    let k = *r.pick(&KEYS);
    let choice = r.below(10);
    if choice < 5 {
        *tag += 1; let v = if r.chance(1, 3) { rand_any(r, 0) } else { Any::Number((*tag * 1000) as f64) };
        script.push(format!("{name}.insert({k},{})", print_any(&v)));
        m.insert(txn, k, v);
    } else if choice < 7 && cfg.deletes {
        script.push(format!("{name}.remove({k})"));
        m.remove(txn, k);
    } else if choice < 9 && cfg.nested {
        match r.below(3) {
            0 => { script.push(format!("{name}.insert({k},MapPrelim)")); m.insert(txn, k, MapPrelim::default()); }
            1 => { script.push(format!("{name}.insert({k},ArrayPrelim[7])")); m.insert(txn, k, ArrayPrelim::from([Any::Number(7.0)])); }
            _ => { script.push(format!("{name}.insert({k},TextPrelim)")); m.insert(txn, k, TextPrelim::new("mt")); }
        }
    } else if cfg.deletes && r.chance(1, 3) {
        script.push(format!("{name}.clear()"));
        m.clear(txn);
    } else {
        *tag += 1; let v = Any::Number((*tag * 1000) as f64);
        script.push(format!("{name}.insert({k},{})", print_any(&v)));
        m.insert(txn, k, v);
    }
}

fn edit_xml_children<X: XmlFragment>(x: &X, txn: &mut TransactionMut, r: &mut Rng, cfg: &EditCfg, script: &mut Vec<String>, name: &str) {
    let len = x.len(txn);
    let choice = r.below(10);
    if choice < 4 || len == 0 {
        let p = r.below(len as u64 + 1) as u32;
        if r.chance(1, 2) { let tag = *r.pick(&["p", "div", "b"]); script.push(format!("{name}.insert({p},<{tag}>)")); x.insert(txn, p, XmlElementPrelim::empty(tag)); }
        else { let s = rand_string(r); script.push(format!("{name}.insert({p},xmltext {s:?})")); x.insert(txn, p, XmlTextPrelim::new(s)); }
    } else if choice < 6 && cfg.deletes {
        let p = r.below(len as u64) as u32; let l = r.range(1, (len - p).min(2) as u64) as u32;
        script.push(format!("{name}.remove_range({p},{l})"));
        x.remove_range(txn, p, l);
    } else {
        let p = len; let tag = "s"; script.push(format!("{name}.push_back(<{tag}>)"));
        x.insert(txn, p, XmlElementPrelim::empty(tag));
    }
}
fn edit_xml_attrs(e: &XmlElementRef, txn: &mut TransactionMut, r: &mut Rng, cfg: &EditCfg, script: &mut Vec<String>, name: &str) {
    let k = *r.pick(&["id", "cls"]);
    if r.chance(2, 3) || !cfg.deletes { let v = rand_string(r); script.push(format!("{name}.insert_attribute({k},{v:?})")); e.insert_attribute(txn, k, v); }
    else { script.push(format!("{name}.remove_attribute({k})")); e.remove_attribute(txn, &k); }
}

/// One random API call on a randomly chosen (possibly nested) live shared type.
pub fn random_call(doc: &Doc, txn: &mut TransactionMut, r: &mut Rng, cfg: &EditCfg, bytes: bool, script: &mut Vec<String>, tag: &mut u64) {
    let mut kinds = vec![];
    if cfg.text { kinds.push(0); kinds.push(0); } if cfg.array { kinds.push(1); kinds.push(1); } if cfg.map { kinds.push(2); kinds.push(2); } if cfg.xml { kinds.push(3); }
    if kinds.is_empty() { return; }
    let _ = doc;
    let mut cur: Out = match *r.pick(&kinds) {
        0 => Out::YText(txn.get_or_insert_text(ROOT_TEXT)),
        1 => Out::YArray(txn.get_or_insert_array(ROOT_ARRAY)),
        2 => Out::YMap(txn.get_or_insert_map(ROOT_MAP)),
        _ => Out::YXmlFragment(txn.get_or_insert_xml_fragment(ROOT_XML)),
    };
    let mut name = match &cur { Out::YText(_) => "t".to_string(), Out::YArray(_) => "a".into(), Out::YMap(_) => "m".into(), _ => "x".into() };
    // descend into nested shared types
    for _ in 0..3 {
        if !cfg.nested || !r.chance(1, 2) { break; }
        let children: Vec<(String, Out)> = match &cur {
            Out::YArray(a) => a.iter(txn).enumerate().filter(|(_, v)| !matches!(v, Out::Any(_))).map(|(i, v)| (format!("[{i}]"), v)).collect(),
            Out::YMap(m) => { let mut v: Vec<(String, Out)> = m.iter(txn).filter(|(_, v)| !matches!(v, Out::Any(_))).map(|(k, v)| (format!(".{k}"), v)).collect(); v.sort_by(|a, b| a.0.cmp(&b.0)); v }
            Out::YXmlFragment(x) => (0..x.len(txn)).filter_map(|i| x.get(txn, i).map(|n| (format!("<{i}>"), match n { yrs::XmlOut::Element(e) => Out::YXmlElement(e), yrs::XmlOut::Fragment(f) => Out::YXmlFragment(f), yrs::XmlOut::Text(t) => Out::YXmlText(t) }))).collect(),
            Out::YXmlElement(x) => (0..x.len(txn)).filter_map(|i| x.get(txn, i).map(|n| (format!("<{i}>"), match n { yrs::XmlOut::Element(e) => Out::YXmlElement(e), yrs::XmlOut::Fragment(f) => Out::YXmlFragment(f), yrs::XmlOut::Text(t) => Out::YXmlText(t) }))).collect(),
            _ => vec![],
        };
        if children.is_empty() { break; }
        let (n, c) = r.pick(&children).clone();
        name.push_str(&n); cur = c;
    }
    match &cur {
        Out::YText(t) => edit_text(t, txn, r, cfg, bytes, script, &name),
        Out::YArray(a) => edit_array(a, txn, r, cfg, script, &name, tag),
        Out::YMap(m) => edit_map(m, txn, r, cfg, script, &name, tag),
        Out::YXmlFragment(x) => edit_xml_children(x, txn, r, cfg, script, &name),
        Out::YXmlElement(e) => { if r.chance(1, 2) { edit_xml_children(e, txn, r, cfg, script, &name) } else { edit_xml_attrs(e, txn, r, cfg, script, &name) } }
        Out::YXmlText(t) => {
            let chunks = t.diff(txn, YChange::identity);
            let pos = text_positions(&chunks, txn, bytes);
            let n = pos.len() - 1;
            let choice = r.below(10);
            if choice < 5 || n == 0 {
                let p = *r.pick(&pos); let s = rand_string(r);
                script.push(format!("{name}.insert({p},{s:?})"));
                t.insert(txn, p, &s);
            } else if choice < 7 && cfg.deletes {
                let i = r.below(n as u64) as usize; let j = r.range(i as u64 + 1, (n as u64).min(i as u64 + 3)) as usize;
                script.push(format!("{name}.remove_range({},{})", pos[i], pos[j] - pos[i]));
                t.remove_range(txn, pos[i], pos[j] - pos[i]);
            } else if choice < 8 && cfg.formatting {
                let i = r.below(n as u64) as usize; let j = r.range(i as u64 + 1, (n as u64).min(i as u64 + 3)) as usize; let a = rand_attrs(r);
                script.push(format!("{name}.format({},{},{})", pos[i], pos[j] - pos[i], print_attrs(&a)));
                t.format(txn, pos[i], pos[j] - pos[i], a);
            } else {
                let k = *r.pick(&["id", "cls"]);
                if r.chance(2, 3) || !cfg.deletes { let v = rand_string(r); script.push(format!("{name}.insert_attribute({k},{v:?})")); t.insert_attribute(txn, k, v); }
                else { script.push(format!("{name}.remove_attribute({k})")); t.remove_attribute(txn, &k); }
            }
        }
        _ => {}
    }
}

/// One local transaction of 1..=max_calls random calls; returns the v1 and v2 updates it emitted.
pub fn local_txn(rep: &Replica, r: &mut Rng, cfg: &EditCfg, bytes: bool, max_calls: u64, script: &mut Vec<String>, tag: &mut u64) -> (Vec<Vec<u8>>, Vec<Vec<u8>>) {
    rep.drain1(); rep.drain2();
    {
        let mut txn = rep.doc.transact_mut();
        let n = r.range(1, max_calls);
        for _ in 0..n { random_call(&rep.doc, &mut txn, r, cfg, bytes, script, tag); }
    }
    (rep.drain1(), rep.drain2())
}

/// One local transaction of an editor session: the replica keeps a cursor in the root text and one in the root array and mostly
/// continues typing where it stopped (so consecutive transactions produce runs with consecutive ids and chained origins, which is
/// what block squashing is about), sometimes moves the cursor, sometimes deletes backwards.
pub fn typing_txn(rep: &Replica, r: &mut Rng, cursor: &mut (u32, u32), script: &mut Vec<String>, tag: &mut u64) -> (Vec<Vec<u8>>, Vec<Vec<u8>>) {
    rep.drain1(); rep.drain2();
    {
        let mut txn = rep.doc.transact_mut();
        let n = r.range(1, 2);
        for _ in 0..n {
            if r.chance(1, 2) {
                let t = txn.get_or_insert_text(ROOT_TEXT);
                let len = t.len(&txn);
                if cursor.0 > len || r.chance(1, 6) { cursor.0 = r.below(len as u64 + 1) as u32; }
                if r.chance(1, 6) && cursor.0 > 0 { let l = r.range(1, cursor.0.min(2) as u64) as u32; cursor.0 -= l; script.push(format!("t.remove_range({},{l})", cursor.0)); t.remove_range(&mut txn, cursor.0, l); }
                else { let s: String = (0..r.range(1, 2)).map(|_| *r.pick(&["a", "b", "c", "d", "e", "x", "y", "z"])).collect(); script.push(format!("t.insert({},{s:?})", cursor.0)); t.insert(&mut txn, cursor.0, &s); cursor.0 += s.len() as u32; }
            } else {
                let a = txn.get_or_insert_array(ROOT_ARRAY);
                let len = a.len(&txn);
                if cursor.1 > len || r.chance(1, 6) { cursor.1 = r.below(len as u64 + 1) as u32; }
                if r.chance(1, 6) && cursor.1 > 0 { cursor.1 -= 1; script.push(format!("a.remove({})", cursor.1)); a.remove(&mut txn, cursor.1); }
                else { *tag += 1; let v = Any::Number((*tag * 1000) as f64); script.push(format!("a.insert({},{})", cursor.1, print_any(&v))); a.insert(&mut txn, cursor.1, v); cursor.1 += 1; }
            }
        }
    }
    (rep.drain1(), rep.drain2())
}

pub fn store_dump(doc: &Doc) -> VStore { dump_store(&doc.transact()) }
pub fn sv_string(doc: &Doc) -> String {
    let sv = doc.transact().state_vector();
    let mut v: Vec<(u64, u32)> = sv.iter().map(|(c, k)| (c.get(), *k)).collect();
    v.sort();
    v.iter().map(|(c, k)| format!("{:x}:{:x}", c, k)).collect::<Vec<_>>().join(",")
}
pub fn hexs(b: &[u8]) -> String { hex(b) }
pub type Dist = BTreeMap<String, u64>;
