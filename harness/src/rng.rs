//! splitmix64: the single source of randomness; every case is derived from (seed, case index).
#[derive(Clone)]
pub struct Rng(pub u64);
impl Rng {
    pub fn new(seed: u64) -> Self { Rng(seed.wrapping_mul(0x9E3779B97F4A7C15) ^ 0xD1B54A32D192ED03) }
    pub fn for_case(seed: u64, stream: u64, index: u64) -> Self {
        let mut r = Rng::new(seed ^ stream.wrapping_mul(0xA24BAED4963EE407));
        r.0 = r.0.wrapping_add(index.wrapping_mul(0x9FB21C651E98DF25));
        r.next(); r
    }
    pub fn next(&mut self) -> u64 {
        self.0 = self.0.wrapping_add(0x9E3779B97F4A7C15);
        let mut z = self.0;
        z = (z ^ (z >> 30)).wrapping_mul(0xBF58476D1CE4E5B9);
        z = (z ^ (z >> 27)).wrapping_mul(0x94D049BB133111EB);
        z ^ (z >> 31)
    }
    /// uniform in 0..n (n > 0)
    pub fn below(&mut self, n: u64) -> u64 { if n == 0 { 0 } else { self.next() % n } }
    pub fn range(&mut self, lo: u64, hi: u64) -> u64 { lo + self.below(hi - lo + 1) }
    pub fn chance(&mut self, num: u64, den: u64) -> bool { self.below(den) < num }
    pub fn pick<'a, T>(&mut self, v: &'a [T]) -> &'a T { &v[self.below(v.len() as u64) as usize] }
    pub fn shuffle<T>(&mut self, v: &mut [T]) {
        for i in (1..v.len()).rev() { let j = self.below(i as u64 + 1) as usize; v.swap(i, j); }
    }
}
