//! What a harness run found; serialised as JSON for ./check.
use serde_json::{json, Value};
use std::collections::{BTreeMap, HashSet};

#[derive(Default)]
pub struct Report {
    pub evaluations: u64,
    pub nontrivial: HashSet<u64>,
    pub disagreements: Vec<Value>, // model vs implementation
    pub failures: Vec<Value>,      // the property's own oracle failed on the implementation
    pub samples: Vec<Value>,
    pub dist: BTreeMap<String, u64>,
    pub exhaustive: bool,
    pub notes: Vec<String>,
    pub class_counts: BTreeMap<String, u64>,
}
impl Report {
    pub fn count(&mut self, key: &str) { *self.dist.entry(key.to_string()).or_insert(0) += 1; }
    pub fn add(&mut self, key: &str, n: u64) { *self.dist.entry(key.to_string()).or_insert(0) += n; }
    pub fn nontrivial_case(&mut self, repr: &str) { self.nontrivial.insert(fnv(repr.as_bytes())); }
    pub fn sample(&mut self, v: Value) { if self.samples.len() < 6 { self.samples.push(v); } }
    pub fn disagree(&mut self, v: Value) { if self.disagreements.len() < 50 { self.disagreements.push(v); } else { self.count("disagreements_dropped"); } }
    pub fn fail(&mut self, v: Value) { self.push_fail(v, true) }
    fn push_fail(&mut self, v: Value, count: bool) {
        // keep at most 3 examples per failure class, 400 in total; count the rest
        let cls = v.get("class").and_then(|c| c.as_str()).unwrap_or("").to_string();
        let same = self.failures.iter().filter(|f| f.get("class").and_then(|c| c.as_str()).unwrap_or("") == cls).count();
        if count { *self.class_counts.entry(cls).or_insert(0) += 1; }
        if same < 3 && self.failures.len() < 400 { self.failures.push(v); } else if count { self.count("failures_dropped"); }
    }
    pub fn merge(&mut self, o: Report) {
        self.evaluations += o.evaluations;
        self.nontrivial.extend(o.nontrivial);
        for d in o.disagreements { self.disagree(d); }
        for d in o.failures { self.push_fail(d, false); }
        for s in o.samples { self.sample(s); }
        for (k, v) in o.dist { *self.dist.entry(k).or_insert(0) += v; }
        for (k, v) in o.class_counts { *self.class_counts.entry(k).or_insert(0) += v; }
        self.notes.extend(o.notes);
    }
    pub fn to_json(&self) -> Value {
        json!({
            "evaluations": self.evaluations,
            "distinct_nontrivial": self.nontrivial.len(),
            "disagreements": self.disagreements,
            "failures": self.failures,
            "samples": self.samples,
            "distribution": self.dist,
            "exhaustive": self.exhaustive,
            "notes": self.notes,
            "failure_class_counts": self.class_counts,
        })
    }
}
impl Report {
    /// JSON that `from_json` can read back (child processes hand their report to the parent this way)
    pub fn to_json_full(&self) -> Value { let mut j = self.to_json(); j["nontrivial_hashes"] = json!(self.nontrivial.iter().map(|h| format!("{:x}", h)).collect::<Vec<_>>()); j }
    pub fn from_json(j: &Value) -> Report {
        let mut r = Report::default();
        r.evaluations = j["evaluations"].as_u64().unwrap_or(0);
        if let Some(a) = j["nontrivial_hashes"].as_array() { for h in a { if let Some(s) = h.as_str() { if let Ok(x) = u64::from_str_radix(s, 16) { r.nontrivial.insert(x); } } } }
        r.disagreements = j["disagreements"].as_array().cloned().unwrap_or_default();
        r.failures = j["failures"].as_array().cloned().unwrap_or_default();
        r.samples = j["samples"].as_array().cloned().unwrap_or_default();
        if let Some(m) = j["distribution"].as_object() { for (k, v) in m { r.dist.insert(k.clone(), v.as_u64().unwrap_or(0)); } }
        if let Some(m) = j["failure_class_counts"].as_object() { for (k, v) in m { r.class_counts.insert(k.clone(), v.as_u64().unwrap_or(0)); } }
        r.exhaustive = j["exhaustive"].as_bool().unwrap_or(false);
        r
    }
}

/// Run cases lo..hi of `prop` in child processes (chunks of `chunk` cases, `n` at a time) so that a crash of the
/// implementation (segmentation fault, abort, stack overflow) is observed as a failure of one case instead of
/// taking the whole check down. A crashed chunk is re-run case by case to find the crashing cases.
pub fn isolated(prop: &str, tier: &str, seed: u64, total: u64, chunk: u64, n: usize) -> Report {
    use std::sync::atomic::{AtomicU64, Ordering};
    let exe = std::env::current_exe().expect("current_exe");
    let dir = std::path::PathBuf::from(std::env::var("YV_TMP").unwrap_or_else(|_| "/verif/.build/tmp".into()));
    let _ = std::fs::create_dir_all(&dir);
    let next = AtomicU64::new(0);
    let run_child = |lo: u64, hi: u64, tag: String| -> Result<Report, String> {
        let out = dir.join(format!("{}-{}-{}-{}.json", prop, std::process::id(), tag, lo));
        let _ = std::fs::remove_file(&out);
        let st = std::process::Command::new(&exe).args([prop, "--tier", tier, "--seed", &seed.to_string(), "--range", &lo.to_string(), &hi.to_string(), "--out", out.to_str().unwrap()])
            .stdout(std::process::Stdio::null()).stderr(std::process::Stdio::null()).status();
        let res = match st {
            Ok(s) if s.success() => std::fs::read_to_string(&out).ok().and_then(|t| serde_json::from_str::<Value>(&t).ok()).map(|j| Report::from_json(&j)).ok_or_else(|| "child wrote no report".to_string()),
            Ok(s) => { use std::os::unix::process::ExitStatusExt; Err(match s.signal() { Some(sig) => format!("killed by signal {}", sig), None => format!("exit status {:?}", s.code()) }) }
            Err(e) => Err(format!("spawn failed: {e}")),
        };
        let _ = std::fs::remove_file(&out);
        res
    };
    let f = |_w: usize, _nw: usize| -> Report {
        let mut rep = Report::default();
        loop {
            let lo = next.fetch_add(chunk, Ordering::SeqCst);
            if lo >= total { break; }
            let hi = (lo + chunk).min(total);
            match run_child(lo, hi, "chunk".into()) {
                Ok(r) => rep.merge(r),
                Err(_) => for c in lo..hi {
                    match run_child(c, c + 1, "single".into()) {
                        Ok(r) => rep.merge(r),
                        Err(e) => { rep.evaluations += 1; rep.fail(json!({"property": prop, "class": "process-crashed", "error": e, "case": {"index": c, "seed": seed, "tier": tier}})); }
                    }
                },
            }
        }
        rep
    };
    parallel(n, f)
}

pub fn fnv(b: &[u8]) -> u64 {
    let mut h: u64 = 0xcbf29ce484222325;
    for x in b { h ^= *x as u64; h = h.wrapping_mul(0x100000001b3); }
    h
}

/// Run `f(worker_index, nworkers)` on `n` threads and merge the reports.
pub fn parallel<F: Fn(usize, usize) -> Report + Sync>(n: usize, f: F) -> Report {
    let mut total = Report::default();
    std::thread::scope(|s| {
        let hs: Vec<_> = (0..n).map(|i| { let f = &f; s.spawn(move || f(i, n)) }).collect();
        for h in hs {
            match h.join() {
                Ok(r) => total.merge(r),
                Err(_) => total.notes.push("worker thread panicked".to_string()),
            }
        }
    });
    total
}

thread_local! { pub static LAST_PANIC: std::cell::RefCell<String> = std::cell::RefCell::new(String::new()); }
/// install a quiet panic hook that remembers message + location per thread
pub fn install_panic_hook() {
    std::panic::set_hook(Box::new(|info| {
        let loc = info.location().map(|l| format!("{}:{}", l.file(), l.line())).unwrap_or_default();
        let msg = if let Some(s) = info.payload().downcast_ref::<&str>() { s.to_string() } else if let Some(s) = info.payload().downcast_ref::<String>() { s.clone() } else { "panic".into() };
        if std::env::var("YV_DEBUG").is_ok() { eprintln!("PANIC {} at {}\n{}", msg, loc, std::backtrace::Backtrace::force_capture()); }
        LAST_PANIC.with(|p| *p.borrow_mut() = format!("{} at {}", msg, loc));
    }));
}
/// Run a closure catching panics; returns Err(message) on panic.
pub fn catch<T, F: FnOnce() -> T + std::panic::UnwindSafe>(f: F) -> Result<T, String> {
    match std::panic::catch_unwind(f) {
        Ok(v) => Ok(v),
        Err(e) => {
            let msg = if let Some(s) = e.downcast_ref::<&str>() { s.to_string() }
                      else if let Some(s) = e.downcast_ref::<String>() { s.clone() } else { "panic".to_string() };
            let with_loc = LAST_PANIC.with(|p| p.borrow().clone());
            Err(if with_loc.is_empty() { msg } else { with_loc })
        }
    }
}
