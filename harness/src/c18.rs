//! C18: the y-sync handshake converges under every interleaving; awareness is a per-client
//! last-writer-wins register on its clock.
use crate::model::{hex, Model};
use crate::report::{catch, parallel, Report};
use crate::rng::Rng;
use crate::sim::*;
use serde_json::json;
use std::collections::{BTreeMap, VecDeque};
use std::sync::{Arc, Mutex};
use yrs::block::ClientID;
use yrs::sync::awareness::{AwarenessUpdate, AwarenessUpdateEntry};
use yrs::sync::{Awareness, DefaultProtocol, Message, Protocol, SyncMessage};
use yrs::updates::decoder::Decode;
use yrs::updates::encoder::{Encode, Encoder, EncoderV1};
use yrs::{ReadTxn, Transact};

// ------------------------------------------------------------------------------------------------ handshake
struct Peer { aw: Awareness, out: Arc<Mutex<Vec<Vec<u8>>>>, _sub: yrs::Subscription }
fn mk_peer(client: u64) -> Peer {
    let doc = mk_doc(client, DocCfg::default());
    declare_roots(&doc);
    let out: Arc<Mutex<Vec<Vec<u8>>>> = Arc::new(Mutex::new(vec![]));
    let o2 = out.clone();
    let sub = doc.observe_update_v1(move |_, e| o2.lock().unwrap().push(e.update.clone())).unwrap();
    Peer { aw: Awareness::with_clock(doc, || 0u64), out, _sub: sub }
}

/// a transaction that only deletes (root text / array / map / XML children): no clock advances
fn random_delete(txn: &mut yrs::TransactionMut, r: &mut Rng, script: &mut Vec<String>) {
    use yrs::{Array, Map, Text, XmlFragment, WriteTxn};
    for _ in 0..4 {
        match r.below(4) {
            0 => { let t = txn.get_or_insert_text(ROOT_TEXT); let pos = text_positions(&t.diff(txn, yrs::types::text::YChange::identity), txn, false); let n = pos.len() - 1; if n > 0 { let i = r.below(n as u64) as usize; let j = r.range(i as u64 + 1, n as u64) as usize; script.push(format!("t.remove({},{})", pos[i], pos[j] - pos[i])); t.remove_range(txn, pos[i], pos[j] - pos[i]); return; } }
            1 => { let a = txn.get_or_insert_array(ROOT_ARRAY); let n = a.len(txn); if n > 0 { let i = r.below(n as u64) as u32; let l = r.range(1, (n - i) as u64) as u32; script.push(format!("a.remove({i},{l})")); a.remove_range(txn, i, l); return; } }
            2 => { let m = txn.get_or_insert_map(ROOT_MAP); let mut ks: Vec<String> = m.keys(txn).map(|k| k.to_string()).collect(); ks.sort(); if !ks.is_empty() { let k = r.pick(&ks).clone(); script.push(format!("m.remove({k:?})")); m.remove(txn, &k); return; } }
            _ => { let x = txn.get_or_insert_xml_fragment(ROOT_XML); let n = x.len(txn); if n > 0 { let i = r.below(n as u64) as u32; script.push(format!("x.remove({i},1)")); x.remove_range(txn, i, 1); return; } }
        }
    }
}

fn handshake_case(seed: u64, index: u64, rep: &mut Report) {
    let mut r = Rng::for_case(seed, 118, index);
    let mut peers = [mk_peer(1), mk_peer(2)];
    let ecfg = EditCfg::default();
    let mut tag = 0u64;
    let mut script = vec![];
    // prior divergence (updates produced now are NOT forwarded: the peers are not connected yet)
    for p in 0..2 { for _ in 0..r.below(4) { let mut sc = vec![]; { let mut txn = peers[p].aw.doc().transact_mut(); random_call(peers[p].aw.doc(), &mut txn, &mut r, &ecfg, false, &mut sc, &mut tag); } script.push(format!("p{} offline {{{}}}", p, sc.join("; "))); } peers[p].out.lock().unwrap().clear(); }
    // a shared past in half of the cases
    if r.chance(1, 2) { let u = peers[0].aw.doc().transact().encode_state_as_update_v1(&yrs::StateVector::default()); let _ = peers[1].aw.doc().transact_mut().apply_update(yrs::Update::decode_v1(&u).unwrap()); peers[1].out.lock().unwrap().clear(); script.push("p1 had p0's past".into()); }
    // ... and in a third of the cases the peers were fully in sync once and went offline again afterwards; what a peer does then
    // is often deletion only, which leaves its state vector where it was (the handshake has to carry delete sets whatever the
    // state vectors say)
    if r.chance(1, 3) {
        for (a, b) in [(0usize, 1usize), (1, 0)] { let u = peers[a].aw.doc().transact().encode_state_as_update_v1(&peers[b].aw.doc().transact().state_vector()); let _ = peers[b].aw.doc().transact_mut().apply_update(yrs::Update::decode_v1(&u).unwrap()); }
        script.push("both were in sync, then went offline".into());
        for p in 0..2 {
            for _ in 0..r.below(3) {
                let mut sc = vec![];
                { let mut txn = peers[p].aw.doc().transact_mut(); if r.chance(2, 3) { random_delete(&mut txn, &mut r, &mut sc); } else { random_call(peers[p].aw.doc(), &mut txn, &mut r, &ecfg, false, &mut sc, &mut tag); } }
                script.push(format!("p{} offline {{{}}}", p, sc.join("; ")));
            }
            peers[p].out.lock().unwrap().clear();
        }
        rep.count("handshakes_after_an_earlier_sync");
    }
    let proto = DefaultProtocol;
    let mut chan: [VecDeque<Vec<u8>>; 2] = [VecDeque::new(), VecDeque::new()]; // chan[i] = messages travelling TO peer i
    let mut fails: Vec<serde_json::Value> = vec![];
    for p in 0..2 {
        let mut enc = EncoderV1::new();
        if let Err(e) = proto.start(&peers[p].aw, &mut enc) { fails.push(json!({"class": "start-error", "error": e.to_string()})); }
        chan[1 - p].push_back(enc.to_vec());
    }
    let mut edits_left = r.below(6);
    let mut steps = 0;
    let mut concurrent_edit = false;
    loop {
        steps += 1; if steps > 400 { fails.push(json!({"class": "handshake-does-not-terminate"})); break; }
        let can_deliver: Vec<usize> = (0..2).filter(|i| !chan[*i].is_empty()).collect();
        if can_deliver.is_empty() && edits_left == 0 { break; }
        let do_edit = edits_left > 0 && (can_deliver.is_empty() || r.chance(1, 3));
        if do_edit {
            let p = r.below(2) as usize; edits_left -= 1;
            if !can_deliver.is_empty() { concurrent_edit = true; }
            let mut sc = vec![];
            { let mut txn = peers[p].aw.doc().transact_mut(); for _ in 0..r.range(1, 2) { random_call(peers[p].aw.doc(), &mut txn, &mut r, &ecfg, false, &mut sc, &mut tag); } }
            script.push(format!("p{} edit {{{}}}", p, sc.join("; ")));
            let ups: Vec<Vec<u8>> = peers[p].out.lock().unwrap().drain(..).collect();
            for u in ups {
                let m = Message::Sync(SyncMessage::Update(u));
                let b = m.encode_v1();
                match Message::decode_v1(&b) { Ok(m2) if m2 == m => {}, other => fails.push(json!({"class": "message-roundtrip", "got": format!("{:?}", other.map(|_| ()))})) }
                chan[1 - p].push_back(b);
            }
        } else {
            let p = *r.pick(&can_deliver);
            let data = chan[p].pop_front().unwrap();
            script.push(format!("p{} <- {} bytes", p, data.len()));
            match catch(std::panic::AssertUnwindSafe(|| proto.handle(&mut peers[p].aw, &data))) {
                Ok(Ok(resps)) => {
                    // applying a remote update fires the update observer: those are not re-broadcast (2 peers)
                    peers[p].out.lock().unwrap().clear();
                    for m in resps { let b = m.encode_v1(); match Message::decode_v1(&b) { Ok(m2) if m2 == m => {}, _ => fails.push(json!({"class": "message-roundtrip"})) } chan[1 - p].push_back(b); }
                }
                Ok(Err(e)) => fails.push(json!({"class": "handle-error", "error": e.to_string()})),
                Err(pn) => fails.push(json!({"class": "handle-panic", "error": pn})),
            }
        }
    }
    let (d0, d1) = (public_dump(peers[0].aw.doc()), public_dump(peers[1].aw.doc()));
    let pend = peers.iter().any(|p| p.aw.doc().transact().has_missing_updates());
    if d0 != d1 || pend { fails.push(json!({"class": "peers-differ-after-handshake", "p0": d0, "p1": d1, "pending": pend})); }
    else if internal_dump(&store_dump(peers[0].aw.doc())) != internal_dump(&store_dump(peers[1].aw.doc())) { fails.push(json!({"class": "peers-differ-internally-after-handshake"})); }
    rep.evaluations += 1;
    rep.count("handshakes");
    if concurrent_edit { rep.nontrivial_case(&format!("hs:{}", index)); rep.count("handshakes_with_concurrent_edits"); }
    for mut f in fails { f["property"] = json!("C18"); f["case"] = json!({"stream": 118, "index": index, "seed": seed}); f["script"] = json!(script); rep.fail(f); }
    if rep.samples.len() < 2 && concurrent_edit { rep.sample(json!({"kind": "handshake", "case": index, "script": script})); }
}

// ------------------------------------------------------------------------------------------------ awareness
fn aw_dump(a: &Awareness) -> String {
    let mut es: Vec<(usize, String, String, String)> = a.iter().map(|(c, s)| { let h = format!("{:x}", c.get()); (h.len(), h, format!("{:x}", s.clock), match s.data { Some(d) => rawhex(d.as_bytes()), None => "null".into() }) }).collect();
    es.sort();
    if es.is_empty() { "_".into() } else { es.iter().map(|(_, c, k, j)| format!("{}:{}:{}", c, k, j)).collect::<Vec<_>>().join(",") }
}
fn upd_dump(u: &AwarenessUpdate) -> String {
    // entries in the order the implementation will iterate them
    let es: Vec<String> = u.clients.iter().map(|(c, e)| format!("{:x}:{:x}:{}", c.get(), e.clock, if e.json.as_ref() == "null" { "null".to_string() } else { rawhex(e.json.as_bytes()) })).collect();
    if es.is_empty() { "_".into() } else { es.join(",") }
}
fn perms(n: usize) -> Vec<Vec<usize>> { if n == 0 { return vec![vec![]]; } let mut out = vec![]; for p in perms(n - 1) { for i in 0..=p.len() { let mut q = p.clone(); q.insert(i, n - 1); out.push(q); } } out }

fn awareness_case(seed: u64, index: u64, md: &mut Model, rep: &mut Report) {
    let mut r = Rng::for_case(seed, 218, index);
    let nclients = r.range(2, 4) as usize;
    let ids: Vec<u64> = (0..nclients).map(|i| [3u64, 7, (1 << 40) + 1, 11][i]).collect();
    // each remote client is a real Awareness producing its own updates (set, re-set, clean), occasionally
    // another client "times out" a peer (a null entry at the clock it last saw)
    let mut producers: Vec<Awareness> = ids.iter().map(|c| Awareness::with_clock(mk_doc(*c, DocCfg::default()), || 0u64)).collect();
    let mut updates: Vec<AwarenessUpdate> = vec![];
    let mut script = vec![];
    let nsteps = r.range(2, 6);
    for _ in 0..nsteps {
        let p = r.below(nclients as u64) as usize;
        match r.below(5) {
            0..=2 => { let j = format!("{{\"n\":{}}}", r.below(50)); producers[p].set_local_state_raw(j.clone()); script.push(format!("c{} set {}", p, j)); }
            3 => { producers[p].clean_local_state(); script.push(format!("c{} clean", p)); }
            _ => { // timeout of p observed by somebody else: null at p's current clock
                let k = producers[p].meta(ClientID::new(ids[p])).map(|m| m.0).unwrap_or(0);
                let mut clients = std::collections::HashMap::new();
                clients.insert(ClientID::new(ids[p]), AwarenessUpdateEntry { clock: k, json: "null".into() });
                updates.push(AwarenessUpdate { clients }); script.push(format!("timeout of c{} at clock {}", p, k)); continue; }
        }
        if let Ok(u) = producers[p].update_with_clients([ClientID::new(ids[p])]) { updates.push(u); }
    }
    if updates.len() < 2 { rep.evaluations += 1; return; }
    let mut fails: Vec<serde_json::Value> = vec![];
    let mut disag: Vec<serde_json::Value> = vec![];
    // receivers: a pure observer (its own id never appears) and one of the producers' ids with a live local state
    for (rk, local) in [(0usize, 99u64), (1usize, ids[0])] {
        let orders: Vec<Vec<usize>> = if updates.len() <= 5 { perms(updates.len()) } else { (0..24).map(|_| { let mut v: Vec<usize> = (0..updates.len()).collect(); r.shuffle(&mut v); v }).collect() };
        let mut reference: Option<String> = None;
        for (oi, ord) in orders.iter().enumerate() {
            let mut a = Awareness::with_clock(mk_doc(local, DocCfg::default()), || 0u64);
            md.ask(&format!("A new m {:x}", local));
            if rk == 1 { a.set_local_state_raw("{\"me\":1}"); md.ask(&format!("A set m {}", rawhex(b"{\"me\":1}"))); }
            let mut clocks: BTreeMap<u64, u32> = BTreeMap::new();
            let mut seq = ord.clone();
            if r.chance(1, 3) { let d = *r.pick(&seq); seq.push(d); } // a duplicated delivery
            for &ui in &seq {
                let u = updates[ui].clone();
                let ud = upd_dump(&u);
                let before_local = a.local_state_raw();
                if let Err(e) = a.apply_update(u) { fails.push(json!({"class": "apply-error", "error": e.to_string()})); }
                md.ask(&format!("A apply m {}", ud));
                rep.add("awareness_applies", 1);
                // clocks never go backwards
                for (c, s) in a.iter() { let prev = clocks.insert(c.get(), s.clock).unwrap_or(0); if s.clock < prev { fails.push(json!({"class": "clock-went-backwards", "client": c.get(), "from": prev, "to": s.clock})); } }
                // a peer never lets a remote message erase its own live state
                if rk == 1 && before_local.is_some() && a.local_state_raw().is_none() { fails.push(json!({"class": "local-state-erased-by-remote", "update": ud})); }
                let m = md.ask("A dump m");
                if m != format!("ok {}", aw_dump(&a)) { disag.push(json!({"kind": "awareness state", "model": m, "impl": aw_dump(&a), "after": ud, "receiver": local})); }
            }
            let fin = aw_dump(&a);
            // order-insensitive and idempotent: every order (with a duplicate) gives the same registers.
            // For the receiver whose own id is written by others the local-protection bump makes the own entry
            // order dependent by design; compare the remote entries only in that case.
            let cmp = if rk == 1 { fin.split(',').filter(|e| !e.starts_with(&format!("{:x}:", local))).collect::<Vec<_>>().join(",") } else { fin.clone() };
            match &reference { None => reference = Some(cmp), Some(x) => if *x != cmp { fails.push(json!({"class": "awareness-order-dependent", "receiver": local, "order": ord, "got": cmp, "first_order_gave": x})); } }
            if oi > 60 { break; }
        }
    }
    rep.evaluations += 1;
    rep.nontrivial_case(&format!("aw:{}", index));
    for mut f in fails { f["property"] = json!("C18"); f["case"] = json!({"stream": 218, "index": index, "seed": seed}); f["script"] = json!(script); rep.fail(f); }
    for mut d in disag { d["case"] = json!({"stream": 218, "index": index, "seed": seed}); d["script"] = json!(script); rep.disagree(d); }
    if rep.samples.len() < 4 { rep.sample(json!({"kind": "awareness", "case": index, "script": script, "updates": updates.iter().map(upd_dump).collect::<Vec<_>>()})); }
}

/// a busy room: one awareness update carrying hundreds of clients survives the wire, reaches a joining peer through
/// Protocol::start / handle, and the Coq decoder reads the same entries
fn big_room_case(seed: u64, index: u64, md: &mut Model, rep: &mut Report) {
    let mut r = Rng::for_case(seed, 318, index);
    let n = *r.pick(&[1usize, 2, 200, 255, 256, 257, 258, 300, 511, 512, 513, 1000]) + r.below(3) as usize;
    let mut clients = std::collections::HashMap::new();
    for i in 0..n { clients.insert(ClientID::new(1000 + i as u64 * 3), AwarenessUpdateEntry { clock: 1 + r.below(5) as u32, json: format!("{{\"n\":{}}}", i).into() }); }
    let u = AwarenessUpdate { clients };
    let bytes = u.encode_v1();
    rep.evaluations += 1; rep.count("big_rooms"); rep.nontrivial_case(&format!("room:{}", index));
    let case = json!({"stream": 318, "index": index, "seed": seed, "clients": n});
    match AwarenessUpdate::decode_v1(&bytes) {
        Ok(d) => if d.clients.len() != n || d.clients.iter().any(|(c, e)| u.clients.get(c).map(|x| (x.clock, x.json.clone())) != Some((e.clock, e.json.clone()))) {
            rep.fail(json!({"property": "C18", "class": "awareness-update-roundtrip-loses-entries", "sent": n, "decoded": d.clients.len(), "case": case})); },
        Err(e) => rep.fail(json!({"property": "C18", "class": "awareness-update-rejected", "error": e.to_string(), "case": case})),
    }
    // a peer that joins: every client of the room is known to it afterwards
    let mut room = Awareness::with_clock(mk_doc(1, DocCfg::default()), || 0u64);
    let _ = room.apply_update(u);
    let mut joiner = Awareness::with_clock(mk_doc(2, DocCfg::default()), || 0u64);
    let proto = DefaultProtocol;
    let mut enc = EncoderV1::new();
    if proto.start(&room, &mut enc).is_ok() {
        let frame = enc.to_vec();
        let mut dec = yrs::updates::decoder::DecoderV1::from(frame.as_slice());
        let mut reader = yrs::sync::MessageReader::new(&mut dec);
        while let Some(Ok(msg)) = reader.next() { let _ = proto.handle_message(&mut joiner, msg); }
        let known = joiner.iter().filter(|(_, s)| s.data.is_some()).count();
        if known != n { rep.fail(json!({"property": "C18", "class": "joining-peer-misses-clients-of-the-room", "room": n, "known_after_handshake": known, "case": case})); }
    }
    // the model reads the same number of entries
    let a = md.ask(&format!("DEC awareness {}", hex(&bytes)));
    let entries = a.strip_prefix("ok ").map(|x| x.split(" rest=").next().unwrap_or("").split(',').filter(|e| !e.is_empty() && *e != "_").count());
    if entries != Some(n) { rep.disagree(json!({"class": "awareness-decode-differs-from-model", "sent": n, "model": a.chars().take(200).collect::<String>(), "case": case})); }
}

pub fn run(tier: &str, seed: u64, workers: usize) -> Report {
    let (nh, na) = if tier == "thorough" { (10000, 5000) } else { (2500, 1000) };
    let mut total = parallel(workers, |w, nw| {
        let mut rep = Report::default();
        let mut md = Model::spawn();
        for ci in 0..nh { if ci as usize % nw != w { continue; }
            match catch(std::panic::AssertUnwindSafe(|| { let mut r2 = Report::default(); handshake_case(seed, ci, &mut r2); r2 })) { Ok(r2) => rep.merge(r2), Err(e) => { rep.evaluations += 1; rep.fail(json!({"property": "C18", "class": "panic", "error": e, "case": {"stream": 118, "index": ci}})); } } }
        for ci in 0..na { if ci as usize % nw != w { continue; }
            let res = { let mdr = &mut md; catch(std::panic::AssertUnwindSafe(|| { let mut r2 = Report::default(); awareness_case(seed, ci, mdr, &mut r2); r2 })) };
            match res { Ok(r2) => rep.merge(r2), Err(e) => { rep.evaluations += 1; rep.fail(json!({"property": "C18", "class": "panic", "error": e, "case": {"stream": 218, "index": ci}})); md = Model::spawn(); } } }
        for ci in 0..(if na > 300 { 200 } else { 24 }) { if ci as usize % nw != w { continue; }
            let res = { let mdr = &mut md; catch(std::panic::AssertUnwindSafe(|| { let mut r2 = Report::default(); big_room_case(seed, ci, mdr, &mut r2); r2 })) };
            match res { Ok(r2) => rep.merge(r2), Err(e) => { rep.evaluations += 1; rep.fail(json!({"property": "C18", "class": "panic", "error": e, "case": {"stream": 318, "index": ci}})); md = Model::spawn(); } } }
        rep
    });
    total.notes.push("handshake: two real Awareness+DefaultProtocol peers with prior divergence (optionally a shared past); both send start(); the two FIFO channels are drained in a seeded random interleaving mixed with concurrent local edits forwarded as Update messages; at quiescence both documents are equal (public and item level); every message is round-tripped. awareness: 2..4 producing clients (set / re-set / clean / timeout by a third party); every permutation of <= 5 updates (plus a duplicated delivery) applied to an observer and to a peer with a live local state: same registers for every order, clocks monotone, local state never erased; the Coq model (OpSet/Awareness.v) is compared after every apply. big rooms: one awareness update with 1..1000 clients (sizes around 256 and 512 included) round-tripped, handed to a joining peer through start / handle, and decoded by the Coq decoder".into());
    total
}
