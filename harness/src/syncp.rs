//! C06 (state-vector sync), C08 (document-free update algebra), C13 (snapshots), C15 (GC invisible).
//! All four start from seeded multi-replica histories whose replica states contain stashes and gaps,
//! and re-create any replica state on demand by replaying the exact sequence of updates it applied.
use crate::model::{hex, Model};
use crate::report::{catch, parallel, Report};
use crate::rng::Rng;
use crate::sim::*;
use serde_json::json;
use std::collections::BTreeSet;
use yrs::updates::decoder::Decode;
use yrs::updates::encoder::Encode;
use yrs::{Doc, ReadTxn, Snapshot, StateVector, Transact, Update};

pub struct Hist {
    pub reps: Vec<Replica>,
    pub applied: Vec<Vec<Vec<u8>>>,      // per replica: v1 updates in the order they were applied (own ones included)
    pub msgs: Vec<(usize, Vec<u8>, Vec<u8>)>,
    pub svs: Vec<Vec<Vec<u8>>>,          // per replica: encoded state vectors recorded along the way (stale vectors)
    pub applied_at: Vec<Vec<usize>>,     // per replica: how many updates it had applied when the corresponding vector was recorded
    pub script: Vec<String>,
    pub causal: Vec<BTreeSet<usize>>,
}

/// A history where deliveries may be out of order (gaps, stashes) unless `fifo`.
pub fn gen_history(r: &mut Rng, cfgs: &[DocCfg], steps: u64, fifo: bool, ecfg: &EditCfg) -> Hist {
    let n = cfgs.len();
    let ids = [1u64, 2, 3, 77, (1u64 << 32) + 5];
    let reps: Vec<Replica> = (0..n).map(|i| Replica::new(ids[i], cfgs[i])).collect();
    let mut h = Hist { reps, applied: vec![vec![]; n], msgs: vec![], svs: vec![vec![]; n], applied_at: vec![vec![]; n], script: vec![], causal: vec![BTreeSet::new(); n] };
    let mut delivered: Vec<BTreeSet<usize>> = vec![BTreeSet::new(); n];
    let mut tag = 0u64;
    for _ in 0..steps {
        let i = r.below(n as u64) as usize;
        let mut cand: Vec<usize> = (0..h.msgs.len()).filter(|m| !delivered[i].contains(m)).collect();
        if fifo { // only the oldest undelivered message of each sender
            let mut seen = BTreeSet::new();
            cand.retain(|m| seen.insert(h.msgs[*m].0));
        }
        if r.chance(1, 2) || cand.is_empty() {
            let mut sc = vec![];
            let (u1, u2) = local_txn(&h.reps[i], r, ecfg, cfgs[i].bytes_offsets, 3, &mut sc, &mut tag);
            h.script.push(format!("r{} txn {{{}}}", i, sc.join("; ")));
            if let (Some(a), Some(b)) = (u1.into_iter().next(), u2.into_iter().next()) {
                h.applied[i].push(a.clone());
                h.msgs.push((i, a, b));
                delivered[i].insert(h.msgs.len() - 1);
            }
        } else {
            let m = *r.pick(&cand);
            h.script.push(format!("r{} <- msg{}", i, m));
            let _ = h.reps[i].apply_v1(&h.msgs[m].1);
            h.reps[i].drain1(); h.reps[i].drain2();
            h.applied[i].push(h.msgs[m].1.clone());
            delivered[i].insert(m);
        }
        let sv = h.reps[i].doc.transact().state_vector().encode_v1();
        h.svs[i].push(sv);
        let k = h.applied[i].len(); h.applied_at[i].push(k);
    }
    h
}

pub fn replay(applied: &[Vec<u8>], client: u64, cfg: DocCfg) -> Replica {
    let rep = Replica::new(client, cfg);
    for u in applied { let _ = rep.apply_v1(u); }
    rep.drain1(); rep.drain2();
    rep
}

fn idsets(doc: &Doc) -> (BTreeSet<String>, BTreeSet<String>) {
    let vs = store_dump(doc);
    let mut ids = BTreeSet::new(); let mut del = BTreeSet::new();
    for (c, bl) in &vs.blocks { for b in bl { match b {
        yrs::verif::VBlock::Item(i) => for j in 0..i.len { let s = format!("{:x}:{:x}", c, i.id.clock + j); if i.deleted { del.insert(s.clone()); } ids.insert(s); },
        yrs::verif::VBlock::GC(id, l) => for j in 0..*l { let s = format!("{:x}:{:x}", c, id.clock + j); del.insert(s.clone()); ids.insert(s); },
        _ => {}
    } } }
    (ids, del)
}
fn sv_le(a: &StateVector, b: &StateVector) -> bool { a.iter().all(|(c, k)| b.get(c) >= *k) }
fn idump(doc: &Doc) -> String { internal_dump(&store_dump(doc)) }
fn has_gap(doc: &Doc) -> bool { let vs = store_dump(doc); vs.has_pending || vs.has_pending_ds || vs.blocks.iter().any(|(_, b)| b.iter().any(|x| matches!(x, yrs::verif::VBlock::Skip(..)))) }

// ------------------------------------------------------------------------------------------------ C06
fn svo_string(v: &StateVector) -> String { let e: Vec<String> = v.iter().map(|(c, k)| format!("{:x}:{:x}", c.get(), k)).collect(); if e.is_empty() { "_".into() } else { e.join(",") } }
fn svo_sorted(v: &StateVector) -> String { let mut e: Vec<(u64, u32)> = v.iter().map(|(c, k)| (c.get(), *k)).collect(); e.sort(); if e.is_empty() { "_".into() } else { e.iter().map(|(c, k)| format!("{:x}:{:x}", c, k)).collect::<Vec<_>>().join(",") } }
fn svo_random(r: &mut Rng) -> StateVector { let mut v = StateVector::default(); for _ in 0..r.below(5) { let c = yrs::block::ClientID::new(r.range(1, 5)); let k = r.below(4) as u32; if r.chance(1, 2) { v.set_max(c, k) } else { v.set_min(c, k) } } v }
/// the implementation's comparison and merge of two state vectors against the transcription; a vector and its merge with another
/// one must compare Less or Equal (the property's "dominates" is this order)
fn svo_tie(a: &StateVector, b: &StateVector, md: &mut Model, fails: &mut Vec<serde_json::Value>, rep: &mut Report) {
    let want = match a.partial_cmp(b) { Some(std::cmp::Ordering::Less) => "L", Some(std::cmp::Ordering::Equal) => "E", Some(std::cmp::Ordering::Greater) => "G", None => "N" };
    let m = md.ask(&format!("SVO cmp {} {}", svo_string(a), svo_string(b)));
    rep.count("c06_state_vector_comparisons_compared_with_the_transcription"); rep.count(&format!("c06_state_vector_comparison_{}", want));
    if m != format!("ok {} wf=1", want) { rep.disagree(json!({"kind": "StateVector::partial_cmp transcription", "model": m, "impl": want, "a": svo_string(a), "b": svo_string(b)})); }
    let mut merged = a.clone(); merged.merge(b.clone());
    let mm = md.ask(&format!("SVO merge {} {}", svo_string(a), svo_string(b)));
    if mm != format!("ok {}", svo_sorted(&merged)) { rep.disagree(json!({"kind": "StateVector::merge transcription", "model": mm, "impl": svo_sorted(&merged), "a": svo_string(a), "b": svo_string(b)})); }
    // set_max / set_min of one entry of b (a client a may not know) on a
    if let Some((c, k)) = b.iter().next() {
        let (mut up, mut down) = (a.clone(), a.clone()); up.set_max(*c, *k); down.set_min(*c, *k);
        let mu = md.ask(&format!("SVO setmax {} {:x} {:x}", svo_string(a), c.get(), k)); let ml = md.ask(&format!("SVO setmin {} {:x} {:x}", svo_string(a), c.get(), k));
        rep.count("c06_set_max_set_min_compared_with_the_transcription");
        if mu != format!("ok {}", svo_sorted(&up)) || ml != format!("ok {}", svo_sorted(&down)) { rep.disagree(json!({"kind": "StateVector::set_max / set_min transcription", "model": [mu, ml], "impl": [svo_sorted(&up), svo_sorted(&down)], "a": svo_string(a), "client": c.get(), "clock": k})); }
    }
    // the oracle of the property itself, on the implementation: pointwise order by get() = the verdict; the merge dominates both
    let clients: std::collections::BTreeSet<u64> = a.iter().chain(b.iter()).map(|(c, _)| c.get()).collect();
    let le = clients.iter().all(|c| a.get(&yrs::block::ClientID::new(*c)) <= b.get(&yrs::block::ClientID::new(*c)));
    let ge = clients.iter().all(|c| a.get(&yrs::block::ClientID::new(*c)) >= b.get(&yrs::block::ClientID::new(*c)));
    let spec = match (le, ge) { (true, true) => "E", (true, false) => "L", (false, true) => "G", (false, false) => "N" };
    let dom = clients.iter().all(|c| { let c = yrs::block::ClientID::new(*c); merged.get(&c) == a.get(&c).max(b.get(&c)) });
    if spec != want || !dom { fails.push(json!({"class": "state-vector-order", "impl_partial_cmp": want, "pointwise": spec, "merge_is_pointwise_max": dom, "a": svo_string(a), "b": svo_string(b)})); }
}
fn c06_case(seed: u64, index: u64, md: &mut Model, rep: &mut Report) {
    let mut r = Rng::for_case(seed, 106, index);
    let n = r.range(2, 4) as usize;
    let cfgs: Vec<DocCfg> = (0..n).map(|_| DocCfg { gc: r.chance(1, 3), ..DocCfg::default() }).collect();   // senders / receivers with and without GC
    let st = r.range(5, 14); let h = gen_history(&mut r, &cfgs, st, false, &EditCfg::default());
    let mut fails: Vec<serde_json::Value> = vec![];
    let mut nontrivial = false;
    for a in 0..n { for b in 0..n {
        if a == b { continue; }
        for variant in 0..4u64 {
            let v2 = variant & 1 == 1; let full = variant & 2 == 2;
            let bb = replay(&h.applied[b], 500 + b as u64, cfgs[b]);
            let sv_b0 = bb.doc.transact().state_vector();
            // own current vector, or any older one the peer could legitimately still hold
            let stale = r.chance(1, 3) && !h.svs[b].is_empty();
            let sv_used = if stale { { let pv: &Vec<u8> = r.pick(h.svs[b].as_slice()); StateVector::decode_v1(pv.as_slice()).unwrap() } } else { sv_b0.clone() };
            let (ids_a, del_a) = idsets(&h.reps[a].doc);
            let sv_a = h.reps[a].doc.transact().state_vector();
            if has_gap(&h.reps[a].doc) || has_gap(&bb.doc) { nontrivial = true; rep.count("c06_pairs_with_gaps_or_stash"); }
            // StateVector::partial_cmp / merge (Crdt/SvOrder.v) on the two vectors, in the iteration order of the real maps, and on
            // a synthetic pair (explicit zero entries, clients known to one side only)
            if variant == 0 { svo_tie(&sv_a, &sv_b0, md, &mut fails, rep); let mut r2 = Rng::for_case(seed, 206, index * 16 + (a * 4 + b) as u64); let (x, y) = (svo_random(&mut r2), svo_random(&mut r2)); svo_tie(&x, &y, md, &mut fails, rep); }
            let u = { let t = h.reps[a].doc.transact(); match (v2, full) {
                (false, false) => t.encode_diff_v1(&sv_used), (true, false) => t.encode_diff_v2(&sv_used),
                (false, true) => t.encode_state_as_update_v1(&sv_used), (true, true) => t.encode_state_as_update_v2(&sv_used) } };
            // the transcription of Store::write_blocks_from + the delete set (Crdt/WriteBlocks.v), fed the sender's store (taken
            // from its own full-state diff) and the vector, writes the same update
            if !v2 && !full {
                let whole = h.reps[a].doc.transact().encode_diff_v1(&StateVector::default());
                let m = md.ask(&format!("WBF diff {} {}", hex(&whole), hex(&sv_used.encode_v1())));
                rep.count("c06_diffs_compared_with_the_transcription_of_write_blocks_from");
                let mut it = m.split(' ');
                match (it.next(), it.next()) {
                    (Some("ok"), Some(hx)) if *hx == hex(&u) || md.ask(&format!("DEC update {}", hx)) == md.ask(&format!("DEC update {}", hex(&u))) => { if m.contains("wf=1") && m.contains("cut=1") { rep.count("c06_diffs_within_the_hypotheses_of_wbf_diff_units"); } }
                    _ => rep.disagree(json!({"kind": "write_blocks_from transcription", "model": m.chars().take(500).collect::<String>(), "impl": hex(&u), "store": hex(&whole), "sv": hex(&sv_used.encode_v1()), "case": {"stream": 106, "index": index, "seed": seed}})),
                }
            }
            if v2 && !full {
                let whole = h.reps[a].doc.transact().encode_diff_v1(&StateVector::default());
                let m = md.ask(&format!("WBF diff {} {}", hex(&whole), hex(&sv_used.encode_v1())));
                let mut it = m.split(' ');
                if let (Some("ok"), Some(hx)) = (it.next(), it.next()) {
                    let c = md.ask(&format!("DEC same12 {} {}", hx, hex(&u)));
                    rep.count("c06_v2_diffs_compared_with_the_transcription_of_write_blocks_from");
                    if c != "ok same" { rep.disagree(json!({"kind": "write_blocks_from transcription vs encode_diff_v2 (DEC same12)", "answer": c.chars().take(700).collect::<String>(), "model_v1": hx, "impl_v2": hex(&u), "case": {"stream": 106, "index": index, "seed": seed}})); }
                }
            }
            let res = if v2 { bb.apply_v2(&u) } else { bb.apply_v1(&u) };
            rep.count("c06_exchanges");
            let ctx = json!({"a": a, "b": b, "v2": v2, "full_state": full, "stale_sv": stale, "update": hex(&u)});
            if let Err(e) = res { fails.push(json!({"class": "diff-rejected", "error": e, "ctx": ctx})); continue; }
            let sv_b1 = bb.doc.transact().state_vector();
            let (ids_b, del_b) = idsets(&bb.doc);
            if !sv_le(&sv_b0, &sv_b1) { fails.push(json!({"class": "state-vector-decreased", "ctx": ctx})); }
            // the receiver cannot hold more than the two of them held together (a full-state update also carries the sender's stash)
            if !full && !{ let fresh = replay(&h.applied[b], 561 + b as u64, cfgs[b]); let t = fresh.doc.transact(); t.has_missing_updates() } { let (ids_b0, _) = idsets(&replay(&h.applied[b], 560 + b as u64, cfgs[b]).doc);   // (a receiver with a stash of its own may integrate that stash now)
                let extra: Vec<String> = ids_b.iter().filter(|x| !ids_a.contains(*x) && !ids_b0.contains(*x)).take(8).cloned().collect();
                if !extra.is_empty() { fails.push(json!({"class": "receiver-holds-ids-nobody-had", "ctx": ctx, "ids": extra})); } }
            if !sv_le(&sv_a, &sv_b1) || !ids_a.is_subset(&ids_b) {
                // yrs stashes the REST of a client's blocks behind a block whose dependency is missing: content that A had
                // integrated (because it arrived there in separate updates) can end up in B's stash. Distinguish that
                // (B reports missing updates and holds the content once the gaps are filled) from content that is really lost.
                let missing: Vec<String> = ids_a.difference(&ids_b).cloned().collect();
                let b_pending = bb.doc.transact().has_missing_updates();
                let probe = replay(&h.applied[b], 550 + b as u64, cfgs[b]);
                let _ = if v2 { probe.apply_v2(&u) } else { probe.apply_v1(&u) };
                for m in &h.msgs { let _ = probe.apply_v1(&m.1); }
                let (ids_p, _) = idsets(&probe.doc);
                let recovered = ids_a.is_subset(&ids_p) && !probe.doc.transact().has_missing_updates() && sv_le(&sv_a, &probe.doc.transact().state_vector());
                let class = if b_pending && recovered { "integrated-content-stashed-behind-a-missing-dependency" }
                            else if !ids_a.is_subset(&ids_b) { "integrated-content-not-transferred" } else { "receiver-sv-does-not-dominate" };
                fails.push(json!({"class": class, "ctx": ctx, "missing": missing, "receiver_reports_missing_updates": b_pending, "sv_a": format!("{:?}", sv_a), "sv_b": format!("{:?}", sv_b1)}));
            }
            if !del_a.iter().all(|d| del_b.contains(d) || !ids_b.contains(d)) { fails.push(json!({"class": "deletions-not-transferred", "ctx": ctx})); }
            // idempotent: the same update again changes nothing
            let d1 = idump(&bb.doc);
            let pending_before = bb.doc.transact().has_missing_updates();
            let _ = if v2 { bb.apply_v2(&u) } else { bb.apply_v1(&u) };
            // a receiver with a stash: the second copy of the update can free a block that sat in the stash behind another block of
            // its client although its own dependencies had arrived with the first copy (the known finding); then the only change is
            // that ids the sender had integrated are integrated now
            let (ids_b2, _) = idsets(&bb.doc);
            let stash_progress = pending_before && ids_b.is_subset(&ids_b2) && ids_b2 != ids_b;
            if stash_progress { fails.push(json!({"class": "integrated-content-stashed-behind-a-missing-dependency", "ctx": ctx, "what": "applying the same update a second time integrated more of it", "freed": ids_b2.difference(&ids_b).cloned().collect::<Vec<_>>()})); continue; }
            if idump(&bb.doc) != d1 || bb.doc.transact().state_vector() != sv_b1 { fails.push(json!({"class": "reapply-changed-state", "ctx": ctx, "before": d1, "after": idump(&bb.doc), "sv_before": format!("{:?}", sv_b1), "sv_after": format!("{:?}", bb.doc.transact().state_vector()), "pending_after": bb.doc.transact().has_missing_updates(), "receiver_history_v1": h.applied[b].iter().map(|x| hex(x)).collect::<Vec<_>>()})); }
            // an update encoded against the receiver's own current state vector changes nothing
            let own = { let t = bb.doc.transact(); if v2 { t.encode_diff_v2(&sv_b1) } else { t.encode_diff_v1(&sv_b1) } };
            let _ = if v2 { bb.apply_v2(&own) } else { bb.apply_v1(&own) };
            if idump(&bb.doc) != d1 { fails.push(json!({"class": "self-diff-changed-state", "ctx": ctx})); }
        }
        // repeated exchange in both directions until nothing changes => equal
        let aa = replay(&h.applied[a], 600 + a as u64, cfgs[a]);
        let bb = replay(&h.applied[b], 700 + b as u64, cfgs[b]);
        for _round in 0..4 {
            let (sa, sb) = (aa.doc.transact().state_vector(), bb.doc.transact().state_vector());
            let ua = aa.doc.transact().encode_state_as_update_v1(&sb);
            let ub = bb.doc.transact().encode_state_as_update_v2(&sa);
            let _ = bb.apply_v1(&ua); let _ = aa.apply_v2(&ub);
        }
        // what neither has cannot be conjured up: compare only when neither side is waiting for third-party updates
        let pend = aa.doc.transact().has_missing_updates() || bb.doc.transact().has_missing_updates();
        if !pend && public_dump(&aa.doc) != public_dump(&bb.doc) {
            fails.push(json!({"class": "exchange-fixpoint-differs", "a": a, "b": b, "pa": public_dump(&aa.doc), "pb": public_dump(&bb.doc)}));
        } else if !pend && !cfgs[a].gc && !cfgs[b].gc && idump(&aa.doc) != idump(&bb.doc) {
            fails.push(json!({"class": "exchange-fixpoint-differs-internally", "a": a, "b": b}));
        } else if !pend && idsets(&aa.doc) != idsets(&bb.doc) {
            fails.push(json!({"class": "exchange-fixpoint-id-sets-differ", "a": a, "b": b}));
        }
    } }
    rep.evaluations += 1;
    if nontrivial { rep.nontrivial_case(&format!("c06:{}", index)); }
    for mut f in fails { f["property"] = json!("C06"); f["case"] = json!({"stream": 106, "index": index, "seed": seed}); f["script"] = json!(h.script); rep.fail(f); }
    if rep.samples.len() < 2 && nontrivial { rep.sample(json!({"case": index, "script": h.script})); }
}

/// visible part of a dump: deleted units, GC ids and the stash are dropped
fn visible_only(dump: &str) -> String {
    let lists = match dump.find(" |G ") { Some(i) => &dump[..i], None => dump };
    let lists = lists.strip_prefix("ok ").unwrap_or(lists);
    let mut out = vec![];
    for l in lists.split(';') {
        if let Some(i) = l.find("=[") {
            let body = &l[i + 2..l.len() - 1];
            let mut depth = 0; let mut cur = String::new(); let mut units = vec![];
            for ch in body.chars() { match ch { '[' | '{' => { depth += 1; cur.push(ch) } ']' | '}' => { depth -= 1; cur.push(ch) } ',' if depth == 0 => units.push(std::mem::take(&mut cur)), _ => cur.push(ch) } }
            if !cur.is_empty() { units.push(cur); }
            let live: Vec<String> = units.into_iter().filter(|u| !u.split('=').next().unwrap_or("").ends_with('~')).collect();
            if !live.is_empty() { out.push(format!("{}=[{}]", &l[..i], live.join(","))); }
        }
    }
    out.sort(); out.join(";")
}
/// deliver every message of the history to both documents (used to tell a stash lag from a real difference)
fn complete(h: &Hist, a: &Replica, b: &Replica) { for m in &h.msgs { let _ = a.apply_v1(&m.1); let _ = b.apply_v1(&m.1); } }
/// equality of two documents where collected (GC) forms of deleted content may legitimately differ:
/// public content, visible items in order, integrated id set, deleted id set, pending flag
fn same_docs(a: &Replica, b: &Replica) -> bool {
    public_dump(&a.doc) == public_dump(&b.doc) && visible_only(&idump(&a.doc)) == visible_only(&idump(&b.doc)) && idsets(&a.doc) == idsets(&b.doc)
        && a.doc.transact().has_missing_updates() == b.doc.transact().has_missing_updates()
}

// ------------------------------------------------------------------------------------------------ C08
fn apply_all(client: u64, us: &[Vec<u8>], v2: bool) -> Replica {
    let rep = Replica::new(client, DocCfg::default());
    for u in us { let _ = if v2 { rep.apply_v2(u) } else { rep.apply_v1(u) }; }
    rep
}
fn c08_case(seed: u64, index: u64, md: &mut Model, rep: &mut Report) {
    let mut r = Rng::for_case(seed, 108, index);
    let n = r.range(2, 4) as usize;
    let cfgs: Vec<DocCfg> = (0..n).map(|_| DocCfg { gc: r.chance(1, 2), ..DocCfg::default() }).collect();
    let st = r.range(5, 14); let h = gen_history(&mut r, &cfgs, st, false, &EditCfg::default());
    let mut fails: Vec<serde_json::Value> = vec![];
    let mut disag: Vec<serde_json::Value> = vec![];
    // the update pool: transaction updates, diffs against stale vectors, full states (with Skip / GC blocks)
    let mut pool1: Vec<Vec<u8>> = h.msgs.iter().map(|m| m.1.clone()).collect();
    let mut pool2: Vec<Vec<u8>> = h.msgs.iter().map(|m| m.2.clone()).collect();
    let mut full_idx: Vec<usize> = vec![];
    for i in 0..n {
        let t = h.reps[i].doc.transact();
        full_idx.push(pool1.len());
        pool1.push(t.encode_state_as_update_v1(&StateVector::default()));
        pool2.push(t.encode_state_as_update_v2(&StateVector::default()));
        if !h.svs[(i + 1) % n].is_empty() { let pv: &Vec<u8> = r.pick(h.svs[(i + 1) % n].as_slice()); let sv = StateVector::decode_v1(pv.as_slice()).unwrap_or_default(); pool1.push(t.encode_diff_v1(&sv)); pool2.push(t.encode_diff_v2(&sv)); }
    }
    if pool1.len() < 2 { rep.evaluations += 1; return; }
    // one merge of many arguments (22..40, with repetitions; GC and non-GC views of the same ids side by side): the decoder order of
    // merge_updates is sorted with slice::sort_by, which checks the comparator from 21 elements on
    {
        let k = r.range(22, 40) as usize;
        let us: Vec<Vec<u8>> = (0..k).map(|_| r.pick(&pool1).clone()).collect();
        match catch(|| yrs::merge_updates_v1(&us)) {
            Ok(Ok(merged)) => {
                let m = md.ask(&format!("MRG merge {}", us.iter().map(|u| hex(u)).collect::<Vec<_>>().join(" ")));
                rep.count("c08_big_merges_compared_with_the_transcription");
                let mut it = m.split(' ');
                // (byte for byte, or - the implementation writes the entries of an Any map in hash order - block for block as the model decodes both)
                match (it.next(), it.next()) { (Some("ok"), Some(h)) if *h == hex(&merged) || md.ask(&format!("DEC update {}", h)) == md.ask(&format!("DEC update {}", hex(&merged))) => {}, _ => disag.push(json!({"kind": "merge_updates transcription (many arguments)", "model": m.chars().take(400).collect::<String>(), "impl": hex(&merged), "arguments": k})) }
                let (one, mrg) = (apply_all(800, &us, false), apply_all(800, &[merged.clone()], false));
                if !same_docs(&one, &mrg) { let lagging = one.doc.transact().has_missing_updates() || mrg.doc.transact().has_missing_updates(); complete(&h, &one, &mrg); if !lagging || !same_docs(&one, &mrg) { fails.push(json!({"class": "merge-differs-from-sequential-apply", "ctx": {"arguments": k}, "merged_update": hex(&merged)})); } }
            }
            Ok(Err(e)) => fails.push(json!({"class": "merge-error", "error": format!("{e}"), "arguments": k})),
            Err(p) => fails.push(json!({"class": "merge-panic", "error": p, "arguments": k, "inputs": us.iter().map(|u| hex(u)).collect::<Vec<_>>()})),
        }
    }
    // the v2 entry point merge_updates_v2 = decode_v2, the same merge, encode_v2: compared with the transcription between the v2 codecs
    if pool2.len() >= 2 {
        let k = r.range(2, 6) as usize;
        let us: Vec<Vec<u8>> = (0..k).map(|_| r.pick(&pool2).clone()).collect();
        if let Ok(Ok(merged)) = catch(|| yrs::merge_updates_v2(&us)) {
            let m = md.ask(&format!("MRG merge2 {}", us.iter().map(|u| hex(u)).collect::<Vec<_>>().join(" ")));
            rep.count("c08_v2_merges_compared_with_the_transcription");
            let mut it = m.split(' ');
            match (it.next(), it.next()) { (Some("ok"), Some(h)) if *h == hex(&merged) || md.ask(&format!("DEC update2 {}", h)) == md.ask(&format!("DEC update2 {}", hex(&merged))) => {}, _ => disag.push(json!({"kind": "merge_updates_v2 transcription", "model": m.chars().take(400).collect::<String>(), "impl": hex(&merged), "inputs": us.iter().map(|u| hex(u)).collect::<Vec<_>>()})) }
        }
    }
    let gaps = h.reps.iter().any(|x| has_gap(&x.doc));
    for trial in 0..4 {
        let k = r.range(2, (pool1.len() as u64).min(5)) as usize;
        let idx: Vec<usize> = (0..k).map(|_| r.below(pool1.len() as u64) as usize).collect(); // duplicates allowed
        for v2 in [false, true] {
            let pool = if v2 { &pool2 } else { &pool1 };
            let us: Vec<Vec<u8>> = idx.iter().map(|i| pool[*i].clone()).collect();
            let merged = catch(|| if v2 { yrs::merge_updates_v2(&us) } else { yrs::merge_updates_v1(&us) });
            let merged = match merged { Ok(Ok(m)) => m, Ok(Err(e)) => { fails.push(json!({"class": "merge-error", "error": format!("{e}"), "v2": v2})); continue; } Err(p) => { fails.push(json!({"class": "merge-panic", "error": p, "v2": v2, "inputs": us.iter().map(|u| hex(u)).collect::<Vec<_>>()})); continue; } };
            let one = apply_all(800, &us, v2);
            let mrg = apply_all(800, &[merged.clone()], v2);
            rep.count("c08_merges");
            let ctx = json!({"trial": trial, "v2": v2, "inputs": idx});
            if !same_docs(&one, &mrg) || one.doc.transact().state_vector() != mrg.doc.transact().state_vector() {
                // yrs stashes the rest of a client's blocks behind a block with a missing dependency: a merged update can
                // therefore lag behind the sequential application until the dependency arrives. That lag is allowed (C02);
                // a difference that survives the delivery of everything is not.
                let lagging = one.doc.transact().has_missing_updates() || mrg.doc.transact().has_missing_updates();
                let (seq_d, mrg_d) = (idump(&one.doc), idump(&mrg.doc));
                complete(&h, &one, &mrg);
                if !lagging || !same_docs(&one, &mrg) {
                    fails.push(json!({"class": "merge-differs-from-sequential-apply", "ctx": ctx, "lagging": lagging, "sequential": seq_d, "merged": mrg_d, "merged_update": hex(&merged),
                        "after_completion_sequential": idump(&one.doc), "after_completion_merged": idump(&mrg.doc)}));
                } else { rep.count("c08_merge_stash_lag_only"); }
            }
            // order and nesting of the merge do not matter
            let mut us2 = us.clone(); r.shuffle(&mut us2);
            let (l, rr) = us2.split_at(us2.len() / 2);
            let nested = catch(|| -> Result<Vec<u8>, String> {
                let f = |x: &[Vec<u8>]| if v2 { yrs::merge_updates_v2(x) } else { yrs::merge_updates_v1(x) };
                let a = if l.is_empty() { None } else { Some(f(l).map_err(|e| e.to_string())?) };
                let b = f(rr).map_err(|e| e.to_string())?;
                match a { Some(a) => f(&[a, b]).map_err(|e| e.to_string()), None => Ok(b) }
            });
            match nested {
                Ok(Ok(nm)) => { let nd = apply_all(800, &[nm.clone()], v2); let m2 = apply_all(800, &[merged.clone()], v2);
                    if !same_docs(&nd, &m2) { let lag = nd.doc.transact().has_missing_updates() || m2.doc.transact().has_missing_updates(); complete(&h, &nd, &m2);
                        if !lag || !same_docs(&nd, &m2) { fails.push(json!({"class": "merge-order-or-nesting-matters", "ctx": ctx, "merged": hex(&merged), "nested": hex(&nm)})); } else { rep.count("c08_merge_stash_lag_only"); } } }
                Ok(Err(e)) => fails.push(json!({"class": "merge-error", "error": e, "ctx": ctx})),
                Err(p) => fails.push(json!({"class": "merge-panic", "error": p, "ctx": ctx})),
            }
            // the transcription of Update::merge_updates (Crdt/Merge.v) on the same arguments writes the same bytes; whether the
            // arguments satisfy the hypothesis of its theorems (views of one history: mrg_wf / mrg_wf_norm) is recorded
            if !v2 {
                let m = md.ask(&format!("MRG merge {}", us.iter().map(|u| hex(u)).collect::<Vec<_>>().join(" ")));
                rep.count("c08_merges_compared_with_the_transcription");
                let mut it = m.split(' ');
                match (it.next(), it.next()) {
                    (Some("ok"), Some(h)) if *h == hex(&merged) || md.ask(&format!("DEC update {}", h)) == md.ask(&format!("DEC update {}", hex(&merged))) => { if m.contains("wfn=1") { rep.count("c08_merge_arguments_satisfy_mrg_wf_norm"); } if m.contains("wf=1") { rep.count("c08_merge_arguments_satisfy_mrg_wf"); } }
                    _ => disag.push(json!({"kind": "merge_updates transcription", "ctx": ctx, "model": m, "impl": hex(&merged), "inputs": us.iter().map(|u| hex(u)).collect::<Vec<_>>()})),
                }
            }
            // the model decodes the merged update (v1) and must reach the same state as from the inputs
            if !v2 && !cfgs.iter().any(|c| c.gc) {
                md.ask("D new ma"); md.ask("D new mb");
                let mut ok = true;
                for u in &us { if !md.ask(&format!("D apply ma {}", hex(u))).starts_with("ok") { ok = false; } }
                if !md.ask(&format!("D apply mb {}", hex(&merged))).starts_with("ok") { ok = false; }
                let (sa, sb) = (md.ask("D state ma"), md.ask("D state mb"));
                if !ok || visible_only(&sa) != visible_only(&sb) { disag.push(json!({"kind": "model-merge-equivalence", "ctx": ctx, "from_inputs": sa, "from_merged": sb})); }
            }
        }
        // diff_updates(u, sv) applied to a document whose state vector is sv == applying u; the documents are earlier states of
        // the replicas (so that sv can point strictly inside a block - or a collected range - of the update)
        // (every full state of a replica against every earlier state of every other replica on the first trial, random picks afterwards)
        let mut picks: Vec<(usize, usize, usize)> = vec![];
        if trial == 0 { for a in 0..n { for b in 0..n { if a == b { continue; } let mut pts: Vec<usize> = h.applied_at[b].clone(); pts.sort(); pts.dedup(); for upto in pts { picks.push((full_idx[a], b, upto)); } } } }
        for _ in 0..3 { let b = r.below(n as u64) as usize; picks.push((r.below(pool1.len() as u64) as usize, b, if h.applied_at[b].is_empty() || r.chance(1, 3) { h.applied[b].len() } else { *r.pick(h.applied_at[b].as_slice()) })); }
        for (ui, b, upto) in picks {
        if ui >= pool1.len() { continue; }
        for v2 in [false, true] {
            let u = if v2 { &pool2[ui] } else { &pool1[ui] };
            let d1 = replay(&h.applied[b][..upto], 810, DocCfg::default());
            let d2 = replay(&h.applied[b][..upto], 810, DocCfg::default());
            let sv = d1.doc.transact().state_vector();
            let du = catch(|| if v2 { yrs::diff_updates_v2(u, &sv.encode_v2()) } else { yrs::diff_updates_v1(u, &sv.encode_v1()) });
            let du = match du { Ok(Ok(x)) => x, Ok(Err(e)) => { fails.push(json!({"class": "diff-error", "error": format!("{e}")})); continue; } Err(p) => { fails.push(json!({"class": "diff-panic", "error": p, "update": hex(u)})); continue; } };
            // the transcription of Update::encode_diff (Crdt/Diff.v) writes the same update (bytes, or the same blocks where the
            // implementation writes an Any map in hash order); which hypotheses of its theorems the arguments satisfy is recorded
            if !v2 {
                let m = md.ask(&format!("DFF diff {} {}", hex(u), hex(&sv.encode_v1())));
                rep.count("c08_diffs_compared_with_the_transcription");
                let mut it = m.split(' ');
                match (it.next(), it.next()) {
                    (Some("ok"), Some(h)) if *h == hex(&du) || md.ask(&format!("DEC update {}", h)) == md.ask(&format!("DEC update {}", hex(&du))) => { if m.contains("wf=1") && m.contains("cut=1") { rep.count("c08_diff_arguments_satisfy_the_hypotheses_of_dff_diff_units"); } }
                    _ => disag.push(json!({"kind": "diff_updates transcription", "model": m.chars().take(600).collect::<String>(), "impl": hex(&du), "update": hex(u), "sv": hex(&sv.encode_v1())})),
                }
            }
            if v2 {
                let m = md.ask(&format!("DFF diff2 {} {}", hex(u), hex(&sv.encode_v2())));
                rep.count("c08_v2_diffs_compared_with_the_transcription");
                let mut it = m.split(' ');
                match (it.next(), it.next()) {
                    (Some("ok"), Some(h)) if *h == hex(&du) || md.ask(&format!("DEC update2 {}", h)) == md.ask(&format!("DEC update2 {}", hex(&du))) => {}
                    _ => disag.push(json!({"kind": "diff_updates_v2 transcription", "model": m.chars().take(600).collect::<String>(), "impl": hex(&du), "update": hex(u), "sv": hex(&sv.encode_v2())})),
                }
            }
            let _ = if v2 { d1.apply_v2(u) } else { d1.apply_v1(u) };
            let r2 = if v2 { d2.apply_v2(&du) } else { d2.apply_v1(&du) };
            rep.count("c08_diffs");
            if r2.is_err() || !same_docs(&d1, &d2) || d1.doc.transact().state_vector() != d2.doc.transact().state_vector() {
                fails.push(json!({"class": "diff-differs-from-apply", "v2": v2, "error": format!("{:?}", r2.err()), "update": hex(u), "diff": hex(&du), "with_update": idump(&d1.doc), "with_diff": idump(&d2.doc)}));
            }
        }
        }
    }
    // encode_state_vector_from_update on every update of the pool (gaps, Skip blocks): implementation vs transcription
    for u in pool1.iter() {
        if let Ok(a) = yrs::encode_state_vector_from_update_v1(u) {
            let (m, ms) = (md.ask(&format!("DFF sv {}", hex(u))), md.ask(&format!("DEC sv {}", hex(&a))));
            let strip = |x: &str| x.split(" rest=").next().unwrap_or("").to_string();
            rep.count("c08_sv_from_update_compared_with_the_transcription");
            if !m.starts_with("ok") || strip(&m) != strip(&ms) { disag.push(json!({"kind": "state vector from update transcription", "model": m, "impl": ms, "update": hex(u)})); }
        }
    }
    for u in pool2.iter() {
        if let Ok(a) = yrs::encode_state_vector_from_update_v2(u) {
            let (m, ms) = (md.ask(&format!("DFF sv2 {}", hex(u))), md.ask(&format!("DEC sv2 {}", hex(&a))));
            let strip = |x: &str| x.split(" rest=").next().unwrap_or("").to_string();
            rep.count("c08_v2_sv_from_update_compared_with_the_transcription");
            if !m.starts_with("ok") || strip(&m) != strip(&ms) { disag.push(json!({"kind": "state vector from update (v2) transcription", "model": m, "impl": ms, "update": hex(u)})); }
        }
    }
    // a state vector that points between the two UTF-16 units of a surrogate pair (a Yjs peer can have such a clock): every unit of
    // the diff must be the unit of the update with the same id (Crdt/DiffProofs.v: dff_diff_units needs dff_cut_ok; the witness of
    // dff_diff_units_pair_refuted is the known finding)
    if index % 64 == 0 {
        let u = crate::model::unhex("010205000401017404f09f9880840501017a00"); let sv = crate::model::unhex("010501");
        if let Ok(du) = yrs::diff_updates_v1(&u, &sv) {
            let m = md.ask(&format!("DEC unitcmp {} {}", hex(&du), hex(&u)));
            if !m.starts_with("ok ") { fails.push(json!({"class": "diff-inside-a-surrogate-pair-shifts-ids", "update": hex(&u), "state_vector": hex(&sv), "diff": hex(&du), "units": m})); }
        }
    }
    // encode_state_vector_from_update on gap-free full states
    for i in 0..n {
        if has_gap(&h.reps[i].doc) { continue; }
        let full1 = h.reps[i].doc.transact().encode_state_as_update_v1(&StateVector::default());
        let full2 = h.reps[i].doc.transact().encode_state_as_update_v2(&StateVector::default());
        let e = Replica::new(820, DocCfg::default());
        let _ = e.apply_v1(&full1);
        let want = e.doc.transact().state_vector();
        rep.count("c08_sv_from_update");
        match (yrs::encode_state_vector_from_update_v1(&full1), yrs::encode_state_vector_from_update_v2(&full2)) {
            (Ok(a), Ok(b)) => {
                // the transcription of Update::state_vector computes the same vector
                { let m = md.ask(&format!("DFF sv {}", hex(&full1))); let ms = md.ask(&format!("DEC sv {}", hex(&a)));
                  let strip = |x: &str| x.split(" rest=").next().unwrap_or("").to_string();
                  rep.count("c08_sv_from_update_compared_with_the_transcription");
                  if !m.starts_with("ok") || strip(&m) != strip(&ms) { disag.push(json!({"kind": "state vector from update transcription", "model": m, "impl": ms, "update": hex(&full1)})); } }
                let (a, b) = (StateVector::decode_v1(&a).unwrap_or_default(), StateVector::decode_v2(&b).unwrap_or_default());
                if a != want || b != want { fails.push(json!({"class": "sv-from-update-wrong", "want": format!("{:?}", want), "v1": format!("{:?}", a), "v2": format!("{:?}", b)})); }
            }
            (x, y) => fails.push(json!({"class": "sv-from-update-error", "v1": format!("{:?}", x.err()), "v2": format!("{:?}", y.err())})),
        }
    }
    rep.evaluations += 1;
    if gaps { rep.nontrivial_case(&format!("c08:{}", index)); rep.count("c08_histories_with_gaps"); } else if h.msgs.len() >= 3 { rep.nontrivial_case(&format!("c08:{}", index)); }
    for mut f in fails { f["property"] = json!("C08"); f["case"] = json!({"stream": 108, "index": index, "seed": seed}); f["script"] = json!(h.script); rep.fail(f); }
    for mut d in disag { d["case"] = json!({"stream": 108, "index": index, "seed": seed}); rep.disagree(d); }
    if rep.samples.len() < 2 { rep.sample(json!({"case": index, "script": h.script})); }
}

// ------------------------------------------------------------------------------------------------ C13
fn c13_case(seed: u64, index: u64, md: &mut Model, rep: &mut Report) {
    let mut r = Rng::for_case(seed, 113, index);
    let n = r.range(1, 3) as usize;
    let fifo = r.chance(2, 3);
    let mut cids = [1u64, 2, 3, 77]; r.shuffle(&mut cids);   // the snapshotting replica is not always the lowest client id
    let reps: Vec<Replica> = (0..n).map(|i| Replica::new(cids[i], DocCfg::default())).collect();
    // a third of the cases are "typing" histories: single calls on text / array only, so that runs of one client are
    // squashed into blocks that later snapshots cut in the middle, next to concurrent siblings of other clients
    let typing = index % 3 == 0;
    let mut msgs: Vec<(usize, Vec<u8>)> = vec![];
    let mut delivered: Vec<BTreeSet<usize>> = vec![BTreeSet::new(); n];
    let mut snaps: Vec<(Snapshot, String, bool, usize, usize)> = vec![]; // snapshot, content at that time, gap, step, replica
    let mut wholes: Vec<Vec<u8>> = vec![];   // the store of the snapshotting replica when the snapshot was taken (as its full diff)
    let fmt_snap = |s: &Snapshot| {
        let mut ds: Vec<(u64, String)> = s.delete_set.iter().map(|(c, r)| (c.get(), r.iter().map(|x| format!("{:x}-{:x}", x.start, x.end)).collect::<Vec<_>>().join(","))).collect(); ds.sort();
        let mut sv: Vec<(u64, u32)> = s.state_map.iter().map(|(c, k)| (c.get(), *k)).collect(); sv.sort();
        format!("{}@{}", if ds.is_empty() { "_".to_string() } else { ds.iter().map(|(c, r)| format!("{:x}[{}]", c, r)).collect::<Vec<_>>().join(";") },
                         if sv.is_empty() { "_".to_string() } else { sv.iter().map(|(c, k)| format!("{:x}:{:x}", c, k)).collect::<Vec<_>>().join(",") }) };
    let mut script = vec![];
    let mut fails: Vec<serde_json::Value> = vec![];
    let mut tag = 0u64;
    let ecfg = if typing { EditCfg { map: false, xml: false, nested: false, formatting: false, deletes: true, ..EditCfg::default() } } else { EditCfg::default() };
    let steps = if typing { r.range(10, 30) } else { r.range(6, 18) };
    for step in 0..steps as usize {
        let i = r.below(n as u64) as usize;
        let mut cand: Vec<usize> = (0..msgs.len()).filter(|m| !delivered[i].contains(m)).collect();
        if fifo { let mut seen = BTreeSet::new(); cand.retain(|m| seen.insert(msgs[*m].0)); }
        if r.chance(3, 5) || cand.is_empty() {
            let mut sc = vec![];
            let (u1, _) = local_txn(&reps[i], &mut r, &ecfg, false, if typing { 1 } else { 3 }, &mut sc, &mut tag);
            script.push(format!("r{} txn {{{}}}", i, sc.join("; ")));
            if let Some(a) = u1.into_iter().next() { msgs.push((i, a)); delivered[i].insert(msgs.len() - 1); }
        } else {
            let m = *r.pick(&cand);
            script.push(format!("r{} <- msg{}", i, m));
            let _ = reps[i].apply_v1(&msgs[m].1); reps[i].drain1(); reps[i].drain2();
            delivered[i].insert(m);
        }
        // snapshots are taken on any replica
        if r.chance(1, 2) {
            let sr = r.below(n as u64) as usize;
            let s = reps[sr].doc.transact().snapshot();
            // a snapshot survives its own encode/decode (v1 and v2)
            let (e1, e2) = (s.encode_v1(), s.encode_v2());
            match (Snapshot::decode_v1(&e1), Snapshot::decode_v2(&e2)) {
                (Ok(a), Ok(b)) => if a != s || b != s { fails.push(json!({"class": "snapshot-codec-roundtrip", "step": step})); },
                _ => fails.push(json!({"class": "snapshot-codec-error", "step": step})),
            }
            // the transcription of ReadTxn::snapshot (Crdt/Snapshot.v: state vector up to the first hole, delete set of the store), fed
            // the replica's store, gives the same snapshot
            let whole = reps[sr].doc.transact().encode_diff_v1(&StateVector::default());
            let ms = md.ask(&format!("SNP snap {}", hex(&whole)));
            rep.count("c13_snapshots_compared_with_the_transcription");
            if ms != format!("ok {}", fmt_snap(&s)) { rep.disagree(json!({"kind": "snapshot transcription (SNP snap)", "model": ms.chars().take(400).collect::<String>(), "impl": fmt_snap(&s), "store": hex(&whole), "case": {"stream": 113, "index": index, "seed": seed}})); }
            wholes.push(whole);
            snaps.push((s, public_dump(&reps[sr].doc), has_gap(&reps[sr].doc), step, sr));
            script.push(format!("snapshot#{} of r{}", snaps.len() - 1, sr));
        }
        // every earlier snapshot must still restore exactly
        for (si, (s, content, gap, at, sr)) in snaps.iter().enumerate() {
            for v2 in [false, true] {
                let enc = catch(std::panic::AssertUnwindSafe(|| {
                    let t = reps[*sr].doc.transact();
                    if v2 { let mut e = yrs::updates::encoder::EncoderV2::new(); t.encode_state_from_snapshot(s, &mut e).map(|_| yrs::updates::encoder::Encoder::to_vec(e)) }
                    else { let mut e = yrs::updates::encoder::EncoderV1::new(); t.encode_state_from_snapshot(s, &mut e).map(|_| yrs::updates::encoder::Encoder::to_vec(e)) }
                }));
                rep.count("c13_restores");
                let class_gap = if *gap { "-gap-at-snapshot" } else { "" };
                let bytes = match enc { Ok(Ok(b)) => b, Ok(Err(e)) => { fails.push(json!({"class": format!("restore-error{class_gap}"), "error": format!("{e}"), "snapshot": si})); continue; } Err(p) => { fails.push(json!({"class": format!("restore-panic{class_gap}"), "error": p, "snapshot": si, "taken_at": at, "now": step})); continue; } };
                // the transcription of Store::encode_state_from_snapshot / write_blocks_to (Crdt/Snapshot.v), fed the replica's store
                // as it is NOW and the old snapshot, writes the same update; the later store extends the one the snapshot was taken of
                // (hypothesis of snp_snapshot_of_earlier_state: the model's relation holds between every pair of states reached)
                if !v2 {
                    let now = reps[*sr].doc.transact().encode_diff_v1(&StateVector::default());
                    let m = md.ask(&format!("SNP enc 1 {} {}", hex(&now), hex(&s.encode_v1())));
                    rep.count("c13_restores_compared_with_the_transcription");
                    let mut it = m.split(' ');
                    match (it.next(), it.next()) {
                        (Some("ok"), Some(hx)) if *hx == hex(&bytes) || md.ask(&format!("DEC update {}", hx)) == md.ask(&format!("DEC update {}", hex(&bytes))) => {
                            if m.contains("wf=1") && m.contains("cut=1") { rep.count("c13_restores_within_the_hypotheses_of_snp_restore_units_exact"); } }
                        _ => rep.disagree(json!({"kind": "encode_state_from_snapshot transcription (SNP enc)", "model": m.chars().take(500).collect::<String>(), "impl": hex(&bytes), "store": hex(&now), "snapshot": hex(&s.encode_v1()), "case": {"stream": 113, "index": index, "seed": seed}})),
                    }
                    let e = md.ask(&format!("SNP ext {} {}", hex(&wholes[si]), hex(&now)));
                    if e.starts_with("ok ext=1") { rep.count("c13_later_stores_that_extend_the_snapshot_store"); if e.contains("holes=1") { rep.count("c13_snapshot_stores_with_holes"); } }
                    else { rep.disagree(json!({"kind": "a later store does not extend the store the snapshot was taken of (SNP ext)", "answer": e, "then": hex(&wholes[si]), "now": hex(&now), "case": {"stream": 113, "index": index, "seed": seed}})); }
                }
                // the v2 restore carries the same blocks and the same delete set as the transcription's v1 restore
                if v2 {
                    let now = reps[*sr].doc.transact().encode_diff_v1(&StateVector::default());
                    let m = md.ask(&format!("SNP enc 1 {} {}", hex(&now), hex(&s.encode_v1())));
                    let mut it = m.split(' ');
                    if let (Some("ok"), Some(hx)) = (it.next(), it.next()) {
                        let c = md.ask(&format!("DEC same12 {} {}", hx, hex(&bytes)));
                        rep.count("c13_v2_restores_compared_with_the_transcription");
                        if c != "ok same" { rep.disagree(json!({"kind": "encode_state_from_snapshot transcription vs the v2 restore (DEC same12)", "answer": c.chars().take(700).collect::<String>(), "model_v1": hx, "impl_v2": hex(&bytes), "case": {"stream": 113, "index": index, "seed": seed}})); }
                    }
                }
                let fresh = Replica::new(900, DocCfg::default());
                let res = if v2 { fresh.apply_v2(&bytes) } else { fresh.apply_v1(&bytes) };
                let got = public_dump(&fresh.doc);
                if res.is_err() || got != *content {
                    fails.push(json!({"class": format!("restored-content-differs{class_gap}"), "snapshot": si, "taken_at": at, "now": step, "v2": v2, "error": format!("{:?}", res.err()), "expected": content, "restored": got, "update": hex(&bytes)}));
                }
            }
        }
        if !fails.is_empty() { break; }
    }
    // fixed input (found by the Coq transcription, Crdt/SnapshotProofs.v snp_write_blocks_to_res_ok_pre_1ea45c9_refuted): a client
    // whose block list ends at u32::MAX - one collected range of 2^32-1 clocks received from a peer - can be snapshotted and restored
    if index == 0 {
        let a = Replica::new(9, DocCfg::default());
        let bytes: Vec<u8> = vec![1, 1, 5, 0, 0, 0xFF, 0xFF, 0xFF, 0xFF, 0x0F, 0];
        let _ = a.apply_v1(&bytes);
        let s = a.doc.transact().snapshot();
        let enc = catch(std::panic::AssertUnwindSafe(|| { let t = a.doc.transact(); let mut e = yrs::updates::encoder::EncoderV1::new(); t.encode_state_from_snapshot(&s, &mut e).map(|_| yrs::updates::encoder::Encoder::to_vec(e)) }));
        let whole = a.doc.transact().encode_diff_v1(&StateVector::default());
        let m = md.ask(&format!("SNP enc 1 {} {}", hex(&whole), hex(&s.encode_v1())));
        rep.count("c13_fixed_inputs");
        match enc {
            Ok(Ok(b)) => { if !m.starts_with(&format!("ok {}", hex(&b))) { rep.disagree(json!({"kind": "encode_state_from_snapshot transcription (SNP enc), list ending at u32::MAX", "model": m, "impl": hex(&b)})); } }
            Ok(Err(e)) => fails.push(json!({"class": "restore-error", "error": format!("{e}"), "input": "a block list that ends at u32::MAX"})),
            Err(p) => fails.push(json!({"class": "restore-panics", "error": p, "input": "a block list that ends at u32::MAX", "update": hex(&bytes)})),
        }
    }
    // a GC-enabled document refuses
    {
        let g = Replica::new(950, DocCfg { gc: true, ..DocCfg::default() });
        for (_, u) in &msgs { let _ = g.apply_v1(u); }
        let s = g.doc.transact().snapshot();
        let mut e = yrs::updates::encoder::EncoderV1::new();
        let res = g.doc.transact().encode_state_from_snapshot(&s, &mut e);
        if res.is_ok() { fails.push(json!({"class": "gc-document-did-not-refuse"})); }
    }
    rep.evaluations += 1;
    if snaps.len() >= 2 { rep.nontrivial_case(&format!("c13:{}", index)); }
    if snaps.iter().any(|s| s.2) { rep.count("c13_histories_with_gap_snapshots"); }
    for mut f in fails { f["property"] = json!("C13"); f["case"] = json!({"stream": 113, "index": index, "seed": seed}); f["script"] = json!(script); rep.fail(f); }
    if rep.samples.len() < 2 && snaps.len() >= 2 { rep.sample(json!({"case": index, "script": script})); }
}

// ------------------------------------------------------------------------------------------------ C15
// ---- the store of a replica in the notation of the runner's `GCB run` (Crdt/GcBlocks.v)
fn gcb_flags(vs: &yrs::verif::VStore) -> String {
    let v: Vec<String> = vs.blocks.iter().map(|(c, bs)| format!("{:x}={}", c, bs.iter().map(|b| match b {
        yrs::verif::VBlock::Item(i) => format!("{}{}{}", i.deleted as u8, i.keep as u8, i.countable as u8),
        yrs::verif::VBlock::GC(..) => "100".to_string(), yrs::verif::VBlock::Skip(..) => "000".to_string() }).collect::<Vec<_>>().join(","))).collect();
    if v.is_empty() { "_".into() } else { v.join(";") }
}
fn gcb_parent(p: &yrs::verif::VParent) -> Option<String> {
    match p { yrs::verif::VParent::Root(n) => Some(format!("r{}", hex(n.as_bytes()))), yrs::verif::VParent::Nested(id) => Some(format!("i{:x}:{:x}", id.client.get(), id.clock)), _ => None }
}
fn gcb_branches(vs: &yrs::verif::VStore) -> String {
    let ids = |v: &Vec<yrs::verif::VItem>| if v.is_empty() { "_".to_string() } else { v.iter().map(|i| format!("{:x}:{:x}", i.id.client.get(), i.id.clock)).collect::<Vec<_>>().join(",") };
    let v: Vec<String> = vs.branches.iter().filter_map(|b| { let p = gcb_parent(&b.id)?;
        let m = if b.map.is_empty() { "_".to_string() } else { b.map.iter().map(|(k, ch)| format!("{}={}", hex(k.as_bytes()), ids(ch))).collect::<Vec<_>>().join("|") };
        Some(format!("{}~{}~{}", p, ids(&b.seq), m)) }).collect();
    if v.is_empty() { "_".into() } else { v.join("/") }
}
/// what the runner prints for a store after the collector ran: every unit with its kind (0 item with payload, 1 item whose
/// content is Deleted, 2 GC, 3 Skip) and deletedness, then the branches unit by unit
fn gcb_expected(vs: &yrs::verif::VStore) -> String {
    let mut cells = vec![];
    for (c, bs) in &vs.blocks { for b in bs {
        let (k, len, kind, del) = match b {
            yrs::verif::VBlock::Item(i) => (i.id.clock, i.len, if matches!(i.content, yrs::verif::VContent::Deleted(_)) { 1 } else { 0 }, i.deleted),
            yrs::verif::VBlock::GC(id, l) => (id.clock, *l, 2, true), yrs::verif::VBlock::Skip(id, l) => (id.clock, *l, 3, false) };
        for j in 0..len { cells.push(format!("{:x}:{:x}:{:x}{}", c, k + j, kind, if del { "d" } else { "l" })); }
    } }
    let units = |v: &Vec<yrs::verif::VItem>| v.iter().flat_map(|i| (0..i.len).map(move |j| format!("{:x}:{:x}", i.id.client.get(), i.id.clock + j))).collect::<Vec<_>>().join(",");
    let mut brs: Vec<String> = vs.branches.iter().filter_map(|b| { let p = gcb_parent(&b.id)?;
        let mut m: Vec<String> = b.map.iter().map(|(k, ch)| format!("{}={}", hex(k.as_bytes()), units(ch))).collect(); m.sort();
        Some(format!("{}~{}~{}", p, units(&b.seq), m.join("|"))) }).collect();
    brs.sort();
    format!("{} {}", cells.join(";"), brs.join("/"))
}

fn c15_case(seed: u64, index: u64, md: &mut Model, rep: &mut Report) {
    let mut r = Rng::for_case(seed, 115, index);
    // authors with mixed gc settings
    let n = r.range(2, 3) as usize;
    let cfgs: Vec<DocCfg> = (0..n).map(|_| DocCfg { gc: r.chance(1, 2), ..DocCfg::default() }).collect();
    // a third of the histories are rich-text only (formatting markers, re-formatting, deletions inside formatted ranges)
    let mut ecfg = if index % 3 == 0 { EditCfg { text: true, array: false, map: false, xml: false, nested: false, formatting: true, deletes: true } } else { EditCfg::default() }; ecfg.deletes = true;
    let st = if index % 3 == 0 { r.range(10, 26) } else { r.range(6, 16) }; let ff = r.chance(1, 2); let h = gen_history(&mut r, &cfgs, st, ff, &ecfg);
    let mut fails: Vec<serde_json::Value> = vec![];
    // twins fed the same updates in the same order
    let cleanup = r.chance(1, 2);   // both twins clean up redundant formatting after remote transactions, or neither does
    let g = Replica::new(400, DocCfg { gc: true, cleanup, ..DocCfg::default() });
    let ng = Replica::new(401, DocCfg { cleanup, ..DocCfg::default() });
    // a third twin without automatic collection, on which TransactionMut::gc is FORCED at random points with every kind of
    // argument; each forced run is compared, block by block and branch by branch, with the transcription of the collector
    let fg = Replica::new(403, DocCfg { cleanup, ..DocCfg::default() });
    let mut order: Vec<usize> = (0..h.msgs.len()).collect();
    if r.chance(1, 2) { r.shuffle(&mut order); }
    let mut deleted_any = false;
    for (k, m) in order.iter().enumerate() {
        let v2 = r.chance(1, 3);
        if std::env::var("YV_DEBUG").is_ok() { use yrs::updates::decoder::Decode; eprintln!("twin <- msg{} = {:?}\n   gc twin store before: {} skips?", m, yrs::Update::decode_v1(&h.msgs[*m].1), store_dump(&g.doc).blocks.iter().map(|(c, bs)| format!("{}: {}", c, bs.iter().map(|b| match b { yrs::verif::VBlock::Item(i) => format!("I{}+{}{}", i.id.clock, i.len, if i.deleted {"~"} else {""}), yrs::verif::VBlock::GC(id, l) => format!("G{}+{}", id.clock, l), yrs::verif::VBlock::Skip(id, l) => format!("S{}+{}", id.clock, l) }).collect::<Vec<_>>().join(" "))).collect::<Vec<_>>().join(" | ")); }
        let (a, b) = if v2 { (g.apply_v2(&h.msgs[*m].2), ng.apply_v2(&h.msgs[*m].2)) } else { (g.apply_v1(&h.msgs[*m].1), ng.apply_v1(&h.msgs[*m].1)) };
        if a.is_err() != b.is_err() { fails.push(json!({"class": "gc-twin-apply-result-differs", "step": k})); }
        let _ = if v2 { fg.apply_v2(&h.msgs[*m].2) } else { fg.apply_v1(&h.msgs[*m].1) };
        if r.chance(1, 3) {
            let vs0 = store_dump(&fg.doc);
            let whole = fg.doc.transact().encode_diff_v1(&StateVector::default());
            let d0 = public_dump(&fg.doc);
            // the argument: None (everything deleted) | the replica's own delete set | the delete set of a replica that may be ahead |
            // ranges that are unaligned, lie in holes, beyond the store or name an unknown client
            let pick = r.below(4);
            let ods: Option<yrs::IdSet> = match pick {
                0 => None,
                1 => Some(fg.doc.transact().snapshot().delete_set),
                2 => Some(h.reps[r.below(n as u64) as usize].doc.transact().snapshot().delete_set),
                _ => { let mut s = yrs::IdSet::new();
                    for _ in 0..r.range(1, 3) {
                        let c = if vs0.blocks.is_empty() || r.chance(1, 8) { 999 } else { r.pick(vs0.blocks.as_slice()).0 };
                        let end: u32 = vs0.blocks.iter().find(|(x, _)| *x == c).map(|(_, bs)| bs.iter().map(|b| match b { yrs::verif::VBlock::Item(i) => i.len, yrs::verif::VBlock::GC(_, l) | yrs::verif::VBlock::Skip(_, l) => *l }).sum()).unwrap_or(0);
                        let start = r.below(end as u64 + 3) as u32; let len = r.range(1, 6) as u32;
                        s.insert(yrs::ID::new(yrs::ClientID::new(c), start), len);
                    }
                    Some(s) }
            };
            let ods_s = match &ods { None => "-".to_string(), Some(s) => { let mut v: Vec<(u64, String)> = s.iter().map(|(c, rs)| (c.get(), rs.iter().map(|x| format!("{:x}-{:x}", x.start, x.end)).collect::<Vec<_>>().join(","))).collect(); v.sort(); if v.is_empty() { "_".to_string() } else { v.iter().map(|(c, rs)| format!("{:x}={}", c, rs)).collect::<Vec<_>>().join(";") } } };
            let res = catch(std::panic::AssertUnwindSafe(|| { let mut t = fg.doc.transact_mut(); t.gc(ods.as_ref()); }));
            rep.count("c15_forced_gc_on_the_uncollected_twin"); rep.count(["c15_forced_gc_arg_none", "c15_forced_gc_arg_own_delete_set", "c15_forced_gc_arg_foreign_delete_set", "c15_forced_gc_arg_arbitrary_ranges"][pick as usize]);
            if let Err(e) = &res { fails.push(json!({"class": "forced-gc-panicked", "step": k, "delete_set": ods_s, "error": e})); break; }
            if public_dump(&fg.doc) != d0 { fails.push(json!({"class": "forced-gc-changed-content", "step": k, "delete_set": ods_s, "before": d0, "after": public_dump(&fg.doc)})); }
            if !vs0.blocks.is_empty() {
                let ans = md.ask(&format!("GCB run {} {} {} {}", hex(&whole), gcb_flags(&vs0), gcb_branches(&vs0), ods_s));
                let want = gcb_expected(&store_dump(&fg.doc));
                rep.count("c15_forced_gc_compared_with_the_transcription");
                if ans.contains("total_ok=1") { rep.count("c15_forced_gc_stores_within_gcb_total_ok"); }
                // the block boundaries after the commit that follows (the squash, gcb_merge_blocks): kind 0 item / 1 wiped item / 2 GC / 3 Skip
                let bounds: String = store_dump(&fg.doc).blocks.iter().map(|(c, bs)| format!("{:x}[{}]", c, bs.iter().map(|b| match b {
                    yrs::verif::VBlock::Item(i) => format!("{:x}+{:x}:{}", i.id.clock, i.len, if matches!(i.content, yrs::verif::VContent::Deleted(_)) { 1 } else { 0 }),
                    yrs::verif::VBlock::GC(id, l) => format!("{:x}+{:x}:2", id.clock, l), yrs::verif::VBlock::Skip(id, l) => format!("{:x}+{:x}:3", id.clock, l) }).collect::<Vec<_>>().join(","))).collect::<Vec<_>>().join(";");
                let api = ans.split(" api=").nth(1).map(|x| x.split(" total_ok=").next().unwrap_or("").to_string());
                rep.count("c15_block_boundaries_after_forced_gc_compared_with_the_transcription_of_the_squash");
                if api.as_deref() != Some(bounds.as_str()) { rep.disagree(json!({"kind": "squash after collection (GCB run, api=)", "step": k, "delete_set": ods_s, "model": api, "impl": bounds, "store": hex(&whole), "flags": gcb_flags(&vs0), "branches": gcb_branches(&vs0), "case": {"stream": 115, "index": index, "seed": seed}})); }
                let ans = ans.split(" api=").next().unwrap_or("").to_string() + " total_ok=" + ans.split(" total_ok=").nth(1).unwrap_or("");
                let body = ans.strip_prefix("ok ").map(|x| x.split(" total_ok=").next().unwrap_or("").to_string());
                if body.as_deref() != Some(want.as_str()) { rep.disagree(json!({"kind": "collector transcription (GCB run)", "step": k, "delete_set": ods_s, "model": ans.chars().take(1500).collect::<String>(), "impl": want.chars().take(1500).collect::<String>(), "store": hex(&whole), "flags": gcb_flags(&vs0), "branches": gcb_branches(&vs0), "case": {"stream": 115, "index": index, "seed": seed}})); }
                else if !ans.contains("total_ok=1") || !ans.contains("clients_ok=1") { rep.disagree(json!({"kind": "a reachable store is outside the hypotheses of gcb_collect_all_total", "answer": ans.chars().rev().take(40).collect::<String>().chars().rev().collect::<String>(), "store": hex(&whole), "flags": gcb_flags(&vs0), "branches": gcb_branches(&vs0)})); }
            }
            if public_dump(&fg.doc) != public_dump(&ng.doc) { fails.push(json!({"class": "forced-gc-twin-content-differs", "step": k})); }
        }
        if r.chance(1, 4) { let d0 = public_dump(&g.doc); { let mut t = g.doc.transact_mut(); t.gc(None); } if public_dump(&g.doc) != d0 { fails.push(json!({"class": "forced-gc-changed-content", "step": k, "before": d0, "after": public_dump(&g.doc)})); } rep.count("c15_forced_gc"); }
        let (pg, pn) = (public_dump(&g.doc), public_dump(&ng.doc));
        rep.count("c15_twin_steps");
        if pg != pn { fails.push(json!({"class": "gc-twin-content-differs", "step": k, "gc": pg, "nogc": pn})); break; }
        if g.doc.transact().state_vector() != ng.doc.transact().state_vector() { fails.push(json!({"class": "gc-twin-sv-differs", "step": k})); }
        if g.doc.transact().has_missing_updates() != ng.doc.transact().has_missing_updates() { fails.push(json!({"class": "gc-twin-pending-differs", "step": k})); }
    }
    { let vs = store_dump(&ng.doc); if vs.blocks.iter().any(|(_, b)| b.iter().any(|x| matches!(x, yrs::verif::VBlock::Item(i) if i.deleted))) { deleted_any = true; } }
    // a document rebuilt from the GC'ed replica's full state equals it (v1 and v2)
    for v2 in [false, true] {
        let full = { let t = g.doc.transact(); if v2 { t.encode_state_as_update_v2(&StateVector::default()) } else { t.encode_state_as_update_v1(&StateVector::default()) } };
        let rb = Replica::new(402, DocCfg { gc: r.chance(1, 2), ..DocCfg::default() });
        let res = if v2 { rb.apply_v2(&full) } else { rb.apply_v1(&full) };
        if res.is_err() || public_dump(&rb.doc) != public_dump(&g.doc) { fails.push(json!({"class": "rebuilt-from-gc-state-differs", "v2": v2, "error": format!("{:?}", res.err()), "gc": public_dump(&g.doc), "rebuilt": public_dump(&rb.doc)})); }
    }
    // replicas with different gc settings converge with each other in both directions
    for i in 0..n { for j in 0..n { if i == j { continue; }
        let (a, b) = (replay(&h.applied[i], 410 + i as u64, cfgs[i]), replay(&h.applied[j], 420 + j as u64, cfgs[j]));
        for _ in 0..3 {
            let (sa, sb) = (a.doc.transact().state_vector(), b.doc.transact().state_vector());
            let ua = a.doc.transact().encode_state_as_update_v1(&sb); let ub = b.doc.transact().encode_state_as_update_v1(&sa);
            if std::env::var("YV_DEBUG").is_ok() { use yrs::updates::decoder::Decode; let pr = |d: &yrs::Doc| store_dump(d).blocks.iter().map(|(c, bs)| format!("{}: {}", c, bs.iter().map(|b| match b { yrs::verif::VBlock::Item(i) => format!("I{}+{}{}", i.id.clock, i.len, if i.deleted {"~"} else {""}), yrs::verif::VBlock::GC(id, l) => format!("G{}+{}", id.clock, l), yrs::verif::VBlock::Skip(id, l) => format!("S{}+{}", id.clock, l) }).collect::<Vec<_>>().join(" "))).collect::<Vec<_>>().join(" | ");
                eprintln!("exchange i={} j={}: a={} \n b={}\n ua={:?}\n ub={:?}", i, j, pr(&a.doc), pr(&b.doc), yrs::Update::decode_v1(&ua), yrs::Update::decode_v1(&ub)); }
            let _ = b.apply_v1(&ua); let _ = a.apply_v1(&ub);
        }
        let pend = a.doc.transact().has_missing_updates() || b.doc.transact().has_missing_updates();
        if !pend && public_dump(&a.doc) != public_dump(&b.doc) { fails.push(json!({"class": "mixed-gc-replicas-do-not-converge", "i": i, "j": j, "gc_i": cfgs[i].gc, "gc_j": cfgs[j].gc, "a": public_dump(&a.doc), "b": public_dump(&b.doc)})); }
        rep.count("c15_mixed_pairs");
    } }
    rep.evaluations += 1;
    if deleted_any { rep.nontrivial_case(&format!("c15:{}", index)); }
    for mut f in fails { f["property"] = json!("C15"); f["case"] = json!({"stream": 115, "index": index, "seed": seed}); f["script"] = json!(h.script); rep.fail(f); }
    if rep.samples.len() < 2 && deleted_any { rep.sample(json!({"case": index, "gc": cfgs.iter().map(|c| c.gc).collect::<Vec<_>>(), "script": h.script})); }
}

pub fn run(prop: &str, tier: &str, seed: u64, workers: usize) -> Report {
    let thorough = tier == "thorough";
    let n: u64 = match (prop, thorough) { ("C06", false) => 4000, ("C06", true) => 20000, ("C08", false) => 3000, ("C08", true) => 12000, ("C13", false) => 4000, ("C13", true) => 20000, (_, false) => 6000, (_, true) => 20000 };
    let mut total = parallel(workers, |w, nw| {
        let mut rep = Report::default();
        for ci in 0..n {
            if ci as usize % nw != w { continue; }
            if let Ok(only) = std::env::var("YV_ONLY") { if only.parse::<u64>().ok() != Some(ci) { continue; } }
            let res = catch(std::panic::AssertUnwindSafe(|| { let mut r2 = Report::default();
                match prop { "C06" => { let mut m = Model::spawn(); c06_case(seed, ci, &mut m, &mut r2) }, "C08" => { let mut m = Model::spawn(); c08_case(seed, ci, &mut m, &mut r2) }, "C13" => { let mut m = Model::spawn(); c13_case(seed, ci, &mut m, &mut r2) }, _ => { let mut m = Model::spawn(); c15_case(seed, ci, &mut m, &mut r2) } }
                r2 }));
            match res { Ok(r2) => rep.merge(r2), Err(e) => { rep.evaluations += 1; rep.fail(json!({"property": prop, "class": "panic", "error": e, "case": {"index": ci, "seed": seed}})); } }
        }
        rep
    });
    total.notes.push(match prop {
        "C06" => "all ordered pairs of replica states of seeded histories (replicas with and without GC) with out-of-order deliveries (stashes, gaps) x {encode_diff, encode_state_as_update} x {v1, v2} x {own, stale} state vector: receiver dominates sender (state vector, integrated ids, deleted ids), idempotence, self-diff no-op, exchange until fixpoint => equal",
        "C08" => "update pools from seeded histories (transaction updates, diffs against stale vectors, full states of replicas with gaps / GC) : merge vs sequential apply (v1, v2, duplicates, shuffled, nested), diff_updates vs apply, encode_state_vector_from_update on gap-free states; the Coq model decodes merged v1 updates and must reach the state it reaches from the inputs",
        "C13" => "snapshots of any replica taken at random points of 1..3 replica histories (shuffled client ids; a third of the histories are single-call typing runs on text / array so that squashed runs are cut in the middle); every earlier snapshot is restored (v1 and v2) after every later step and compared with the content recorded when it was taken; snapshot codec round trip; gc documents must refuse",
        _ => "gc / no-gc twin replicas fed the same updates (v1/v2, possibly shuffled) compared after every delivery, forced gc at random points, rebuild from the gc'ed full state, mixed-gc pairs exchanged until fixpoint",
    }.to_string());
    total
}
