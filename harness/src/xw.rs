//! XML read paths: every way of reading every node of generated XML trees (len, children, first_child, get(i), successors,
//! siblings forward / backward / mixed, parent) against the Coq model of the pointer walks (Crdt/XmlWalk.v), which reads the same
//! tree from its item structure (hook dump; tombstones stay: skip_gc documents).
use crate::model::Model;
use crate::report::Report;
use crate::rng::Rng;
use crate::sim::*;
use serde_json::json;
use yrs::types::TypeRef;
use yrs::verif::{dump_store, VBranch, VContent, VParent, VStore};
use yrs::{BranchID, Transact, Xml, XmlElementPrelim, XmlFragment, XmlOut, XmlTextPrelim, ReadTxn};

fn bid(b: &BranchID) -> String { match b { BranchID::Nested(id) => format!("{:x}:{:x}", id.client.get(), id.clock), BranchID::Root(_) => "0:0".into() } }
fn pids(v: &[XmlOut]) -> String { format!("[{}]", v.iter().map(|x| bid(&x.id())).collect::<Vec<_>>().join(" ")) }
fn poid(o: &Option<XmlOut>) -> String { match o { Some(x) => bid(&x.id()), None => "-".into() } }
fn poids(v: &[Option<XmlOut>]) -> String { format!("[{}]", v.iter().map(poid).collect::<Vec<_>>().join(" ")) }
const SCRIPT: [bool; 8] = [true, true, false, false, false, true, true, true];

fn observe<T: ReadTxn>(txn: &T, h: &XmlOut) -> String {
    macro_rules! frag { ($f:expr) => {{ let f = $f; let len = f.len(txn); let ch: Vec<XmlOut> = f.children(txn).collect(); let first = f.first_child(); let gets: Vec<Option<XmlOut>> = (0..len + 2).map(|i| f.get(txn, i)).collect(); let succ: Vec<XmlOut> = f.successors(txn).collect();
        format!("len={} children={} first={} gets={} successors={}", len, pids(&ch), poid(&first), poids(&gets), pids(&succ)) }} }
    macro_rules! sib { ($x:expr) => {{ let x = $x; let fwd: Vec<XmlOut> = x.siblings(txn).collect(); let back: Vec<XmlOut> = x.siblings(txn).rev().collect(); let mut it = x.siblings(txn); let mixed: Vec<Option<XmlOut>> = SCRIPT.iter().map(|b| if *b { it.next() } else { it.next_back() }).collect();
        format!("fwd={} back={} mixed={}", pids(&fwd), pids(&back), poids(&mixed)) }} }
    let (f, s, p) = match h {
        XmlOut::Element(x) => (frag!(x), sib!(x), x.parent()),
        XmlOut::Fragment(x) => (frag!(x), "-".to_string(), x.parent()),
        XmlOut::Text(x) => ("-".to_string(), sib!(x), x.parent()),
    };
    format!("ok {} | {} | parent={}", f, s, poid(&p))
}

fn rows(vs: &VStore) -> Option<String> {
    let mut out: Vec<String> = vec![];
    fn kids(b: &VBranch) -> String { b.seq.iter().map(|it| format!("{:x}:{:x}", it.id.client.get(), it.id.clock)).collect::<Vec<_>>().join(";") }
    let root = vs.branches.iter().find(|b| matches!(&b.id, VParent::Root(n) if n == ROOT_XML))?;
    out.push(format!("0:0,0,f,{},{},{}", root.block_len, root.content_len, kids(root)));
    // every nested XML branch, with the flags of the item that holds it
    let mut stack: Vec<&VBranch> = vec![root];
    while let Some(b) = stack.pop() {
        for it in &b.seq {
            let t = match &it.content { VContent::Type(t) => t, _ => return None };
            let inner = vs.branches.iter().find(|x| matches!(&x.id, VParent::Nested(i) if *i == it.id))?;
            let (k, container) = match t { TypeRef::XmlElement(_) => ("e", true), TypeRef::XmlFragment => ("f", true), TypeRef::XmlText => ("t", false), _ => return None };
            if container { out.push(format!("{:x}:{:x},{},{},{},{},{}", it.id.client.get(), it.id.clock, if it.deleted { 1 } else { 0 }, k, inner.block_len, inner.content_len, kids(inner))); stack.push(inner); }
            else { out.push(format!("{:x}:{:x},{},{},0,0,", it.id.client.get(), it.id.clock, if it.deleted { 1 } else { 0 }, k)); }
        }
    }
    Some(out.join("/"))
}

pub fn case(seed: u64, index: u64, md: &mut Model, rep: &mut Report) {
    let mut r = Rng::for_case(seed, 132, index);
    let doc = mk_doc(1, DocCfg { gc: false, ..DocCfg::default() });
    let root = doc.get_or_insert_xml_fragment(ROOT_XML);
    let mut script: Vec<String> = vec![];
    rep.evaluations += 1;
    for _ in 0..r.range(4, 16) {
        let mut txn = doc.transact_mut();
        // a random live container: the root or a nested element
        let mut cands: Vec<XmlOut> = vec![XmlOut::Fragment(root.clone())];
        cands.extend(root.successors(&txn).filter(|x| matches!(x, XmlOut::Element(_))));
        let target = r.pick(&cands).clone();
        macro_rules! on { ($f:ident => $e:expr) => { match &target { XmlOut::Element($f) => $e, XmlOut::Fragment($f) => $e, _ => {} } } }
        on!(f => {
            let n = f.len(&txn);
            match r.below(10) {
                0..=4 => { let i = r.below(n as u64 + 1) as u32; f.insert(&mut txn, i, XmlElementPrelim::empty(*r.pick(&["p", "b", "div"]))); script.push(format!("{}.insert({i},<el>)", bid(&target.id()))); }
                5..=6 => { let i = r.below(n as u64 + 1) as u32; f.insert(&mut txn, i, XmlTextPrelim::new("x")); script.push(format!("{}.insert({i},text)", bid(&target.id()))); }
                _ => if n > 0 { let i = r.below(n as u64) as u32; let l = r.range(1, (n - i).min(2) as u64) as u32; f.remove_range(&mut txn, i, l); script.push(format!("{}.remove_range({i},{l})", bid(&target.id()))); }
            }
        });
    }
    let txn = doc.transact();
    let vs = dump_store(&txn);
    let table = match rows(&vs) { Some(t) => t, None => { rep.count("xml_trees_not_encodable"); return; } };
    let mut handles: Vec<XmlOut> = vec![XmlOut::Fragment(root.clone())];
    handles.extend(root.successors(&txn));
    rep.nontrivial_case(&format!("xw:{}", index));
    for h in &handles {
        let want = observe(&txn, h);
        let m = md.ask(&format!("XW obs {} 0:0 {}", table, bid(&h.id())));
        rep.count("xml_nodes_read_through_every_path_and_compared_with_the_model");
        let body = m.split(" | wf=").next().unwrap_or("").to_string();
        if body != want || !m.ends_with("wf=1 spec=1") {
            rep.disagree(json!({"kind": "xml read paths", "node": bid(&h.id()), "model": m, "impl": want, "tree": table, "script": script, "case": {"stream": 132, "index": index, "seed": seed}}));
            return;
        }
    }
}
