//! C11: change events are exact edit scripts. Every replica keeps, for EVERY shared type it can reach
//! (the four roots and every nested type at any depth), two shadow copies that are updated ONLY from
//! events: one from the type's own `observe` callback and one from the `observe_deep` callback of its
//! root. After every transaction (local or remote) both shadows must equal the content readable
//! through the API; deep events must carry the path at which the target is reachable afterwards;
//! every observer fires at most once per transaction; and an event for a type whose content did not
//! change is classified by whether the transaction touched the type at all.
use crate::model::Model;
use crate::report::{catch, parallel, Report};
use crate::rng::Rng;
use crate::sim::*;
use serde_json::json;
use std::collections::{BTreeMap, BTreeSet, HashMap};
use std::sync::{Arc, Mutex};
use yrs::branch::{Branch, BranchID};
use yrs::types::array::ArrayEvent;
use yrs::types::map::MapEvent;
use yrs::types::text::{TextEvent, YChange};
use yrs::types::xml::{XmlEvent, XmlTextEvent};
use yrs::types::{Attrs, Change, Delta, EntryChange, Event, PathSegment};
use yrs::verif::{dump_store, VBlock, VBranch, VContent, VItem, VParent, VStore};
use yrs::types::TypeRef;
use yrs::{Any, Array, DeepObservable, IdSet, Map, Observable, Out, ReadTxn, Subscription, Text, Transact, TransactionMut, Xml, XmlFragment, XmlOut, ID};

thread_local! { static BYTES_KIND: std::cell::Cell<bool> = std::cell::Cell::new(false); }
/// the units a document counts text in: UTF-16 code units, or UTF-8 bytes for OffsetKind::Bytes
fn units(s: &str) -> Vec<u16> { if BYTES_KIND.with(|b| b.get()) { s.bytes().map(u16::from).collect() } else { s.encode_utf16().collect() } }
type AttrMap = BTreeMap<String, String>;
#[derive(Clone, Debug, PartialEq)]
enum El { Ch(u16, AttrMap), Embed(String, AttrMap) } // one UTF-16 unit per Ch

/// Shallow content of one shared type: children / elements, rich text units, keyed entries (map entries or XML attributes).
#[derive(Clone, Debug, Default, PartialEq)]
struct Node { seq: Vec<String>, text: Vec<El>, keys: BTreeMap<String, String> }
impl Node { fn show(&self) -> String { format!("seq={:?} text={} keys={:?}", self.seq, show_text(&self.text), self.keys) } }
fn show_text(t: &[El]) -> String { t.iter().map(|e| match e { El::Ch(u, a) => format!("{:x}{}", u, if a.is_empty() { String::new() } else { format!("{:?}", a) }), El::Embed(s, a) => format!("<{}>{}", s, if a.is_empty() { String::new() } else { format!("{:?}", a) }) }).collect::<Vec<_>>().join(" ") }

fn bid(b: &Branch) -> String { match b.id() { BranchID::Root(n) => format!("R{}", n), BranchID::Nested(id) => format!("{:x}:{:x}", id.client.get(), id.clock) } }
fn out_bid(o: &Out) -> Option<String> {
    Some(match o { Out::YText(r) => bid(r.as_ref()), Out::YArray(r) => bid(r.as_ref()), Out::YMap(r) => bid(r.as_ref()), Out::YXmlElement(r) => bid(r.as_ref()), Out::YXmlText(r) => bid(r.as_ref()), Out::YXmlFragment(r) => bid(r.as_ref()), _ => return None })
}
fn xml_out(n: XmlOut) -> Out { match n { XmlOut::Element(e) => Out::YXmlElement(e), XmlOut::Fragment(f) => Out::YXmlFragment(f), XmlOut::Text(t) => Out::YXmlText(t) } }
fn val(o: &Out) -> String {
    match o {
        Out::Any(a) => print_any(a),
        Out::YText(_) => format!("<text#{}>", out_bid(o).unwrap()), Out::YArray(_) => format!("<array#{}>", out_bid(o).unwrap()), Out::YMap(_) => format!("<map#{}>", out_bid(o).unwrap()),
        Out::YXmlElement(e) => format!("<xml:{}#{}>", e.tag(), out_bid(o).unwrap()), Out::YXmlText(_) => format!("<xmltext#{}>", out_bid(o).unwrap()), Out::YXmlFragment(_) => format!("<xmlfrag#{}>", out_bid(o).unwrap()),
        Out::YDoc(_) => "<doc>".into(), _ => "<other>".into(),
    }
}
fn attrs_of(a: &Attrs) -> AttrMap { a.iter().filter(|(_, v)| !matches!(v, Any::Null)).map(|(k, v)| (k.to_string(), print_any(v))).collect() }

fn apply_text_delta(sh: &mut Vec<El>, delta: &[Delta], problems: &mut Vec<String>) {
    let mut i = 0usize;
    for d in delta {
        match d {
            Delta::Inserted(v, at) => {
                let am = at.as_ref().map(|a| attrs_of(a)).unwrap_or_default();
                match v { Out::Any(Any::String(s)) => { let us: Vec<El> = units(s).into_iter().map(|u| El::Ch(u, am.clone())).collect(); let n = us.len(); let at = i.min(sh.len()); sh.splice(at..at, us); i = at + n; }
                          other => { let at = i.min(sh.len()); sh.insert(at, El::Embed(val(other), am)); i = at + 1; } }
            }
            Delta::Deleted(n) => { let n = *n as usize; if i + n > sh.len() { problems.push(format!("text delta deletes {} units at {} but the observer has {}", n, i, sh.len())); let at = i.min(sh.len()); sh.truncate(at); } else { sh.drain(i..i + n); } }
            Delta::Retain(n, at) => {
                let n = *n as usize;
                if i + n > sh.len() { problems.push(format!("text delta retains {} units at {} but the observer has {}", n, i, sh.len())); }
                let end = (i + n).min(sh.len()); let beg = i.min(end);
                if let Some(a) = at { for e in sh[beg..end].iter_mut() { let m = match e { El::Ch(_, m) | El::Embed(_, m) => m }; for (k, v) in a.iter() { if matches!(v, Any::Null) { m.remove(k.as_ref()); } else { m.insert(k.to_string(), print_any(v)); } } } }
                i = end;
            }
        }
    }
}
fn apply_changes(sh: &mut Vec<String>, delta: &[Change], problems: &mut Vec<String>) {
    let mut i = 0usize;
    for c in delta {
        match c {
            Change::Added(vs) => { let new: Vec<String> = vs.iter().map(val).collect(); let n = new.len(); let at = i.min(sh.len()); sh.splice(at..at, new); i = at + n; }
            Change::Removed(n) => { let n = *n as usize; if i + n > sh.len() { problems.push(format!("change list removes {} at {} but the observer has {}", n, i, sh.len())); let at = i.min(sh.len()); sh.truncate(at); } else { sh.drain(i..i + n); } }
            Change::Retain(n) => { i += *n as usize; if i > sh.len() { problems.push(format!("change list retains to {} but the observer has {}", i, sh.len())); i = sh.len(); } }
        }
    }
}
fn apply_keys(sh: &mut BTreeMap<String, String>, keys: &HashMap<Arc<str>, EntryChange>, problems: &mut Vec<String>) {
    for (k, ch) in keys.iter() {
        let k = k.to_string();
        match ch {
            EntryChange::Inserted(v) => { if let Some(cur) = sh.get(&k) { problems.push(format!("key {k} reported as inserted but the observer already saw {cur}")); } sh.insert(k, val(v)); }
            EntryChange::Updated(old, new) => { let ov = val(old); match sh.get(&k) { Some(cur) if *cur == ov => {}, other => problems.push(format!("key {k} reported as updated from {ov} but the observer saw {:?}", other)) } sh.insert(k, val(new)); }
            EntryChange::Removed(old) => { let ov = val(old); match sh.remove(&k) { Some(cur) if cur == ov => {}, other => problems.push(format!("key {k} reported as removed with old value {ov} but the observer saw {:?}", other)) } }
        }
    }
}

enum EvRef<'a> { Text(&'a TextEvent), Array(&'a ArrayEvent), Map(&'a MapEvent), Xml(&'a XmlEvent), XmlText(&'a XmlTextEvent) }
fn apply_event(n: &mut Node, ev: &EvRef, txn: &TransactionMut, problems: &mut Vec<String>) {
    match ev {
        EvRef::Text(e) => apply_text_delta(&mut n.text, e.delta(txn), problems),
        EvRef::Array(e) => apply_changes(&mut n.seq, e.delta(txn), problems),
        EvRef::Map(e) => apply_keys(&mut n.keys, e.keys(txn), problems),
        EvRef::Xml(e) => { apply_changes(&mut n.seq, e.delta(txn), problems); apply_keys(&mut n.keys, e.keys(txn), problems) }
        EvRef::XmlText(e) => { apply_text_delta(&mut n.text, e.delta(txn), problems); apply_keys(&mut n.keys, e.keys(txn), problems) }
    }
}

fn tk(tab: &mut HashMap<String, u64>, s: &str) -> String {
    if s == "n" { return "0".into(); }   // print_any(Any::Null)
    let n = tab.len() as u64 + 1;
    format!("{:x}", *tab.entry(s.to_string()).or_insert(n))
}
fn toks(tab: &mut HashMap<String, u64>, vs: &[String]) -> String { if vs.is_empty() { "_".into() } else { vs.iter().map(|v| tk(tab, v)).collect::<Vec<_>>().join(".") } }
fn canon_changes(tab: &mut HashMap<String, u64>, d: &[Change]) -> String {
    d.iter().map(|c| match c { Change::Added(vs) => format!("+{}", toks(tab, &vs.iter().map(val).collect::<Vec<_>>())), Change::Removed(n) => format!("-{:x}", n), Change::Retain(n) => format!("={:x}", n) }).collect::<Vec<_>>().join(",")
}
fn canon_keys(tab: &mut HashMap<String, u64>, keys: &HashMap<Arc<str>, EntryChange>) -> BTreeMap<String, String> {
    keys.iter().map(|(k, c)| (k.to_string(), match c { EntryChange::Inserted(v) => format!("I{}", tk(tab, &val(v))), EntryChange::Updated(o, n) => format!("U{}>{}", tk(tab, &val(o)), tk(tab, &val(n))), EntryChange::Removed(o) => format!("R{}", tk(tab, &val(o))) })).collect()
}
fn canon_attrs(tab: &mut HashMap<String, u64>, a: &Option<Box<Attrs>>) -> String {
    let mut kv: Vec<(u64, u64)> = a.as_ref().map(|a| a.iter().map(|(k, v)| (u64::from_str_radix(&tk(tab, &format!("key:{}", k)), 16).unwrap(), u64::from_str_radix(&tk(tab, &print_any(v)), 16).unwrap())).collect()).unwrap_or_default();
    kv.sort();
    kv.iter().map(|(k, v)| format!("{:x}:{:x}", k, v)).collect::<Vec<_>>().join("&")
}
fn canon_delta(tab: &mut HashMap<String, u64>, d: &[Delta]) -> String {
    d.iter().map(|c| match c {
        Delta::Inserted(Out::Any(Any::String(s)), a) => format!("+S{}@{}", { let u: Vec<String> = units(s).into_iter().map(|u| format!("{:x}", u)).collect(); if u.is_empty() { "_".to_string() } else { u.join(".") } }, canon_attrs(tab, a)),
        Delta::Inserted(o, a) => format!("+E{}@{}", tk(tab, &val(o)), canon_attrs(tab, a)),
        Delta::Deleted(n) => format!("-{:x}", n),
        Delta::Retain(n, a) => format!("={:x}@{}", n, canon_attrs(tab, a)),
    }).collect::<Vec<_>>().join(",")
}
fn impl_event(tab: &mut HashMap<String, u64>, id: &str, ev: &EvRef, txn: &TransactionMut) -> ImplEvent {
    let mut e = ImplEvent { id: id.to_string(), ..Default::default() };
    match ev {
        EvRef::Text(x) => e.text = Some(canon_delta(tab, x.delta(txn))),
        EvRef::Array(x) => e.seq = Some(canon_changes(tab, x.delta(txn))),
        EvRef::Map(x) => e.keys = Some(canon_keys(tab, x.keys(txn))),
        EvRef::Xml(x) => { e.seq = Some(canon_changes(tab, x.delta(txn))); e.keys = Some(canon_keys(tab, x.keys(txn))); }
        EvRef::XmlText(x) => { e.text = Some(canon_delta(tab, x.delta(txn))); e.keys = Some(canon_keys(tab, x.keys(txn))); }
    }
    e
}
fn capture(g: &mut State, txn: &TransactionMut) {
    if g.snap.is_none() { g.snap = Some(dump_store(txn)); g.ins = Some(txn.insert_set().clone()); g.del = Some(txn.delete_set().clone()); }
}

// ---- the same item lists, as the model's input ----
fn type_token(t: &TypeRef, id: &ID) -> String {
    let b = format!("{:x}:{:x}", id.client.get(), id.clock);
    match t { TypeRef::Array => format!("<array#{b}>"), TypeRef::Map => format!("<map#{b}>"), TypeRef::Text => format!("<text#{b}>"), TypeRef::XmlElement(tag) => format!("<xml:{tag}#{b}>"), TypeRef::XmlFragment => format!("<xmlfrag#{b}>"), TypeRef::XmlText => format!("<xmltext#{b}>"), _ => "<other>".into() }
}
fn item_values(it: &VItem) -> Vec<String> {
    match &it.content {
        VContent::Any(v) => v.iter().map(print_any).collect(),
        VContent::Binary(b) => vec![print_any(&Any::from(b.as_slice()))],
        VContent::Json(v) => v.iter().map(|s| print_any(&Any::from(s.as_str()))).collect(),
        VContent::Embed(a) => vec![print_any(a)],
        VContent::String(s) => vec![print_any(&Any::from(s.as_str()))],
        VContent::Type(t) => vec![type_token(t, &it.id)],
        VContent::Doc(_) => vec!["<doc>".into()],
        VContent::Deleted(_) | VContent::Format(_, _) => vec![],
    }
}
fn flags(it: &VItem, ins: &IdSet, del: &IdSet) -> String { format!("{}{}{}", it.deleted as u8, ins.contains(&it.id) as u8, del.contains(&it.id) as u8) }
fn model_seq_items(tab: &mut HashMap<String, u64>, b: &VBranch, ins: &IdSet, del: &IdSet) -> String {
    if b.seq.is_empty() { return "_".into(); }
    b.seq.iter().map(|it| format!("{:x},{},{}", it.len, flags(it, ins, del), toks(tab, &item_values(it)))).collect::<Vec<_>>().join(";")
}
fn model_key_chain(tab: &mut HashMap<String, u64>, chain: &[VItem], ins: &IdSet, del: &IdSet) -> String {
    chain.iter().map(|it| format!("{},{}", tk(tab, &item_values(it).last().cloned().unwrap_or_else(|| print_any(&Any::Undefined))), flags(it, ins, del))).collect::<Vec<_>>().join(";")
}
fn model_text_items(tab: &mut HashMap<String, u64>, b: &VBranch, ins: &IdSet, del: &IdSet) -> String {
    if b.seq.is_empty() { return "_".into(); }
    b.seq.iter().map(|it| {
        let c = match &it.content {
            VContent::String(s) => format!("S{}", { let u: Vec<String> = units(s).into_iter().map(|u| format!("{:x}", u)).collect(); if u.is_empty() { "_".to_string() } else { u.join(".") } }),
            VContent::Embed(a) => format!("E{}", tk(tab, &print_any(a))),
            VContent::Type(t) => format!("E{}", tk(tab, &type_token(t, &it.id))),
            VContent::Format(k, v) => format!("F{}:{}", tk(tab, &format!("key:{}", k)), tk(tab, &print_any(v))),
            _ => "O".into(),
        };
        format!("{},{}", c, flags(it, ins, del))
    }).collect::<Vec<_>>().join(";")
}
fn vparent_id(p: &VParent) -> String { match p { VParent::Root(n) => format!("R{}", n), VParent::Nested(id) => format!("{:x}:{:x}", id.client.get(), id.clock), _ => "?".into() } }

#[derive(Default)]
struct State {
    direct: BTreeMap<String, Node>, deep: BTreeMap<String, Node>,
    fired: BTreeMap<String, u32>,              // observer -> firings in the current transaction
    direct_events: BTreeSet<String>,           // type ids whose own observer fired
    deep_events: Vec<(String, String, String)>, // (deep-observed root, target id, reported path)
    direct_order: Vec<String>,                  // type ids in the order their own observers fired (= the order the events were created)
    deep_calls: Vec<(String, Vec<(String, Vec<(bool, String)>)>)>, // per deep observer call: observing root, its events (target, path segments) in the order given
    problems: Vec<String>,
    ins: Option<IdSet>, del: Option<IdSet>,
    snap: Option<VStore>,                       // the store as the first observer of the transaction saw it
    intern: HashMap<String, u64>,
    impl_events: Vec<ImplEvent>,
}
#[derive(Clone, Debug, Default)]
struct ImplEvent { id: String, seq: Option<String>, keys: Option<BTreeMap<String, String>>, text: Option<String> }


fn on_direct(st: &Arc<Mutex<State>>, id: &str, ev: EvRef, txn: &TransactionMut) {
    let mut g = st.lock().unwrap();
    *g.fired.entry(format!("observe:{id}")).or_insert(0) += 1;
    g.direct_events.insert(id.to_string());
    g.direct_order.push(id.to_string());
    capture(&mut g, txn);
    let mut tab = std::mem::take(&mut g.intern); let ie = impl_event(&mut tab, id, &ev, txn); g.intern = tab; g.impl_events.push(ie);
    let mut pr = vec![]; let mut n = g.direct.remove(id).unwrap_or_default();
    apply_event(&mut n, &ev, txn, &mut pr);
    g.direct.insert(id.to_string(), n);
    for p in pr { g.problems.push(format!("observe({id}): {p}")); }
}
fn subscribe_direct(st: &Arc<Mutex<State>>, o: &Out) -> Option<Subscription> {
    let id = out_bid(o)?; let s = st.clone();
    Some(match o {
        Out::YText(t) => t.observe(move |txn, e| on_direct(&s, &id, EvRef::Text(e), txn)),
        Out::YArray(a) => a.observe(move |txn, e| on_direct(&s, &id, EvRef::Array(e), txn)),
        Out::YMap(m) => m.observe(move |txn, e| on_direct(&s, &id, EvRef::Map(e), txn)),
        Out::YXmlElement(x) => x.observe(move |txn, e| on_direct(&s, &id, EvRef::Xml(e), txn)),
        Out::YXmlFragment(x) => x.observe(move |txn, e| on_direct(&s, &id, EvRef::Xml(e), txn)),
        Out::YXmlText(x) => x.observe(move |txn, e| on_direct(&s, &id, EvRef::XmlText(e), txn)),
        _ => return None,
    })
}
fn on_deep(st: &Arc<Mutex<State>>, root: &str, txn: &TransactionMut, evs: &yrs::types::Events) {
    let mut g = st.lock().unwrap();
    *g.fired.entry(format!("observe_deep:{root}")).or_insert(0) += 1;
    capture(&mut g, txn);
    {
        let call: Vec<(String, Vec<(bool, String)>)> = evs.iter().map(|ev| {
            let t = match ev.target() { Out::YWeakLink(w) => bid(w.as_ref()), o => out_bid(&o).unwrap_or_else(|| "?".to_string()) };
            (t, ev.path().iter().map(|p| match p { PathSegment::Key(k) => (true, k.to_string()), PathSegment::Index(i) => (false, format!("{:x}", i)) }).collect())
        }).collect();
        g.deep_calls.push((format!("R{}", root), call));
    }
    // a deep observer receives the event of a changed descendant once
    { let mut seen: Vec<String> = vec![]; for ev in evs.iter() { if let Some(id) = out_bid(&ev.target()) { if seen.contains(&id) { g.problems.push(format!("observe_deep({root}) received the event of {id} twice in one call")); } seen.push(id); } } }
    for ev in evs.iter() {
        let path: String = ev.path().iter().map(|p| match p { PathSegment::Key(k) => format!(".{k}"), PathSegment::Index(i) => format!("[{i}]") }).collect();
        let Some(id) = out_bid(&ev.target()) else { continue };
        g.deep_events.push((root.to_string(), id.clone(), path));
        let r = match ev { Event::Text(e) => EvRef::Text(e), Event::Array(e) => EvRef::Array(e), Event::Map(e) => EvRef::Map(e), Event::XmlFragment(e) => EvRef::Xml(e), Event::XmlText(e) => EvRef::XmlText(e), _ => continue };
        let mut pr = vec![]; let mut n = g.deep.remove(&id).unwrap_or_default();
        apply_event(&mut n, &r, txn, &mut pr);
        g.deep.insert(id.clone(), n);
        for p in pr { g.problems.push(format!("observe_deep({root}) event for {id}: {p}")); }
    }
}

/// The dispatch of one transaction in the notation of the runner's `EVD deep` (Crdt/Dispatch.v): the forest of shared types as the
/// observers saw it, the types whose own event was created (in creation order), the deep-observed roots; and what the deep
/// observers really received. None = a type of the transaction is not part of the dumped forest (counted by the caller).
fn evd_tie(vs: &VStore, direct_order: &[String], deep_calls: &[(String, Vec<(String, Vec<(bool, String)>)>)]) -> Option<(String, String)> {
    use yrs::verif::{VBlock, VParent};
    let pid = |p: &VParent| match p { VParent::Root(n) => Some(format!("R{}", n)), VParent::Nested(id) => Some(format!("{:x}:{:x}", id.client.get(), id.clock)), _ => None };
    let holder = |id: &ID| vs.blocks.iter().flat_map(|(_, bs)| bs.iter()).find_map(|b| match b { VBlock::Item(i) if i.id == *id => Some(i), _ => None });
    // types with their parent, in parents-first order
    let mut tys: Vec<(String, Option<String>, Option<String>, Option<ID>, &yrs::verif::VBranch)> = vec![];
    for b in &vs.branches {
        match &b.id {
            VParent::Root(n) => tys.push((format!("R{}", n), None, None, None, b)),
            VParent::Nested(id) => { let h = holder(id)?; tys.push((format!("{:x}:{:x}", id.client.get(), id.clock), Some(pid(&h.parent)?), h.parent_sub.clone(), Some(*id), b)); }
            _ => return None,
        }
    }
    let depth = |start: &str| { let mut d = 0; let mut cur = start.to_string(); for _ in 0..64 { match tys.iter().find(|t| t.0 == cur).and_then(|t| t.1.clone()) { Some(p) => { d += 1; cur = p; } None => break } } d };
    let mut order: Vec<usize> = (0..tys.len()).collect(); order.sort_by_key(|i| (depth(&tys[*i].0), tys[*i].0.clone()));
    let index_of = |id: &str| order.iter().position(|i| tys[*i].0 == id);
    let mut keys: Vec<String> = vec![]; let mut key_no = |k: &str, keys: &mut Vec<String>| { if let Some(p) = keys.iter().position(|x| x == k) { p + 1 } else { keys.push(k.to_string()); keys.len() } };
    let mut items: Vec<(u64, u32)> = vec![]; let mut item_no = |id: &ID, items: &mut Vec<(u64, u32)>| { let k = (id.client.get(), id.clock); if let Some(p) = items.iter().position(|x| *x == k) { p + 1 } else { items.push(k); items.len() } };
    let mut rows = vec![];
    for i in order.iter() {
        let (_, parent, sub, hid, b) = &tys[*i];
        let p = match parent { Some(p) => format!("{:x}", index_of(p)?), None => "-".to_string() };
        let sb = match sub { Some(k) => format!("{:x}", key_no(k, &mut keys)), None => "-".to_string() };
        let h = match hid { Some(id) => format!("{:x}", item_no(id, &mut items)), None => "0".to_string() };
        let seq = if b.seq.is_empty() { "_".to_string() } else { b.seq.iter().map(|it| format!("{:x}.{:x}.{}", item_no(&it.id, &mut items), if it.countable { it.len } else { 0 }, it.deleted as u8)).collect::<Vec<_>>().join(",") };
        let links = match hid.and_then(|id| holder(&id)) { Some(h) if h.linked => { let qs: Vec<String> = vs.links.iter().filter(|(i0, _, _)| *i0 == h.id).flat_map(|(_, _, qs)| qs.iter()).filter_map(|q| index_of(&format!("{:x}:{:x}", q.client.get(), q.clock))).map(|x| format!("{:x}", x)).collect(); if qs.is_empty() { "_".to_string() } else { qs.join(",") } } _ => "_".to_string() };
        rows.push(format!("{};{};{};{:x};{};{}", p, sb, h, b.type_ref, seq, links));
    }
    let mut events = vec![]; for id in direct_order { events.push(format!("{:x}", index_of(id)?)); }
    let dobs: Vec<String> = [ROOT_TEXT, ROOT_ARRAY, ROOT_MAP, ROOT_XML].iter().filter_map(|r| index_of(&format!("R{}", r))).map(|x| format!("{:x}", x)).collect();
    let cmd = format!("EVD deep {} {} {}", if rows.is_empty() { "_".to_string() } else { rows.join("/") }, if events.is_empty() { "_".to_string() } else { events.join(",") }, if dobs.is_empty() { "_".to_string() } else { dobs.join(",") });
    let mut calls: Vec<(usize, String)> = vec![];
    for (o, evs) in deep_calls {
        let oi = index_of(o)?;
        let mut es = vec![];
        for (t, path) in evs { es.push(format!("{:x}:{}", index_of(t)?, path.iter().map(|(isk, v)| if *isk { format!("k{:x}", key_no(v, &mut keys)) } else { format!("i{}", v) }).collect::<Vec<_>>().join("."))); }
        calls.push((oi, format!("{:x}[{}]", oi, es.join("|"))));
    }
    calls.sort();
    Some((cmd, if calls.is_empty() { "_".to_string() } else { calls.into_iter().map(|c| c.1).collect::<Vec<_>>().join(";") }))
}

struct Obs { rep: Replica, st: Arc<Mutex<State>>, subs: BTreeMap<String, Subscription>, _keep: Vec<Subscription> }

fn read_text_units(chunks: Vec<yrs::types::text::Diff<YChange>>) -> Vec<El> {
    let mut out = vec![];
    for d in chunks {
        let am = d.attributes.as_ref().map(|a| attrs_of(a)).unwrap_or_default();
        match &d.insert { Out::Any(Any::String(s)) => for u in units(s) { out.push(El::Ch(u, am.clone())); }, o => out.push(El::Embed(val(o), am)) }
    }
    out
}
type Actual = BTreeMap<String, (String, String, Node, Out)>;
/// Every reachable shared type with its path below its root and its shallow content.
fn walk<T: ReadTxn>(o: &Out, root: &str, path: String, txn: &T, acc: &mut Actual) {
    let Some(id) = out_bid(o) else { return };
    let mut n = Node::default(); let mut kids: Vec<(String, Out)> = vec![];
    match o {
        Out::YText(t) => n.text = read_text_units(t.diff(txn, YChange::identity)),
        Out::YArray(a) => for (i, v) in a.iter(txn).enumerate() { n.seq.push(val(&v)); if !matches!(v, Out::Any(_)) { kids.push((format!("{path}[{i}]"), v)); } },
        Out::YMap(m) => for (k, v) in m.iter(txn) { n.keys.insert(k.to_string(), val(&v)); if !matches!(v, Out::Any(_)) { kids.push((format!("{path}.{k}"), v)); } },
        Out::YXmlElement(e) => { for (k, v) in e.attributes(txn) { n.keys.insert(k.to_string(), val(&v)); } for (i, c) in e.children(txn).enumerate() { let c = xml_out(c); n.seq.push(val(&c)); kids.push((format!("{path}[{i}]"), c)); } }
        Out::YXmlFragment(e) => for (i, c) in e.children(txn).enumerate() { let c = xml_out(c); n.seq.push(val(&c)); kids.push((format!("{path}[{i}]"), c)); },
        Out::YXmlText(t) => { for (k, v) in t.attributes(txn) { n.keys.insert(k.to_string(), val(&v)); } n.text = read_text_units(t.diff(txn, YChange::identity)); }
        _ => {}
    }
    acc.insert(id, (root.to_string(), path, n, o.clone()));
    for (p, k) in kids { walk(&k, root, p, txn, acc); }
}
fn actual(rep: &Replica) -> Actual {
    let (t, a, m, x) = (rep.doc.get_or_insert_text(ROOT_TEXT), rep.doc.get_or_insert_array(ROOT_ARRAY), rep.doc.get_or_insert_map(ROOT_MAP), rep.doc.get_or_insert_xml_fragment(ROOT_XML));
    let txn = rep.doc.transact();
    let mut acc = BTreeMap::new();
    walk(&Out::YText(t), ROOT_TEXT, String::new(), &txn, &mut acc); walk(&Out::YArray(a), ROOT_ARRAY, String::new(), &txn, &mut acc);
    walk(&Out::YMap(m), ROOT_MAP, String::new(), &txn, &mut acc); walk(&Out::YXmlFragment(x), ROOT_XML, String::new(), &txn, &mut acc);
    acc
}
/// Types that own an item inserted or deleted by the transaction (from the store as its observers saw it).
fn touched(vs: &VStore, ins: &IdSet, del: &IdSet) -> BTreeSet<String> {
    let mut out = BTreeSet::new();
    for (_, blocks) in vs.blocks.iter() { for b in blocks { if let VBlock::Item(it) = b {
        let hit = (0..it.len).any(|k| { let id = ID::new(it.id.client, it.id.clock + k); ins.contains(&id) || del.contains(&id) });
        if hit { out.insert(vparent_id(&it.parent)); }
    } } }
    out
}

/// Model vs implementation on the transaction's own item lists: same change list / key changes / text delta,
/// the model's exactness statement evaluates to true, the invariants the theorems assume hold, and the model's
/// notion of content before / after is the content the API showed before / after.
fn compare_with_model(m: &mut Model, g: &mut State, before: &Actual, after: &Actual, rep: &mut Report, what: &str, fails: &mut Vec<serde_json::Value>, disagree: &mut Vec<serde_json::Value>) {
    let (Some(vs), Some(ins), Some(del)) = (g.snap.take(), g.ins.clone(), g.del.clone()) else { return };
    let mut tab = std::mem::take(&mut g.intern);
    let evs = g.impl_events.clone();
    for e in evs.iter() {
        let Some(b) = vs.branches.iter().find(|b| vparent_id(&b.id) == e.id) else { disagree.push(json!({"class": "event-target-not-in-store-dump", "type": e.id, "after": what})); continue };
        let field = |resp: &str, name: &str| -> String { resp.split(" | ").flat_map(|p| p.split(' ')).find_map(|kv| kv.strip_prefix(&format!("{name}=")).map(|x| x.to_string())).unwrap_or_default() };
        if let Some(imp) = &e.seq {
            let items = model_seq_items(&mut tab, b, &ins, &del);
            let resp = m.ask(&format!("EV seq {}", items)); rep.add("model_seq_events", 1);
            let md = resp.strip_prefix("ok ").unwrap_or(&resp).split(" | ").next().unwrap_or("").to_string();
            if md != *imp { disagree.push(json!({"class": "change-list-differs-from-model", "type": e.id, "implementation": imp, "model": md, "items": items, "after": what})); }
            if field(&resp, "wf") != "1" { disagree.push(json!({"class": "item-list-violates-assumed-invariant", "type": e.id, "items": items, "after": what})); }
            if field(&resp, "exact") != "1" { disagree.push(json!({"class": "model-change-list-not-exact-on-real-items", "type": e.id, "items": items, "model": resp, "after": what})); }
            for (name, act) in [("before", before), ("after", after)] { if let Some(a) = act.get(&e.id) {
                let want = toks(&mut tab, &a.2.seq);
                if field(&resp, name) != want { disagree.push(json!({"class": format!("model-content-{name}-differs-from-api"), "type": e.id, "model": field(&resp, name), "api": want, "items": items, "after": what})); }
            } }
        }
        if let Some(imp) = &e.keys {
            let mut keys: BTreeSet<String> = b.map.iter().map(|(k, _)| k.clone()).collect(); for k in imp.keys() { keys.insert(k.clone()); }
            for k in keys {
                let chain = b.map.iter().find(|(kk, _)| *kk == k).map(|(_, c)| model_key_chain(&mut tab, c, &ins, &del)).unwrap_or_else(|| "_".into());
                let resp = m.ask(&format!("EV keys {}", chain)); rep.add("model_key_events", 1);
                let md = resp.strip_prefix("ok ").unwrap_or(&resp).split(" | ").next().unwrap_or("").to_string();
                let im = imp.get(&k).cloned().unwrap_or_else(|| "-".into());
                if md != im { disagree.push(json!({"class": "key-change-differs-from-model", "type": e.id, "key": k, "implementation": im, "model": md, "chain": chain, "after": what})); }
                if field(&resp, "wf") != "1" { disagree.push(json!({"class": "key-chain-violates-assumed-invariant", "type": e.id, "key": k, "chain": chain, "after": what})); }
                if field(&resp, "exact") != "1" { disagree.push(json!({"class": "model-key-change-not-exact-on-real-items", "type": e.id, "key": k, "chain": chain, "model": resp, "after": what})); }
                for (name, act) in [("before", before), ("after", after)] { if let Some(a) = act.get(&e.id) {
                    let want = a.2.keys.get(&k).map(|v| tk(&mut tab, v)).unwrap_or_else(|| "none".into());
                    if field(&resp, name) != want { disagree.push(json!({"class": format!("model-key-{name}-differs-from-api"), "type": e.id, "key": k, "model": field(&resp, name), "api": want, "chain": chain, "after": what})); }
                } }
            }
        }
        if let Some(imp) = &e.text {
            let items = model_text_items(&mut tab, b, &ins, &del);
            let resp = m.ask(&format!("EV text {}", items)); rep.add("model_text_events", 1);
            let md = resp.strip_prefix("ok ").unwrap_or(&resp).split(" | ").next().unwrap_or("").to_string();
            if md != *imp { disagree.push(json!({"class": "text-delta-differs-from-model", "type": e.id, "implementation": imp, "model": md, "items": items, "after": what})); }
            if field(&resp, "wf") != "1" { disagree.push(json!({"class": "text-items-violate-assumed-invariant", "type": e.id, "items": items, "after": what})); }
            if field(&resp, "exact") != "1" { disagree.push(json!({"class": "model-text-delta-not-exact-on-real-items", "type": e.id, "items": items, "model": resp, "after": what})); }
        }
    }
    // deep paths through the model's path_index: every nested target's last path segment
    let _ = fails;
    g.intern = tab;
}

fn mk_obs(client: u64, cfg: DocCfg) -> Obs {
    let rep = Replica::new(client, cfg);
    let st: Arc<Mutex<State>> = Arc::new(Mutex::new(State::default()));
    let (t, a, m, x) = (rep.doc.get_or_insert_text(ROOT_TEXT), rep.doc.get_or_insert_array(ROOT_ARRAY), rep.doc.get_or_insert_map(ROOT_MAP), rep.doc.get_or_insert_xml_fragment(ROOT_XML));
    let mut keep = vec![];
    let s = st.clone(); keep.push(t.observe_deep(move |txn, evs| on_deep(&s, ROOT_TEXT, txn, evs)));
    let s = st.clone(); keep.push(a.observe_deep(move |txn, evs| on_deep(&s, ROOT_ARRAY, txn, evs)));
    let s = st.clone(); keep.push(m.observe_deep(move |txn, evs| on_deep(&s, ROOT_MAP, txn, evs)));
    let s = st.clone(); keep.push(x.observe_deep(move |txn, evs| on_deep(&s, ROOT_XML, txn, evs)));
    let mut o = Obs { rep, st, subs: BTreeMap::new(), _keep: keep };
    sync_subscriptions(&mut o);
    o
}
/// Start observing types that became reachable, forget those that vanished; new types start from their current content.
fn sync_subscriptions(o: &mut Obs) {
    let act = actual(&o.rep);
    {
        let mut g = o.st.lock().unwrap();
        let gone: Vec<String> = g.direct.keys().chain(g.deep.keys()).filter(|k| !act.contains_key(*k)).cloned().collect();
        for k in gone { g.direct.remove(&k); g.deep.remove(&k); o.subs.remove(&k); }
    }
    let new: Vec<String> = act.keys().filter(|k| !o.subs.contains_key(*k)).cloned().collect();
    for k in new {
        let (_, _, n, out) = &act[&k];
        if let Some(s) = subscribe_direct(&o.st, out) { o.subs.insert(k.clone(), s); }
        let mut g = o.st.lock().unwrap();
        g.direct.insert(k.clone(), n.clone());
        g.deep.entry(k.clone()).or_insert_with(|| n.clone());
    }
}

fn run_case(seed: u64, index: u64, rep: &mut Report, m: &mut Model) {
    let mut r = Rng::for_case(seed, 111, index);
    let n = r.range(1, 3) as usize;
    let gc = r.chance(1, 3);
    let bytes = r.chance(1, 3);
    BYTES_KIND.with(|b| b.set(bytes));
    let mut obs: Vec<Obs> = (0..n).map(|i| mk_obs([1u64, 2, 3][i], DocCfg { gc, bytes_offsets: bytes, ..DocCfg::default() })).collect();
    let ecfg = EditCfg::default();
    let mut msgs: Vec<(usize, Vec<u8>)> = vec![];
    let mut delivered: Vec<BTreeSet<usize>> = vec![BTreeSet::new(); n];
    let mut script = vec![format!("replicas={} gc={} offsets={}", n, gc, if bytes { "bytes" } else { "utf16" })];
    let mut fails: Vec<serde_json::Value> = vec![];
    let mut tag = 0u64;
    let mut remote_txns = 0;
    let debug = std::env::var("YV_DEBUG").is_ok();
    // a quarter of the cases hold a nested array under the root map together with a weak link to it (stored in the same map): the
    // chain of parents of the array then reaches the root map twice, directly and through the link (found by the Coq transcription
    // of call_type_observers, Crdt/Dispatch.v: evd_at_most_once_links_refuted)
    let linked = index % 4 == 0;
    let mut link_sub = vec![false; n];
    if linked {
        use yrs::{Array, Map};
        let m0 = obs[0].rep.doc.get_or_insert_map(ROOT_MAP);
        { let mut txn = obs[0].rep.doc.transact_mut();
          m0.insert(&mut txn, "qa", yrs::ArrayPrelim::from([yrs::Any::from(1.0)]));
          if let Some(l) = m0.link(&txn, "qa") { m0.insert(&mut txn, "ql", l); } }
        if let Some(a) = obs[0].rep.drain1().into_iter().next() { msgs.push((0, a)); delivered[0].insert(msgs.len() - 1); }
        obs[0].rep.drain2();
        sync_subscriptions(&mut obs[0]);
        { let mut g = obs[0].st.lock().unwrap(); g.problems.clear(); }
        script.push("r0 txn {map.qa = [1]; map.ql = link(map.qa)}".to_string());
    }
    for step in 0..r.range(5, 24) {
        let i = r.below(n as u64) as usize;
        let cand: Vec<usize> = (0..msgs.len()).filter(|m| !delivered[i].contains(m)).collect();
        let before = actual(&obs[i].rep);
        { let mut g = obs[i].st.lock().unwrap(); g.fired.clear(); g.deep_events.clear(); g.direct_events.clear(); g.direct_order.clear(); g.deep_calls.clear(); g.ins = None; g.del = None; g.snap = None; g.impl_events.clear(); g.intern.clear(); }
        let what;
        let qa: Option<yrs::ArrayRef> = if linked && r.chance(1, 4) { use yrs::Map; let mm = obs[i].rep.doc.get_or_insert_map(ROOT_MAP); let t = obs[i].rep.doc.transact(); match mm.get(&t, "qa") { Some(Out::YArray(a)) => Some(a), _ => None } } else { None };
        if let Some(a) = qa {
            use yrs::Array;
            tag += 1;
            { let mut txn = obs[i].rep.doc.transact_mut(); let len = a.len(&txn); let at = r.below(len as u64 + 1) as u32; a.insert(&mut txn, at, yrs::Any::from(1000.0 + tag as f64)); }
            what = format!("r{} txn {{map.qa.insert({})}}", i, 1000 + tag);
            rep.count("c11_edits_inside_a_linked_nested_type");
            if let Some(u) = obs[i].rep.drain1().into_iter().next() { msgs.push((i, u)); delivered[i].insert(msgs.len() - 1); }
            obs[i].rep.drain2();
        } else if r.chance(3, 5) || cand.is_empty() {
            let mut sc = vec![];
            let (u1, _) = local_txn(&obs[i].rep, &mut r, &ecfg, bytes, 4, &mut sc, &mut tag);
            what = format!("r{} txn {{{}}}", i, sc.join("; "));
            if let Some(a) = u1.into_iter().next() { msgs.push((i, a)); delivered[i].insert(msgs.len() - 1); }
        } else {
            let m = *r.pick(&cand);
            what = format!("r{} <- msg{}", i, m);
            if debug { use yrs::updates::decoder::Decode; eprintln!("msg{} = {:?}", m, yrs::Update::decode_v1(&msgs[m].1)); }
            let _ = obs[i].rep.apply_v1(&msgs[m].1); obs[i].rep.drain1(); obs[i].rep.drain2();
            delivered[i].insert(m); remote_txns += 1;
        }
        script.push(what.clone());
        let after = actual(&obs[i].rep);
        let tch = { let g = obs[i].st.lock().unwrap(); match (&g.snap, &g.ins, &g.del) { (Some(vs), Some(ins), Some(del)) => touched(vs, ins, del), _ => BTreeSet::new() } };
        // ---- the dispatch itself (Crdt/Dispatch.v: call_observers, call_type_observers, Events::new, Branch::path): given the forest as
        // the observers saw it and the types whose own event was created, the transcription says which deep observer receives which
        // events with which paths, in which order
        {
            let g = obs[i].st.lock().unwrap();
            if let Some(vs) = &g.snap {
                match evd_tie(vs, &g.direct_order, &g.deep_calls) {
                    Some((cmd, want)) => {
                        let ans = m.ask(&cmd);
                        rep.count("c11_transactions_whose_dispatch_was_compared_with_the_transcription");
                        rep.add("c11_deep_observer_calls_compared_with_the_transcription", g.deep_calls.len() as u64);
                        let got = ans.strip_prefix("ok ").map(|x| x.split(" cpt=").next().unwrap_or("").to_string());
                        if got.as_deref() != Some(want.as_str()) { rep.disagree(json!({"kind": "observer dispatch (EVD deep)", "model": ans.chars().take(800).collect::<String>(), "impl": want, "command": cmd.chars().take(1500).collect::<String>(), "after": what, "case": {"stream": 111, "index": index, "seed": seed}, "script": script})); }
                    }
                    None => rep.count("c11_transactions_with_a_type_outside_the_dumped_forest"),
                }
            }
        }
        let mut disagree = vec![];
        { let mut g = obs[i].st.lock().unwrap(); compare_with_model(m, &mut g, &before, &after, rep, &what, &mut fails, &mut disagree); }
        for mut d in disagree { d["property"] = json!("C11"); d["case"] = json!({"stream": 111, "index": index, "seed": seed}); d["script"] = json!(script); rep.disagree(d); }
        if debug { eprintln!("after {what}: sv {} store {}", sv_string(&obs[i].rep.doc), internal_dump(&store_dump(&obs[i].rep.doc))); }
        {
            let g = obs[i].st.lock().unwrap();
            rep.add("transactions_checked", 1); rep.add("types_compared", after.len() as u64); rep.add("deep_events", g.deep_events.len() as u64); rep.add("direct_events", g.direct_events.len() as u64);
        if debug { eprintln!("  direct events {:?} deep events {:?} touched {:?}", g.direct_events, g.deep_events, tch); }
            for p in &g.problems { fails.push(json!({"class": "event-inconsistent-with-what-the-observer-saw", "detail": p, "after": what, "step": step})); }
            for (id, (root, path, node, _)) in after.iter() {
                let existed = before.contains_key(id);
                let changed = existed && before[id].2 != *node;
                if changed { rep.add("changed_types", 1); if !path.is_empty() { rep.add("changed_nested_types", 1); } }
                if let Some(sh) = g.direct.get(id) { if sh != node {
                    let got = g.direct_events.contains(id);
                    fails.push(json!({"class": if got { "observe-event-does-not-reproduce-content" } else { "observe-no-event-for-changed-type" }, "type": id, "root": root, "path": path, "after": what, "step": step, "observer_has": sh.show(), "content": node.show()}));
                } }
                if let Some(sh) = g.deep.get(id) { if sh != node {
                    let got = g.deep_events.iter().any(|(_, t, _)| t == id);
                    fails.push(json!({"class": if got { "deep-event-does-not-reproduce-content" } else { "deep-no-event-for-changed-descendant" }, "type": id, "root": root, "path": path, "after": what, "step": step, "observer_has": sh.show(), "content": node.show()}));
                } }
            }
            // deep events: addressed to the observer of the target's root, with the path at which the target is reachable now
            for (root, id, path) in g.deep_events.iter() {
                if let Some((aroot, apath, _, _)) = after.get(id) {
                    if aroot != root { fails.push(json!({"class": "deep-event-delivered-to-foreign-root", "type": id, "observer_root": root, "type_root": aroot, "after": what, "step": step})); }
                    else if apath != path { fails.push(json!({"class": "deep-event-path-wrong", "type": id, "reported": path, "reachable_at": apath, "after": what, "step": step})); }
                    else { rep.add("deep_paths_checked", 1); }
                }
            }
            for (k, c) in g.fired.iter() { if *c > 1 { fails.push(json!({"class": "observer-fired-more-than-once", "observer": k, "count": c, "after": what, "step": step})); } }
            // an event for a type whose content did not change
            let mut evd: BTreeSet<String> = g.direct_events.clone(); for (_, t, _) in g.deep_events.iter() { evd.insert(t.clone()); }
            for id in evd { if let (Some(b), Some(a)) = (before.get(&id), after.get(&id)) { if b.2 == a.2 {
                if tch.contains(&id) { fails.push(json!({"class": "event-for-touched-but-unchanged-type", "type": id, "after": what, "step": step})); }
                else { fails.push(json!({"class": "event-for-untouched-type", "type": id, "after": what, "step": step})); }
            } } }
        }
        obs[i].st.lock().unwrap().problems.clear();
        sync_subscriptions(&mut obs[i]);
        // the link itself is a shared type with an observer of its own (its events take part in the dispatch)
        if linked && !link_sub[i] {
            use yrs::Map;
            let mm = obs[i].rep.doc.get_or_insert_map(ROOT_MAP);
            let w = { let t = obs[i].rep.doc.transact(); match mm.get(&t, "ql") { Some(Out::YWeakLink(w)) => Some(w), _ => None } };
            if let Some(w) = w { let id = bid(w.as_ref()); let st2 = obs[i].st.clone(); obs[i]._keep.push(w.observe(move |_, _| { st2.lock().unwrap().direct_order.push(id.clone()); })); link_sub[i] = true; }
        }
        if fails.iter().any(|f| f["class"] != "event-for-touched-but-unchanged-type") { break; }
    }
    rep.evaluations += 1;
    if remote_txns > 0 { rep.nontrivial_case(&format!("c11:{}", index)); }
    for mut f in fails { f["property"] = json!("C11"); f["case"] = json!({"stream": 111, "index": index, "seed": seed}); f["script"] = json!(script); rep.fail(f); }
    if rep.samples.len() < 2 && remote_txns > 0 { rep.sample(json!({"case": index, "script": script})); }
}

pub fn run(tier: &str, seed: u64, workers: usize) -> Report {
    let n = if tier == "thorough" { 80000 } else { 4000 };
    let mut total = parallel(workers, |w, nw| {
        let mut rep = Report::default();
        let mut m = Model::spawn();
        for ci in 0..n { if ci as usize % nw != w { continue; }
            if let Ok(o) = std::env::var("YV_ONLY") { if o.parse::<u64>().ok() != Some(ci) { continue; } }
            match catch(std::panic::AssertUnwindSafe(|| { let mut r2 = Report::default(); run_case(seed, ci, &mut r2, &mut m); r2 })) {
                Ok(r2) => rep.merge(r2),
                Err(e) => { rep.evaluations += 1; rep.fail(json!({"property": "C11", "class": "panic", "error": e, "case": {"stream": 111, "index": ci, "seed": seed}})); }
            }
        }
        rep
    });
    total.notes.push("1..3 replicas (a third with GC on); every replica observes EVERY reachable shared type (roots and nested types at any depth; own observer attached as soon as the type becomes reachable) and deep-observes the four roots; two shadow copies per type are updated ONLY from events (text delta with attributes in UTF-16 units, array / XML children change lists, map entry / XML attribute key changes with old-value check); transactions of 1..4 random calls over all types (formatting, embeds, nested prelims, deletes, insert-then-delete in one transaction) and remote updates in any order (out-of-order delivery included); after EVERY transaction both shadows of every type are compared with the content read through the API, deep event paths are compared with the position at which the target is reachable, observers must fire at most once per transaction; events for unchanged content are split by whether the transaction inserted or deleted an item of that type".into());
    total
}
