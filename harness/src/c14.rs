//! C14 (sticky indexes keep pointing at the same place) and C20 (quotations / links show the current
//! content of their source) on seeded multi-replica histories. The expected position / range is
//! computed from the hook dump of each replica (item order incl. tombstones), i.e. exactly where the
//! anchoring elements are, also when they have been deleted.
use crate::model::{hex, Model};
use crate::report::{catch, parallel, Report};
use crate::rng::Rng;
use crate::sim::*;
use serde_json::json;
use std::collections::BTreeSet;
use std::ops::Bound;
use std::sync::atomic::{AtomicU64, Ordering};
use std::sync::Arc;
use yrs::types::weak::Quotable;
use yrs::types::ToJson;
use yrs::updates::decoder::Decode;
use yrs::updates::encoder::Encode;
use yrs::verif::{VItem, VParent, VStore};
use yrs::{Any, Array, ArrayRef, Assoc, GetString, IndexedSequence, Map, MapRef, Observable, Out, ReadTxn, StickyIndex, Text, TextRef, Transact, WeakRef, ID};

/// the units (id, live) of a root sequence, in list order, from the hook dump
fn units_of_root(vs: &VStore, root: &str) -> Vec<(u64, u32, bool)> {
    let mut out = vec![];
    for b in &vs.branches { if let VParent::Root(n) = &b.id { if n == root { for it in &b.seq { for j in 0..it.len { out.push((it.id.client.get(), it.id.clock + j, !it.deleted && it.countable)); } } } } }
    out
}
fn live_values_text(vs: &VStore, root: &str) -> Vec<((u64, u32), bool, Vec<u16>)> {
    // per unit: id, live, utf16 unit
    let mut out = vec![];
    for b in &vs.branches { if let VParent::Root(n) = &b.id { if n == root { for it in &b.seq {
        let us: Vec<u16> = match &it.content { yrs::verif::VContent::String(s) => s.encode_utf16().collect(), _ => vec![0; it.len as usize] };
        for j in 0..it.len { out.push(((it.id.client.get(), it.id.clock + j), !it.deleted && it.countable, vec![us.get(j as usize).copied().unwrap_or(0)])); }
    } } } }
    out
}

/// a position given in UTF-16 units (what ids count) as an offset of the document's kind
fn to_doc(s: &str, u: u32, bytes: bool) -> u32 {
    if !bytes { return u; }
    let (mut a16, mut ab) = (0u32, 0u32);
    for ch in s.chars() { if a16 >= u { break; } a16 += ch.len_utf16() as u32; ab += ch.len_utf8() as u32; }
    ab
}

/// the rows of one root sequence for the block-level model of sticky indexes (Crdt/Sticky.v, runner STK): per block
/// `c:k:D:T` with T = s<code points> | e<n countable elements> | n<n not countable>
fn stk_rows(vs: &VStore, root: &str) -> Option<(u32, String)> {
    let b = vs.branches.iter().find(|b| matches!(&b.id, VParent::Root(n) if n == root))?;
    let rows: Vec<String> = b.seq.iter().map(|it| {
        let t = match &it.content {
            yrs::verif::VContent::String(s) => format!("s{}", s.chars().map(|c| format!("{:x}", c as u32)).collect::<Vec<_>>().join(".")),
            yrs::verif::VContent::Deleted(n) => format!("n{:x}", n),
            yrs::verif::VContent::Format(..) => "n1".to_string(),
            _ => format!("e{:x}", it.len),
        };
        format!("{:x}:{:x}:{}:{}", it.id.client.get(), it.id.clock, if it.deleted { 1 } else { 0 }, t)
    }).collect();
    Some((b.content_len, if rows.is_empty() { "_".to_string() } else { rows.join(",") }))
}
/// what the implementation answers for every index 0 ..= len + 1 and both associations: the anchor `at` chooses and the offset
/// that anchor resolves to, in the notation of the runner's `STK all`
fn stk_impl_table<S: IndexedSequence, T: ReadTxn>(seq: &S, txn: &T, clen: u32) -> String {
    let mut out = vec![];
    for i in 0..=clen + 1 { for after in [true, false] {
        let r = catch(std::panic::AssertUnwindSafe(|| {
            let st = seq.sticky_index(txn, i, if after { Assoc::After } else { Assoc::Before });
            match st { None => ("N".to_string(), "N".to_string()), Some(st) => (
                match st.id() { Some(id) => format!("R{:x}:{:x}", id.client.get(), id.clock), None => "B".to_string() },
                match st.get_offset(txn) { Some(o) => format!("{:x}", o.index), None => "N".to_string() }) }
        }));
        let (a, o) = match r { Ok(x) => x, Err(_) => ("P".to_string(), "N".to_string()) };
        out.push(format!("{:x}{}{}>{}", i, if after { "a" } else { "b" }, a, o));
    } }
    out.join(";")
}

#[derive(Clone)]
struct Sticky { bytes: Vec<u8>, v2: bool, json: Option<String>, root: &'static str, anchor: Option<(u64, u32)>, after: bool, created_at: u64, index: u32, anchor_val: Option<String> }
#[derive(Clone)]
struct Quote { key: String, root: &'static str, start: Option<((u64, u32), bool)>, end: Option<((u64, u32), bool)>, range: String, empty_when_made: bool }

fn expected_offset(units: &[(u64, u32, bool)], anchor: Option<(u64, u32)>, after: bool) -> Option<u32> {
    match anchor {
        None => Some(if after { units.iter().filter(|u| u.2).count() as u32 } else { 0 }),
        Some((c, k)) => {
            let pos = units.iter().position(|u| u.0 == c && u.1 == k)?;
            let before = units[..pos].iter().filter(|u| u.2).count() as u32;
            Some(if units[pos].2 { if after { before } else { before + 1 } } else { before })
        }
    }
}
/// an element that undo / redo re-created lives on in its newest copy: the anchor follows the `redone` pointers
fn follow_redone(vs: &VStore, root: &str, anchor: Option<(u64, u32)>) -> Option<(u64, u32)> {
    let mut cur = anchor?;
    for _ in 0..64 {
        let mut next = None;
        for b in &vs.branches { if let VParent::Root(n) = &b.id { if n == root { for it in &b.seq {
            if it.id.client.get() == cur.0 && it.id.clock <= cur.1 && cur.1 < it.id.clock + it.len { if let Some(r) = it.redone { next = Some((r.client.get(), r.clock + (cur.1 - it.id.clock))); } }
        } } } }
        match next { Some(n) => cur = n, None => break }
    }
    Some(cur)
}
fn run_case(seed: u64, index: u64, rep: &mut Report, want: &[&str], md: &mut Model) {
    let mut r = Rng::for_case(seed, 114, index);
    let nrep = r.range(2, 3) as usize;
    // every other case is an "undo / formatting" case: rich text, an undo manager on replica 0 (so that anchors get deleted and
    // re-created), GC on or off, and no quotations (their expected content is defined on histories without re-created elements)
    let undo_case = index % 2 == 1;
    let gc = undo_case && r.chance(1, 2);
    // text offsets in bytes (the default of a Doc) in half of the cases without embeds
    let bytes = !undo_case && r.chance(1, 2);
    let reps: Vec<Replica> = (0..nrep).map(|i| Replica::new([1u64, 2, 3][i], DocCfg { gc, bytes_offsets: bytes, ..DocCfg::default() })).collect();
    let mut mgr: Option<yrs::undo::UndoManager<()>> = if undo_case {
        let mut m = yrs::undo::UndoManager::with_options(yrs::undo::Options { capture_timeout_millis: 0, ..yrs::undo::Options::default() });
        m.expand_scope(&reps[0].doc, &reps[0].doc.get_or_insert_text(ROOT_TEXT)); m.expand_scope(&reps[0].doc, &reps[0].doc.get_or_insert_array(ROOT_ARRAY));
        Some(m) } else { None };
    let mut msgs: Vec<(usize, Vec<u8>)> = vec![];
    let mut delivered: Vec<BTreeSet<usize>> = vec![BTreeSet::new(); nrep];
    let mut stickies: Vec<Sticky> = vec![];
    let mut quotes: Vec<Quote> = vec![];
    let mut script: Vec<String> = vec![];
    let mut fails: Vec<serde_json::Value> = vec![];
    let ecfg = EditCfg { text: true, array: true, map: false, xml: false, nested: false, formatting: undo_case, deletes: true };
    let mut tag = 0u64;
    let steps = r.range(6, 18);
    let fired = Arc::new(AtomicU64::new(0));
    let mut subs = vec![];
    // notification: per (replica, quotation) an observer registered as soon as the quotation exists there, the ids it showed after the
    // previous step and the observer's call count at that time
    let mut watch: std::collections::BTreeMap<(usize, usize), (Arc<AtomicU64>, Option<Vec<(u64, u32)>>, u64, BTreeSet<(u64, u32)>, Vec<((u64, u32), bool)>)> = std::collections::BTreeMap::new();
    for step in 0..steps {
        let i = r.below(nrep as u64) as usize;
        let cand: Vec<usize> = (0..msgs.len()).filter(|m| !delivered[i].contains(m)).collect();
        let mut choice = r.below(10);
        if undo_case && choice == 9 { choice = 7; }   // no quotations in undo cases
        if undo_case && r.chance(1, 6) {
            // undo / redo on replica 0: deleted anchors come back as copies, inserted ones go away
            let m = mgr.as_mut().unwrap();
            reps[0].drain1();
            let what = if r.chance(2, 3) { format!("r0 undo -> {}", m.undo_blocking()) } else { format!("r0 redo -> {}", m.redo_blocking()) };
            script.push(what);
            if let Some(a) = reps[0].drain1().into_iter().next() { msgs.push((0, a)); delivered[0].insert(msgs.len() - 1); }
            reps[0].drain2();
            rep.count("undo_redo_calls");
        } else if choice < 4 || (cand.is_empty() && choice < 7) {
            let mut sc = vec![];
            let (u1, _) = local_txn(&reps[i], &mut r, &ecfg, bytes, 2, &mut sc, &mut tag);
            script.push(format!("r{} txn {{{}}}", i, sc.join("; ")));
            if let Some(a) = u1.into_iter().next() { msgs.push((i, a)); delivered[i].insert(msgs.len() - 1); }
        } else if choice < 7 {
            let m = *r.pick(&cand);
            script.push(format!("r{} <- msg{}", i, m));
            let _ = reps[i].apply_v1(&msgs[m].1); reps[i].drain1(); reps[i].drain2();
            delivered[i].insert(m);
        } else if choice < 9 {
            // create a sticky index on replica i
            let root: &'static str = if r.chance(1, 2) { ROOT_TEXT } else { ROOT_ARRAY };
            let vs = store_dump(&reps[i].doc);
            let units = units_of_root(&vs, root);
            let live: Vec<&(u64, u32, bool)> = units.iter().filter(|u| u.2).collect();
            // text positions must be on character boundaries: only units whose predecessor is not a high surrogate
            let (tref, aref) = (reps[i].doc.get_or_insert_text(ROOT_TEXT), reps[i].doc.get_or_insert_array(ROOT_ARRAY));
            let txn = reps[i].doc.transact();
            let len = live.len() as u32;
            let idx = r.below(len as u64 + 1) as u32;
            if root == ROOT_TEXT { let s: Vec<u16> = tref.get_string(&txn).encode_utf16().collect(); if idx > 0 && (idx as usize) < s.len() && (0xD800..0xDC00).contains(&s[idx as usize - 1]) { continue; } }
            let after = r.chance(1, 2);
            let assoc = if after { Assoc::After } else { Assoc::Before };
            let doc_idx = if root == ROOT_TEXT { to_doc(&tref.get_string(&txn), idx, bytes) } else { idx };
            let st = if root == ROOT_TEXT { tref.sticky_index(&txn, doc_idx, assoc) } else { aref.sticky_index(&txn, idx, assoc) };
            let st = match st { Some(s) => s, None => { if !(after && idx == len) { fails.push(json!({"property": "C14", "class": "sticky-index-not-created", "index": idx, "len": len, "after": after})); } continue; } };
            let anchor = if after { live.get(idx as usize).map(|u| (u.0, u.1)) } else if idx == 0 { None } else { live.get(idx as usize - 1).map(|u| (u.0, u.1)) };
            // resolves to where it was created
            match st.get_offset(&txn) { Some(o) if o.index == doc_idx => {}, other => fails.push(json!({"property": "C14", "class": "sticky-does-not-resolve-to-creation-index", "index": idx, "got": other.map(|o| o.index), "after": after, "root": root})) }
            // the anchor it chose is the neighbouring element
            let got_anchor = st.id().map(|id| (id.client.get(), id.clock));
            if got_anchor != anchor { fails.push(json!({"property": "C14", "class": "sticky-anchor-is-not-the-neighbour", "expected": format!("{:?}", anchor), "got": format!("{:?}", got_anchor), "index": idx, "after": after, "root": root})); }
            let v2 = r.chance(1, 3);
            let jsons = if r.chance(1, 3) { serde_json::to_string(&st).ok() } else { None };
            // the value of the anchoring array element, when it is unique in the array: wherever that value is later (the element itself, or
            // the copy an undo made of it), the index belongs next to it - an oracle that does not read the implementation's `redone` pointers
            let anchor_val = if root == ROOT_ARRAY { let vals: Vec<String> = aref.iter(&txn).map(|o| print_out(&o, &txn, 0)).collect(); let pos = if after { Some(idx as usize) } else if idx > 0 { Some(idx as usize - 1) } else { None }; pos.and_then(|p| vals.get(p).cloned()).filter(|v| vals.iter().filter(|x| *x == v).count() == 1 && v.starts_with('i') /* integer tags are unique in the whole history; T / F / null are not: another replica may insert an equal value, which is a different element */) } else { None };
            stickies.push(Sticky { bytes: if v2 { st.encode_v2() } else { st.encode_v1() }, v2, json: jsons, root, anchor: got_anchor, after, created_at: step, index: idx, anchor_val });
            script.push(format!("r{} sticky#{} {}@{} {}", i, stickies.len() - 1, root, idx, if after { "After" } else { "Before" }));
            rep.count("stickies_created");
        } else {
            // sometimes an existing quotation is deleted instead (the others, which may share elements with it, live on)
            if quotes.len() >= 2 && r.chance(1, 4) {
                let mref = reps[i].doc.get_or_insert_map(ROOT_MAP);
                let present: Vec<String> = { let txn = reps[i].doc.transact(); quotes.iter().filter(|q| mref.get(&txn, &q.key).is_some()).map(|q| q.key.clone()).collect() };
                if let Some(k) = present.first().cloned() {
                    reps[i].drain1();
                    { let mut txn = reps[i].doc.transact_mut(); mref.remove(&mut txn, &k); }
                    if let Some(u) = reps[i].drain1().into_iter().next() { msgs.push((i, u)); delivered[i].insert(msgs.len() - 1); }
                    reps[i].drain2();
                    script.push(format!("r{} deletes quotation {}", i, k));
                    rep.count("quotes_deleted_during_the_history");
                }
            } else {
            // quote a range of the root array / text and store it in the root map (a replicated operation)
            let root: &'static str = if r.chance(2, 3) { ROOT_ARRAY } else { ROOT_TEXT };
            let vs = store_dump(&reps[i].doc);
            let units = units_of_root(&vs, root);
            let live: Vec<(u64, u32)> = units.iter().filter(|u| u.2).map(|u| (u.0, u.1)).collect();
            if live.len() < 2 { continue; }
            let (tref, aref, mref) = (reps[i].doc.get_or_insert_text(ROOT_TEXT), reps[i].doc.get_or_insert_array(ROOT_ARRAY), reps[i].doc.get_or_insert_map(ROOT_MAP));
            if root == ROOT_TEXT { let s = tref.get_string(&reps[i].doc.transact()); if s.chars().any(|c| c.len_utf16() > 1) { continue; } }
            let a = r.below(live.len() as u64) as usize; let b = r.range(a as u64, live.len() as u64 - 1) as usize;
            let (sb, eb) = (r.below(3), r.below(3));
            if a == b && (sb == 1 || eb == 1) { continue; }
            let start = match sb { 0 => Bound::Included(a as u32), 1 => Bound::Excluded(a as u32), _ => Bound::Unbounded };
            let end = match eb { 0 => Bound::Included(b as u32), 1 => Bound::Excluded(b as u32), _ => Bound::Unbounded };
            if sb == 1 && eb == 1 && b - a < 1 { continue; }
            let key = format!("q{}", quotes.len());
            reps[i].drain1();
            let ok = {
                let mut txn = reps[i].doc.transact_mut();
                let m = mref.clone();
                if root == ROOT_ARRAY {
                    match aref.quote(&txn, (start, end)) { Ok(q) => { let w = m.insert(&mut txn, key.as_str(), q); if quotes.is_empty() { let f = fired.clone(); subs.push(w.observe(move |_, _| { f.fetch_add(1, Ordering::SeqCst); })); } true } Err(e) => { fails.push(json!({"property": "C20", "class": "quote-error", "error": e.to_string()})); false } }
                } else {
                    let ts = tref.get_string(&txn);
                    let cv = |b: Bound<u32>| match b { Bound::Included(x) => Bound::Included(to_doc(&ts, x, bytes)), Bound::Excluded(x) => Bound::Excluded(to_doc(&ts, x, bytes)), Bound::Unbounded => Bound::Unbounded };
                    match tref.quote(&txn, (cv(start), cv(end))) { Ok(q) => { m.insert(&mut txn, key.as_str(), q); true } Err(e) => { fails.push(json!({"property": "C20", "class": "quote-error", "error": e.to_string()})); false } }
                }
            };
            if !ok { continue; }
            if let Some(u) = reps[i].drain1().into_iter().next() { msgs.push((i, u)); delivered[i].insert(msgs.len() - 1); }
            reps[i].drain2();
            let q = Quote { key: key.clone(), root,
                start: match sb { 0 => Some((live[a], true)), 1 => Some((live[a], false)), _ => None },
                end: match eb { 0 => Some((live[b], true)), 1 => Some((live[b], false)), _ => None },
                range: format!("{:?}..{:?}", start, end), empty_when_made: sb == 1 && eb == 1 && b - a == 1 };
            quotes.push(q);
            script.push(format!("r{} quote {} of {} range {:?}..{:?}", i, key, root, start, end));
            rep.count("quotes_created");
            }
        }
        // ---- evaluate every sticky index and every quotation on every replica
        for (ri, rp) in reps.iter().enumerate() {
            let vs = store_dump(&rp.doc);
            let (m, arr, _t) = (rp.doc.get_or_insert_map(ROOT_MAP), rp.doc.get_or_insert_array(ROOT_ARRAY), rp.doc.get_or_insert_text(ROOT_TEXT));
            let txn = rp.doc.transact();
            // ---- the block-level transcription of StickyIndex::at / get_offset (Crdt/Sticky.v), fed the item sequence of the hook
            // dump, answers like the implementation for EVERY index of both root sequences and both associations
            if want.contains(&"C14") { for root in [ROOT_TEXT, ROOT_ARRAY] { if let Some((clen, rows)) = stk_rows(&vs, root) {
                let kind = if bytes { "b" } else { "u" };
                let ans = md.ask(&format!("STK all {} {:x} 0 {}", kind, clen, rows));
                let imp = if root == ROOT_TEXT { stk_impl_table(&_t, &txn, clen) } else { stk_impl_table(&arr, &txn, clen) };
                rep.count("c14_sequences_compared_with_the_transcription_of_at_and_get_offset");
                rep.add("c14_sticky_positions_compared_with_the_transcription", 2 * (clen as u64 + 2));
                // `at` never panics, whatever the index (an index inside a character is answered None)
                if imp.contains('P') { fails.push(json!({"property": "C14", "class": "sticky-index-panics", "root": root, "replica": ri, "step": step, "bytes": bytes, "table": imp, "content_len": clen})); }
                if let Some(rest) = ans.strip_prefix("ok wf=1 ") {
                    if rest != imp { rep.disagree(json!({"kind": "sticky transcription (STK all)", "root": root, "replica": ri, "step": step, "bytes": bytes, "rows": rows, "content_len": clen, "model": rest, "impl": imp, "case": {"stream": 114, "index": index, "seed": seed}, "script": script})); }
                } else if ans.starts_with("ok wf=0") { rep.count("c14_sequences_outside_stk_wf"); }
                else { rep.disagree(json!({"kind": "sticky transcription (STK all): no answer", "answer": ans.chars().take(300).collect::<String>(), "rows": rows})); }
                // anchors made earlier (possibly elsewhere) resolve as the transcription says (copies made by undo are followed by the
                // implementation only: histories without an undo manager)
                if !undo_case { for s in stickies.iter().filter(|s| s.root == root) {
                    let st = match if s.v2 { StickyIndex::decode_v2(&s.bytes) } else { StickyIndex::decode_v1(&s.bytes) } { Ok(x) => x, Err(_) => continue };
                    let sc = match s.anchor { Some((c, k)) => { if !units_of_root(&vs, root).iter().any(|u| u.0 == c && u.1 == k) { continue; } format!("{:x}:{:x}", c, k) }, None => "B".to_string() };
                    let m = md.ask(&format!("STK off {} {:x} 0 {} {} {}", kind, clen, rows, sc, if s.after { "a" } else { "b" }));
                    let got = match st.get_offset(&txn) { Some(o) => format!("ok {:x}", o.index), None => "ok N".to_string() };
                    rep.count("c14_resolutions_compared_with_the_transcription");
                    if ans.starts_with("ok wf=1") && m != got { rep.disagree(json!({"kind": "sticky transcription (STK off)", "root": root, "replica": ri, "step": step, "rows": rows, "anchor": sc, "after": s.after, "model": m, "impl": got, "script": script})); }
                } }
            } } }
            for (si, s) in stickies.iter().enumerate() {
                let units = units_of_root(&vs, s.root);
                let knows = match s.anchor { Some((c, k)) => units.iter().any(|u| u.0 == c && u.1 == k), None => true };
                let st = if s.v2 { StickyIndex::decode_v2(&s.bytes) } else { StickyIndex::decode_v1(&s.bytes) };
                let st = match st { Ok(x) => x, Err(e) => { fails.push(json!({"property": "C14", "class": "sticky-codec", "error": e.to_string()})); continue; } };
                if let Some(j) = &s.json { match serde_json::from_str::<StickyIndex>(j) { Ok(x) if x == st => {}, _ => fails.push(json!({"property": "C14", "class": "sticky-json-roundtrip", "json": j})) } }
                if !knows { continue; }
                rep.add("sticky_resolutions", 1);
                let want_off = expected_offset(&units, follow_redone(&vs, s.root, s.anchor), s.after).map(|o| if s.root == ROOT_TEXT { to_doc(&_t.get_string(&txn), o, bytes) } else { o });
                let got = st.get_offset(&txn).map(|o| o.index);
                // (only where the copies are known to be copies: the replica with the undo manager; elsewhere a re-created element is a
                //  new element and the index stays where the deleted anchor was)
                if let (Some(v), true) = (&s.anchor_val, ri == 0) {
                    let vals: Vec<String> = arr.iter(&txn).map(|o| print_out(&o, &txn, 0)).collect();
                    let at: Vec<usize> = vals.iter().enumerate().filter(|(_, x)| *x == v).map(|(i, _)| i).collect();
                    if at.len() == 1 { rep.add("sticky_resolutions_checked_by_value", 1);
                        if s.anchor.map_or(false, |(c, k)| units.iter().any(|u| u.0 == c && u.1 == k && !u.2)) { rep.add("sticky_resolutions_checked_by_value_through_a_copy", 1); } let want = if s.after { at[0] as u32 } else { at[0] as u32 + 1 };
                        if got != Some(want) { fails.push(json!({"property": "C14", "class": "sticky-does-not-stay-next-to-its-element", "sticky": si, "replica": ri, "step": step, "expected": want, "got": got, "element": v, "after": s.after, "created_at_step": s.created_at, "created_at_index": s.index})); } }
                }
                if got != want_off {
                    fails.push(json!({"property": "C14", "class": if s.anchor.map_or(false, |(c, k)| units.iter().any(|u| u.0 == c && u.1 == k && !u.2)) { "sticky-with-deleted-anchor-resolves-elsewhere" } else { "sticky-resolves-elsewhere" },
                        "sticky": si, "replica": ri, "step": step, "expected": want_off, "got": got, "anchor": format!("{:?}", s.anchor), "after": s.after, "root": s.root, "created_at_step": s.created_at, "created_at_index": s.index,
                        "units": units.iter().map(|u| format!("{:x}:{:x}{}", u.0, u.1, if u.2 { "" } else { "~" })).collect::<Vec<_>>().join(",")}));
                }
            }
            // the invariant of the block-level bookkeeping (Crdt/LinkBlocksProofs.v: lkb_flag_entry_invariant, the hypothesis under which
            // the guard of integrate / delete / split - the `linked` flag - is equivalent to "has an entry in Store::linked_by"): every
            // entry of linked_by is non-empty and belongs to a block that carries the flag
            if want.contains(&"C20") {
                for (id, _len, qs) in vs.links.iter() {
                    let blk = vs.blocks.iter().flat_map(|(_, bs)| bs.iter()).find_map(|b| match b { yrs::verif::VBlock::Item(i) if i.id == *id => Some(i), _ => None });
                    rep.add("c20_linked_by_entries_checked_against_the_flag", 1);
                    match blk { Some(i) if i.linked && !qs.is_empty() => {},
                        other => rep.disagree(json!({"kind": "a reachable store violates lkb_inv (an entry of linked_by without a flagged block, or an empty entry)", "entry": format!("{:x}:{:x}", id.client.get(), id.clock), "block_found": other.is_some(), "flag": other.map(|i| i.linked), "quotations": qs.len(), "replica": ri, "step": step, "script": script})) }
                }
            }
            for (qi, q) in quotes.iter().enumerate() {
                let w = match m.get(&txn, &q.key) { Some(Out::YWeakLink(w)) => w, _ => continue };
                rep.add("quote_dereferences", 1);
                // ---- observers of a quotation are notified when content inside its range changes.
                // Model (Crdt/Links.v): which units are registered for the quotation (LinkSource::materialize, join_linked_range,
                // delete) and when that set changes, which is when yrs notifies. After every step: (1) the registered set of the
                // implementation (Store::linked_by, hook dump) must be what the model computes from the set before the step;
                // (2) if the ids the quotation shows changed, the observer must have been called - unless the model says that no
                // changed unit can be registered by the neighbour rule (known finding, theorems lk_complete_refuted_*).
                {
                    let us: Vec<((u64, u32), bool)> = if q.root == ROOT_ARRAY { units_of_root(&vs, ROOT_ARRAY).iter().map(|u| ((u.0, u.1), u.2)).collect() } else { live_values_text(&vs, ROOT_TEXT).iter().map(|u| (u.0, u.1)).collect() };
                    let ids_now: Option<Vec<(u64, u32)>> = {
                        let si = match q.start { Some((id, _)) => us.iter().position(|u| u.0 == id), None => Some(0) };
                        let ei = match q.end { Some((id, _)) => us.iter().position(|u| u.0 == id), None => Some(us.len().saturating_sub(1)) };
                        match (si, ei) { (Some(si), Some(ei)) => {
                            let lo = match q.start { Some((_, incl)) => if incl { si } else { si + 1 }, None => 0 };
                            let hi = match q.end { Some((_, incl)) => if incl { ei + 1 } else { ei }, None => us.len() };
                            Some(if lo < hi { us[lo..hi].iter().filter(|u| u.1).map(|u| u.0).collect() } else { vec![] }) }, _ => None }
                    };
                    // the item that holds the quotation on this replica, and the units registered for it
                    let qitem: Option<(u64, u32)> = vs.branches.iter().find(|b| matches!(&b.id, VParent::Root(n) if n == ROOT_MAP)).and_then(|b| b.map.iter().find(|(k, _)| *k == q.key)).and_then(|(_, chain)| chain.last()).map(|it| (it.id.client.get(), it.id.clock));
                    let real_reg: BTreeSet<(u64, u32)> = match qitem { Some(qi_) => vs.links.iter().filter(|(_, _, qs)| qs.iter().any(|x| (x.client.get(), x.clock) == qi_)).flat_map(|(id, len, _)| (0..*len).map(move |j| (id.client.get(), id.clock + j))).filter(|u| us.iter().any(|x| x.0 == *u)).collect(), None => BTreeSet::new() };
                    let fmt_units = |us: &Vec<((u64, u32), bool)>| if us.is_empty() { "_".to_string() } else { us.iter().map(|u| format!("{:x}:{:x}{}", (u.0).0, (u.0).1, if u.1 { "+" } else { "-" })).collect::<Vec<_>>().join(",") };
                    let fmt_ids = |s: &BTreeSet<(u64, u32)>| if s.is_empty() { "_".to_string() } else { s.iter().map(|u| format!("{:x}:{:x}", u.0, u.1)).collect::<Vec<_>>().join(",") };
                    let fmt_bound = |b: &Option<((u64, u32), bool)>| match b { None => "-".to_string(), Some((id, incl)) => format!("{:x}:{:x},{}", id.0, id.1, if *incl { "i" } else { "e" }) };
                    let parse_ids = |t: &str| -> BTreeSet<(u64, u32)> { if t == "_" { BTreeSet::new() } else { t.split(',').filter_map(|x| { let mut p = x.split(':'); Some((u64::from_str_radix(p.next()?, 16).ok()?, u32::from_str_radix(p.next()?, 16).ok()?)) }).collect() } };
                    let bounds_known = ids_now.is_some();
                    match watch.get_mut(&(ri, qi)) {
                        None => {
                            let f = Arc::new(AtomicU64::new(0)); let f2 = f.clone();
                            if q.root == ROOT_ARRAY { let wr: WeakRef<ArrayRef> = WeakRef::from(w.clone()); subs.push(wr.observe(move |_, _| { f2.fetch_add(1, Ordering::SeqCst); })); }
                            else { let wr: WeakRef<TextRef> = WeakRef::from(w.clone()); subs.push(wr.observe(move |_, _| { f2.fetch_add(1, Ordering::SeqCst); })); }
                            // what materialize registered: the model's initial set against the implementation's
                            if bounds_known {
                                let m = md.ask(&format!("LK init {} {} {}", fmt_units(&us), fmt_bound(&q.start), fmt_bound(&q.end)));
                                rep.add("quotation_registrations_compared_with_model", 1);
                                let model_reg = m.strip_prefix("ok ").map(parse_ids);
                                let live_only = |x: &BTreeSet<(u64, u32)>| -> BTreeSet<(u64, u32)> { x.iter().filter(|u| us.iter().any(|y| y.0 == **u && y.1)).cloned().collect() };
                                if model_reg != Some(real_reg.clone()) && model_reg.as_ref().map(|x| live_only(x)) == Some(live_only(&real_reg)) {
                                    // the two sets differ on tombstones only: a deleted run inside the range carries the `linked` flag but has no entry in linked_by
                                    fails.push(json!({"property": "C20", "class": "tombstone-in-a-quoted-range-flagged-but-not-registered", "model": m, "impl": fmt_ids(&real_reg), "units": fmt_units(&us), "range": q.range, "replica": ri}));
                                } else if model_reg != Some(real_reg.clone()) { rep.disagree(json!({"kind": "units registered when the quotation is made / arrives", "model": m, "impl": fmt_ids(&real_reg), "units": fmt_units(&us), "range": q.range, "replica": ri, "script": script.clone(), "blocks": vs.branches.iter().filter(|b| matches!(&b.id, VParent::Root(n) if n == q.root)).flat_map(|b| b.seq.iter().map(|it| format!("{:x}:{:x}+{}{}{}", it.id.client.get(), it.id.clock, it.len, if it.deleted { "~" } else { "" }, if it.linked { "L" } else { "" }))).collect::<Vec<_>>().join(" "), "case": {"stream": 114, "index": index, "seed": seed}})); }
                            }
                            watch.insert((ri, qi), (f, ids_now, 0, real_reg, us.clone()));
                        }
                        Some((f, before, seen, reg_before, us_before)) => {
                            let calls = f.load(Ordering::SeqCst);
                            if bounds_known && (*us_before != us || *reg_before != real_reg) {
                                let m = md.ask(&format!("LK step {} {} {} {} {}", fmt_units(us_before), fmt_ids(reg_before), fmt_units(&us), fmt_bound(&q.start), fmt_bound(&q.end)));
                                let mut it = m.split(' ');
                                let (ok, verdict, next) = (it.next() == Some("ok"), it.next().unwrap_or(""), it.next().unwrap_or("_"));
                                rep.add("quotation_steps_compared_with_model", 1);
                                // (the model's next set is exact for steps that are one insertion or deletions; a step with several insertions
                                //  is compared on the units that existed before it)
                                let added_runs = { let mut n = 0; let mut prev = false; for u in us.iter() { let a = !us_before.iter().any(|x| x.0 == u.0); if a && !prev { n += 1; } prev = a; } n };
                                let model_next = parse_ids(next);
                                let same = if added_runs <= 1 { model_next == real_reg } else { model_next.iter().filter(|u| us_before.iter().any(|x| x.0 == **u)).eq(real_reg.iter().filter(|u| us_before.iter().any(|x| x.0 == **u))) };
                                // a transaction that removes and inserts: the model's single step registers the insertions first; the other
                                // order (removals, then insertions) is the same function applied twice
                                let same = same || {
                                    let mid: Vec<((u64, u32), bool)> = us_before.iter().map(|u| (u.0, u.1 && us.iter().any(|x| x.0 == u.0 && x.1))).collect();
                                    if mid != *us_before {
                                        let m1 = md.ask(&format!("LK step {} {} {} {} {}", fmt_units(us_before), fmt_ids(reg_before), fmt_units(&mid), fmt_bound(&q.start), fmt_bound(&q.end)));
                                        let r1 = parse_ids(m1.split(' ').nth(2).unwrap_or("_"));
                                        let m2 = md.ask(&format!("LK step {} {} {} {} {}", fmt_units(&mid), fmt_ids(&r1), fmt_units(&us), fmt_bound(&q.start), fmt_bound(&q.end)));
                                        let r2 = parse_ids(m2.split(' ').nth(2).unwrap_or("_"));
                                        rep.add("quotation_steps_compared_in_the_other_order", 1);
                                        if added_runs <= 1 { r2 == real_reg } else { r2.iter().filter(|u| us_before.iter().any(|x| x.0 == **u)).eq(real_reg.iter().filter(|u| us_before.iter().any(|x| x.0 == **u))) }
                                    } else { false }
                                };
                                // a unit that arrives and is a tombstone at the end of the same step was either integrated with collected content
                                // (never registered, and no help to its neighbours) or live and deleted by the same update: the dump cannot tell
                                let added_dead = us.iter().any(|u| !u.1 && !us_before.iter().any(|x| x.0 == u.0));
                                if added_dead { rep.add("quotation_steps_with_units_arriving_deleted_not_compared", 1); }
                                if !ok || (!same && !added_dead) { rep.disagree(json!({"kind": "units registered for a quotation after a step", "model": m, "impl": fmt_ids(&real_reg), "before": fmt_units(us_before), "registered_before": fmt_ids(reg_before), "after": fmt_units(&us), "range": q.range, "replica": ri, "step": step, "case": {"stream": 114, "index": index, "seed": seed}})); }
                                if let (Some(b), Some(n)) = (before.as_ref(), ids_now.as_ref()) {
                                    if b != n {
                                        rep.add("quoted_range_changes_observed", 1);
                                        if calls == *seen {
                                            let (adds, rems): (Vec<String>, Vec<String>) = (n.iter().filter(|x| !b.contains(x)).map(|x| format!("{:x}:{:x}", x.0, x.1)).collect(), b.iter().filter(|x| !n.contains(x)).map(|x| format!("{:x}:{:x}", x.0, x.1)).collect());
                                            let class = if verdict == "silent" { "quotation-misses-elements-without-a-registered-neighbour" } else if rems.is_empty() { "quotation-observer-not-notified-of-an-insertion-inside-the-range" } else if adds.is_empty() { "quotation-observer-not-notified-of-a-removal-inside-the-range" } else { "quotation-observer-not-notified-of-a-change-inside-the-range" };
                                            fails.push(json!({"property": "C20", "class": class, "quote": q.key, "range": q.range, "root": q.root, "replica": ri, "step": step, "acting_replica": i, "added": adds, "removed": rems, "model": m}));
                                        }
                                    }
                                }
                            }
                            *before = ids_now; *seen = calls; *reg_before = real_reg; *us_before = us;
                        }
                    }
                }
                if q.root == ROOT_ARRAY {
                    let units = units_of_root(&vs, ROOT_ARRAY);
                    // expected: live units between the boundary units
                    let si = match q.start { Some((id, _)) => units.iter().position(|u| (u.0, u.1) == id), None => Some(0) };
                    let ei = match q.end { Some((id, _)) => units.iter().position(|u| (u.0, u.1) == id), None => Some(units.len().saturating_sub(1)) };
                    let (si, ei) = match (si, ei) { (Some(a), Some(b)) => (a, b), _ => continue };
                    let lo = match q.start { Some((_, incl)) => if incl { si } else { si + 1 }, None => 0 };
                    let hi = match q.end { Some((_, incl)) => if incl { ei + 1 } else { ei }, None => units.len() };
                    let expect_ids: Vec<(u64, u32)> = if lo < hi { units[lo..hi].iter().filter(|u| u.2).map(|u| (u.0, u.1)).collect() } else { vec![] };
                    // values of those ids through the array API: every element is a unique tagged number or some Any
                    let all_live: Vec<(u64, u32)> = units.iter().filter(|u| u.2).map(|u| (u.0, u.1)).collect();
                    let vals: Vec<String> = arr.iter(&txn).map(|o| print_out(&o, &txn, 0)).collect();
                    let expect_vals: Vec<String> = expect_ids.iter().filter_map(|id| all_live.iter().position(|x| x == id).and_then(|p| vals.get(p).cloned())).collect();
                    let wr: WeakRef<ArrayRef> = WeakRef::from(w.clone());
                    let got: Vec<String> = wr.unquote(&txn).map(|o| print_out(&o, &txn, 0)).collect();
                    if got != expect_vals {
                        fails.push(json!({"property": "C20", "class": "array-quotation-shows-wrong-elements", "quote": q.key, "range": q.range, "replica": ri, "step": step, "expected": expect_vals, "got": got,
                            "boundary_deleted": [q.start.map(|(id, _)| units.iter().any(|u| (u.0, u.1) == id && !u.2)), q.end.map(|(id, _)| units.iter().any(|u| (u.0, u.1) == id && !u.2))]}));
                    }
                } else {
                    let us = live_values_text(&vs, ROOT_TEXT);
                    let si = match q.start { Some((id, _)) => us.iter().position(|u| u.0 == id), None => Some(0) };
                    let ei = match q.end { Some((id, _)) => us.iter().position(|u| u.0 == id), None => Some(us.len().saturating_sub(1)) };
                    let (si, ei) = match (si, ei) { (Some(a), Some(b)) => (a, b), _ => continue };
                    let lo = match q.start { Some((_, incl)) => if incl { si } else { si + 1 }, None => 0 };
                    let hi = match q.end { Some((_, incl)) => if incl { ei + 1 } else { ei }, None => us.len() };
                    let expect: Vec<u16> = if lo < hi { us[lo..hi].iter().filter(|u| u.1).flat_map(|u| u.2.clone()).collect() } else { vec![] };
                    let wr: WeakRef<TextRef> = WeakRef::from(w.clone());
                    let got: Vec<u16> = wr.get_string(&txn).encode_utf16().collect();
                    if got != expect { fails.push(json!({"property": "C20", "class": "text-quotation-shows-wrong-content", "quote": q.key, "range": q.range, "replica": ri, "step": step, "expected": String::from_utf16_lossy(&expect), "got": String::from_utf16_lossy(&got)})); }
                }
            }
        }
        if fails.len() > 3 { break; }
    }
    // deleting a quotation leaves the source untouched
    if let Some(q) = quotes.first() {
        let rp = &reps[0];
        let m = rp.doc.get_or_insert_map(ROOT_MAP);
        if m.get(&rp.doc.transact(), &q.key).is_some() {
            let before = public_dump(&rp.doc);
            let src_before = before.split(" || m=").next().unwrap_or("").to_string();
            { let mut txn = rp.doc.transact_mut(); m.remove(&mut txn, &q.key); }
            let after = public_dump(&rp.doc);
            if after.split(" || m=").next().unwrap_or("") != src_before { fails.push(json!({"property": "C20", "class": "deleting-quotation-changed-source", "before": before, "after": after})); }
        }
    }
    rep.evaluations += 1;
    if !stickies.is_empty() || !quotes.is_empty() { rep.nontrivial_case(&format!("c14:{}", index)); }
    rep.add("quotation_observer_fired", fired.load(Ordering::SeqCst));
    for mut f in fails { if want.contains(&f.get("property").and_then(|p| p.as_str()).unwrap_or("")) { f["case"] = json!({"stream": 114, "index": index, "seed": seed}); f["script"] = json!(script); rep.fail(f); } else { rep.count("failures_of_the_sibling_property"); } }
    if rep.samples.len() < 2 && !stickies.is_empty() && !quotes.is_empty() { rep.sample(json!({"case": index, "script": script})); }
    drop(subs);
}

/// An element that is deleted, re-created by undo, and whose tombstone is split afterwards (a peer that had not seen the deletion
/// inserted into the middle of the original run): the index has to follow the copy of ITS element, whichever piece of the
/// tombstone it sat in. Values are unique, so the expected position is known without reading any `redone` pointer.
fn redo_split_case(seed: u64, index: u64, rep: &mut Report) {
    let mut r = Rng::for_case(seed, 214, index);
    let (r0, r1) = (Replica::new(1, DocCfg { gc: false, ..DocCfg::default() }), Replica::new(2, DocCfg::default()));
    let a0 = r0.doc.get_or_insert_array(ROOT_ARRAY); let a1 = r1.doc.get_or_insert_array(ROOT_ARRAY);
    let mut mgr: yrs::undo::UndoManager<()> = yrs::undo::UndoManager::with_options(yrs::undo::Options { capture_timeout_millis: 0, ..yrs::undo::Options::default() });
    mgr.expand_scope(&r0.doc, &a0);
    let k = r.range(3, 6) as usize;
    let vals: Vec<Any> = (0..k).map(|j| Any::Number((1000 + j) as f64)).collect();
    r0.drain1();
    { let mut txn = r0.doc.transact_mut(); a0.insert_range(&mut txn, 0, vals.clone()); }
    let u = r0.drain1(); for x in &u { let _ = r1.apply_v1(x); }
    // sticky indexes on every position of the run
    let sts: Vec<(StickyIndex, usize, bool)> = { let txn = r0.doc.transact(); (0..k).flat_map(|j| [true, false].into_iter().filter_map(move |after| Some((j, after)))).filter_map(|(j, after)| { let idx = if after { j as u32 } else { j as u32 + 1 }; a0.sticky_index(&txn, idx, if after { Assoc::After } else { Assoc::Before }).map(|s| (s, j, after)) }).collect() };
    // delete a sub-range, undo it
    let ds = r.below(k as u64 - 1) as u32; let dl = r.range(2, (k as u32 - ds) as u64) as u32;
    { let mut txn = r0.doc.transact_mut(); a0.remove_range(&mut txn, ds, dl); }
    let undone = mgr.undo_blocking();
    r0.drain1();
    // the peer, unaware of the deletion, inserts into the middle of the original run (once or twice)
    r1.drain1();
    for t in 0..r.range(1, 2) { let p = r.range(1, k as u64 - 1) as u32; let mut txn = r1.doc.transact_mut(); a1.insert(&mut txn, p, Any::Number((5000 + t) as f64)); }
    for x in r1.drain1() { let _ = r0.apply_v1(&x); }
    rep.evaluations += 1; rep.count("redo_split_cases"); if undone { rep.nontrivial_case(&format!("rs:{}", index)); }
    let txn = r0.doc.transact();
    let now: Vec<String> = a0.iter(&txn).map(|o| print_out(&o, &txn, 0)).collect();
    for (st, j, after) in sts {
        let v = print_any(&vals[j]);
        let at: Vec<usize> = now.iter().enumerate().filter(|(_, x)| **x == v).map(|(i, _)| i).collect();
        if at.len() != 1 { continue; }
        let want = if after { at[0] as u32 } else { at[0] as u32 + 1 };
        let got = st.get_offset(&txn).map(|o| o.index);
        rep.add("sticky_resolutions_after_a_split_of_a_re_created_run", 1);
        if got != Some(want) { rep.fail(json!({"property": "C14", "class": "sticky-does-not-stay-next-to-its-element", "element": v, "expected": want, "got": got, "after": after, "array": now, "deleted": [ds, dl], "undone": undone, "case": {"stream": 214, "index": index, "seed": seed}})); return; }
    }
}

/// Fixed input found by the block-level transcription of the quotation bookkeeping (Crdt/LinkBlocks.v: lkb_split_preserves is
/// necessary, one split site had been left out): a quoted block split by a snapshot diff keeps its registration.
fn fixed_c20_inputs(rep: &mut Report) {
    use std::sync::atomic::AtomicUsize;
    use yrs::types::text::YChange;
    rep.count("c20_fixed_inputs");
    let run = |with_diff: bool| -> (usize, String) {
        let doc = mk_doc(1, DocCfg::default());
        let text = doc.get_or_insert_text("text"); let map = doc.get_or_insert_map("map");
        text.insert(&mut doc.transact_mut(), 0, "hello");
        let prev = doc.transact_mut().snapshot();
        text.insert(&mut doc.transact_mut(), 5, " world");
        let next = doc.transact_mut().snapshot();
        let link = { let mut txn = doc.transact_mut(); let q = text.quote(&txn, 0..=10).unwrap(); map.insert(&mut txn, "q", q) };
        if with_diff { let _ = text.diff_range(&mut doc.transact_mut(), Some(&next), Some(&prev), YChange::identity); }
        let calls = Arc::new(AtomicUsize::new(0)); let c = calls.clone();
        let _sub = link.observe(move |_, _| { c.fetch_add(1, Ordering::SeqCst); });
        text.remove_range(&mut doc.transact_mut(), 7, 1);
        let shown = link.get_string(&doc.transact());
        (calls.load(Ordering::SeqCst), shown)
    };
    let (control, s0) = run(false); let (after_diff, s1) = run(true);
    if s0 != "hello wrld" || s1 != "hello wrld" { rep.fail(json!({"property": "C20", "class": "text-quotation-shows-wrong-content", "input": "fixed: snapshot diff over a quoted text", "control": s0, "after_diff_range": s1, "case": {"stream": 215, "index": 0}})); }
    if control != 1 || after_diff != 1 { rep.fail(json!({"property": "C20", "class": "quotation-observer-not-notified-of-a-removal-inside-the-range", "input": "fixed: a quoted block split by text.diff_range (split_by_snapshot), then a quoted character removed", "observer_calls_without_the_diff": control, "observer_calls_after_the_diff": after_diff, "case": {"stream": 215, "index": 0}})); }
}

pub fn run(prop: &str, tier: &str, seed: u64, workers: usize) -> Report {
    let n = if tier == "thorough" { 40000 } else { 8000 };
    let want: Vec<&str> = vec![prop];
    let mut total = parallel(workers, |w, nw| {
        let mut rep = Report::default();
        let mut md = Model::spawn();
        if prop == "C20" && w == 0 { if let Err(e) = catch(std::panic::AssertUnwindSafe(|| fixed_c20_inputs(&mut rep))) { rep.fail(json!({"property": prop, "class": "panic", "error": e, "case": {"stream": 215, "index": 0}})); } }
        if prop == "C14" { for ci in 0..n / 4 { if ci as usize % nw != w { continue; }
            match catch(std::panic::AssertUnwindSafe(|| { let mut r2 = Report::default(); redo_split_case(seed, ci, &mut r2); r2 })) {
                Ok(r2) => rep.merge(r2),
                Err(e) => { rep.evaluations += 1; rep.fail(json!({"property": prop, "class": "panic", "error": e, "case": {"stream": 214, "index": ci, "seed": seed}})); }
            } } }
        for ci in 0..n { if ci as usize % nw != w { continue; }
            match catch(std::panic::AssertUnwindSafe(|| { let mut r2 = Report::default(); run_case(seed, ci, &mut r2, &want, &mut md); r2 })) {
                Ok(r2) => rep.merge(r2),
                Err(e) => { rep.evaluations += 1; rep.fail(json!({"property": prop, "class": "panic", "error": e, "case": {"stream": 114, "index": ci, "seed": seed}})); }
            }
        }
        rep
    });
    total.notes.push("2..3 replica seeded histories on the root text and root array (inserts, range inserts, deletes; deliveries in any order); sticky indexes are created at random valid positions with both associations, serialised (v1 / v2 / JSON) and resolved on EVERY replica that knows the anchor after EVERY step; quotations of random ranges (inclusive / exclusive / unbounded ends) of the array or text are stored in the root map and dereferenced on every replica after every step; the expected offset / range content is computed from the hook dump (where the anchoring units are, deleted or not)".into());
    total
}
