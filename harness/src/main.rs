//! yv-harness <property> [--tier quick|thorough] [--seed N] [--out file] [--replay file]
mod rng;
mod model;
mod report;
mod c16;
mod sim;
mod hist;
mod adl;
mod yib;
mod rdo;
mod rtx;
mod xw;
mod c01;
mod c05;
mod c07;
mod syncp;
mod codec;
mod c18;
mod c03;
mod c14;
mod c11;
mod c12;

#[global_allocator]
static GLOBAL: codec::Counting = codec::Counting;

use std::time::Instant;

fn main() {
    let args: Vec<String> = std::env::args().collect();
    if args.len() < 2 { eprintln!("usage: yv-harness <property> [--tier t] [--seed n] [--out f]"); std::process::exit(2); }
    let prop = args[1].clone();
    if prop == "decode-worker" { codec::worker_main(); return; }
    if prop == "sticky-probe" {
        use yrs::{Text, Transact, IndexedSequence, Assoc, GetString};
        for bytes in [false, true] {
            let doc = sim::mk_doc(1, sim::DocCfg { bytes_offsets: bytes, ..sim::DocCfg::default() });
            let t = doc.get_or_insert_text("t");
            t.insert(&mut doc.transact_mut(), 0, "éab中c");
            let txn = doc.transact();
            println!("bytes={} text={:?} len={}", bytes, t.get_string(&txn), t.len(&txn));
            for idx in (if bytes { vec![0u32, 2, 3, 4, 7, 8] } else { (0..=5u32).collect::<Vec<_>>() }) { for assoc in [Assoc::After, Assoc::Before] {
                let st = t.sticky_index(&txn, idx, assoc);
                println!("  idx {} {:?}: id={:?} offset={:?}", idx, assoc, st.as_ref().and_then(|s| s.id().cloned()), st.as_ref().and_then(|s| s.get_offset(&txn)).map(|o| o.index));
            } }
        }
        return;
    }
    if prop == "dump-apply" {
        // debugging aid: apply a v1 update (hex) to a fresh document and print what the checks look at
        let d = sim::Replica::new(9, sim::DocCfg::default());
        for a in args.iter().skip(2) {
            let u = model::unhex(a);
            let r = d.apply_v1(&u);
            println!("apply: {:?}\npublic: {}\ninternal: {}\npending: {}", r, sim::public_dump(&d.doc), sim::internal_dump(&sim::store_dump(&d.doc)), { use yrs::{ReadTxn, Transact}; d.doc.transact().has_missing_updates() });
        }
        return;
    }
    let mut tier = "quick".to_string();
    let mut seed: u64 = 1;
    let mut out: Option<String> = None;
    let mut replay: Option<String> = None;
    let mut range: Option<(u64, u64)> = None;
    let mut i = 2;
    while i < args.len() {
        match args[i].as_str() {
            "--tier" => { tier = args[i + 1].clone(); i += 1 }
            "--seed" => { seed = args[i + 1].parse().unwrap_or(1); i += 1 }
            "--out" => { out = Some(args[i + 1].clone()); i += 1 }
            "--replay" => { replay = Some(args[i + 1].clone()); i += 1 }
            "--range" => { range = Some((args[i + 1].parse().unwrap_or(0), args[i + 2].parse().unwrap_or(0))); i += 2 }
            _ => {}
        }
        i += 1;
    }
    // panics inside catch_unwind are expected for some inputs: keep stderr quiet
    report::install_panic_hook();
    let workers: usize = std::env::var("YV_WORKERS").ok().and_then(|s| s.parse().ok()).unwrap_or(16);
    let t0 = Instant::now();
    let _ = &replay;
    if let Some((lo, hi)) = range {
        // child of report::isolated: one thread, a slice of the cases, full report back to the parent
        let rep = match prop.as_str() { "C12" => c12::run_range(&tier, seed, lo, hi), _ => { eprintln!("--range unsupported for {}", prop); std::process::exit(2); } };
        std::fs::write(out.expect("--out"), serde_json::to_string(&rep.to_json_full()).unwrap()).unwrap();
        return;
    }
    let rep = match prop.as_str() {
        "C16" => c16::run(&tier, seed, workers),
        "C05" => { let mut r = c05::run(&tier, seed, workers); r.merge(c01::run("C05", &tier, seed, workers)); r }
        "C07" => c07::run(&tier, seed, workers),
        "C03" | "C17" => c03::run(&prop, &tier, seed, workers),
        "C14" | "C20" => c14::run(&prop, &tier, seed, workers),
        "C18" => c18::run(&tier, seed, workers),
        "C11" => c11::run(&tier, seed, workers),
        "C12" => c12::run(&tier, seed, workers),
        "C09" => codec::run_c09(&tier, seed, workers),
        "C10" => codec::run_c10(&tier, seed, workers),
        "C06" | "C08" | "C13" | "C15" => syncp::run(&prop, &tier, seed, workers),
        "C01" | "C02" | "C04" => c01::run(&prop, &tier, seed, workers),
        _ => { eprintln!("unknown property {}", prop); std::process::exit(2); }
    };
    let mut j = rep.to_json();
    j["wall_s"] = serde_json::json!(t0.elapsed().as_secs_f64());
    j["property"] = serde_json::json!(prop);
    j["tier"] = serde_json::json!(tier);
    j["seed"] = serde_json::json!(seed);
    let s = serde_json::to_string_pretty(&j).unwrap();
    match out { Some(p) => std::fs::write(p, s).unwrap(), None => println!("{}", s) }
}
