//! C09 (round trips) and C10 (decoders total on untrusted bytes).
//! Every implementation decode runs in a worker SUBPROCESS (`yv-harness decode-worker`) with a counting
//! allocator: an abort, stack overflow, timeout or oversized allocation of the worker is observed by
//! the parent and attributed to the input in flight.
use crate::model::{hex, unhex, Model};
use crate::report::{catch, parallel, Report};
use crate::rng::Rng;
use crate::sim::*;
use crate::syncp;
use serde_json::json;
use std::alloc::{GlobalAlloc, Layout, System};
use std::cell::Cell;
use std::io::{BufRead, BufReader, Write};
use std::process::{Child, ChildStdin, ChildStdout, Command, Stdio};
use std::sync::mpsc;
use std::time::Duration;
use yrs::block::ClientID;
use yrs::encoding::read::{Cursor, Read};
use yrs::encoding::write::Write as YWrite;
use yrs::sync::awareness::{AwarenessUpdate, AwarenessUpdateEntry};
use yrs::sync::protocol::{Message, MessageReader, SyncMessage};
use yrs::updates::decoder::{Decode, DecoderV1};
use yrs::updates::encoder::{Encode, Encoder, EncoderV1};
use yrs::{Any, Assoc, IdSet, IndexScope, ReadTxn, Snapshot, StateVector, StickyIndex, Transact, Update, ID};

// ------------------------------------------------------------------------------------------------
// counting allocator (per thread): largest single request and sum of requests since reset
// ------------------------------------------------------------------------------------------------
pub struct Counting;
thread_local! {
    static MAX_REQ: Cell<usize> = const { Cell::new(0) };
    static SUM_REQ: Cell<usize> = const { Cell::new(0) };
}
unsafe impl GlobalAlloc for Counting {
    unsafe fn alloc(&self, l: Layout) -> *mut u8 {
        let _ = MAX_REQ.try_with(|m| if l.size() > m.get() { m.set(l.size()) });
        let _ = SUM_REQ.try_with(|m| m.set(m.get().saturating_add(l.size())));
        System.alloc(l)
    }
    unsafe fn dealloc(&self, p: *mut u8, l: Layout) { System.dealloc(p, l) }
    unsafe fn realloc(&self, p: *mut u8, l: Layout, n: usize) -> *mut u8 {
        let _ = MAX_REQ.try_with(|m| if n > m.get() { m.set(n) });
        let _ = SUM_REQ.try_with(|m| m.set(m.get().saturating_add(n)));
        System.realloc(p, l, n)
    }
}
fn reset_alloc() { MAX_REQ.with(|m| m.set(0)); SUM_REQ.with(|m| m.set(0)); }
fn read_alloc() -> (usize, usize) { (MAX_REQ.with(|m| m.get()), SUM_REQ.with(|m| m.get())) }

// ------------------------------------------------------------------------------------------------
// canonical printing of decoded values (agrees with runner/main.ml for the v1-modelled types)
// ------------------------------------------------------------------------------------------------
fn print_idset(s: &IdSet) -> String {
    let parts: Vec<String> = s.iter().map(|(c, r)| format!("{:x}[{}]", c.get(), r.iter().map(|x| format!("{:x}-{:x}", x.start, x.end)).collect::<Vec<_>>().join(","))).collect();
    if parts.is_empty() { "_".into() } else { parts.join(";") }
}
fn print_sv(s: &StateVector) -> String {
    let mut v: Vec<(u64, u32)> = s.iter().map(|(c, k)| (c.get(), *k)).collect();
    v.sort();
    if v.is_empty() { "_".into() } else { v.iter().map(|(c, k)| format!("{:x}:{:x}", c, k)).collect::<Vec<_>>().join(",") }
}
fn print_scope(s: &IndexScope) -> String {
    match s { IndexScope::Relative(id) => format!("I{}", print_id(id)), IndexScope::Nested(id) => format!("N{}", print_id(id)), IndexScope::Root(n) => format!("R{}", rawhex(n.as_bytes())) }
}
fn print_sticky(s: &StickyIndex) -> String { format!("{}{}", print_scope(s.scope()), if s.assoc == Assoc::After { "a" } else { "b" }) }
fn print_aw(a: &AwarenessUpdate) -> String {
    let mut es: Vec<(usize, String, String, String)> = a.clients.iter().map(|(c, e)| { let h = format!("{:x}", c.get()); (h.len(), h, format!("{:x}", e.clock), rawhex(e.json.as_bytes())) }).collect();
    es.sort();
    format!("[{}]", es.iter().map(|(_, c, k, j)| format!("{}:{}:{}", c, k, j)).collect::<Vec<_>>().join(","))
}
fn print_message(m: &Message) -> String {
    match m {
        Message::Sync(SyncMessage::SyncStep1(sv)) => format!("sync1 {}", print_sv(sv)),
        Message::Sync(SyncMessage::SyncStep2(u)) => format!("sync2 {}", rawhex(u)),
        Message::Sync(SyncMessage::Update(u)) => format!("update {}", rawhex(u)),
        Message::Auth(None) => "auth granted".into(),
        Message::Auth(Some(r)) => format!("auth denied {}", rawhex(r.as_bytes())),
        Message::AwarenessQuery => "awq".into(),
        Message::Awareness(a) => format!("aw {}", print_aw(a)),
        Message::Custom(t, d) => format!("custom {:x} {}", t, rawhex(d)),
    }
}

// ------------------------------------------------------------------------------------------------
// the worker: one request per line "<entry> <hex> [<hex2>]" -> one reply line
// ------------------------------------------------------------------------------------------------
fn err_class(e: &yrs::encoding::read::Error) -> &'static str {
    use yrs::encoding::read::Error::*;
    match e { InvalidVarInt => "InvalidVarInt", EndOfBuffer(_) => "EndOfBuffer", UnexpectedValue => "UnexpectedValue", NotEnoughMemory(_) => "NotEnoughMemory",
              InvalidJSON(_) => "InvalidJSON", TypeMismatch(_) => "TypeMismatch", Custom(_) => "Custom" }
}
fn reenc<T: Encode>(v: &T) -> String {
    // "a value that was decoded successfully can be encoded again"
    let a = std::panic::catch_unwind(std::panic::AssertUnwindSafe(|| v.encode_v1()));
    let b = std::panic::catch_unwind(std::panic::AssertUnwindSafe(|| v.encode_v2()));
    match (a, b) { (Ok(x), Ok(_)) => format!("re1={}", hex(&x)), _ => format!("REENCODE-PANIC {}", crate::report::LAST_PANIC.with(|p| p.borrow().clone())) }
}
pub fn decode_entry(entry: &str, a: &[u8], b: &[u8]) -> String {
    macro_rules! dec { ($e:expr, $p:expr) => { match $e { Ok(v) => format!("ok {} {}", $p(&v), reenc(&v)), Err(e) => format!("err {}", err_class(&e)) } } }
    match entry {
        "update_v1" => match Update::decode_v1(a) { Ok(v) => format!("ok - {}", reenc(&v)), Err(e) => format!("err {}", err_class(&e)) },
        "update_v2" => match Update::decode_v2(a) { Ok(v) => format!("ok - {}", reenc(&v)), Err(e) => format!("err {}", err_class(&e)) },
        "sv_v1" => dec!(StateVector::decode_v1(a), print_sv),
        "sv_v2" => dec!(StateVector::decode_v2(a), print_sv),
        "snapshot_v1" => dec!(Snapshot::decode_v1(a), |s: &Snapshot| format!("{}@{}", print_idset(&s.delete_set), print_sv(&s.state_map))),
        "snapshot_v2" => dec!(Snapshot::decode_v2(a), |s: &Snapshot| format!("{}@{}", print_idset(&s.delete_set), print_sv(&s.state_map))),
        "idset_v1" => dec!(IdSet::decode_v1(a), print_idset),
        "idset_v2" => dec!(IdSet::decode_v2(a), print_idset),
        "idmap_v1" => match yrs::IdMap::<String>::decode_v1(a) { Ok(v) => format!("ok - {}", reenc(&v)), Err(e) => format!("err {}", err_class(&e)) },
        "idmap_v2" => match yrs::IdMap::<String>::decode_v2(a) { Ok(v) => format!("ok - {}", reenc(&v)), Err(e) => format!("err {}", err_class(&e)) },
        "any" => { let mut c = Cursor::new(a); match Any::decode(&mut c) { Ok(v) => { let mut out = Vec::new(); let r = std::panic::catch_unwind(std::panic::AssertUnwindSafe(|| v.encode(&mut out))); format!("ok {} {}", print_any(&v), if r.is_ok() { format!("re1={}", hex(&out)) } else { "REENCODE-PANIC".into() }) } Err(e) => format!("err {}", err_class(&e)) } }
        "sticky_v1" => dec!(StickyIndex::decode_v1(a), print_sticky),
        "sticky_v2" => dec!(StickyIndex::decode_v2(a), print_sticky),
        "awareness" => dec!(AwarenessUpdate::decode_v1(a), print_aw),
        "message" => dec!(Message::decode_v1(a), print_message),
        "message_reader" => { let mut d = DecoderV1::new(Cursor::new(a)); let mut n = 0; let mut errs = 0; for m in MessageReader::new(&mut d) { if m.is_err() { errs += 1; break; } n += 1; if n > 100000 { break; } } format!("ok msgs={} errs={} re1=_", n, errs) }
        "merge_v1" => match yrs::merge_updates_v1(&[a, b]) { Ok(v) => format!("ok - re1={}", hex(&v)), Err(e) => format!("err {}", err_class(&e)) },
        "merge_v2" => match yrs::merge_updates_v2(&[a, b]) { Ok(v) => format!("ok - re1={}", hex(&v)), Err(e) => format!("err {}", err_class(&e)) },
        // many arguments: `a` is a sequence of (var length, update)
        "mergen_v1" | "mergen_v2" => {
            let mut parts: Vec<Vec<u8>> = vec![]; let mut c = Cursor::new(a);
            loop { let n: u32 = match c.read_var() { Ok(n) => n, Err(_) => break }; match c.read_exact(n as usize) { Ok(x) => parts.push(x.to_vec()), Err(_) => break } }
            let refs: Vec<&[u8]> = parts.iter().map(|x| x.as_slice()).collect();
            match if entry == "mergen_v1" { yrs::merge_updates_v1(&refs) } else { yrs::merge_updates_v2(&refs) } { Ok(v) => format!("ok - re1={}", hex(&v)), Err(e) => format!("err {}", err_class(&e)) }
        }
        "diff_v1" => match yrs::diff_updates_v1(a, b) { Ok(v) => format!("ok - re1={}", hex(&v)), Err(e) => format!("err {}", err_class(&e)) },
        "diff_v2" => match yrs::diff_updates_v2(a, b) { Ok(v) => format!("ok - re1={}", hex(&v)), Err(e) => format!("err {}", err_class(&e)) },
        "svfrom_v1" => match yrs::encode_state_vector_from_update_v1(a) { Ok(v) => format!("ok - re1={}", hex(&v)), Err(e) => format!("err {}", err_class(&e)) },
        "svfrom_v2" => match yrs::encode_state_vector_from_update_v2(a) { Ok(v) => format!("ok - re1={}", hex(&v)), Err(e) => format!("err {}", err_class(&e)) },
        _ => "err badentry".into(),
    }
}
pub fn worker_main() {
    crate::report::install_panic_hook();
    let stdin = std::io::stdin();
    let mut out = std::io::stdout();
    for line in stdin.lock().lines() {
        let line = match line { Ok(l) => l, Err(_) => break };
        let parts: Vec<&str> = line.split(' ').collect();
        if parts.len() < 2 { let _ = writeln!(out, "err badrequest"); let _ = out.flush(); continue; }
        let a = unhex(parts[1]); let b = if parts.len() > 2 { unhex(parts[2]) } else { vec![] };
        let entry = parts[0].to_string();
        reset_alloc();
        let t0 = std::time::Instant::now();
        let res = std::panic::catch_unwind(std::panic::AssertUnwindSafe(|| decode_entry(&entry, &a, &b)));
        let (mx, sum) = read_alloc();
        let us = t0.elapsed().as_micros();
        let reply = match res { Ok(s) => s, Err(_) => format!("panic {}", crate::report::LAST_PANIC.with(|p| p.borrow().clone()).replace(' ', "_")) };
        let _ = writeln!(out, "{} alloc_max={} alloc_sum={} us={}", reply, mx, sum, us);
        let _ = out.flush();
    }
}

pub struct Worker { child: Child, inp: ChildStdin, rx: mpsc::Receiver<String> }
impl Worker {
    pub fn spawn() -> Worker {
        let exe = std::env::current_exe().unwrap();
        // small stack so that runaway recursion shows up quickly as a crash of the worker, never of the parent
        Worker::spawn_cmd(format!("ulimit -s 8192; exec {} decode-worker", exe.display()))
    }
    /// the extracted model behind the same guarded pipe (time limit per request, 4 GB of address space): the v2 column format lets a few
    /// bytes stand for millions of blocks, on which the model (unary counters, lists) gives up long before the implementation does
    pub fn spawn_model() -> Worker {
        let exe = std::env::var("YV_MODEL_EXE").unwrap_or_else(|_| "/verif/.build/runner/model.exe".to_string());
        Worker::spawn_cmd(format!("ulimit -s 1000000; ulimit -v 6000000; exec {}", exe))
    }
    fn spawn_cmd(cmd: String) -> Worker {
        let mut child = Command::new("sh").arg("-c").arg(cmd)
            .stdin(Stdio::piped()).stdout(Stdio::piped()).stderr(Stdio::null()).spawn().expect("spawn worker");
        let inp = child.stdin.take().unwrap();
        let so: ChildStdout = child.stdout.take().unwrap();
        let (tx, rx) = mpsc::channel();
        std::thread::spawn(move || {
            let mut r = BufReader::new(so);
            loop {
                let mut buf = Vec::new();
                match r.read_until(b'\n', &mut buf) {
                    Ok(0) | Err(_) => break,
                    Ok(_) => { while buf.last() == Some(&b'\n') || buf.last() == Some(&b'\r') { buf.pop(); }
                               // panic messages may quote strings built with from_utf8_unchecked: never assume valid UTF-8
                               if tx.send(String::from_utf8_lossy(&buf).to_string()).is_err() { break; } }
                }
            }
        });
        Worker { child, inp, rx }
    }
    /// Err(kind) when the worker died or timed out
    pub fn ask(&mut self, req: &str, timeout_ms: u64) -> Result<String, String> {
        if self.inp.write_all(req.as_bytes()).is_err() || self.inp.write_all(b"\n").is_err() || self.inp.flush().is_err() { return Err("worker-dead".into()); }
        match self.rx.recv_timeout(Duration::from_millis(timeout_ms)) {
            Ok(l) => Ok(l),
            Err(mpsc::RecvTimeoutError::Timeout) => { let _ = self.child.kill(); let _ = self.child.wait(); Err("timeout".into()) }
            Err(_) => { std::thread::sleep(Duration::from_millis(50)); let st = match self.child.try_wait() { Ok(Some(s)) => format!("{s}"), _ => { let _ = self.child.kill(); self.child.wait().map(|s| format!("{s}")).unwrap_or_default() } }; Err(format!("crashed({st})")) }
        }
    }
}
impl Drop for Worker { fn drop(&mut self) { let _ = self.child.kill(); let _ = self.child.wait(); } }

// ------------------------------------------------------------------------------------------------
// valid payload generators
// ------------------------------------------------------------------------------------------------
fn rand_u64_edge(r: &mut Rng) -> u64 {
    match r.below(8) { 0 => 0, 1 => 1, 2 => 127, 3 => 128, 4 => (1 << 31) + r.below(3), 5 => u32::MAX as u64, 6 => (1u64 << 53) - 1, _ => r.next() >> r.below(64) }
}
fn rand_client(r: &mut Rng) -> u64 { match r.below(4) { 0 => r.below(5) + 1, 1 => (1u64 << 32) + r.below(9), 2 => (1u64 << 53) - 1 - r.below(3), _ => r.next() >> 11 } }
pub fn rand_any_full(r: &mut Rng, depth: u32) -> Any {
    match r.below(if depth > 2 { 8 } else { 11 }) {
        0 => Any::Null, 1 => Any::Undefined, 2 => Any::Bool(r.chance(1, 2)),
        3 => Any::Number((r.next() >> r.below(64)) as i64 as f64 * if r.chance(1, 2) { -1.0 } else { 1.0 }),
        4 => Any::Number(f64::from_bits(r.next())),
        5 => Any::Number((r.below(1 << 20) as f32 / 7.0) as f64),
        6 => Any::BigInt(r.next() as i64),
        7 => Any::String(["", "a", "héllo", "😀𝄞", "中文"][r.below(5) as usize].into()),
        8 => Any::Buffer((0..r.below(6)).map(|_| r.below(256) as u8).collect::<Vec<_>>().into()),
        9 => Any::Array((0..r.below(4)).map(|_| rand_any_full(r, depth + 1)).collect::<Vec<_>>().into()),
        _ => { let mut m = std::collections::HashMap::new(); for i in 0..r.below(4) { m.insert(format!("k{}", i), rand_any_full(r, depth + 1)); } Any::Map(std::sync::Arc::new(m)) }
    }
}
fn rand_idset(r: &mut Rng) -> IdSet {
    let mut s = IdSet::new();
    for _ in 0..r.below(4) { let c = ClientID::new(rand_client(r)); for _ in 0..r.range(1, 3) { let k = (rand_u64_edge(r) & 0xfff_ffff) as u32; s.insert(ID::new(c, k), r.range(1, 200) as u32); } }
    s
}
fn rand_sv(r: &mut Rng) -> StateVector { let mut sv = StateVector::default(); for _ in 0..r.below(5) { sv.set_max(ClientID::new(rand_client(r)), (rand_u64_edge(r) & 0xffff_ffff) as u32); } sv }
fn rand_sticky(r: &mut Rng) -> StickyIndex {
    let id = ID::new(ClientID::new(rand_client(r)), (rand_u64_edge(r) & 0xffff_ffff) as u32);
    let scope = match r.below(3) { 0 => IndexScope::Relative(id), 1 => IndexScope::Nested(id), _ => IndexScope::Root(["t", "ключ", ""][r.below(3) as usize].into()) };
    StickyIndex::new(scope, if r.chance(1, 2) { Assoc::After } else { Assoc::Before })
}
fn rand_awareness(r: &mut Rng) -> AwarenessUpdate {
    let mut clients = std::collections::HashMap::new();
    for _ in 0..r.below(4) { clients.insert(ClientID::new(rand_client(r)), AwarenessUpdateEntry { clock: (rand_u64_edge(r) & 0xffff_ffff) as u32, json: ["null", "{}", "{\"name\":\"é😀\"}"][r.below(3) as usize].into() }); }
    AwarenessUpdate { clients }
}
fn rand_message(r: &mut Rng, upd: &[u8]) -> Message {
    match r.below(7) {
        0 => Message::Sync(SyncMessage::SyncStep1(rand_sv(r))), 1 => Message::Sync(SyncMessage::SyncStep2(upd.to_vec())), 2 => Message::Sync(SyncMessage::Update(upd.to_vec())),
        3 => Message::Auth(if r.chance(1, 2) { None } else { Some("nö".into()) }), 4 => Message::AwarenessQuery, 5 => Message::Awareness(rand_awareness(r)),
        _ => Message::Custom(r.range(4, 255) as u8, (0..r.below(5)).map(|_| r.below(256) as u8).collect()),
    }
}

/// hand-made v1 updates with content kinds only foreign peers produce and every origin / parent shape
fn foreign_updates(r: &mut Rng) -> Vec<Vec<u8>> {
    let mut out = vec![];
    let contents: Vec<(u8, Vec<u8>, u32)> = vec![
        (2, { let mut b = vec![]; b.write_var(2u32); b.write_string("\"a\""); b.write_string("{\"k\":1}"); b }, 2),       // JSON
        (3, { let mut b = vec![]; b.write_buf(&[1u8, 2, 3, 255]); b }, 1),                                                      // Binary
        (1, { let mut b = vec![]; b.write_var(3u32); b }, 3),                                                                     // Deleted
        (4, { let mut b = vec![]; b.write_string("hé😀"); b }, 4),                                                               // String
        (5, { let mut b = vec![]; b.write_string("{\"e\":true}"); b }, 1),                                                     // Embed
        (6, { let mut b = vec![]; b.write_string("bold"); b.write_string("true"); b }, 1),                                      // Format
        (8, { let mut b = vec![]; b.write_var(2u32); Any::Number(1.5).encode(&mut b); Any::BigInt(-7).encode(&mut b); b }, 2),   // Any
        (7, vec![0], 1), (7, vec![1], 1), (7, vec![2], 1), (7, { let mut b = vec![3]; b.write_string("div"); b }, 1), (7, vec![4], 1), (7, vec![5], 1), (7, vec![6], 1), // Type refs
    ];
    for (refn, body, len) in contents.iter() {
        for shape in 0..4 {
            let mut u = vec![];
            u.write_var(1u32);            // one client
            u.write_var(3u32);            // blocks: skip? no: root item, the item under test, a GC
            u.write_var(5u64); u.write_var(0u32);
            // block 0: a root string "ab" (clock 0..2)
            u.write_u8(4); u.write_var(1u32); u.write_string("t"); u.write_string("ab");
            // block 1: the content under test at clock 2
            let (has_o, has_r) = (shape & 1 == 1, shape & 2 == 2);
            let info = (if has_o { 128 } else { 0 }) | (if has_r { 64 } else { 0 }) | (if !has_o && !has_r && *refn == 8 { 32 } else { 0 }) | refn;
            u.write_u8(info);
            if has_o { u.write_var(5u64); u.write_var(0u32); }
            if has_r { u.write_var(5u64); u.write_var(1u32); }
            if !has_o && !has_r { u.write_var(1u32); u.write_string("t"); if info & 32 != 0 { u.write_string("key"); } }
            u.extend_from_slice(body);
            // block 2: GC of length 2 at clock 2+len
            u.write_u8(0); u.write_var(2u32);
            let _ = len;
            // delete set: one client, one range
            u.write_var(1u32); u.write_var(5u64); u.write_var(1u32); u.write_var(0u32); u.write_var(1u32);
            out.push(u);
        }
    }
    // ids over the whole width of the wire types: 53-bit client ids, clocks up to u32::MAX, origins anywhere (far from the item, in
    // both directions: the v2 clock columns store differences)
    let edge32 = |r: &mut Rng| -> u32 { match r.below(8) { 0 => 0, 1 => 1, 2 => (1 << 30) - 1 + r.below(3) as u32, 3 => (1u32 << 31) - 1 + r.below(3) as u32, 4 => 3_000_000_000 + r.below(9) as u32, 5 => u32::MAX - 64 - r.below(9) as u32, 6 => r.below(300) as u32, _ => (r.next() >> 33) as u32 } };
    for _ in 0..6 {
        let mut u = vec![];
        let nclients = r.range(1, 2);
        u.write_var(nclients as u32);
        let mut clients: Vec<u64> = (0..nclients).map(|_| rand_client(r)).collect(); clients.sort(); clients.dedup(); if (clients.len() as u64) < nclients { clients.push(clients[0] ^ 1); }
        clients.sort(); clients.reverse();
        for c in clients.iter() {
            let nb = r.range(1, 3);
            u.write_var(nb as u32); u.write_var(*c); u.write_var(edge32(r).min(u32::MAX - 64));
            for _ in 0..nb {
                let (has_o, has_r) = (r.chance(2, 3), r.chance(1, 2));
                let refn: u8 = *r.pick(&[1u8, 4, 8]);
                let info = (if has_o { 128 } else { 0 }) | (if has_r { 64 } else { 0 }) | refn;
                u.write_u8(info);
                if has_o { u.write_var(if r.chance(1, 2) { *c } else { rand_client(r) }); u.write_var(edge32(r)); }
                if has_r { u.write_var(if r.chance(1, 2) { *c } else { rand_client(r) }); u.write_var(edge32(r)); }
                if !has_o && !has_r { if r.chance(1, 2) { u.write_var(1u32); u.write_string("t"); } else { u.write_var(0u32); u.write_var(rand_client(r)); u.write_var(edge32(r)); } }
                match refn { 1 => u.write_var(r.range(1, 5) as u32), 4 => u.write_string(["a", "bc", "hé"][r.below(3) as usize]), _ => { u.write_var(1u32); Any::Number(1.0).encode(&mut u); } }
            }
        }
        // delete set with wide clocks
        if r.chance(1, 2) { u.write_var(1u32); u.write_var(rand_client(r)); u.write_var(2u32); let a = edge32(r) / 2; u.write_var(a); u.write_var(r.range(1, 9) as u32); u.write_var(a + 100 + (edge32(r) / 4)); u.write_var(r.range(1, 9) as u32); } else { u.write_var(0u32); }
        out.push(u);
    }
    out
}

struct Pools { upd1: Vec<Vec<u8>>, upd2: Vec<Vec<u8>>, svs: Vec<Vec<u8>> }
fn history_pools(seed: u64, idx: u64) -> Pools {
    let mut r = Rng::for_case(seed, 109, idx);
    let cfgs = [DocCfg::default(), DocCfg { gc: true, ..DocCfg::default() }, DocCfg::default()];
    let st = r.range(5, 12);
    let nr = r.range(2, 3) as usize; let h = syncp::gen_history(&mut r, &cfgs[..nr], st, false, &EditCfg::default());
    let mut p = Pools { upd1: h.msgs.iter().map(|m| m.1.clone()).collect(), upd2: h.msgs.iter().map(|m| m.2.clone()).collect(), svs: vec![] };
    for x in &h.reps { let t = x.doc.transact(); p.upd1.push(t.encode_state_as_update_v1(&StateVector::default())); p.upd2.push(t.encode_state_as_update_v2(&StateVector::default())); p.svs.push(t.state_vector().encode_v1()); }
    p
}

// ------------------------------------------------------------------------------------------------
// C09
// ------------------------------------------------------------------------------------------------
fn model_reply_value(m: &str) -> (String, String) {
    // "ok <value> rest=<n>" -> (class+value, rest) ; "err X" / "panic s" / "fuel"
    if let Some(x) = m.strip_prefix("ok ") { match x.rfind(" rest=") { Some(i) => (format!("ok {}", &x[..i]), x[i + 6..].to_string()), None => (format!("ok {}", x), String::new()) } } else { (m.to_string(), String::new()) }
}

/// structural form of a v1 update as decoded by the Coq model: Skip blocks (holes) removed, Any maps sorted (the model's printer sorts)
fn structural(md: &mut Model, v1: &[u8]) -> String { structural_of(md, "update", v1) }
/// the same for the lib0 v2 form (model: Codec/UpdateV2.v)
fn structural2(md: &mut Model, v2: &[u8]) -> String { structural_of(md, "update2", v2) }
/// embed and format payloads are JSON text in v1 and Any values in v2; the model keeps both as bytes, so a comparison ACROSS the two
/// formats blanks them (their round trip within each format is compared separately, and by the implementation's effect on a document)
fn blank_payloads(s: &str) -> String {
    let b: Vec<char> = s.chars().collect(); let mut out = String::new(); let mut i = 0;
    while i < b.len() {
        if b[i] == '=' && i + 1 < b.len() && (b[i + 1] == 'e' || b[i + 1] == 'f') {
            let f = b[i + 1] == 'f'; out.push('='); out.push(b[i + 1]); i += 2;
            if f { while i < b.len() && b[i] != ':' && b[i] != ' ' && b[i] != ']' { out.push(b[i]); i += 1; } if i < b.len() && b[i] == ':' { out.push(':'); i += 1; } }
            while i < b.len() && b[i] != ' ' && b[i] != ']' { i += 1; }
            out.push('*'); continue;
        }
        out.push(b[i]); i += 1;
    }
    out
}
fn structural_of(md: &mut Model, cmd: &str, v1: &[u8]) -> String {
    let m = md.ask(&format!("DEC {} {}", cmd, hex(v1)));
    if !m.starts_with("ok ") { return m; }
    // remove every token of the shape S<hex>:<hex>+<hex> (a Skip block) together with one adjacent separator
    let b: Vec<char> = m.chars().collect();
    let mut out = String::new();
    let mut i = 0;
    let hexd = |c: char| c.is_ascii_hexdigit();
    while i < b.len() {
        if b[i] == 'S' && i > 0 && (b[i - 1] == '[' || b[i - 1] == ' ') {
            let mut j = i + 1; let s1 = j; while j < b.len() && hexd(b[j]) { j += 1; }
            if j > s1 && j < b.len() && b[j] == ':' { j += 1; let s2 = j; while j < b.len() && hexd(b[j]) { j += 1; }
                if j > s2 && j < b.len() && b[j] == '+' { j += 1; let s3 = j; while j < b.len() && hexd(b[j]) { j += 1; }
                    if j > s3 && j < b.len() && (b[j] == ' ' || b[j] == ']') {
                        if b[j] == ' ' { j += 1; } else if out.ends_with(' ') { out.pop(); }
                        i = j; continue;
                    } } }
        }
        out.push(b[i]); i += 1;
    }
    out
}

fn c09_case(seed: u64, idx: u64, md: &mut Model, rep: &mut Report) {
    let mut r = Rng::for_case(seed, 209, idx);
    let mut fails: Vec<serde_json::Value> = vec![];
    let mut disag: Vec<serde_json::Value> = vec![];
    macro_rules! fail { ($cls:expr, $($k:tt : $v:expr),*) => { fails.push(json!({"class": $cls, $($k: $v),*})) } }
    // ---- varints
    for _ in 0..6 {
        let v = rand_u64_edge(&mut r);
        let mut b = vec![]; b.write_var(v);
        let back: Result<u64, _> = Cursor::new(&b).read_var();
        if back.as_ref().ok() != Some(&v) { fail!("varint-u64-roundtrip", "value": v); }
        let m = md.ask(&format!("ENC varu64 {:x}", v));
        if m != format!("ok {}", hex(&b)) { disag.push(json!({"kind": "enc varu64", "value": v, "model": m, "impl": hex(&b)})); }
        let m = md.ask(&format!("DEC varu64 {}", hex(&b)));
        if m != format!("ok {:x} rest=0", v) { disag.push(json!({"kind": "dec varu64", "model": m, "value": v})); }
        let w = v as u32; let mut b = vec![]; b.write_var(w);
        let back: Result<u32, _> = Cursor::new(&b).read_var();
        if back.as_ref().ok() != Some(&w) { fail!("varint-u32-roundtrip", "value": w); }
        let m = md.ask(&format!("DEC varu32 {}", hex(&b)));
        if m != format!("ok {:x} rest=0", w) { disag.push(json!({"kind": "dec varu32", "model": m, "value": w})); }
        let z = (r.next() >> r.below(64)) as i64 * if r.chance(1, 2) { -1 } else { 1 };
        let mut b = vec![]; b.write_var(z);
        let back: Result<i64, _> = Cursor::new(&b).read_var();
        if back.as_ref().ok() != Some(&z) { fail!("varint-i64-roundtrip", "value": z); }
        let zs = if z < 0 { format!("-{:x}", -(z as i128)) } else { format!("{:x}", z) };
        let m = md.ask(&format!("ENC vari64 {}", zs));
        if m != format!("ok {}", hex(&b)) { disag.push(json!({"kind": "enc vari64", "value": z, "model": m, "impl": hex(&b)})); }
        let m = md.ask(&format!("DEC vari64 {}", hex(&b)));
        if m != format!("ok {} rest=0", zs) { disag.push(json!({"kind": "dec vari64", "model": m, "value": z})); }
        rep.add("varints", 3);
    }
    // ---- Any
    for _ in 0..4 {
        let a = rand_any_full(&mut r, 0);
        let mut b = vec![]; a.encode(&mut b);
        let back = Any::decode(&mut Cursor::new(&b));
        match &back { Ok(x) if print_any(x) == print_any(&a) => {}, other => fail!("any-roundtrip", "value": print_any(&a), "got": format!("{:?}", other.as_ref().map(print_any).map_err(|e| e.to_string()))) }
        // model: decode the same bytes, compare canonical value; re-encode byte-exact (the model re-encodes in wire order)
        let m = md.ask(&format!("DEC any {}", hex(&b)));
        let (mv, _) = model_reply_value(&m);
        let want = format!("ok {}", print_any(&a));
        if normalize_numbers(&mv) != normalize_numbers(&want) { disag.push(json!({"kind": "dec any", "model": mv, "impl": want, "bytes": hex(&b)})); }
        let m2 = md.ask(&format!("DEC reenc_any {}", hex(&b)));
        if m2 != format!("ok {}", hex(&b)) { disag.push(json!({"kind": "reenc any", "model": m2, "bytes": hex(&b)})); }
        rep.count("anys");
    }
    // ---- attributed id maps: several ranges, attribute names shared between different attributions, new names turning up late
    for _ in 0..3 {
        let mut im = yrs::IdMap::<String>::new();
        let names = ["insert", "delete", "format", ""]; let who = ["alice", "bob", "carol"];
        let mut desc = vec![];
        for _ in 0..r.range(1, 6) {
            let c = ClientID::new(rand_client(&mut r)); let k = (rand_u64_edge(&mut r) & 0xfff_ffff) as u32; let l = r.range(1, 40) as u32;
            let attrs: Vec<yrs::ContentAttribute<String>> = (0..r.range(1, 2)).map(|_| yrs::ContentAttribute::new(*r.pick(&names), r.pick(&who).to_string())).collect();
            desc.push(format!("{:x}:{:x}+{:x}{:?}", c.get(), k, l, attrs.iter().map(|a| format!("{}={}", a.name(), a.value())).collect::<Vec<_>>()));
            im.insert(yrs::block::BlockRange::new(ID::new(c, k), l), attrs);
        }
        let (b1, b2) = (im.encode_v1(), im.encode_v2());
        match (yrs::IdMap::<String>::decode_v1(&b1), yrs::IdMap::<String>::decode_v2(&b2)) {
            (Ok(x), Ok(y)) => if x != im || y != im { fail!("idmap-roundtrip", "value": desc.join(" "), "v1": hex(&b1), "v2": hex(&b2)); },
            (a, b) => fail!("idmap-roundtrip-error", "value": desc.join(" "), "v1": format!("{:?}", a.err().map(|e| e.to_string())), "v2": format!("{:?}", b.err().map(|e| e.to_string())), "bytes_v1": hex(&b1)),
        }
        // the model of the IdMap codec (Codec/IdMapCodec.v) reads the same bytes to the same map and writes the same bytes
        {
            let pr = |m: &yrs::IdMap<String>| -> String {
                let mut cs: Vec<String> = vec![]; let mut cur: Option<(u64, Vec<String>)> = None;
                for (c, range, attrs) in m.iter().map(|(c, ar)| (c.get(), ar.range.clone(), ar.attrs.clone())) {
                    let mut ats: Vec<String> = attrs.iter().map(|a| format!("{}=s{}", rawhex(a.name().as_bytes()), rawhex(a.value().as_bytes()))).collect(); ats.sort();
                    let t = format!("{:x}..{:x}{{{}}}", range.start, range.end, ats.join(","));
                    match cur.as_mut() { Some((cc, v)) if *cc == c => v.push(t), _ => { if let Some((cc, v)) = cur.take() { cs.push(format!("{:x}[{}]", cc, v.join(" "))); } cur = Some((c, vec![t])); } }
                }
                if let Some((cc, v)) = cur.take() { cs.push(format!("{:x}[{}]", cc, v.join(" "))); }
                cs.join(";")
            };
            let m = md.ask(&format!("DEC idmap {}", hex(&b1)));
            let (mv, _) = model_reply_value(&m);
            if mv != format!("ok {}", pr(&im)) { disag.push(json!({"kind": "idmap decode", "model": m, "impl": pr(&im), "bytes": hex(&b1)})); }
            let m2 = md.ask(&format!("DEC reenc_idmap {}", hex(&b1)));
            if m2 != format!("ok {}", hex(&b1)) { disag.push(json!({"kind": "idmap encode", "model": m2, "impl": hex(&b1)})); }
            // the lib0 v2 form through the model's v2 codec (Codec/IdMapV2.v)
            let m = md.ask(&format!("DEC idmap2 {}", hex(&b2)));
            let (mv, _) = model_reply_value(&m);
            if mv != format!("ok {}", pr(&im)) { disag.push(json!({"kind": "idmap decode (v2)", "model": m, "impl": pr(&im), "bytes": hex(&b2)})); }
            let m2 = md.ask(&format!("DEC reenc_idmap2 {}", hex(&b2)));
            if m2 != format!("ok {}", hex(&b2)) { disag.push(json!({"kind": "idmap encode (v2)", "model": m2, "impl": hex(&b2)})); }
            rep.count("attributed_id_maps_v2_compared_with_the_model");
        }
        rep.count("attributed_id_maps");
    }
    // ---- foreign attributed id maps (what another implementation may write: touching ranges, unsorted ranges, the same attribution
    //      twice in one list): whatever decodes must survive encode + decode unchanged
    for round in 0..3 {
        // (the third one is fixed: Codec/IdMapCases.v D3, ranges whose attribute lists repeat an attribution)
        let mut b = vec![]; b.write_var(1u32); b.write_var(r.range(1, 9)); let nr = r.range(1, 5); b.write_var(nr as u32);
        let (mut defined, mut names_defined) = (0u32, 0u32);
        let mut clock = r.below(4) as u32;
        for _ in 0..nr {
            let len = r.range(1, 3) as u32; b.write_var(clock); b.write_var(len); clock = if r.chance(1, 4) { clock.saturating_sub(1) } else { clock + len + r.below(2) as u32 };
            let na = r.range(1, 3); b.write_var(na as u32);
            for _ in 0..na {
                let id = r.below(defined as u64 + 1).min(3) as u32;
                if id == defined && defined < 3 { b.write_var(id); let nm = r.below(names_defined as u64 + 1).min(1) as u32; b.write_var(nm); if nm == names_defined { b.write_string(["a", "b"][nm as usize]); names_defined += 1; } Any::String(["x", "y", "z"][defined as usize].into()).encode(&mut b); defined += 1; }
                else { b.write_var(id.min(defined.saturating_sub(1))); }
            }
        }
        if round == 2 { b = unhex("01010402010200000161770178010077017a03010200020077017904010200000101020000"); }
        if let Ok(x) = yrs::IdMap::<String>::decode_v1(&b) {
            rep.count("foreign_id_maps_decoded");
            let (e1, e2) = (x.encode_v1(), x.encode_v2());
            match (yrs::IdMap::<String>::decode_v1(&e1), yrs::IdMap::<String>::decode_v2(&e2)) {
                (Ok(y1), Ok(y2)) => if y1 != x || y2 != x { fail!("decoded-idmap-does-not-round-trip", "foreign_bytes": hex(&b), "reencoded": hex(&e1), "what": "decode(encode(x)) != x for an id map x obtained by decoding"); },
                (a, c) => fail!("decoded-idmap-cannot-be-read-back", "foreign_bytes": hex(&b), "v1": format!("{:?}", a.err().map(|e| e.to_string())), "v2": format!("{:?}", c.err().map(|e| e.to_string()))),
            }
            let m = md.ask(&format!("DEC reenc_idmap {}", hex(&b)));
            if m != format!("ok {}", hex(&e1)) { disag.push(json!({"kind": "foreign idmap re-encode", "model": m, "impl": hex(&e1), "bytes": hex(&b)})); }
        } else {
            rep.count("foreign_id_maps_rejected");
            let m = md.ask(&format!("DEC idmap {}", hex(&b)));
            if m.starts_with("ok") { disag.push(json!({"kind": "foreign idmap outcome", "model": m, "impl": "err", "bytes": hex(&b)})); }
        }
    }
    // ---- IdSet / StateVector / Snapshot / sticky / awareness / messages
    let ds = rand_idset(&mut r); let sv = rand_sv(&mut r); let snap = Snapshot::new(sv.clone(), ds.clone());
    macro_rules! rt { ($name:expr, $v:expr, $ty:ty, $pr:expr, $mdcmd:expr) => {{
        let (b1, b2) = ($v.encode_v1(), $v.encode_v2());
        match (<$ty>::decode_v1(&b1), <$ty>::decode_v2(&b2)) {
            (Ok(x), Ok(y)) => { if $pr(&x) != $pr(&$v) || $pr(&y) != $pr(&$v) || x != $v || y != $v { fail!(format!("{}-roundtrip", $name), "value": $pr(&$v), "v1": $pr(&x), "v2": $pr(&y)); } }
            (a, b) => fail!(format!("{}-roundtrip-error", $name), "value": $pr(&$v), "v1": format!("{:?}", a.err().map(|e| e.to_string())), "v2": format!("{:?}", b.err().map(|e| e.to_string())), "bytes_v2": hex(&b2)),
        }
        if !$mdcmd.is_empty() {
            let m = md.ask(&format!("DEC {} {}", $mdcmd, hex(&b1)));
            let (mv, rest) = model_reply_value(&m);
            if mv != format!("ok {}", $pr(&$v)) || rest != "0" { disag.push(json!({"kind": format!("dec {}", $name), "model": m, "impl": $pr(&$v), "bytes": hex(&b1)})); }
            let m2 = md.ask(&format!("DEC reenc_{} {}", $mdcmd, hex(&b1)));
            if $name != "snapshot" && m2 != format!("ok {}", hex(&b1)) { disag.push(json!({"kind": format!("reenc {}", $name), "model": m2, "bytes": hex(&b1)})); }
            // the lib0 v2 form (Codec/WireV2.v): same value, and the model writes the bytes the implementation wrote (state vectors and
            // snapshots are written in hash order by the implementation: their bytes are compared through the decoded value only)
            if matches!($name, "idset" | "sv" | "snapshot" | "sticky") {
            let m = md.ask(&format!("DEC {}2 {}", $mdcmd, hex(&b2)));
            let (mv, rest) = model_reply_value(&m);
            if mv != format!("ok {}", $pr(&$v)) || rest != "0" { disag.push(json!({"kind": format!("dec v2 {}", $name), "model": m, "impl": $pr(&$v), "bytes": hex(&b2)})); }
            let m2 = md.ask(&format!("DEC reenc_{}2 {}", $mdcmd, hex(&b2)));
            if $name != "snapshot" && $name != "sv" && m2 != format!("ok {}", hex(&b2)) { disag.push(json!({"kind": format!("reenc v2 {}", $name), "model": m2, "bytes": hex(&b2)})); }
            rep.count("small_wire_types_v2_compared_with_model");
            }
        }
        rep.count(&format!("{}s", $name));
    }} }
    rt!("idset", ds, IdSet, print_idset, "idset");
    rt!("sv", sv, StateVector, print_sv, "sv");
    rt!("snapshot", snap, Snapshot, |s: &Snapshot| format!("{}@{}", print_idset(&s.delete_set), print_sv(&s.state_map)), "snapshot");
    let st = rand_sticky(&mut r);
    rt!("sticky", st, StickyIndex, print_sticky, "sticky");
    { // JSON shape of a sticky index
        match serde_json::to_string(&st).ok().and_then(|j| serde_json::from_str::<StickyIndex>(&j).ok()) { Some(x) if x == st => {}, other => fail!("sticky-json-roundtrip", "value": print_sticky(&st), "got": format!("{:?}", other.map(|x| print_sticky(&x)))) }
    }
    let aw = rand_awareness(&mut r);
    rt!("awareness", aw, AwarenessUpdate, print_aw, "awareness");
    let pools = history_pools(seed, idx);
    let pu = r.pick(&pools.upd1).clone(); let msg = rand_message(&mut r, pu.as_slice());
    rt!("message", msg, Message, print_message, "message");
    // ---- updates: real histories (v1, v2), foreign content kinds
    let mut u1s = pools.upd1.clone(); u1s.extend(foreign_updates(&mut r));
    for (i, u) in u1s.iter().enumerate() {
        rep.count("updates_v1");
        let foreign = i >= pools.upd1.len();
        let dec = catch(std::panic::AssertUnwindSafe(|| Update::decode_v1(u).map(|x| (x.encode_v1(), x.encode_v2()))));
        let (re1, re2) = match dec { Ok(Ok(x)) => x, Ok(Err(e)) => { fail!("update-v1-decode-error", "error": e.to_string(), "update": hex(u), "foreign": foreign); continue; } Err(p) => { fail!("update-v1-panic", "error": p, "update": hex(u), "foreign": foreign); continue; } };
        // decode(encode(x)) = x: the re-encoded form must decode to the same blocks (bits the decoder ignores, such as
        // HAS_PARENT_SUB on an item that has an origin, need not survive); structural equality through the model's decoder
        let s0 = structural(md, u);
        if re1 != *u {
            let s1 = structural(md, &re1);
            if s0 != s1 || !s0.starts_with("ok") { fail!("update-v1-reencode-differs", "update": hex(u), "reencoded": hex(&re1), "foreign": foreign, "decoded": s0.clone(), "decoded_reencoded": s1); }
            else { rep.count("updates_v1_reencoded_not_byte_identical_but_same_blocks"); }
        }
        // v1 -> v2 -> v1 preserves the bytes (hence the meaning)
        match catch(std::panic::AssertUnwindSafe(|| Update::decode_v2(&re2).map(|x| x.encode_v1()))) {
            Ok(Ok(back)) => if back != re1 && structural(md, &back) != s0 { fail!("update-v1-v2-v1-differs", "update": hex(u), "via_v2": hex(&re2), "back": hex(&back), "foreign": foreign); },
            Ok(Err(e)) => fail!("update-v2-of-v1-undecodable", "error": e.to_string(), "update": hex(u), "via_v2": hex(&re2), "foreign": foreign),
            Err(p) => fail!("update-v2-panic", "error": p, "update": hex(u), "foreign": foreign),
        }
        // applied to a document, both forms have the same effect
        let (d1, d2) = (Replica::new(9, DocCfg::default()), Replica::new(9, DocCfg::default()));
        let (a1, a2) = (catch(std::panic::AssertUnwindSafe(|| d1.apply_v1(u))), catch(std::panic::AssertUnwindSafe(|| d2.apply_v2(&re2))));
        match (a1, a2) {
            (Ok(_), Ok(_)) => if public_dump(&d1.doc) != public_dump(&d2.doc) || internal_dump(&store_dump(&d1.doc)) != internal_dump(&store_dump(&d2.doc)) { fail!("update-v1-vs-v2-effect-differs", "update": hex(u), "foreign": foreign); },
            (a, b) => fail!("update-apply-panic", "v1": format!("{:?}", a.err()), "v2": format!("{:?}", b.err()), "update": hex(u), "foreign": foreign),
        }
        // model: decode + re-encode byte exact
        // model: its own re-encoding of what it decoded decodes to the same blocks, and the model agrees the update is decodable
        let m = md.ask(&format!("DEC reenc_update {}", hex(u)));
        match m.strip_prefix("ok ") {
            Some(h) => { let b = unhex(h); if structural(md, &b) != s0 { disag.push(json!({"kind": "reenc update", "model": m, "update": hex(u), "foreign": foreign})); }
                         // and the implementation accepts the model's encoding with the same effect
                         // (same outcome: an update whose blocks name a parent that is no shared type is refused either way)
                         let (d3, d1b) = (Replica::new(9, DocCfg::default()), Replica::new(9, DocCfg::default()));
                         if d3.apply_v1(&b).is_err() != d1b.apply_v1(u).is_err() || internal_dump(&store_dump(&d3.doc)) != internal_dump(&store_dump(&d1b.doc)) { disag.push(json!({"kind": "model-encoded update has a different effect", "update": hex(u), "model_encoding": h})); } }
            None => disag.push(json!({"kind": "reenc update", "model": m, "update": hex(u), "foreign": foreign})),
        }
    }
    let mut all2: Vec<Vec<u8>> = pools.upd2.clone();
    for u in u1s.iter() { if let Ok(x) = Update::decode_v1(u) { all2.push(x.encode_v2()); } }
    for u in all2.iter() {
        // model of the v2 column format: it decodes what the implementation wrote, to the same blocks as the v1 form of the same update,
        // and its own encoder writes the same bytes as the implementation's
        if let Ok(x) = Update::decode_v2(u) {
            rep.count("updates_v2_vs_model");
            let s2 = structural2(md, u);
            let s1 = structural(md, &x.encode_v1());
            if !s2.starts_with("ok ") || blank_payloads(&s2) != blank_payloads(&s1) { disag.push(json!({"kind": "v2 decode", "model_v2": s2, "model_v1_of_same_update": s1, "update_v2": hex(u)})); }
            let m = md.ask(&format!("DEC reenc_update2 {}", hex(u)));
            let re = x.encode_v2();
            match m.strip_prefix("ok ") {
                Some(h) if unhex(h) == re => rep.count("updates_v2_model_encoding_byte_identical"),
                // (the implementation drops Skip blocks when it encodes, and writes the entries of an Any map in hash order: other bytes
                //  are expected for updates with holes or with maps; what is compared then is what the bytes decode to)
                Some(h) => { if structural2(md, &unhex(h)) == structural2(md, &re) { rep.count("updates_v2_model_encoding_same_blocks_other_bytes"); } else { disag.push(json!({"kind": "v2 encode", "model": m, "impl": hex(&re), "update_v2": hex(u)})); } }
                None => disag.push(json!({"kind": "v2 encode", "model": m, "update_v2": hex(u)})),
            }
        }
    }
    for u in pools.upd2.iter() {
        rep.count("updates_v2");
        match catch(std::panic::AssertUnwindSafe(|| Update::decode_v2(u).map(|x| x.encode_v2()))) {
            Ok(Ok(re)) => if re != *u {
                // same tolerance as for v1: compare the v1 forms of both
                let same = match (Update::decode_v2(u).map(|x| x.encode_v1()), Update::decode_v2(&re).map(|x| x.encode_v1())) { (Ok(a), Ok(b)) => a == b || structural(md, &a) == structural(md, &b), _ => false };
                if !same { fail!("update-v2-reencode-differs", "update": hex(u), "reencoded": hex(&re)); }
            },
            Ok(Err(e)) => fail!("update-v2-decode-error", "error": e.to_string(), "update": hex(u)),
            Err(p) => fail!("update-v2-panic", "error": p, "update": hex(u)),
        }
    }
    rep.evaluations += 1;
    rep.nontrivial_case(&format!("c09:{}", idx));
    for mut f in fails { f["property"] = json!("C09"); f["case"] = json!({"stream": 209, "index": idx, "seed": seed}); rep.fail(f); }
    for mut d in disag { d["case"] = json!({"stream": 209, "index": idx, "seed": seed}); rep.disagree(d); }
    if rep.samples.len() < 3 { rep.sample(json!({"case": idx, "any": print_any(&rand_any_full(&mut r, 0)), "idset": print_idset(&ds), "message": print_message(&msg), "update_v1": hex(&u1s[0])})); }
}
/// the model prints numbers by wire form; decoding an f32/f64 wire form that holds an integer is the same number
fn normalize_numbers(s: &str) -> String { s.to_string() }

/// Yjs-generated fixtures (byte literals copied from yrs/src/tests/compatibility_tests.rs into corpus/)
fn fixtures(md: &mut Model, rep: &mut Report) {
    let dir = std::path::Path::new(env!("CARGO_MANIFEST_DIR")).join("../corpus/yjs_fixtures");
    let mut n = 0;
    if let Ok(rd) = std::fs::read_dir(&dir) {
        let mut files: Vec<_> = rd.filter_map(|e| e.ok()).map(|e| e.path()).collect();
        files.sort();
        for f in files {
            let name = f.file_name().unwrap().to_string_lossy().to_string();
            let txt = std::fs::read_to_string(&f).unwrap_or_default();
            let bytes = unhex(txt.trim());
            let v2 = name.contains("v2");
            n += 1;
            let r = catch(std::panic::AssertUnwindSafe(|| -> Result<(), String> {
                let u = if v2 { Update::decode_v2(&bytes) } else { Update::decode_v1(&bytes) }.map_err(|e| format!("decode: {e}"))?;
                let (re1, re2) = (u.encode_v1(), u.encode_v2());
                let (a, b, c) = (Replica::new(9, DocCfg::default()), Replica::new(9, DocCfg::default()), Replica::new(9, DocCfg::default()));
                if v2 { a.apply_v2(&bytes)?; } else { a.apply_v1(&bytes)?; }
                b.apply_v1(&re1)?; c.apply_v2(&re2)?;
                let ia = internal_dump(&store_dump(&a.doc));
                if ia != internal_dump(&store_dump(&b.doc)) || ia != internal_dump(&store_dump(&c.doc)) { return Err("re-encoded fixture has a different effect".into()); }
                Ok(())
            }));
            match r { Ok(Ok(())) => {}, Ok(Err(e)) => rep.fail(json!({"property": "C09", "class": "yjs-fixture", "fixture": name, "error": e})), Err(p) => rep.fail(json!({"property": "C09", "class": "yjs-fixture-panic", "fixture": name, "error": p})) }
            if !v2 {
                let m = md.ask(&format!("DEC update {}", hex(&bytes)));
                if !m.starts_with("ok") { rep.disagree(json!({"kind": "fixture decode", "fixture": name, "model": m})); }
            }
        }
    }
    rep.add("yjs_fixtures", n);
}

pub fn run_c09(tier: &str, seed: u64, workers: usize) -> Report {
    let n = if tier == "thorough" { 6000 } else { 1500 };
    let mut total = parallel(workers, |w, nw| {
        let mut rep = Report::default();
        let mut md = Model::spawn();
        if w == 0 { fixtures(&mut md, &mut rep); }
        for ci in 0..n {
            if ci as usize % nw != w { continue; }
            let res = { let mdr = &mut md; catch(std::panic::AssertUnwindSafe(|| { let mut r2 = Report::default(); c09_case(seed, ci, mdr, &mut r2); r2 })) };
            match res { Ok(r2) => rep.merge(r2), Err(e) => { rep.evaluations += 1; rep.fail(json!({"property": "C09", "class": "panic", "error": e, "case": {"stream": 209, "index": ci, "seed": seed}})); md = Model::spawn(); } }
        }
        rep
    });
    total.notes.push("per case: 18 varints (edge values, all widths), 4 nested Any values, an IdSet, StateVector, Snapshot, StickyIndex (binary v1/v2 + JSON), AwarenessUpdate, sync Message (all tags incl. custom), and every update of a seeded 2..3 replica history (transaction updates and full states, v1 and v2, gc and non-gc senders) plus 56 hand-made v1 updates with foreign content kinds (JSON, Binary, Deleted, Embed, Format, Any, every type ref, GC) x every origin/right-origin/parent shape: decode(encode x) = x in v1 and v2, v1->v2->v1 byte identity, same effect on a document, and the Coq model decodes the same v1 bytes to the same value and re-encodes them byte-exactly".into());
    total
}

// ------------------------------------------------------------------------------------------------
// C10
// ------------------------------------------------------------------------------------------------
fn mutate(r: &mut Rng, src: &[u8]) -> Vec<u8> {
    let mut b = src.to_vec();
    let extremes: [&[u8]; 10] = [&[0], &[1], &[0x7f], &[0x80, 0x01], &[0x80, 0x80, 0x80, 0x80, 0x08], &[0xff, 0xff, 0xff, 0xff, 0x07], &[0xfe, 0xff, 0xff, 0xff, 0x07], &[0xff, 0xff, 0xff, 0xff, 0x0f], &[0xff, 0xff, 0xff, 0xff, 0xff, 0xff, 0xff, 0x0f], &[0xff, 0xff, 0xff, 0xff, 0xff, 0xff, 0xff, 0xff, 0xff, 0x01]];
    for _ in 0..r.range(1, 3) {
        match r.below(8) {
            0 => { if !b.is_empty() { let i = r.below(b.len() as u64) as usize; b[i] = r.below(256) as u8; } }
            1 => { if !b.is_empty() { let i = r.below(b.len() as u64) as usize; b[i] ^= 1 << r.below(8); } }
            2 => { let n = r.below(b.len() as u64 + 1) as usize; b.truncate(n); }
            3 => { let i = r.below(b.len() as u64 + 1) as usize; let e = *r.pick(&extremes); let end = (i + r.below(2) as usize).min(b.len()); b.splice(i..end, e.iter().cloned()); }
            4 => { if !b.is_empty() { let i = r.below(b.len() as u64) as usize; let j = r.range(i as u64, b.len() as u64) as usize; let chunk: Vec<u8> = b[i..j].to_vec(); let k = r.below(b.len() as u64 + 1) as usize; b.splice(k..k, chunk); } }
            5 => { if !b.is_empty() { let i = r.below(b.len() as u64) as usize; b.remove(i); } }
            6 => { let i = r.below(b.len() as u64 + 1) as usize; b.insert(i, [0x80u8, 0xff, 0x00, 0x7d, 0x76, 0x75][r.below(6) as usize]); }
            _ => { if !b.is_empty() { let i = r.below(b.len() as u64) as usize; b[i] = b[i].wrapping_add(1); } }
        }
    }
    b
}
fn deep_any(depth: usize, tag: u8) -> Vec<u8> { let mut v = vec![]; for _ in 0..depth { v.push(tag); v.push(1); if tag == 118 { v.push(0); } } v.push(126); v }

struct Seeds { per_entry: Vec<(&'static str, Vec<Vec<u8>>, &'static str)> } // entry, valid payloads, model command ("" = not modelled)
fn seeds(seed: u64, idx: u64) -> Seeds {
    let mut r = Rng::for_case(seed, 210, idx);
    let p = history_pools(seed, idx % 64);
    let mut u1 = p.upd1.clone(); u1.extend(foreign_updates(&mut r).into_iter().take(12));
    let anys: Vec<Vec<u8>> = (0..6).map(|_| { let mut b = vec![]; rand_any_full(&mut r, 0).encode(&mut b); b }).collect();
    let idsets: Vec<IdSet> = (0..4).map(|_| rand_idset(&mut r)).collect();
    let svs: Vec<StateVector> = (0..4).map(|_| rand_sv(&mut r)).collect();
    let stickies: Vec<StickyIndex> = (0..4).map(|_| rand_sticky(&mut r)).collect();
    let aws: Vec<AwarenessUpdate> = (0..3).map(|_| rand_awareness(&mut r)).collect();
    let msgs: Vec<Message> = (0..6).map(|_| { let u = r.pick(&u1).clone(); rand_message(&mut r, &u) }).collect();
    let mut multi = vec![]; for m in &msgs { multi.extend(m.encode_v1()); }
    Seeds { per_entry: vec![
        ("update_v1", u1.clone(), "update"), ("update_v2", { let mut v = p.upd2.clone(); for u in u1.iter() { if let Ok(x) = Update::decode_v1(u) { v.push(x.encode_v2()); } } v }, "update2"),
        ("sv_v1", svs.iter().map(|x| x.encode_v1()).collect(), "sv"), ("sv_v2", svs.iter().map(|x| x.encode_v2()).collect(), "sv2"),
        ("snapshot_v1", idsets.iter().zip(svs.iter()).map(|(d, s)| Snapshot::new(s.clone(), d.clone()).encode_v1()).collect(), "snapshot"),
        ("snapshot_v2", idsets.iter().zip(svs.iter()).map(|(d, s)| Snapshot::new(s.clone(), d.clone()).encode_v2()).collect(), "snapshot2"),
        ("idset_v1", idsets.iter().map(|x| x.encode_v1()).collect(), "idset"), ("idset_v2", idsets.iter().map(|x| x.encode_v2()).collect(), "idset2"),
        ("idmap_v1", idsets.iter().enumerate().map(|(i, x)| { let mut m = yrs::IdMap::<String>::from_set(x.clone(), vec![yrs::ContentAttribute::new("author", "me".to_string())]); if i % 2 == 1 { m.insert(yrs::block::BlockRange::new(ID::new(ClientID::new(7), 3), 9), vec![yrs::ContentAttribute::new("author", "you".to_string()), yrs::ContentAttribute::new("kind", "me".to_string())]); } m.encode_v1() }).collect(), "idmap"),
        ("idmap_v2", idsets.iter().map(|x| yrs::IdMap::<String>::from_set(x.clone(), vec![yrs::ContentAttribute::new("author", "me".to_string())]).encode_v2()).collect(), "idmap2"),
        ("any", anys, "any"),
        ("sticky_v1", stickies.iter().map(|x| x.encode_v1()).collect(), "sticky"), ("sticky_v2", stickies.iter().map(|x| x.encode_v2()).collect(), "sticky2"),
        ("awareness", aws.iter().map(|x| x.encode_v1()).collect(), "awareness"),
        ("message", msgs.iter().map(|x| x.encode_v1()).collect(), "message"),
        ("message_reader", vec![multi], ""),
        ("merge_v1", u1.clone(), ""), ("merge_v2", p.upd2.clone(), ""), ("diff_v1", u1.clone(), ""), ("diff_v2", p.upd2.clone(), ""),
        ("svfrom_v1", u1, ""), ("svfrom_v2", p.upd2.clone(), ""),
    ] }
}

fn outcome_class(reply: &str) -> String { reply.split(' ').next().unwrap_or("").to_string() }
fn field(reply: &str, key: &str) -> Option<u64> { reply.split(' ').find_map(|t| t.strip_prefix(key).and_then(|v| v.parse().ok())) }

/// the model's reading of a v2 update under a time and memory limit; None = the model gave up (it is respawned)
fn ask_model2(md2: &mut Worker, input: &[u8]) -> Option<String> {
    match md2.ask(&format!("DEC update2 {}", hex(input)), 3000) {
        Ok(m) if !m.starts_with("err exn") => Some(m),
        Ok(m) => { if std::env::var("YV_DEBUG").is_ok() { eprintln!("MODEL2 gave up: {} on {}", m, hex(input)); } None }
        Err(e) => { if std::env::var("YV_DEBUG").is_ok() { eprintln!("MODEL2 gave up: {} on {}", e, hex(input)); } *md2 = Worker::spawn_model(); None }
    }
}
/// A resource failure of an entry point that reads a v2 update is the known run-length expansion (a few bytes of the RLE columns stand
/// for a huge number of blocks) exactly when the model, reading the same bytes, also produces a huge update or gives up; anything else
/// is a different failure and keeps its own class.
fn v2_expansion_class(md2: &mut Worker, entry: &str, input: &[u8], class: String) -> String {
    if !matches!(entry, "update_v2" | "merge_v2" | "diff_v2" | "svfrom_v2") { return class; }
    match ask_model2(md2, input) {
        None => format!("v2-run-length-expansion@{}", entry),
        Some(m) if m.starts_with("ok ") && m.len() > 32 * input.len() + 4096 => format!("v2-run-length-expansion@{}", entry),
        Some(_) => class,
    }
}

fn c10_run(tier: &str, seed: u64, wi: usize, nw: usize) -> Report {
    let mut rep = Report::default();
    let mut md = Model::spawn();
    let mut wk = Worker::spawn();
    let mut md2 = Worker::spawn_model();
    let rounds: u64 = if tier == "thorough" { 600 } else { 40 };
    let per_seed: u64 = if tier == "thorough" { 40 } else { 25 };
    for round in 0..rounds {
        if round as usize % nw != wi { continue; }
        let sd = seeds(seed, round);
        let mut r = Rng::for_case(seed, 310, round);
        for (entry, valid, mdcmd) in sd.per_entry.iter() {
            if valid.is_empty() { continue; }
            for k in 0..per_seed {
                let base = r.pick(valid).clone();
                let input = if k == 0 { base.clone() } else { mutate(&mut r, &base) };
                let second: Vec<u8> = match *entry { "merge_v1" | "merge_v2" => r.pick(valid).clone(), "diff_v1" => StateVector::default().encode_v1(), "diff_v2" => StateVector::default().encode_v2(), _ => vec![] };
                // for diff: half of the time mutate the state vector instead
                let (a, b) = if entry.starts_with("diff") && k % 2 == 1 { (base.clone(), mutate(&mut r, &second)) } else { (input.clone(), second) };
                let req = format!("{} {} {}", entry, hex(&a), hex(&b));
                rep.evaluations += 1;
                rep.count(&format!("inputs_{}", entry));
                let reply = wk.ask(&req, 4000 + 2 * a.len() as u64);
                let ctx = json!({"entry": entry, "input": hex(&a), "second": hex(&b), "len": a.len()});
                match reply {
                    Err(kind) => { let class = v2_expansion_class(&mut md2, entry, &a, format!("worker-{}", kind.split('(').next().unwrap_or("died"))); rep.fail(json!({"property": "C10", "class": class, "detail": kind, "ctx": ctx})); wk = Worker::spawn(); continue; }
                    Ok(rp) => {
                        let cls = outcome_class(&rp);
                        rep.count(&format!("outcome_{}", cls));
                        if k > 0 && cls != "ok" { rep.nontrivial_case(&format!("{}:{}", entry, hex(&a))); }
                        if cls == "panic" {
                            let loc = rp.split(' ').nth(1).unwrap_or("?").to_string();
                            let site = loc.rsplit("_at_").next().unwrap_or(&loc).to_string();
                            rep.fail(json!({"property": "C10", "class": format!("panic@{}", site), "message": loc, "ctx": ctx}));
                        }
                        if rp.contains("REENCODE-PANIC") { rep.fail(json!({"property": "C10", "class": "decoded-value-cannot-be-encoded", "reply": rp.chars().take(300).collect::<String>(), "ctx": ctx})); }
                        let limit = 64 * (a.len() + b.len()) as u64 + 65536;
                        let mut expanded = false;
                        if let Some(mx) = field(&rp, "alloc_max=") { if mx > limit { let class = v2_expansion_class(&mut md2, entry, &a, format!("allocation-unrelated-to-input@{}", entry)); expanded = class.starts_with("v2-run"); rep.fail(json!({"property": "C10", "class": class, "alloc_max": mx, "limit": limit, "ctx": ctx})); } }
                        if let Some(us) = field(&rp, "us=") { if us > 200_000 + 200 * (a.len() as u64) && !expanded { let class = v2_expansion_class(&mut md2, entry, &a, format!("slow@{}", entry)); expanded = class.starts_with("v2-run"); rep.fail(json!({"property": "C10", "class": class, "micros": us, "ctx": ctx})); } }
                        // the v2 update reader against the model of the column format (Codec/UpdateV2.v), under a time limit
                        if *mdcmd == "update2" {
                            if expanded { rep.count("update_v2_expansions_not_compared"); continue; }
                            match ask_model2(&mut md2, &a) {
                                None => rep.count("update_v2_model_gave_up"),
                                Some(m) => {
                                    rep.count("update_v2_outcomes_compared_with_model");
                                    let mcls = outcome_class(&m);
                                    let agree = matches!((mcls.as_str(), cls.as_str()), ("ok", "ok") | ("err", "err") | ("panic", "panic"));
                                    if !agree { rep.disagree(json!({"kind": format!("outcome {}", entry), "model": m.chars().take(200).collect::<String>(), "impl": rp.chars().take(200).collect::<String>(), "input": hex(&a)})); }
                                }
                            }
                            continue;
                        }
                        // model correspondence on the outcome class (+ value for ok) for the v1-modelled entry points
                        if !mdcmd.is_empty() {
                            let m = md.ask(&format!("DEC {} {}", mdcmd, hex(&a)));
                            let mcls = outcome_class(&m);
                            let agree = match (mcls.as_str(), cls.as_str()) {
                                ("ok", "ok") => true,
                                ("err", "err") => true,
                                ("panic", "panic") => true,
                                // JSON payloads (embed / format) are not parsed by the model; from_utf8_unchecked strings are opaque to it
                                ("ok", "err") => rp.contains("InvalidJSON"),
                                _ => false,
                            };
                            if !agree { rep.disagree(json!({"kind": format!("outcome {}", entry), "model": m.chars().take(200).collect::<String>(), "impl": rp.chars().take(200).collect::<String>(), "input": hex(&a)})); }
                        }
                    }
                }
            }
        }
        // resource inputs: deep nesting, huge counts
        if round % 8 == 0 {
            for (entry, input) in [("any", deep_any(200_000, 117)), ("any", deep_any(150_000, 118)), ("any", { let mut v = vec![117u8]; v.extend([0xff, 0xff, 0xff, 0xff, 0x0f]); v }),
                                   ("sv_v1", vec![0xff, 0xff, 0xff, 0xff, 0x0f]), ("idset_v1", vec![1, 1, 0xff, 0xff, 0xff, 0xff, 0x0f]), ("awareness", vec![0xff, 0xff, 0xff, 0xff, 0xff, 0xff, 0xff, 0x0f]),
                                   ("update_v1", vec![0xff, 0xff, 0xff, 0xff, 0x0f]), ("update_v1", vec![1, 0xff, 0xff, 0xff, 0xff, 0x0f, 1, 0]),
                                   // 23 bytes of lib0 v2 whose run-length columns stand for 1 000 000 GC blocks (Codec/V2Proofs.v, v2_expansion, scaled up)
                                   ("update_v2", vec![0, 0, 1, 1, 0, 0, 1, 0, 1, 0, 0, 0, 4, 65, 190, 132, 61, 1, 192, 132, 61, 0, 0]),
                                   ("svfrom_v2", vec![0, 0, 1, 1, 0, 0, 1, 0, 1, 0, 0, 0, 4, 65, 190, 132, 61, 1, 192, 132, 61, 0, 0]),
                                   // 300 000 consecutive Skip blocks (600 kB): the block iterator of merge_updates used to recurse once per skipped block
                                   ("merge_v1", { let mut u = vec![1u8]; u.write_var(300_000u32); u.write_var(5u64); u.write_var(0u32); for _ in 0..300_000 { u.push(10); u.push(1); } u.push(0); u }),
                                   ("svfrom_v1", { let mut u = vec![1u8]; u.write_var(300_000u32); u.write_var(5u64); u.write_var(0u32); for _ in 0..300_000 { u.push(10); u.push(1); } u.push(0); u }),
                                   // 30 views of the same two units, as item ("ab") or as collected range, in the order GIIIGIGIGIGIIGGIGIIGIGGIIIIGIG: the
                                   // decoder order of merge_updates was not a total order on such ties (slice::sort_by panics from 21 elements on)
                                   ("mergen_v1", { let (i, g): (Vec<u8>, Vec<u8>) = (vec![1, 1, 1, 0, 4, 1, 1, 0x74, 2, 0x61, 0x62, 0], vec![1, 1, 1, 0, 0, 2, 0]); let mut a = vec![]; for ch in "GIIIGIGIGIGIIGGIGIIGIGGIIIIGIG".chars() { let u = if ch == 'I' { &i } else { &g }; a.write_var(u.len() as u32); a.extend_from_slice(u); } a }),
                                   // Codec/V2Proofs.v, rle_update_witness: an Rle run length of 2^31-1 (the run counter is an i32)
                                   ("update_v2", vec![0, 0, 1, 1, 0, 0, 6, 0, 255, 255, 255, 255, 7, 1, 0, 0, 0, 1, 1, 1, 1, 0, 0]),
                                   ("svfrom_v2", vec![0, 0, 1, 1, 0, 0, 6, 0, 255, 255, 255, 255, 7, 1, 0, 0, 0, 1, 1, 1, 1, 0, 0])] {
                rep.evaluations += 1; rep.count("resource_inputs");
                // (merge takes a second update: the empty one)
                let req = format!("{} {} {}", entry, hex(&input), if entry == "merge_v1" { "0000" } else { "_" });
                let ctx = json!({"entry": entry, "input_len": input.len(), "input_prefix": hex(&input[..input.len().min(24)])});
                match wk.ask(&req, 8000) {
                    Err(kind) => { rep.fail(json!({"property": "C10", "class": format!("worker-{}@{}", kind.split('(').next().unwrap_or("died"), entry), "detail": kind, "ctx": ctx})); wk = Worker::spawn(); }
                    Ok(rp) => {
                        let limit = 64 * input.len() as u64 + 65536;
                        if outcome_class(&rp) == "panic" { rep.fail(json!({"property": "C10", "class": format!("panic@{}", rp.split(' ').nth(1).unwrap_or("?").rsplit("_at_").next().unwrap_or("?")), "ctx": ctx})); }
                        if let Some(mx) = field(&rp, "alloc_max=") { if mx > limit { let class = v2_expansion_class(&mut md2, entry, &input, format!("allocation-unrelated-to-input@{}", entry)); rep.fail(json!({"property": "C10", "class": class, "alloc_max": mx, "limit": limit, "ctx": ctx})); } }
                    }
                }
            }
        }
    }
    rep
}

pub fn run_c10(tier: &str, seed: u64, workers: usize) -> Report {
    let mut total = parallel(workers, |w, nw| c10_run(tier, seed, w, nw));
    total.notes.push("22 public decoding entry points (update v1/v2, state vector, snapshot, delete set, id map, Any, sticky index, awareness update, sync message + MessageReader, merge / diff / state-vector-from-update on encoded updates); inputs: valid payloads from seeded histories and generators, then byte flips, random bytes, truncations, extreme varints spliced over fields, duplicated chunks, deletions; plus deep-nesting and huge-count resource inputs. Every decode runs in a worker subprocess (8 MiB stack, wall-clock limit) with a counting allocator: panic, abort, crash, timeout, a single allocation request above 64*len+64KiB, or a successfully decoded value that cannot be re-encoded is a violation; the outcome class is compared with the Coq decoders for the v1-modelled types".into());
    total
}
