#!/bin/bash
# Independent re-check of every Props module (and everything it depends on) with coqchk; prints the axiom summary.
cd "$(dirname "$0")/../coq"
mkdir -p ../.build/coqchk
ls Props/*.v | sed 's#Props/\(.*\)\.v#\1#' | xargs -P 6 -I{} bash -c 'start=$(date +%s); timeout 3000 coqchk -o -silent -Q . YV YV.Props.{} > ../.build/coqchk/{}.txt 2>&1; echo "{} rc=$? $(( $(date +%s) - start ))s axioms: $(grep -A1 "^\* Axioms" ../.build/coqchk/{}.txt | tail -1 | tr -d " ")"'
