#!/bin/sh
# Build the Rust harness against /repo's current working tree (hooks on, overflow checks on).
set -e
ROOT=$(cd "$(dirname "$0")/.." && pwd)
cd "$ROOT/harness"
if [ ! -f Cargo.lock ] || [ /repo/Cargo.lock -nt Cargo.lock ]; then cp /repo/Cargo.lock Cargo.lock; fi
CARGO_NET_OFFLINE=true timeout 2400 cargo build --offline 2>&1 | tail -40
test -x "$ROOT/.build/target/debug/yv-harness"
