HOOK_COMMITS = ["f09e006"]

_WIP = "check not landed yet in this revision of /verif (work in progress; see DESIGN.md section 11 for the plan)"
NOT_APPLICABLE = {("C%02d" % i): _WIP for i in range(1, 21)}

META = {
    "C16": {
        "category": "proof",
        "design_ref": "DESIGN.md section 6, C16",
        "technique": "Coq theorems over a loop-for-loop Gallina transcription of ids.rs (finite universe decided completely inside the kernel by vm_compute and lifted; construction sequences of any length by induction) + exhaustive representation-exact correspondence with the Rust IdRanges/IdSet/IdMap on the same universe",
        "text": "The property quantifies over a bounded universe; the theorems decide that universe completely for the model (every subset of 8 clocks, every pair, every range) and extend to construction sequences of unbounded length by induction. The correspondence check enumerates the same universe (and the IdMap universe with 2 attributes) on the real code and compares range lists exactly, so a change to ids.rs/id_set.rs/id_map.rs that alters any result on the universe is caught either as a model/implementation disagreement or directly by the bit-set oracle.",
        "note": "Trusted: Coq kernel + VM, the transcription's faithfulness outside the enumerated universe (larger clocks are covered by seeded random programs only), extraction (ExtrOcamlBasic), the OCaml driver and Rust harness printers. Per-client lifting (IdMapInner) is modelled and compared, not proved.",
    },
}
