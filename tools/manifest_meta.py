HOOK_COMMITS = ["f09e006", "b01701e"]

_WIP = "check not landed yet in this revision of /verif (work in progress; see DESIGN.md section 11 for the plan)"
NOT_APPLICABLE = {("C%02d" % i): _WIP for i in range(1, 21)}

META = {
    "C16": {
        "category": "proof",
        "design_ref": "DESIGN.md section 6, C16",
        "technique": "Coq theorems over a loop-for-loop Gallina transcription of ids.rs (finite universe decided completely inside the kernel by vm_compute and lifted; construction sequences of any length by induction) + exhaustive representation-exact correspondence with the Rust IdRanges/IdSet/IdMap on the same universe",
        "text": "The property quantifies over a bounded universe; the theorems decide that universe completely for the model (every subset of 8 clocks, every pair, every range) and extend to construction sequences of unbounded length by induction. The correspondence check enumerates the same universe (and the IdMap universe with 2 attributes) on the real code and compares range lists exactly, so a change to ids.rs/id_set.rs/id_map.rs that alters any result on the universe is caught either as a model/implementation disagreement or directly by the bit-set oracle.",
        "note": "Trusted: Coq kernel + VM, the transcription's faithfulness outside the enumerated universe (larger clocks are covered by seeded random programs only), extraction (ExtrOcamlBasic), the OCaml driver and Rust harness printers. Per-client lifting (IdMapInner) is modelled and compared, not proved.",
    },
}

META["C02"] = {
    "category": "proof",
    "design_ref": "DESIGN.md section 6, C02",
    "technique": "Coq theorems (induction over the delivery loop) about the model's dependency-driven stash: nothing dropped, stash non-empty iff a dependency is absent, liveness for every arrival order; tied to the code by per-step correspondence of has_missing_updates / integrated id set / content under adversarial schedules and all permutations of short histories",
    "text": "Liveness of a stash is a statement over all arrival orders; the theorem proves it for the model for any permutation of a dependency-closed set and any length. The correspondence then requires the real replica to report missing updates exactly while the model's stash (or pending delete set) is non-empty and to hold exactly the model's closure when it is empty, after every single delivery, including every permutation of histories with up to 5 messages.",
    "note": "Trusted: the unit-level abstraction of blocks; the implementation's retry bookkeeping is compared, not proved. The pinned tree violated this property (stuck stash); repaired by fix commit 0a72352 (see known_findings.jsonl).",
}
META["C04"] = {
    "category": "proof",
    "design_ref": "DESIGN.md section 6, C04",
    "technique": "Coq theorems about the transcribed YATA integration (inserts exactly once, never reorders, lands between its origins, deletion flags are monotone) + per-step identity/order oracle on the real replicas and unit-level correspondence",
    "text": "Exactly-once, order stability and placement are proved for every list and every item of the model (no bound). Cross-replica agreement of the order is convergence (C01). The harness tracks every unit id on every replica after every step: duplicates and order flips between any two states of any two replicas are violations.",
    "note": "Trusted: faithfulness of yata_insert to Item::resolve_conflict at unit granularity (checked by the per-step tombstone-order correspondence).",
}
