HOOK_COMMITS = ["f09e006", "b01701e"]

_WIP = "check not landed yet in this revision of /verif (work in progress; see DESIGN.md section 11 for the plan)"
NOT_APPLICABLE = {("C%02d" % i): _WIP for i in range(1, 21)}

META = {
    "C16": {
        "category": "proof",
        "design_ref": "DESIGN.md section 6, C16",
        "technique": "Coq theorems over a loop-for-loop Gallina transcription of ids.rs (finite universe decided completely inside the kernel by vm_compute and lifted; construction sequences of any length by induction) + exhaustive representation-exact correspondence with the Rust IdRanges/IdSet/IdMap on the same universe",
        "text": "The property quantifies over a bounded universe; the theorems decide that universe completely for the model (every subset of 8 clocks, every pair, every range) and extend to construction sequences of unbounded length by induction. The correspondence check enumerates the same universe (and the IdMap universe with 2 attributes) on the real code and compares range lists exactly, so a change to ids.rs/id_set.rs/id_map.rs that alters any result on the universe is caught either as a model/implementation disagreement or directly by the bit-set oracle.",
        "note": "Trusted: Coq kernel + VM, the transcription's faithfulness outside the enumerated universe (larger clocks are covered by seeded random programs only), extraction (ExtrOcamlBasic), the OCaml driver and Rust harness printers. Per-client lifting (IdMapInner) is modelled and compared, not proved.",
    },
}

META["C02"] = {
    "category": "proof",
    "design_ref": "DESIGN.md section 6, C02",
    "technique": "Coq theorems (induction over the delivery loop) about the model's dependency-driven stash: nothing dropped, stash non-empty iff a dependency is absent, liveness for every arrival order; tied to the code by per-step correspondence of has_missing_updates / integrated id set / content under adversarial schedules and all permutations of short histories",
    "text": "Liveness of a stash is a statement over all arrival orders; the theorem proves it for the model for any permutation of a dependency-closed set and any length. The correspondence then requires the real replica to report missing updates exactly while the model's stash (or pending delete set) is non-empty and to hold exactly the model's closure when it is empty, after every single delivery, including every permutation of histories with up to 5 messages.",
    "note": "Trusted: the unit-level abstraction of blocks; the implementation's retry bookkeeping is compared, not proved. The pinned tree violated this property (stuck stash); repaired by fix commit 0a72352 (see known_findings.jsonl).",
}
META["C04"] = {
    "category": "proof",
    "design_ref": "DESIGN.md section 6, C04",
    "technique": "Coq theorems about the transcribed YATA integration (inserts exactly once, never reorders, lands between its origins, deletion flags are monotone) + per-step identity/order oracle on the real replicas and unit-level correspondence",
    "text": "Exactly-once, order stability and placement are proved for every list and every item of the model (no bound). Cross-replica agreement of the order is convergence (C01). The harness tracks every unit id on every replica after every step: duplicates and order flips between any two states of any two replicas are violations.",
    "note": "Trusted: faithfulness of yata_insert to Item::resolve_conflict at unit granularity (checked by the per-step tombstone-order correspondence).",
}

META["C01"] = {
    "category": "proof", "design_ref": "DESIGN.md section 6, C01",
    "technique": "Coq: unbounded theorems that the set of integrated operations and the deletion flags are schedule-independent; kernel-checked exhaustive enumeration of all histories of <= 5 insertions x 3 clients / 6 x 2 / 4 x 4 for the order of concurrent insertions; per-step correspondence of the real replicas (item order incl. tombstones) with the model's render under adversarial schedules and all permutations of short histories",
    "text": "Convergence is a statement over every history x schedule. What is integrated and what is deleted is proved schedule-independent without bound. The order produced by the stateful Yjs conflict scan is proved convergent for the complete finite universes named in the theorems and is otherwise tied to the implementation by comparing, after every single delivery on every replica, the full item order (tombstones included, expanded to units) with the model's canonical rendering of the replica's integrated id set. The full unbounded order-convergence statement is kept as an unproved Definition (partial).",
    "note": "Partial: no unbounded proof of order convergence for items with right origins. Trusted: unit-level abstraction of blocks, harness printers. The pinned tree violated C01 through the stuck stash (fixed, 0a72352).",
}
META["C05"] = {
    "category": "proof", "design_ref": "DESIGN.md section 6, C05",
    "technique": "Coq invariants of the model's keyed lists (all but the right-most entry deleted, in every reachable state; deletion monotone; a delete set deletes only what it names and the subtrees below) + happened-before oracle computed by the harness on the real replicas + per-step correspondence",
    "text": "The visible value of a key is the right-most entry of its chain; the theorems show that every other entry is deleted in every reachable state, that a deleted entry never becomes visible again through any later delivery, and that a removal erases only the ids it names (so a concurrent write is never erased by it). The harness computes the causal order itself and checks the register semantics on every causally closed state of every replica.",
    "note": "Which concurrent WRITE wins is decided by client id as in Yjs (not part of the property). Trusted: unit model, harness happened-before computation.",
}
META["C06"] = {
    "category": "proof", "design_ref": "DESIGN.md section 6, C06",
    "technique": "Coq theorems at operation-set level (state vector = first gap; diff against any vector below the receiver's is complete and leaves nothing stashed; monotone, idempotent, self-diff no-op) + all-pairs exchange on real replica states with gaps and stashes, v1/v2, own and stale vectors",
    "text": "The diff theorem quantifies over every pair of replica states and every vector the peer could legitimately hold; the harness exercises all ordered pairs of states reached in seeded histories, including stale vectors.",
    "note": "Known finding (KNOWN-FINDING line): content that the sender had integrated can end up in the receiver's stash because yrs stashes the rest of a client's blocks behind one block with a missing dependency; the receiver reports missing updates and integrates it once the gap is filled. Repaired on the way: write_blocks_from ignored blocks behind a gap (f694c28), Skip length mis-encoded (e7abf27).",
}
META["C07"] = {
    "category": "proof", "design_ref": "DESIGN.md section 6, C07",
    "technique": "Coq theorem by induction over transactions (a follower fed by 'what became integrated' holds the leader's ids after every step, stash empty) + followers fed by the real v1 and v2 event streams compared after every leader transaction, model follower through the Coq decoder, event-count oracle",
    "text": "Completeness of the log is an induction over all transaction sequences in the model; the harness ties the real encode_update output to it by decoding every event with the model's decoder and by comparing real followers after every transaction, for local edits, remote applies in any order, undo/redo and gc.",
    "note": "Pinned-tree defect repaired: an out-of-order remote apply made the leader emit an empty event (f694c28).",
}
META["C08"] = {
    "category": "proof", "design_ref": "DESIGN.md section 6, C08",
    "technique": "Coq: the integrated set after delivering a merged / permuted / duplicated / re-batched collection of updates equals the one after sequential delivery (characterisation as a least closed set); delete-set union laws; + differential comparison of merge_updates / diff_updates / encode_state_vector_from_update with sequential application on real update pools, v1 and v2",
    "text": "The algebra is proved at operation-set level; the byte-level k-way merge is compared with sequential application on pools with overlaps, duplicates, gaps, Skip and GC blocks.",
    "note": "The merge control flow itself is not transcribed (its specification is the model). A stash lag of the merged form is accepted only when it vanishes after delivering the whole history.",
}
META["C13"] = {
    "category": "proof", "design_ref": "DESIGN.md section 6, C13",
    "technique": "Coq: re-delivering the operations a replica had integrated to an empty document integrates exactly them, deletion flags are a function of the delete set; + restore of every snapshot after every later step on real documents, v1/v2, codec round trip, gc refusal",
    "text": "Block slicing at the snapshot clock is what the unit model abstracts away, so its defects surface in the correspondence: three were found and repaired on the pinned tree (8d6075d, 9152c72).",
    "note": "Known finding: a snapshot taken while the store has gaps (operations integrated behind a missing block) cannot be restored exactly, because a state-vector shaped snapshot cannot describe them.",
}
