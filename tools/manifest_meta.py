HOOK_COMMITS = ["f09e006", "b01701e", "f04332d", "019973f"]

_WIP = "check not landed yet in this revision of /verif (work in progress; see DESIGN.md section 11 for the plan)"
NOT_APPLICABLE = {("C%02d" % i): _WIP for i in range(1, 21)}

META = {
    "C16": {
        "category": "proof",
        "design_ref": "DESIGN.md section 6, C16",
        "technique": "Coq theorems over a loop-for-loop Gallina transcription of ids.rs (finite universe decided completely inside the kernel by vm_compute and lifted; construction sequences of any length by induction) + exhaustive representation-exact correspondence with the Rust IdRanges/IdSet/IdMap on the same universe",
        "text": "The property quantifies over a bounded universe; the theorems decide that universe completely for the model (every subset of 8 clocks, every pair, every range) and extend to construction sequences of unbounded length by induction. The correspondence check enumerates the same universe (and the IdMap universe with 2 attributes) on the real code and compares range lists exactly, so a change to ids.rs/id_set.rs/id_map.rs that alters any result on the universe is caught either as a model/implementation disagreement or directly by the bit-set oracle.",
        "note": "Trusted: Coq kernel + VM, the transcription's faithfulness outside the enumerated universe (larger clocks are covered by seeded random programs only), extraction (ExtrOcamlBasic), the OCaml driver and Rust harness printers. Per-client lifting (IdMapInner) is modelled and compared, not proved.",
    },
}

META["C02"] = {
    "category": "proof",
    "design_ref": "DESIGN.md section 6, C02",
    "technique": "Coq theorems (induction over the delivery loop) about the model's dependency-driven stash: nothing dropped, stash non-empty iff a dependency is absent, liveness for every arrival order; tied to the code by per-step correspondence of has_missing_updates / integrated id set / content under adversarial schedules and all permutations of short histories",
    "text": "Liveness of a stash is a statement over all arrival orders; the theorem proves it for the model for any permutation of a dependency-closed set and any length. The correspondence then requires the real replica to report missing updates exactly while the model's stash (or pending delete set) is non-empty and to hold exactly the model's closure when it is empty, after every single delivery, including every permutation of histories with up to 5 messages.",
    "note": "Trusted: the unit-level abstraction of blocks; the implementation's retry bookkeeping is compared, not proved. The pinned tree violated this property (stuck stash); repaired by fix commit 0a72352 (see known_findings.jsonl).",
}
META["C04"] = {
    "category": "proof",
    "design_ref": "DESIGN.md section 6, C04",
    "technique": "Coq theorems about the transcribed YATA integration (inserts exactly once, never reorders, lands between its origins, deletion flags are monotone) + per-step identity/order oracle on the real replicas and unit-level correspondence",
    "text": "Exactly-once, order stability and placement are proved for every list and every item of the model (no bound). Cross-replica agreement of the order is convergence (C01). The harness tracks every unit id on every replica after every step: duplicates and order flips between any two states of any two replicas are violations.",
    "note": "Trusted: faithfulness of yata_insert to Item::resolve_conflict at unit granularity (checked by the per-step tombstone-order correspondence).",
}

META["C01"] = {
    "category": "proof", "design_ref": "DESIGN.md section 6, C01",
    "technique": "Coq: unbounded theorems that the set of integrated operations, the deletion flags AND the order of concurrent sequence insertions (the transcribed Yjs conflict scan with right origins, any number of operations and clients, any admissible integration order without per-client FIFO) are schedule-independent; kernel-checked exhaustive enumerations kept as independent evidence; per-step correspondence of the real replicas (item order incl. tombstones) with the model's render under adversarial schedules (out of order, duplicated, merged, full-state relays in v1 and v2) and all permutations of short histories",
    "text": "Convergence is a statement over every history x schedule. The theorems settle it for the model without bound: what is integrated and what is deleted depends only on the delivered set, and for every well-formed history any two admissible integration orders produce the same sequence (diamond lemma over the origin forest). The tie to the code compares, after every single delivery on every replica, the full item order (tombstones included, expanded to units) with the model's rendering of the replica's integrated id set.",
    "note": "Trusted: unit-level abstraction of blocks, harness printers; the order theorem is stated for one sequence of unit insertions (deletions and keyed chains have their own theorems). The pinned tree violated C01 through the stuck stash (fixed, 0a72352).",
}
META["C05"] = {
    "category": "proof", "design_ref": "DESIGN.md section 6, C05",
    "technique": "Coq invariants of the model's keyed lists (all but the right-most entry deleted, in every reachable state; deletion monotone; a delete set deletes only what it names and the subtrees below) + happened-before oracle computed by the harness on the real replicas + per-step correspondence",
    "text": "The visible value of a key is the right-most entry of its chain; the theorems show that every other entry is deleted in every reachable state, that a deleted entry never becomes visible again through any later delivery, and that a removal erases only the ids it names (so a concurrent write is never erased by it). The harness computes the causal order itself and checks the register semantics on every causally closed state of every replica.",
    "note": "Which concurrent WRITE wins is decided by client id as in Yjs (not part of the property). Trusted: unit model, harness happened-before computation.",
}
META["C06"] = {
    "category": "proof", "design_ref": "DESIGN.md section 6, C06",
    "technique": "Coq theorems at operation-set level (state vector = first gap; diff against any vector below the receiver's is complete and leaves nothing stashed; monotone, idempotent, self-diff no-op) + all-pairs exchange on real replica states with gaps and stashes, v1/v2, own and stale vectors",
    "text": "The diff theorem quantifies over every pair of replica states and every vector the peer could legitimately hold; the harness exercises all ordered pairs of states reached in seeded histories, including stale vectors.",
    "note": "Known finding (KNOWN-FINDING line): content that the sender had integrated can end up in the receiver's stash because yrs stashes the rest of a client's blocks behind one block with a missing dependency; the receiver reports missing updates and integrates it once the gap is filled. Repaired on the way: write_blocks_from ignored blocks behind a gap (f694c28), Skip length mis-encoded (e7abf27).",
}
META["C07"] = {
    "category": "proof", "design_ref": "DESIGN.md section 6, C07",
    "technique": "Coq theorem by induction over transactions (a follower fed by 'what became integrated' holds the leader's ids after every step, stash empty) + followers fed by the real v1 and v2 event streams compared after every leader transaction, model follower through the Coq decoder, event-count oracle",
    "text": "Completeness of the log is an induction over all transaction sequences in the model; the harness ties the real encode_update output to it by decoding every event with the model's decoder and by comparing real followers after every transaction, for local edits, remote applies in any order, undo/redo and gc.",
    "note": "Pinned-tree defect repaired: an out-of-order remote apply made the leader emit an empty event (f694c28).",
}
META["C08"] = {
    "category": "proof", "design_ref": "DESIGN.md section 6, C08",
    "technique": "Coq: (1) the integrated set after delivering a merged / permuted / duplicated / re-batched collection of updates equals the one after sequential delivery (least closed set), delete-set union laws; (2) a statement-by-statement Gallina transcription of Update::merge_updates, proved to terminate on every input and to produce an update with exactly the units and delete ranges of its arguments (arguments that are views of one history), independent of order and nesting; + the extracted transcription run against merge_updates_v1 on every merge of the harness (2..5 and 22..40 arguments) + differential comparison of merge_updates / diff_updates / encode_state_vector_from_update with sequential application on real update pools, v1 and v2",
    "text": "The algebra is proved at operation-set level and for the k-way merge loop itself; the implementation's merge is compared with the transcription (same bytes) and with sequential application on pools with overlaps, duplicates, gaps, Skip and GC blocks.",
    "note": "diff_updates and encode_state_vector_from_update are transcribed and proved as well (Crdt/Diff.v). Known finding: a diff against a vector inside a surrogate pair shifts ids. A stash lag of the merged form is accepted only when it vanishes after delivering the whole history. Found by the transcription and repaired: the decoder order was not a total order (fd4802e: merge of more than 20 updates with Item/GC ties panicked).",
}
META["C13"] = {
    "category": "proof", "design_ref": "DESIGN.md section 6, C13",
    "technique": "Coq: re-delivering the operations a replica had integrated to an empty document integrates exactly them, deletion flags are a function of the delete set; + restore of every snapshot after every later step on real documents, v1/v2, codec round trip, gc refusal",
    "text": "Block slicing at the snapshot clock is what the unit model abstracts away, so its defects surface in the correspondence: three were found and repaired on the pinned tree (8d6075d, 9152c72).",
    "note": "Known finding: a snapshot taken while the store has gaps (operations integrated behind a missing block) cannot be restored exactly, because a state-vector shaped snapshot cannot describe them.",
}

def _m(cat, ref, tech, text, note): return {"category": cat, "design_ref": ref, "technique": tech, "text": text, "note": note}
META["C09"] = _m("proof", "DESIGN.md section 6, C09",
    "Coq round-trip theorems for the whole lib0 v1 layer and for lib0 v2 updates (the four column codecs and the composed nine-column update; unbounded: every value satisfying an explicit boolean well-formedness predicate) + byte-level correspondence of the Rust codecs with the Coq codecs (v1 and v2) on generated and hand-made payloads with ids over the whole 53-bit / u32 width + implementation round trips in v1 and v2 and Yjs fixtures",
    "Round trips are universally quantified statements: proved for every varint width, strings, nested Any, id sets, state vectors, snapshots, sticky indexes, awareness updates, every sync message, every block / content kind of updates in v1, and in v2 the IntDiffOptRle / UIntOptRle / Rle / string columns and whole updates. The Rust code is tied to the model by decoding the same bytes on both sides and by re-encoding (model bytes = Rust bytes).",
    "Partial: the v2 form of attributed id maps is covered by implementation round trips only. Repaired on the pinned tree: JSON content (9a4936a), v2 write_buf (976c4ca), Custom message tag (0a868d8), Skip length (e7abf27), v2 clock columns lost differences >= 2^30 (d9039ca, found by the proof), integrate overflowed on clocks >= 2^31 (5fb6db0), attribute lists of id maps compared in one direction only (7f9cd1e, found by the proof of the IdMap codec).")
META["C10"] = _m("proof", "DESIGN.md section 6, C10",
    "Coq totality theorems for every v1 decoder and for the lib0 v2 update decoder (for ALL byte strings: no modelled panic, no exhaustion of fuel, bounded nesting, decoded values satisfy the encoder's precondition) + outcome-class correspondence with the Rust decoders (v1 entry points and Update::decode_v2) + isolated worker subprocesses with a counting allocator, small stack and time limit for all 22 entry points",
    "Totality is a claim about all 256^n inputs; the theorems settle it for the modelled decoders, the correspondence shows the Rust decoders fall into the same outcome class on hundreds of thousands of mutated inputs, and the worker runs observe what no model can (aborts, stack, allocation, time).",
    "Partial by nature: runtime resources are observed, not proved. Known finding: a lib0 v2 update is not bounded by its input (run-length columns: 23 bytes -> 1 000 000 blocks; model witness v2_expansion). The pinned tree violated this property at about twenty sites (panics, aborts, multi-GB reservations, stack overflow, UB): repaired in df1cd64, cad7369, 0371611, d350b15, and RleDecoder::read_u8 (32185c6, found while modelling v2).")
META["C15"] = _m("proof", "DESIGN.md section 6, C15",
    "Coq: gc as a function on the unit-level document; visible content, lengths, map values and the integrated id set are invariant under gc in every reachable state; the YATA position of later items does not depend on collected contents; gc commutes with integration and delete sets + gc / no-gc twin replicas compared after every delivery, forced gc, rebuild from gc'ed state, mixed-setting exchanges",
    "GC may rewrite only what nobody can read: the theorems show that for the model in every reachable state; the twins check the real collector.",
    "The general 'gc replica = no-gc replica' theorem carries a side condition (ops not below a collected parent) that is discharged unconditionally only for documents without nested types; nested cases are covered by the twins.")
META["C03"] = _m("proof", "DESIGN.md section 6, C03",
    "Coq refinement theorems (local insert / remove / map write on the unit-level item list = the operation on the plain sequence / dictionary, whatever tombstones and marks surround it; rich-text calls on the item list with formatting markers = the call on a list of elements with attribute maps) + every rich-text call of generated programs against the extracted item-level model and the specification + generated programs against plain reference structures in both offset kinds, gc on/off",
    "The implementation's behaviour depends on the block layout left by earlier calls; the theorems quantify over every list (every layout at unit level), the programs reach real layouts (splits, squashes, tombstones, format marks).",
    "Rich text: the item-level algorithms are modelled and proved to refine the attributed sequence (Crdt/RichText.v; defect b6f7856 found by the proof). Partial: XML attribute maps and edits through nested types are decided by the reference comparison only.")
META["C17"] = _m("proof", "DESIGN.md section 6, C17",
    "pairwise comparison of every public read accessor on every state reached by the C03 programs (the deciding part) + Coq statements that all counts and the map entry derive from the same live units",
    "This property is about redundant implementation paths (cached counters, cursor vs linked-list walk); a model with a single representation cannot contain the bug class, so the weight is on the exhaustive pairwise comparison after every transaction.",
    "The theorems are thin by nature; the check is essentially differential.")
META["C14"] = _m("proof", "DESIGN.md section 6, C14",
    "Coq theorems over the unit-level list (resolves to the creation index; offset = live units left of the anchor (+1); moves under any insertion / deletion exactly by what happens left of the anchor; deleted anchor marks its gap; codec round trip) + resolution on every replica after every step against the hook dump",
    "The theorems quantify over all lists and all later insertions / deletions; the harness knows from the hook dump where a deleted anchor used to be.",
    "Anchors re-created by redo (follow_redone) are not modelled.")
META["C20"] = _m("proof", "DESIGN.md section 6, C20",
    "Coq theorems: a quotation is the live part of the segment between its anchors, sees later insertions in order, hides deletions; registration of units for a quotation (what drives observer notification) is sound in every reachable state and complete exactly while no unit of a non-empty range is deleted + dereference on every replica after every step against the hook dump + registered units (Store::linked_by) against the model of registration after every step + an observer on every quotation on every replica",
    "Found and repaired on the pinned tree: start anchor at a tombstone (fb007d9), quotation not materialized when it starts at the end of a block (71ba737), text quotations not sliced at their boundaries (b77dca2), links lost when a quoted block is split (19d2098), elements appended to an unbounded quotation not linked (21e026d).",
    "Known finding (proved of the model: lk_complete_refuted_*, lk_empty_range_never_registers): a quotation shows elements that no registered neighbour can pass it on to (next to tombstones, empty range, open end behind a deleted element) and its observers are not notified of them. Partial: link inheritance on block split and links to map entries are compared on the implementation only.")
META["C18"] = _m("proof", "DESIGN.md section 6, C18",
    "Coq: awareness as a per-client register (idempotent, order-insensitive on well-formed update sets for remote clients, clock monotone, lower clock never replaces, local state protected); handshake convergence at operation-set level (diff against any stale vector is complete; only the delivered set matters) + real Awareness/Protocol peers under seeded interleavings with concurrent edits and all permutations of awareness updates, model compared after every apply",
    "Order-insensitivity is a statement over all permutations and the handshake over all interleavings; both are proved for the model and exercised on the real peers.",
    "Model observation (documented, outside the property's quantifier): entries for the LOCAL client written by others with higher clocks are order-sensitive.")

META["C11"] = _m("proof", "DESIGN.md section 6, C11",
    "Coq theorems (unbounded, loop invariants) that the change list, the key changes and the rich-text delta computed by a line-by-line Gallina transcription of event_change_set / event_keys / TextEvent::get_delta are exact edit scripts for every item list; tied to the code by evaluating the extracted transcription on the item lists of real transactions inside the observer callback (same event, invariants hold, same before/after content) and by shadow copies of every reachable type maintained only from events",
    "Exactness of an edit script is a statement over all interleavings of added, deleted, pre-existing and tombstoned items - a space indexed by histories. The theorems settle it for the transcription for every item list; the correspondence makes the transcription print the implementation's own event on more than a hundred thousand real transactions per quick run and checks the theorems' hypotheses on each; the shadow-copy oracle additionally covers dispatch (which types fire, once, with which path), which is not modelled.",
    "Partial: observer dispatch (which types fire, at most once, deep bubbling) is decided on the implementation only. Known finding: an event (with a no-op edit script) fires for a type the transaction touched without changing its content. Two defects of the pinned tree (out-of-order integrated items invisible to event_keys / add_changed_type) repaired by fix commits 1419c27, 83fda94.")

META["C19"] = _m("proof", "DESIGN.md section 6, C19",
    "Coq theorems for the value cells (what is written through an input cell is what is stored, what is read back from an output cell is what is stored, tags distinct; model transcribed from yffi with tags regenerated from the source) + differential execution of generated C API programs against a natively driven twin: byte-equal encoded state after every transaction, every getter and output cell compared, exchange / snapshots / sticky indexes / undo manager / observers compared call by call",
    "Conformance of ~200 marshalling wrappers for all call sequences is a differential statement: nothing in the pinned suite executes yffi at all. The only part with mathematical content - the tagged value cells - is modelled and proved; everything else is decided by running the same program through both APIs and comparing the encoded state byte for byte and every value read back.",
    "Thin proof by nature: the wrappers are delegation and are decided differentially only (said in DESIGN.md). Cases run in child processes because a panic inside extern \"C\" aborts the process.")

META["C12"] = _m("proof", "DESIGN.md section 6, C12",
    "Coq model of the undo manager for a flat scope (capture steps, both stacks, try_process, re-creation through redone pointers) with the stack-mirror oracle as an executable definition; theorems: the inverse law for EVERY program of capture steps / undo / redo calls (unbounded; additionally enumerated on a finite universe inside the kernel), and unbounded invariants under interference (other origins' insertions stay visible, values and deletion flags never altered); tied to the code by comparing content / stack depths / return values with the implementation after every action of random flat programs, and by applying the same oracle to the implementation on all types incl. nesting, plus interference checks and convergence",
    "The inverse law quantifies over all histories, groupings and interleavings of undo / redo. The model makes the re-creation mechanics (copies placed next to the tombstone they re-create, map-entry conflict walk, resolution of captured insertions through chains of copies) explicit and the law is proved for every program without bound (through an abstract lineage model); the correspondence (about a million actions per thorough run) shows the implementation follows the model step for step on a flat scope, and the oracle itself is run on the implementation for everything the model does not cover.",
    "Partial: the model covers a flat scope; nested types are decided on the implementation only. Eight defects of the pinned tree repaired (two use-after-free, a panic, a divergence, four wrong results); no recorded finding remains.")
