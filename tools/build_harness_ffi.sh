#!/bin/sh
# Build the C-API harness (yffi/src/lib.rs compiled in as a module, yrs without `sync`) against /repo's current working tree.
set -e
ROOT=$(cd "$(dirname "$0")/.." && pwd)
cd "$ROOT/harness_ffi"
if [ ! -f Cargo.lock ] || [ /repo/Cargo.lock -nt Cargo.lock ]; then cp /repo/Cargo.lock Cargo.lock; fi
CARGO_NET_OFFLINE=true timeout 2400 cargo build --offline 2>&1 | tail -40
test -x "$ROOT/.build/target-ffi/debug/yv-harness-ffi"
