#!/bin/sh
# Build the C-API harness (yffi/src/lib.rs compiled in as a module, yrs without `sync`) against /repo's current working tree.
set -e
ROOT=$(cd "$(dirname "$0")/.." && pwd)
cd "$ROOT/harness_ffi"
if [ ! -f Cargo.lock ] || [ /repo/Cargo.lock -nt Cargo.lock ]; then cp /repo/Cargo.lock Cargo.lock; fi
# (the exit status of cargo decides: a build that fails must not leave the previous binary in use)
LOG=$(mktemp "$ROOT/.build/cargo-build.XXXXXX.log" 2>/dev/null || echo "$ROOT/.build/cargo-build.log")
mkdir -p "$ROOT/.build"
if CARGO_NET_OFFLINE=true timeout 2400 cargo build --offline > "$LOG" 2>&1; then tail -5 "$LOG"; rm -f "$LOG"; else tail -60 "$LOG"; rm -f "$LOG"; exit 1; fi
test -x "$ROOT/.build/target-ffi/debug/yv-harness-ffi"
