#!/usr/bin/env python3
"""Writes MANIFEST.json from tools/registry.py + tools/manifest_meta.py (kept in one place so it stays valid)."""
import json, os, sys
ROOT = os.path.join(os.path.dirname(os.path.abspath(__file__)), "..")
sys.path.insert(0, os.path.dirname(os.path.abspath(__file__)))
from registry import PROPS
from manifest_meta import META, NOT_APPLICABLE, HOOK_COMMITS

checks = []
for pid in sorted(PROPS):
    m = META[pid]
    checks.append({
        "property_id": pid,
        "quick_cmd": "./check %s --tier quick" % pid,
        "thorough_cmd": "./check %s --tier thorough" % pid,
        "evidence_file": "evidence/%s.json" % pid,
        "replay_cmd_template": "./check %s --replay {path}" % pid,
        "engine": "coq-model+correspondence",
        "level_claimed": {"category": m["category"], "text": m["text"], "design_ref": m["design_ref"]},
        "level_note": m["note"],
        "technique": m["technique"],
    })
man = {
    "version": 1,
    "setup_cmd": "./setup.sh",
    "hooks": {
        "guard": "--cfg y_crdt_y_crdt_verif",
        "enable": "harness/.cargo/config.toml sets rustflags = [\"--cfg\", \"y_crdt_y_crdt_verif\"]; the harness depends on /repo/yrs by path, so every check rebuilds yrs from the current working tree with the hook module yrs::verif compiled in",
        "baseline_off_cmd": "cd /repo && cargo test --workspace --no-fail-fast --offline",
        "source_commits": HOOK_COMMITS,
        "add_only": True,
    },
    "engines": [{
        "name": "coq-model+correspondence", "path": "check",
        "serves_properties": sorted(PROPS),
        "kind_free_text": "Rocq/Coq 8.16 theorems over a hand-written executable Gallina model (coq/), tied to /repo on every run by (a) tools/gen_consts.py regenerating coq/Gen/Consts.v from the Rust source and (b) a correspondence check: the model extracted to OCaml (runner/) and the implementation (harness/, built from /repo's working tree) run on the same inputs and compared after every step",
    }],
    "checks": checks,
    "not_applicable": [{"property_id": p, "reason": r} for p, r in sorted(NOT_APPLICABLE.items()) if p not in PROPS],
    "notes": "See DESIGN.md. known_findings.jsonl lists fixed / known findings; replays/ holds replay files written by failing checks.",
}
json.dump(man, open(os.path.join(ROOT, "MANIFEST.json"), "w"), indent=1)
print("MANIFEST.json: %d checks, %d not_applicable" % (len(checks), len(man["not_applicable"])))
