"""Per-property registry used by ./check: theorem names (checked with Print Assumptions on every run),
claimed level, coverage rule, trusted base."""

ALLOWED_AXIOMS = set()  # none: every property theorem must be closed under the global context

TRUSTED_BASE_COMMON = [
    "Coq 8.16.1 kernel incl. the VM (vm_compute / vm_cast) used by finite theorems; no native_compute",
    "no axioms declared; Print Assumptions of every listed theorem is checked on every run ('Closed under the global context' expected)",
    "tools/gen_consts.py: regex translator regenerating coq/Gen/Consts.v from /repo on every run",
    "extraction: ExtrOcamlBasic only (bool, option, list, prod, unit, sumbool -> OCaml natives); no Extract Constant / Extract Inductive of ours; N, Z, positive, nat stay inductives; OCaml 4.13.1; runner/main.ml driver (parsing/printing)",
    "Rust harness (/verif/harness): generators, canonical printers, oracles; hook module yrs::verif (cfg y_crdt_y_crdt_verif)",
]

PROPS = {
    "C16": {
        "level": "proof",
        "theorems": ["C16_binary_ops_exact", "C16_insert_remove_exact", "C16_contains_exact", "C16_construction_any_length"] + ["C16_UNBOUNDED_contains", "C16_UNBOUNDED_insert", "C16_UNBOUNDED_remove", "C16_UNBOUNDED_merge", "C16_UNBOUNDED_exclude", "C16_UNBOUNDED_intersect", "C16_UNBOUNDED_subset", "C16_UNBOUNDED_canonical_forms_are_unique", "C16_delete_set_of_a_document_is_exact"],
        "theorem_kinds": {
            "C16_binary_ops_exact": "finite (8-clock universe, all 65536 pairs; kernel VM, lifted by forallb_forall)",
            "C16_insert_remove_exact": "finite (all 256 sets x all 36 ranges)",
            "C16_contains_exact": "finite",
            "C16_construction_any_length": "unbounded in sequence length (induction), bounded clock universe",
            "C16_UNBOUNDED_contains": "unbounded", "C16_UNBOUNDED_insert": "unbounded", "C16_UNBOUNDED_remove": "unbounded", "C16_UNBOUNDED_merge": "unbounded", "C16_UNBOUNDED_exclude": "unbounded",
            "C16_UNBOUNDED_intersect": "unbounded", "C16_UNBOUNDED_subset": "unbounded", "C16_UNBOUNDED_canonical_forms_are_unique": "unbounded", "C16_delete_set_of_a_document_is_exact": "unbounded (any well-formed block store)",
        },
        "rule": "exhaustive enumeration of the bounded universe on the implementation (IdRanges<()> over n clocks: every pair x merge/exclude/intersect/subset_of, every set x every range x insert/remove, contains_clock; IdMap<u32> over m clocks x 2 attributes: every pair x merge_with/intersect_with/diff_with, every range x insert/remove) plus seeded random multi-client IdSet programs; each result is compared representation-exact with the Coq model (extracted) and with a bit-set oracle; a case is non-trivial when the first operand has >= 2 ranges and the operands overlap without being equal (pairs), or the set has >= 2 ranges (unary), or it is a multi-client program; distinct by printed operands",
        "trusted_base": ["modelled, not verified: IdMapInner per-client lifting (BTreeMap as sorted association list), ContentAttributes as list with set equality; partition_point modelled on partitioned (sorted) inputs only"],
        "modelled_not_verified": ["serde impls", "Hash impls", "DeleteSet::try_squash_with"],
        "assumptions": ["the finite theorems cover the bounded universe the property states; the C16_UNBOUNDED_* theorems (Ids/RangesProofs.v) cover every canonical range list over N for insert / remove / merge / exclude / intersect / contains / subset and uniqueness of canonical forms; DeleteSet::from_store and IdSet::iter_blocks are transcribed in Crdt/WriteBlocks.v and tied under C06 / C07"],
    },
}

HIST_RULE = "seeded multi-replica histories (2..4 replicas with distinct client ids incl. ids >= 2^32 and the maximal 53-bit id; local transactions of 1..3 API calls over text / rich text / embeds / array / map / XML / nested types interleaved with deliveries in v1 or v2), then every replica receives what it lacks in FIFO, reverse or random order with duplicated deliveries and merged (merge_updates_v1) relays; after EVERY step the hook dump of the replica (item order incl. tombstones expanded to units, deletion flags, content, integrated id set) is compared with the Coq model's render of that integrated id set, and the model's own dependency closure is compared with the replica's pending flag; histories with <= 5 messages are additionally replayed on a fresh replica in every permutation. A history is non-trivial when it contains at least two messages of which one was created while another was still undelivered to its author (real concurrency); distinct by (stream, case index)"

PROPS["C02"] = {
    "level": "proof",
    "theorems": ["C02_never_drops", "C02_stashed_iff_dependency_absent", "C02_liveness", "C02_monotone_idempotent_exact",
                 "C02_block_integrated_only_after_its_dependencies", "C02_apply_update_terminates", "C02_nothing_lost_between_store_and_stash", "C02_missing_vector_is_honest",
                 "C02_closed_update_is_integrated_completely", "C02_stash_is_retried_when_a_dependency_arrives", "C02_integrates_at_most_the_causal_closure", "C02_and_exactly_the_closure_for_closed_updates",
                 "C06_KNOWN_FINDING_block_stuck_behind_its_clients_stuck_block", "C06_KNOWN_FINDING_second_application_frees_it"],
    "theorem_kinds": {
        "C02_never_drops": "unbounded (induction over the delivery loop)",
        "C02_stashed_iff_dependency_absent": "unbounded; 'reports missing exactly while a dependency is absent' at stash level",
        "C02_liveness": "unbounded; any arrival order (Permutation) of a dependency-closed set empties the stash",
        "C02_monotone_idempotent_exact": "unbounded",
        "C02_block_integrated_only_after_its_dependencies": "unbounded: every store reachable by the transcription of apply_update / Update::integrate / BlockPicker",
        "C02_apply_update_terminates": "unbounded",
        "C02_nothing_lost_between_store_and_stash": "unbounded",
        "C02_closed_update_is_integrated_completely": "unbounded (ranking hypothesis)",
        "C06_KNOWN_FINDING_block_stuck_behind_its_clients_stuck_block": "witness (vm_compute), replayed against the code",
    },
    "rule": "after EVERY step of every replica the integrated ranges, the holes (Skip blocks), the pending flag and the pending.missing vector of the implementation (hook dump) must equal what the Coq transcription of apply_update computes when it is fed exactly the updates the implementation was given (same batching: single messages, merged pairs, state relays, duplicates); " + HIST_RULE,
    "trusted_base": ["modelled: dependency-driven delivery at unit level (deliver = closure under 'explicit dependencies integrated'); the implementation's block-level BlockPicker / PendingUpdate.missing bookkeeping is NOT modelled - it is tied to the model by the correspondence (has_missing_updates == model stash or pending deletes non-empty, integrated set == model closure whenever the model stash is empty)"],
    "modelled_not_verified": ["encode_state_as_update merge_pending (covered by C06/C08 checks)", "the eventual emptiness of the stash for the block-level algorithm (proved for the abstract delivery; for the transcription: conditional theorems + bounded checks, see Crdt/IntegrateProofs.v)"],
    "assumptions": ["the implementation may keep operations stashed while another stashed operation still lacks a dependency (one retry trigger per client); it must report missing updates exactly while the model's stash or pending delete set is non-empty"],
}
PROPS["C04"] = {
    "level": "proof",
    "theorems": ["C04_inserted_exactly_once", "C04_relative_order_stable", "C04_placed_between_origins", "C04_placed_right_of_origin",
                 "C04_placed_left_of_right_origin", "C04_deleted_never_visible_again",
                 "C04_split_changes_no_unit", "C04_squash_changes_no_unit", "C04_split_then_squash_is_identity", "C04_squash_conditions_are_necessary",
                 "C04_block_integration_refines_unit_integration", "C04_block_splits_are_invisible", "C04_position_does_not_depend_on_the_blocking"],
    "theorem_kinds": {
        "C04_inserted_exactly_once": "unbounded, any list, any item",
        "C04_relative_order_stable": "unbounded (per replica: every later state)",
        "C04_placed_between_origins": "unbounded",
        "C04_deleted_never_visible_again": "unbounded (through any delivery and any delete set)",
        "C04_split_changes_no_unit": "unbounded (every block, every split point; strings valid UTF-8 split at character boundaries)",
        "C04_squash_changes_no_unit": "unbounded (every pair of blocks satisfying the conditions of try_squash)",
        "C04_squash_conditions_are_necessary": "unbounded (no block at all has the concatenated unit view unless every condition holds)",
    },
    "rule": HIST_RULE + "; C04 oracle on every state of every replica: each unit id occurs once in its list, and the relative order of every pair of visible units agrees with every earlier observation of that pair on ANY replica of the history; at the end of every history the unit-level view of every replica's full state (id, origin, right origin, parent where transmitted, content of every unit) equals the unit-level view of the updates as first emitted (block splits and squashes are invisible); editor sessions (stream 140): for every local insertion and every delivered single-item update the extracted block-level transcription of Item::integrate (runner YIB step), fed the replica's block sequence before the step, must place every unit where the implementation has it afterwards",
    "trusted_base": ["cross-replica agreement of the order (same order on every replica) is the tombstone-level convergence of C01: proved for the finite universes of Crdt/YataFinite.v, otherwise established by the correspondence only"],
    "modelled_not_verified": ["map entries at block level (a multi-unit entry block behaves differently from its units: yib_map_entry_multi_unit_refuted; entries made by the API have length 1; tested by vm_compute sweeps, no theorem)", "Item::trim (offset > 0): every caller passes 0; partial theorem"],
    "assumptions": [],
}

import json as _json, os as _os
_GEN = _json.load(open(_os.path.join(_os.path.dirname(_os.path.abspath(__file__)), "props_generated.json")))
_MODEL_NOTE = "modelled: the CRDT at unit granularity (one item per clock tick, coq/Crdt/Doc.v): YATA integration transcribed from Item::resolve_conflict / integrate_item, deletion incl. nested subtrees, dependency-driven delivery; NOT modelled (correspondence only): block split / squash / slices, BlockIter, observers, sub-document life cycle, weak-link bookkeeping"

PROPS["C01"] = {
    "level": "proof",
    "theorems": _GEN["C01"],
    "theorem_kinds": {"C01_sequence_order_converges_5x3": "finite, kernel-checked enumeration (vm_compute), bound in the statement",
                      "C01_sequence_order_converges_6x2": "finite", "C01_sequence_order_converges_4x4": "finite",
                      "C01_integrated_set_is_schedule_independent": "unbounded", "C01_delete_sets_commute": "unbounded",
                      "C01_sequence_order_converges": "unbounded: origin-forest invariant of reachable lists, the scan computes an index among the children of the origin, diamond lemma for two admissible insertions, induction on the history (Crdt/YataUnboundedProofs.v, 2 770 lines)",
                      "C01_generated_histories_are_well_formed": "unbounded (links wf_history to the executable generator)"},
    "rule": "delete sets (of undelivered messages, or ranges inside blocks / over holes / beyond the clock / for unknown clients) applied to the stores of seeded flat histories with out-of-order delivery: block lists (clock, length, kind) inside the transaction and the unapplied rest (Store::pending_ds, hook dump) must equal the result of the Coq transcription of apply_delete; " + HIST_RULE + "; implementation-only oracle at quiescence: all replicas expose the same content through the public read API (text diff with attributes, arrays, maps, XML tree with sorted attributes, nested types) and the same item order incl. tombstones",
    "trusted_base": [_MODEL_NOTE, "order convergence is proved for one sequence of unit insertions (the setting of YataFinite.v); deletions are handled by the separate order-insensitivity theorems; nested types and map chains reuse the same insertion function per parent / key"],
    "modelled_not_verified": ["block-level integration of map entries (sequences are proved to refine the unit level: yib_integrate_refines_units; map chains tested only)", "BlockPicker order (transcribed in Crdt/Integrate.v for the stash logic)", "v2 encoding (the model consumes the v1 form of every update; v2 deliveries are checked by the implementation-only oracle)"],
    "assumptions": ["gc off and cleanup_formatting off on all replicas of these histories (C15 covers gc)", "embeds / format values are JSON-representable (they travel as JSON text)"],
    "coq_timeout": 2400,
}
PROPS["C05"] = {
    "level": "proof", "theorems": _GEN["C05"], "theorem_kinds": {},
    "rule": "key-focused seeded histories on the root map (2..5 replicas, 3 keys, unique tagged writes, nested map values, remove, clear, 1..3 calls per transaction; causal delivery while authors are active, arbitrary order afterwards); happened-before is computed by the harness from what each author had integrated; on every causally closed state of every replica: the visible value of a key was written by an operation that no received operation on the key causally follows, an absent key has a causally maximal removal, a maximal write may be invisible only if a concurrent WRITE exists, contains_key/len agree, deleted nested types have no live item below them; the model's render is compared after every step; plus the general histories of C01 restricted to map failures. Non-trivial = at least two operations on one key that are concurrent",
    "trusted_base": [_MODEL_NOTE], "modelled_not_verified": ["Branch.map pointer maintenance on split/squash"], "assumptions": [],
}
PROPS["C06"] = {
    "level": "proof", "theorems": _GEN["C06"], "theorem_kinds": {},
    "rule": "seeded 2..4 replica histories (general / text only / map only / array only / editor sessions in which every replica keeps typing at its cursor) with out-of-order deliveries (stashes, gaps); every ordered pair (A,B) of final replica states (B re-created by replaying exactly what it applied) x {encode_diff, encode_state_as_update} x {v1,v2} x {B's own vector, a stale vector recorded earlier}: B dominates A afterwards (state vector, integrated ids, deleted ids), the state vector never decreases, re-applying changes nothing, a diff against the own vector changes nothing, exchanging until nothing changes makes both equal; every encode_diff_v1 of every exchange is compared (through the model's decoder) with the extracted transcription of Store::write_blocks_from / DeleteSet::from_store / encode_diff fed the sender's block store (coq/Crdt/WriteBlocks.v, runner WBF diff). Non-trivial = a pair where one side has a gap or a stash",
    "trusted_base": [_MODEL_NOTE, "diff / state-vector theorems at operation-set level (coq/Crdt/SyncProofs.v) and for the transcribed encoder (coq/Crdt/WriteBlocksProofs.v: the units a diff carries are exactly those the remote vector lacks, the delete set is exactly the store's tombstones, the receiver is complete afterwards)"],
    "modelled_not_verified": ["ItemSlice::encode byte layout of one block (tied by the codec correspondence, C09)", "v2 run-length state"], "assumptions": [],
}
PROPS["C07"] = {
    "level": "proof", "theorems": _GEN["C07"], "theorem_kinds": {},
    "rule": "a leader (gc on in 1/3 of the cases) with v1+v2 update observers performs 6..16 transactions: local edits over all types, remote updates of two other replicas (any order, duplicates, partially known), undo / redo, empty transactions; two passive followers (cleanup off) fed only by the v1 / v2 stream are compared with the leader (public content) after EVERY transaction; a model follower fed by the v1 stream through the Coq decoder is compared at item level; the number of events per transaction is checked against whether the integrated or deleted id set changed; every v1 event is compared with the extracted transcription of TransactionMut::encode_update fed the store, the insert set and the delete set of the transaction (coq/Crdt/WriteBlocks.v, runner WBF txn), and no event may write a unit again that an earlier transaction integrated. Non-trivial = the leader applied at least one remote update",
    "trusted_base": [_MODEL_NOTE, "coq/Crdt/WriteBlocksProofs.v: wbf_txn_update_exact (an event holds exactly the units of the transaction's insert set and its delete set)"], "modelled_not_verified": ["byte layout of one block inside the event (C09 tie)", "commit ordering (cleanup, gc, squash before emit)", "when the event fires (implementation-side oracle only)"], "assumptions": [],
}
PROPS["C08"] = {
    "level": "proof", "theorems": _GEN["C08"], "theorem_kinds": {},
    "rule": "update pools from seeded histories (transaction updates, diffs against stale vectors, full states of replicas with gaps and GC blocks): merge_updates vs sequential application (v1, v2; duplicates, shuffled, nested), diff_updates vs apply, encode_state_vector_from_update on gap-free states; the Coq model decodes merged v1 updates and must reach the state it reaches from the inputs; every merge (2..5 arguments, four per case, and one of 22..40 arguments per case) is also computed by the extracted transcription of Update::merge_updates (Crdt/Merge.v) and must give the same update (same bytes, or the same decoded blocks where the implementation writes Any maps in hash order); likewise every diff_updates_v1 and encode_state_vector_from_update_v1 against the transcriptions of Crdt/Diff.v; the share of argument lists satisfying the hypothesis of the unit-preservation theorems (mrg_wf / mrg_wf_norm) is recorded. Documents are compared on public content, visible item order, integrated and deleted id sets, pending flag. Because yrs stashes the rest of a client's blocks behind a block with a missing dependency, a merged update may lag behind the sequential application until the dependency arrives: such a difference is accepted only if it disappears once every message of the history is delivered (counted as c08_merge_stash_lag_only)",
    "trusted_base": [_MODEL_NOTE, "Update::merge_updates is transcribed by hand (Crdt/Merge.v); slice::sort_by is modelled as a stable insertion sort, which is exact because the comparator is proved to be a total preorder"],
    "modelled_not_verified": ["the v2 entry points (merge_updates_v2, diff_updates_v2, encode_state_vector_from_update_v2) are the same transcribed functions between the v2 codecs of Codec/UpdateV2.v / WireV2.v: tied by correspondence (runner MRG merge2, DFF diff2, DFF sv2), no separate theorem"], "assumptions": [],
}
PROPS["C13"] = {
    "level": "proof", "theorems": _GEN["C13"], "theorem_kinds": {},
    "rule": "1..3 replica seeded histories (FIFO in 2/3 of the cases); snapshots of replica 0 at random points; after every later step every earlier snapshot is restored into a fresh document (encode_state_from_snapshot v1 and v2) and compared with the content recorded when it was taken; snapshot codec round trip v1/v2; a gc document must refuse; every snapshot is compared with the extracted transcription of ReadTxn::snapshot fed the store, every v1 restore with the transcription of encode_state_from_snapshot fed the store as it is at that later step (runner SNP), and the model's relation 'later store of the same replica' is evaluated on every (snapshot store, later store) pair; fixed input: a block list that ends at u32::MAX. Non-trivial = at least two snapshots in the history",
    "trusted_base": [_MODEL_NOTE, "content-level equality of the restored document relies on convergence (C01); the theorems give the integrated id set and the deletion flags"],
    "modelled_not_verified": ["ItemSlice::encode byte layout of one block (C09 tie)", "v2 restores (implementation's codec)", "the runner fills in parents the wire form omits before evaluating snp_extends_b"],
    "assumptions": ["a snapshot taken while the store has gaps cannot be exact with a state-vector shaped snapshot: known finding"],
}

_CODEC_NOTE = "modelled: the lib0 v1 layer (coq/Codec/*.v) function by function, with the error results of the repaired Rust code; NOT modelled: the v2 column codecs (UIntOptRle / IntDiffOptRle / Rle / String table) and the v2 framing - covered by the implementation-only round trips, v1<->v2 cross checks and the C10 worker runs; JSON text inside embeds / formats is opaque to the model; f64 <-> wire-form classification of numbers is not modelled"
PROPS["C09"] = {
    "level": "proof", "theorems": _GEN["C09"], "theorem_kinds": {},
    "rule": "per case: 18 varints (edge values, all widths), 4 nested Any values, an IdSet, StateVector, Snapshot, StickyIndex (binary v1/v2 + JSON), AwarenessUpdate, sync Message (every tag incl. custom 4..255) and every update of a seeded 2..3 replica history (transaction updates and full states, v1 and v2, gc and non-gc senders) plus 56 hand-made v1 updates with foreign content kinds x every origin / parent shape and 6 generated v1 updates with ids over the whole width of the wire types (53-bit clients, clocks and origin clocks around 2^30, 2^31, 3*10^9, u32::MAX: the v2 clock columns store differences); every v2 update (emitted, and the v2 re-encoding of every v1 update) is decoded by the Coq model of lib0 v2 to the same blocks as its v1 form, and the model's v2 encoding is byte-compared with the implementation's; 8 Yjs-generated fixtures copied from the repository's compatibility tests: decode(encode x) = x in v1 and v2, v1->v2->v1 gives the same blocks, same effect on a document, and the Coq model decodes the same v1 bytes to the same value, its own re-encoding decodes to the same blocks and has the same effect on a real document. A case is one generated bundle; all are non-trivial (distinct by index)",
    "trusted_base": [_CODEC_NOTE], "modelled_not_verified": ["serde adaptors", "Any::Number classification"], "assumptions": [],
}
PROPS["C10"] = {
    "level": "proof", "theorems": _GEN["C10"], "theorem_kinds": {},
    "rule": "22 public decoding entry points (update v1/v2, state vector, snapshot, delete set, id map, Any, sticky index, awareness update, sync message + MessageReader, merge / diff / state-vector-from-update on encoded updates) x inputs derived from valid payloads by byte flips, random bytes, truncations, extreme varints spliced over fields, duplicated chunks, deletions, plus deep-nesting / huge-count resource inputs; every decode runs in a worker subprocess (8 MiB stack, wall-clock limit) with a counting allocator: panic, abort, crash, timeout, a single allocation request above 64*len+64 KiB, or a decoded value that cannot be re-encoded is a violation; the outcome class (ok / err) is compared with the Coq decoders for the v1-modelled entry points and for Update::decode_v2 (the model of lib0 v2 runs in its own process under a 3 s / 6 GB guard; an input on which it gives up is counted, not compared). A resource failure of a v2 update reader is filed under the known finding (run-length expansion) only when the model reading the same bytes also yields a huge update or gives up. Non-trivial = a mutated input that the implementation rejects (distinct by entry point and bytes)",
    "trusted_base": [_CODEC_NOTE, "real stack depth, allocator behaviour and wall-clock time are observed by the worker runs only; the theorems bound fuel (= input length + 1), nesting depth and exclude every modelled panic site"],
    "modelled_not_verified": ["Update::merge_updates / encode_diff on decoded garbage (observed by the workers)"], "assumptions": [],
}
PROPS["C15"] = {
    "level": "proof", "theorems": _GEN["C15"], "theorem_kinds": {},
    "rule": "seeded 2..3 replica histories with mixed gc settings and deletions (plain content, nested types, map overwrites, formatting); a gc twin and a no-gc twin are fed the same updates (v1/v2, possibly shuffled) and compared after EVERY delivery (public content, state vector, pending flag); forced gc at random points must not change content; a document rebuilt from the gc'ed replica's full state (v1, v2) equals it; every ordered pair of replicas with different gc settings is exchanged until nothing changes; a third twin without automatic collection on which TransactionMut::gc is forced with None / its own delete set / a foreign delete set / arbitrary ranges (unaligned, in holes, beyond the store, unknown client): a panic is a violation, content must not change, and the store afterwards is compared unit by unit and branch by branch with the extracted transcription of the collector (runner GCB run). Non-trivial = the history deleted something",
    "trusted_base": [_MODEL_NOTE, "gc is modelled as a function on the unit-level document (contents of deleted items dropped, lists below deleted types removed) and, at block level, as the two-phase collector as written (coq/Crdt/GcBlocks.v)"],
    "modelled_not_verified": ["the squash after collection (try_squash_with / squash_left): compared per unit only", "ITEM_FLAG_KEEP bookkeeping of the undo manager (a flag per item in the block model)"], "assumptions": [],
}
PROPS["C03"] = {
    "level": "proof", "theorems": _GEN["C03"], "theorem_kinds": {},
    "rule": "single-replica programs of 10..60 transactions x 1..4 calls, two streams (plain: text insert / push / remove_range; rich: + insert_with_attributes / format / insert_embed), arrays (insert, insert_range, push_back, push_front, remove, remove_range, nested map / text prelims edited through fresh references), maps (insert, remove, try_update, clear, nested array, get_or_init), XML children and attributes; random offset kind (UTF-16 / bytes; multi-byte and astral characters, positions on character boundaries) and gc on/off; after every transaction every root is read back and compared with plain reference structures (string with attributes per character, vector, dictionary, tree). Non-trivial = a program with more than 10 calls",
    "trusted_base": [_MODEL_NOTE, "rich text attribute semantics (negated attributes, clean_format_gap) is NOT modelled: decided by the reference comparison only (partial)"],
    "modelled_not_verified": ["find_position / BlockIter cursor", "SplittableString::block_offset (bytes offsets)", "squash on commit"], "assumptions": ["arguments in range"],
}
PROPS["C17"] = {
    "level": "proof", "theorems": _GEN["C17"], "theorem_kinds": {},
    "rule": "the programs of C03: after every transaction, for every live type: len vs number of iterated elements vs to_json size; get(i) vs i-th iterated element for all i and two indexes past the end; text len vs get_string units + embeds; concat(diff chunks) vs get_string; map len / keys / values / iter / contains_key / get / to_json; XML children / get(i) / first_child / attributes / get_attribute; generated XML trees on documents that keep tombstones: every node read through len, children, first_child, get(0..len+1), successors, siblings forward / backward / a mixed next-next_back script, parent, and compared with the extracted Coq walks (Crdt/XmlWalk.v) over the item structure taken from the hook dump",
    "trusted_base": [_MODEL_NOTE, "for sequences and maps the model has one representation, so agreement of the implementation's redundant read paths (cached lengths, BlockIter, DiffAssembler) is decided by the correspondence; for XML trees the pointer walks are transcribed (Crdt/XmlWalk.v) and proved to describe one tree"],
    "modelled_not_verified": ["Branch.block_len / content_len caches of non-XML types", "string chunks below XmlText", "gc-collected tombstones in XML child lists"], "assumptions": [],
}
PROPS["C14"] = {
    "level": "proof", "theorems": _GEN["C14"], "theorem_kinds": {},
    "rule": "2..3 replica seeded histories on the root text and root array (inserts, range inserts, deletes; deliveries in any order); sticky indexes created at random valid positions with both associations, serialised (v1 / v2 / JSON) and resolved on EVERY replica that knows the anchor after EVERY step; expected offset computed from the hook dump (number of live units left of the anchoring unit, +1 for Before on a live anchor); creation must pick the neighbouring unit as anchor and resolve to the creation index; after every step on every replica, for both root sequences, every index 0..len+1 and both associations: anchor and resolved offset vs. the extracted block-level transcription (runner STK all), a panic is a violation; every earlier anchor's offset vs. the transcription (STK off); half of the histories count text offsets in bytes. Non-trivial = a history with at least one sticky index",
    "trusted_base": [_MODEL_NOTE], "modelled_not_verified": ["Store::follow_redone (anchors re-created by redo): identity in the block model", "move ranges (ContentMove) are out of scope of the block model"], "assumptions": [],
}
PROPS["C20"] = {
    "level": "proof", "theorems": _GEN["C20"], "theorem_kinds": {},
    "rule": "the histories of C14 with quotations of random ranges (inclusive / exclusive / unbounded ends, single element, empty) of the root array or text stored in the root map; every replica that has the quotation dereferences it after every step (unquote / get_string) and the result is compared with the live units between the boundary units in that replica's hook dump; deleting the quotation must leave the source untouched; an observer is registered on every quotation on every replica as soon as it exists there; after every step the units registered for the quotation in the implementation (Store::linked_by, hook dump) are compared with what the Coq model of registration (Crdt/Links.v) computes from the state before the step, and a step after which the quotation shows other ids must have called the observer unless the model says that no changed unit can be registered (known finding)",
    "trusted_base": [_MODEL_NOTE, "registration of units for a quotation is modelled per sequence and quotation (Crdt/Links.v: materialize, the neighbour rule of join_linked_range, unregistration on delete); inheritance of links on block split and map-entry links are not"],
    "modelled_not_verified": ["Item::inherit_links, Store::split_block link copy, TransactionMut::unlink", "observer dispatch of quotations beyond 'the registered set changed'"], "assumptions": [],
}
PROPS["C18"] = {
    "level": "proof", "theorems": _GEN["C18"], "theorem_kinds": {},
    "rule": "handshake: two real Awareness + DefaultProtocol peers with prior divergence (optionally a shared past; in a third of the cases an earlier full sync followed by offline transactions that mostly only delete, which leaves the state vectors where they were); both send start(); the two FIFO channels are drained in a seeded random interleaving mixed with concurrent local edits forwarded as Update messages; at quiescence both documents are equal at item level; every message is round-tripped. awareness: 2..4 producing clients (set / re-set / clean / timeout by a third party); every permutation of <= 5 updates plus a duplicated delivery applied to an observer and to a peer with a live local state: same registers for every order, clocks monotone, local state never erased; the Coq model is compared after every apply. Non-trivial = a handshake with an edit while messages are in flight, or an awareness multiset",
    "trusted_base": ["awareness is modelled entry by entry (coq/OpSet/Awareness.v); timestamps are excluded (injected clock)", _MODEL_NOTE],
    "modelled_not_verified": ["Protocol::handle dispatch (exercised, not modelled)", "observer events of Awareness"], "assumptions": ["each client writes only its own awareness entry (an entry for the local client id written by someone else with a higher clock is order-sensitive: model observation apply_not_commutative_local)"],
}

PROPS["C11"] = {
    "level": "proof", "theorems": _GEN["C11"], "theorem_kinds": {"C11_change_list_is_an_exact_edit_script": "unbounded (loop invariant over event_change_set)", "C11_key_change_is_exact_with_old_and_new_value": "unbounded", "C11_text_delta_is_an_exact_edit_script": "unbounded, formatting items included", "C11_deep_path_index_resolves_to_the_target": "unbounded"},
    "rule": "1..3 replicas (a third with GC on); EVERY reachable shared type of every replica (roots and nested types at any depth) is observed directly (observe, attached as soon as the type becomes reachable) and through observe_deep on its root; two shadow copies per type are maintained ONLY from the events (text delta with attributes in UTF-16 units, array / XML children change lists, map entry / XML attribute key changes with old-value check) and compared with the content read through the API after EVERY transaction, local or remote, in-order or out-of-order; deep event paths are compared with the position at which the target is reachable; observers fire at most once per transaction. Correspondence: inside the observer the store is dumped (hook) with the transaction's insert and delete sets; the extracted Coq transcription computes change list / key changes / text delta from the same item lists and must print the same event, its exactness statement must evaluate to true on those lists, the invariants the theorems assume (swf / kwf / twf) must hold of them, and the model's before / after content must equal what the API showed before / after. Non-trivial = a history with at least one remote transaction",
    "trusted_base": ["coq/Crdt/Events.v is a hand transcription of event_change_set, event_keys, TextEvent::get_delta, Branch::path (tied by the per-event correspondence above)", "values are interned tokens; token equality = equality of the harness's canonical print of the value"],
    "modelled_not_verified": ["dispatch: TransactionMut::call_observers / call_type_observers / add_changed_type and 'at most once per transaction' (checked on the implementation by the harness only)", "XmlEvent / XmlTextEvent plumbing around the three computations", "Weak link events"],
    "assumptions": ["UTF-16 offset kind", "hypotheses swf / kwf / twf of the theorems (deleted-in-transaction implies deleted, an added item can only have been deleted by the transaction, a new last entry of a key deletes its predecessor): checked on every real item list by the harness"],
}

PROPS["C19"] = {
    "level": "proof", "harness": "ffi", "theorems": _GEN["C19"], "theorem_kinds": {"C19_written_value_is_what_is_stored": "unbounded (structural induction over nested values)", "C19_read_back_is_what_is_stored": "unbounded", "C19_tags_distinct": "finite (constants)"},
    "rule": "generated programs of 20-60 C API calls grouped into transactions on a document created and driven ONLY through the exported extern \"C\" functions of yffi/src/lib.rs (compiled into the harness as a module), mirrored call by call with the native Rust API on a twin with the same options and client id; after EVERY transaction: encoded state v1 / v2 / state vector byte-equal, every getter compared with the Rust API on the twin and on the C document itself, every output cell walked with the youtput_read_ functions and compared with the Rust value and with the Coq model's output_of (runner command CELL); exchange of updates with a third natively driven replica, snapshots, sticky indexes, undo manager and observers compared call by call; every object released through its destroy function; cases run in child processes (a panic inside extern \"C\" aborts). Non-trivial = a case with a nested shared type or an exchange",
    "trusted_base": ["coq/Codec/Cells.v is a hand transcription of YInput::into / From<Any> for YOutput / the youtput_read_ readers; tags regenerated from yffi/src/lib.rs on every run", "the twin: the harness's own mapping from each C call to the native call it should equal"],
    "modelled_not_verified": ["all ~200 extern \"C\" wrappers (delegation; differential only)", "memory ownership across the boundary (exercised through the destroy functions, not proved)"],
    "assumptions": ["valid handles and in-range arguments, as the property states"],
}

PROPS["C12"] = {
    "level": "proof", "theorems": _GEN["C12"],
    "theorem_kinds": {"C12_inverse_law": "unbounded (abstract lineage model + run invariant: the mirror lists are the renders of the iterated stack-entry transformations)", "C12_inverse_law_finite_universe": "finite (kernel VM enumeration: 10^6 programs of length 6 over 10 actions + 138^3 programs of length 3 over 138 actions, all prefixes)", "C12_undo_redo_keep_other_origins_insertions": "unbounded (invariant over all programs incl. other origins)", "C12_values_and_deletion_flags_are_never_altered": "unbounded"},
    "rule": "three streams per case index, every case in a child process. flat: random programs over the root array and the root map (capture steps of 1-3 transactions under a controlled clock, transactions of another origin, undo, redo; GC on/off; tracked origin none or explicit) run on the implementation and on the extracted Coq model: visible content, both stack depths and the call's return value compared after EVERY action. inverse: scope = random non-empty subset of the four roots incl. nested types, formatting, XML; other origins (second local origin, remote peer) edit only outside the scope; the harness mirrors both stacks with the scoped content after each captured step (the oracle of UndoSpec.v) and requires every undo / redo call to land exactly on the mirrored content, passing over only steps that changed nothing visible. interference: other origins edit the scope too; undo / redo never changes a root outside the scope, deletes only tracked contributions or descendants of a container it deletes, leaves other origins' insertions visible unless a container above them went away; both replicas converge after exchanging everything. Non-trivial = a case with at least one undo call",
    "trusted_base": ["coq/Crdt/Undo.v is a hand transcription of UndoManager::handle_after_transaction / pop / try_process, ItemPtr::redo and Store::follow_redone for a flat scope (tied by the per-action correspondence of the flat stream)", "capture grouping is explicit in the model; the harness injects the clock"],
    "modelled_not_verified": ["nested shared types below the scope (ItemPtr::redo's parent re-creation and redone tracing across parents): decided on the implementation only", "text with formatting inside the scope (implementation only)", "GC / keep flags (implementation only)"],
    "assumptions": ["the inverse law is proved for the flat model (no nested types); programs start from the empty document"],
    "coq_timeout": 1800,
}
