"""Per-property registry used by ./check: theorem names (checked with Print Assumptions on every run),
claimed level, coverage rule, trusted base."""

ALLOWED_AXIOMS = set()  # none: every property theorem must be closed under the global context

TRUSTED_BASE_COMMON = [
    "Coq 8.16.1 kernel incl. the VM (vm_compute / vm_cast) used by finite theorems; no native_compute",
    "no axioms declared; Print Assumptions of every listed theorem is checked on every run ('Closed under the global context' expected)",
    "tools/gen_consts.py: regex translator regenerating coq/Gen/Consts.v from /repo on every run",
    "extraction: ExtrOcamlBasic only (bool, option, list, prod, unit, sumbool -> OCaml natives); no Extract Constant / Extract Inductive of ours; N, Z, positive, nat stay inductives; OCaml 4.13.1; runner/main.ml driver (parsing/printing)",
    "Rust harness (/verif/harness): generators, canonical printers, oracles; hook module yrs::verif (cfg y_crdt_y_crdt_verif)",
]

PROPS = {
    "C16": {
        "level": "proof",
        "theorems": ["C16_binary_ops_exact", "C16_insert_remove_exact", "C16_contains_exact", "C16_construction_any_length"],
        "theorem_kinds": {
            "C16_binary_ops_exact": "finite (8-clock universe, all 65536 pairs; kernel VM, lifted by forallb_forall)",
            "C16_insert_remove_exact": "finite (all 256 sets x all 36 ranges)",
            "C16_contains_exact": "finite",
            "C16_construction_any_length": "unbounded in sequence length (induction), bounded clock universe",
        },
        "rule": "exhaustive enumeration of the bounded universe on the implementation (IdRanges<()> over n clocks: every pair x merge/exclude/intersect/subset_of, every set x every range x insert/remove, contains_clock; IdMap<u32> over m clocks x 2 attributes: every pair x merge_with/intersect_with/diff_with, every range x insert/remove) plus seeded random multi-client IdSet programs; each result is compared representation-exact with the Coq model (extracted) and with a bit-set oracle; a case is non-trivial when the first operand has >= 2 ranges and the operands overlap without being equal (pairs), or the set has >= 2 ranges (unary), or it is a multi-client program; distinct by printed operands",
        "trusted_base": ["modelled, not verified: IdMapInner per-client lifting (BTreeMap as sorted association list), ContentAttributes as list with set equality; partition_point modelled on partitioned (sorted) inputs only"],
        "modelled_not_verified": ["BlockSliceIter (iter_blocks)", "serde impls", "Hash impls", "DeleteSet::from_store / try_squash_with (covered with the L1 correspondence, see C15/C01 evidence)"],
        "assumptions": ["bounded universe as the property states; unbounded statements for the simple operations are in Ids/RangesProofs.v when present"],
    },
}

HIST_RULE = "seeded multi-replica histories (2..4 replicas with distinct client ids incl. ids >= 2^32 and the maximal 53-bit id; local transactions of 1..3 API calls over text / rich text / embeds / array / map / XML / nested types interleaved with deliveries in v1 or v2), then every replica receives what it lacks in FIFO, reverse or random order with duplicated deliveries and merged (merge_updates_v1) relays; after EVERY step the hook dump of the replica (item order incl. tombstones expanded to units, deletion flags, content, integrated id set) is compared with the Coq model's render of that integrated id set, and the model's own dependency closure is compared with the replica's pending flag; histories with <= 5 messages are additionally replayed on a fresh replica in every permutation. A history is non-trivial when it contains at least two messages of which one was created while another was still undelivered to its author (real concurrency); distinct by (stream, case index)"

PROPS["C02"] = {
    "level": "proof",
    "theorems": ["C02_never_drops", "C02_stashed_iff_dependency_absent", "C02_liveness", "C02_monotone_idempotent_exact"],
    "theorem_kinds": {
        "C02_never_drops": "unbounded (induction over the delivery loop)",
        "C02_stashed_iff_dependency_absent": "unbounded; 'reports missing exactly while a dependency is absent' at stash level",
        "C02_liveness": "unbounded; any arrival order (Permutation) of a dependency-closed set empties the stash",
        "C02_monotone_idempotent_exact": "unbounded",
    },
    "rule": HIST_RULE,
    "trusted_base": ["modelled: dependency-driven delivery at unit level (deliver = closure under 'explicit dependencies integrated'); the implementation's block-level BlockPicker / PendingUpdate.missing bookkeeping is NOT modelled - it is tied to the model by the correspondence (has_missing_updates == model stash or pending deletes non-empty, integrated set == model closure whenever the model stash is empty)"],
    "modelled_not_verified": ["BlockPicker stack/switch control flow", "Update::merge_updates used when merging a new remainder into the stash", "encode_state_as_update merge_pending (covered by C06/C08 checks)"],
    "assumptions": ["the implementation may keep operations stashed while another stashed operation still lacks a dependency (one retry trigger per client); it must report missing updates exactly while the model's stash or pending delete set is non-empty"],
}
PROPS["C04"] = {
    "level": "proof",
    "theorems": ["C04_inserted_exactly_once", "C04_relative_order_stable", "C04_placed_between_origins", "C04_placed_right_of_origin",
                 "C04_placed_left_of_right_origin", "C04_deleted_never_visible_again"],
    "theorem_kinds": {
        "C04_inserted_exactly_once": "unbounded, any list, any item",
        "C04_relative_order_stable": "unbounded (per replica: every later state)",
        "C04_placed_between_origins": "unbounded",
        "C04_deleted_never_visible_again": "unbounded (through any delivery and any delete set)",
    },
    "rule": HIST_RULE + "; C04 oracle on every state of every replica: each unit id occurs once in its list, and the relative order of every pair of visible units agrees with every earlier observation of that pair on ANY replica of the history",
    "trusted_base": ["cross-replica agreement of the order (same order on every replica) is the tombstone-level convergence of C01: proved for the finite universes of Crdt/YataFinite.v, otherwise established by the correspondence only"],
    "modelled_not_verified": ["block split / squash (units of one block are consecutive by construction of units_of_item; the implementation's splice is compared through the unit-expanded dump)"],
    "assumptions": [],
}
