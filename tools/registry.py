"""Per-property registry used by ./check: theorem names (checked with Print Assumptions on every run),
claimed level, coverage rule, trusted base."""

ALLOWED_AXIOMS = set()  # none: every property theorem must be closed under the global context

TRUSTED_BASE_COMMON = [
    "Coq 8.16.1 kernel incl. the VM (vm_compute / vm_cast) used by finite theorems; no native_compute",
    "no axioms declared; Print Assumptions of every listed theorem is checked on every run ('Closed under the global context' expected)",
    "tools/gen_consts.py: regex translator regenerating coq/Gen/Consts.v from /repo on every run",
    "extraction: ExtrOcamlBasic only (bool, option, list, prod, unit, sumbool -> OCaml natives); no Extract Constant / Extract Inductive of ours; N, Z, positive, nat stay inductives; OCaml 4.13.1; runner/main.ml driver (parsing/printing)",
    "Rust harness (/verif/harness): generators, canonical printers, oracles; hook module yrs::verif (cfg y_crdt_y_crdt_verif)",
]

PROPS = {
    "C16": {
        "level": "proof",
        "theorems": ["C16_binary_ops_exact", "C16_insert_remove_exact", "C16_contains_exact", "C16_construction_any_length"],
        "theorem_kinds": {
            "C16_binary_ops_exact": "finite (8-clock universe, all 65536 pairs; kernel VM, lifted by forallb_forall)",
            "C16_insert_remove_exact": "finite (all 256 sets x all 36 ranges)",
            "C16_contains_exact": "finite",
            "C16_construction_any_length": "unbounded in sequence length (induction), bounded clock universe",
        },
        "rule": "exhaustive enumeration of the bounded universe on the implementation (IdRanges<()> over n clocks: every pair x merge/exclude/intersect/subset_of, every set x every range x insert/remove, contains_clock; IdMap<u32> over m clocks x 2 attributes: every pair x merge_with/intersect_with/diff_with, every range x insert/remove) plus seeded random multi-client IdSet programs; each result is compared representation-exact with the Coq model (extracted) and with a bit-set oracle; a case is non-trivial when the first operand has >= 2 ranges and the operands overlap without being equal (pairs), or the set has >= 2 ranges (unary), or it is a multi-client program; distinct by printed operands",
        "trusted_base": ["modelled, not verified: IdMapInner per-client lifting (BTreeMap as sorted association list), ContentAttributes as list with set equality; partition_point modelled on partitioned (sorted) inputs only"],
        "modelled_not_verified": ["BlockSliceIter (iter_blocks)", "serde impls", "Hash impls", "DeleteSet::from_store / try_squash_with (covered with the L1 correspondence, see C15/C01 evidence)"],
        "assumptions": ["bounded universe as the property states; unbounded statements for the simple operations are in Ids/RangesProofs.v when present"],
    },
}
