#!/usr/bin/env python3
"""Seeded changes (realistic regressions written by sub-agents that saw only the property text).

  seeded.py confirm <src-prefix> <id>     confirm a candidate in a scratch worktree under /tmp and, if it holds,
                                          store it as /verif/seeded/<id>/{patch.diff,demo.rs,note.txt,meta.json}
        <src-prefix> e.g. /tmp/mut/C16.1  (expects .patch .demo.rs .txt)
  seeded.py run <id> [--tier quick|thorough] [--props C01,C04]
                                          apply seeded/<id>/patch.diff to /repo, run ./check for the property
                                          (and any others given), undo with `git checkout -- .`, record the outcome
                                          in seeded/<id>/meta.json
  seeded.py table                         markdown table of all stored changes and what caught them
Nothing is ever committed to /repo; scratch worktrees and their build output are removed after use."""
import json, os, re, shutil, subprocess, sys, time
ROOT = os.path.dirname(os.path.dirname(os.path.abspath(__file__)))
SEEDED = os.path.join(ROOT, "seeded")
ENV = dict(os.environ, CARGO_NET_OFFLINE="true")

def sh(cmd, cwd=None, timeout=3000, env=None):
    p = subprocess.run(cmd, cwd=cwd, shell=isinstance(cmd, str), stdout=subprocess.PIPE, stderr=subprocess.STDOUT, timeout=timeout, env=env or ENV)
    return p.returncode, p.stdout.decode("utf-8", "replace")

def confirm(prefix, mid):
    try:
        os.close(os.open("/tmp/mut/confirm-%s.lock" % mid, os.O_CREAT | os.O_EXCL))
    except FileExistsError:
        print("another confirmation of %s is running or done" % mid); return 3
    prop = mid.split("-")[0]
    wt = "/tmp/mut/confirm-" + mid
    tgt = wt + "-target"
    env = dict(ENV, CARGO_TARGET_DIR=tgt)
    sh("git -C /repo worktree remove --force %s" % wt); shutil.rmtree(wt, ignore_errors=True)
    rc, out = sh("git -C /repo worktree add --detach %s HEAD" % wt)
    if rc != 0: print(out); return 2
    res = {"id": mid, "property": prop, "confirmed": False}
    try:
        rc, out = sh("git apply --check %s.patch" % prefix, cwd=wt)
        if rc != 0:
            res["reason"] = "patch does not apply to the current tree: " + out[-300:]; return finish(res, prefix, mid, store=False)
        demo = open(prefix + ".demo.rs").read()
        name = "seeded_" + re.sub(r"\W", "_", mid).lower()
        os.makedirs(os.path.join(wt, "yrs", "tests"), exist_ok=True)
        shutil.copy(prefix + ".demo.rs", os.path.join(wt, "yrs", "tests", name + ".rs"))
        # 1. unchanged tree: the demonstration passes (with the first feature set it compiles and passes under)
        for feats in ["", "--features weak", "--features sync", "--features weak,sync"]:
            rc, out = sh("cargo test -p yrs --test %s --offline %s" % (name, feats), cwd=wt, env=env)
            if rc == 0: break
        res["demo_features"] = feats
        res["demo_on_unchanged_tree"] = "pass" if rc == 0 else "FAIL"
        if rc != 0:
            res["reason"] = "demonstration fails on the unchanged tree: " + out[-600:]; return finish(res, prefix, mid, store=False)
        # 2. changed tree: compiles, the demonstration fails
        sh("git apply %s.patch" % prefix, cwd=wt)
        rc, out = sh("cargo test -p yrs --test %s --offline %s" % (name, feats), cwd=wt, env=env)
        res["demo_on_changed_tree"] = "fail" if rc != 0 else "PASS"
        m = re.search(r"test result: .*", out); res["demo_output"] = (m.group(0) if m else out[-300:])
        if rc == 0:
            res["reason"] = "demonstration passes with the change"; return finish(res, prefix, mid, store=False)
        if "could not compile" in out:
            res["reason"] = "does not compile: " + out[-600:]; return finish(res, prefix, mid, store=False)
        # 3. changed tree: the existing suite still passes (the slow data-set test is failing on the pinned tree already)
        os.remove(os.path.join(wt, "yrs", "tests", name + ".rs"))
        # (test_medium_data_set fails on the pinned tree; sync::awareness::test::awareness_summary compares wall-clock milliseconds and
        #  fails about one run in ten on the unchanged tree, more often under load)
        rc, out = sh("cargo test -p yrs --lib --offline -- --skip test_medium_data_set --skip awareness_summary", cwd=wt, env=env, timeout=3000)
        m = re.search(r"test result: .*", out); res["unit_suite"] = m.group(0) if m else out[-300:]
        if rc != 0:
            failed = sorted(set(re.findall(r"^test (\S+) \.\.\. FAILED", out, re.M)))
            res["unit_suite_failed"] = failed
            # timing-dependent tests fail under load on the unchanged tree as well: a test counts as failing only if it
            # fails again in three isolated re-runs
            still = []
            for t in failed:
                fails = 0
                for _ in range(3):
                    rc2, _o = sh("cargo test -p yrs --lib --offline -- --exact %s" % t, cwd=wt, env=env, timeout=1200)
                    fails += rc2 != 0
                if fails: still.append("%s (%d/3)" % (t, fails))
            res["unit_suite_failed_again_in_isolation"] = still
            if still or not failed:
                res["reason"] = "existing tests fail with the change"; return finish(res, prefix, mid, store=False)
        res["confirmed"] = True
        return finish(res, prefix, mid, store=True)
    finally:
        sh("git -C /repo worktree remove --force %s" % wt); shutil.rmtree(wt, ignore_errors=True); shutil.rmtree(tgt, ignore_errors=True)

def finish(res, prefix, mid, store):
    print(json.dumps(res, indent=1))
    if store:
        d = os.path.join(SEEDED, mid); os.makedirs(d, exist_ok=True)
        shutil.copy(prefix + ".patch", os.path.join(d, "patch.diff"))
        shutil.copy(prefix + ".demo.rs", os.path.join(d, "demo.rs"))
        if os.path.exists(prefix + ".txt"): shutil.copy(prefix + ".txt", os.path.join(d, "note.txt"))
        meta = {"id": mid, "property": res["property"], "confirmed_on": time.strftime("%Y-%m-%d"), "confirmation": res, "runs": []}
        json.dump(meta, open(os.path.join(d, "meta.json"), "w"), indent=1)
    return 0 if store else 1

def run(mid, tier, props):
    d = os.path.join(SEEDED, mid)
    meta = json.load(open(os.path.join(d, "meta.json")))
    rc, out = sh("git -C /repo status --porcelain")
    if out.strip():
        print("refusing: /repo has local changes:\n" + out); return 2
    rc, out = sh("git -C /repo apply %s" % os.path.join(d, "patch.diff"))
    if rc != 0:
        print("patch does not apply: " + out); return 2
    try:
        for p in props or [meta["property"]]:
            t0 = time.time()
            rc, out = sh([os.path.join(ROOT, "check"), p, "--tier", tier], cwd=ROOT, timeout=6000)
            lines = [l for l in out.splitlines() if l.startswith("VIOLATION") or l.startswith("KNOWN-FINDING")]
            viol = [l for l in lines if l.startswith("VIOLATION")]
            rec = {"check": p, "tier": tier, "exit": rc, "caught": rc == 1 and bool(viol), "violation": viol[:1], "seconds": round(time.time() - t0, 1)}
            if viol:
                m = re.search(r"replay=(\S+)", viol[0])
                if m and os.path.exists(os.path.join(ROOT, m.group(1))):
                    try:
                        r = json.load(open(os.path.join(ROOT, m.group(1))))
                        c = r.get("case", {})
                        rec["failure_class"] = c.get("class") if isinstance(c, dict) else None
                        rec["no_failing_input_found"] = viol[0].rstrip().endswith("no-failing-input-found")
                    except Exception: pass
            meta["runs"] = [x for x in meta["runs"] if not (x["check"] == p and x["tier"] == tier)] + [rec]
            print(json.dumps(rec))
    finally:
        sh("git -C /repo checkout -- .")
        # replays written while the change was applied are not evidence about the unchanged tree
        sh("git -C %s checkout -- replays evidence 2>/dev/null; git -C %s clean -fdq replays" % (ROOT, ROOT))
    json.dump(meta, open(os.path.join(d, "meta.json"), "w"), indent=1)
    return 0

def table():
    rows = []
    for mid in sorted(os.listdir(SEEDED)):
        mp = os.path.join(SEEDED, mid, "meta.json")
        if not os.path.exists(mp): continue
        m = json.load(open(mp))
        note = ""
        np_ = os.path.join(SEEDED, mid, "note.txt")
        if os.path.exists(np_): note = open(np_).read().strip().split("\n")[0][:160]
        runs = "; ".join("%s %s: %s%s" % (r["check"], r["tier"], "caught" if r["caught"] else "MISSED", (" (" + str(r.get("failure_class")) + ")") if r.get("failure_class") else "") for r in m["runs"])
        rows.append("| %s | %s | %s | %s |" % (mid, m["property"], note.replace("|", "/"), runs))
    print("| id | property | change | checks |\n|---|---|---|---|\n" + "\n".join(rows))

if __name__ == "__main__":
    a = sys.argv[1:]
    if a and a[0] == "confirm": sys.exit(confirm(a[1], a[2]))
    if a and a[0] == "run":
        tier = a[a.index("--tier") + 1] if "--tier" in a else "quick"
        props = a[a.index("--props") + 1].split(",") if "--props" in a else None
        sys.exit(run(a[1], tier, props))
    if a and a[0] == "table": table(); sys.exit(0)
    print(__doc__); sys.exit(2)
