#!/bin/bash
# run the property's check against every stored seeded change that has no run yet: quick first, thorough if quick missed it
cd /verif
for d in seeded/*/; do
  id=$(basename $d)
  n=$(python3 -c "import json;print(len(json.load(open('seeded/$id/meta.json'))['runs']))")
  [ "$n" != "0" ] && continue
  python3 tools/seeded.py run $id --tier quick > /tmp/mut/run-$id.log 2>&1
  caught=$(python3 -c "import json;print(any(r['caught'] for r in json.load(open('seeded/$id/meta.json'))['runs']))")
  if [ "$caught" != "True" ]; then python3 tools/seeded.py run $id --tier thorough >> /tmp/mut/run-$id.log 2>&1; fi
  echo "$id: $(python3 -c "import json;print([(r['tier'],r['caught'],r.get('failure_class'),r.get('no_failing_input_found')) for r in json.load(open('seeded/$id/meta.json'))['runs']])")"
done
