#!/bin/sh
# Extract the model to OCaml and build the runner. Rebuilds only when inputs changed.
set -e
ROOT=$(cd "$(dirname "$0")/.." && pwd)
B=$ROOT/.build/runner
mkdir -p "$B"
cd "$B"
STAMP=$(cat "$ROOT"/coq/Extract/Extract.v "$ROOT"/runner/main.ml $(sed -n 's/^\(.*\.v\)$/\1/p' "$ROOT"/coq/_CoqProject | grep -v 'Props/\|Proofs\|_proofs\|Finite' | sed "s#^#$ROOT/coq/#") 2>/dev/null | md5sum | cut -d' ' -f1)
if [ -x model.exe ] && [ "$(cat stamp 2>/dev/null)" = "$STAMP" ]; then exit 0; fi
timeout 600 coqc -Q "$ROOT/coq" YV "$ROOT/coq/Extract/Extract.v" -o "$B/Extract.vo" > extract.log 2>&1 || { cat extract.log; exit 1; }
cp "$ROOT/runner/main.ml" main.ml
timeout 600 ocamlfind ocamlopt -O3 -unboxed-types 2>/dev/null -package str model.mli model.ml main.ml -o model.exe > ocaml.log 2>&1 || \
timeout 600 ocamlfind ocamlopt -w -a model.mli model.ml main.ml -o model.exe > ocaml.log 2>&1 || { cat ocaml.log; exit 1; }
echo "$STAMP" > stamp
