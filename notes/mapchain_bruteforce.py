import itertools, sys
from yata import integrate, canon, all_orders
def preorder(items):
    kids = {}
    for it in items: kids.setdefault(it['origin'], []).append(it)
    out = []
    def rec(o):
        for k in sorted(kids.get(o, []), key=lambda i: i['id'][0]):
            out.append(k['id']); rec(k['id'])
    rec(None)
    return out
def gen(n, nclients):
    def rec(k, items, views, clocks):
        if k == n:
            yield items; return
        for c in range(1, nclients+1):
            own = [i for i,it in enumerate(items) if it['id'][0]==c]
            others = [i for i in range(len(items)) if items[i]['id'][0]!=c]
            for r in range(len(others)+1):
                for extra in itertools.combinations(others, r):
                    view = set(own) | set(extra)
                    closed = set(view); changed = True
                    while changed:
                        changed = False
                        for i in list(closed):
                            for j in views[i]:
                                if j not in closed: closed.add(j); changed = True
                    if closed != view: continue
                    lst = canon([items[i] for i in sorted(view)])
                    origin = lst[-1]['id'] if lst else None
                    it = dict(id=(c, clocks.get(c,0)), origin=origin, ro=None)
                    nc = dict(clocks); nc[c] = nc.get(c,0)+1
                    yield from rec(k+1, items+[it], views+[frozenset(view)], nc)
    yield from rec(0, [], [], {})
n = int(sys.argv[1]); nc = int(sys.argv[2])
cnt=bad=0
for h in gen(n, nc):
    cnt+=1
    exp = preorder(h)
    for lst in all_orders(h):
        ids=[i['id'] for i in lst]
        if ids != exp:
            bad+=1
            if bad<5: print("MISMATCH", h, ids, exp)
            break
print("histories", cnt, "bad", bad)
