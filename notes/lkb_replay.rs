// Replays of the block-level findings about `linked` / `Store::linked_by` (quotations).
// cargo test -p yrs --test lkb_replay --features weak -- --nocapture   (RUSTFLAGS="--cfg y_crdt_y_crdt_verif")
#![cfg(all(feature = "weak", y_crdt_y_crdt_verif))]

use std::sync::atomic::{AtomicUsize, Ordering};
use std::sync::Arc;
use yrs::types::text::YChange;
use yrs::verif::{dump_store, VBlock};
use yrs::{Array, Doc, GetString, Map, Observable, Options, Quotable, ReadTxn, Text, Transact};

fn show<T: ReadTxn>(label: &str, txn: &T, client: u64) -> (Vec<(u32, u32, bool, bool)>, Vec<(u32, u32, usize)>) {
    let st = dump_store(txn);
    let mut blocks = Vec::new();
    for (c, bl) in st.blocks.iter() {
        if *c != client {
            continue;
        }
        for b in bl {
            if let VBlock::Item(i) = b {
                blocks.push((i.id.clock, i.len, i.deleted, i.linked));
            }
        }
    }
    let links: Vec<(u32, u32, usize)> = st
        .links
        .iter()
        .filter(|(id, _, _)| id.client.get() == client)
        .map(|(id, len, qs)| (id.clock, *len, qs.len()))
        .collect();
    println!("{label}: blocks (clock,len,deleted,linked) = {:?}", blocks);
    println!("{label}: linked_by (clock,len,#quotations) = {:?}", links);
    (blocks, links)
}

/// F1: a block integrated next to a flagged block gets the `linked` flag although no quotation takes it
/// (join_linked_range sets the flag before it knows whether `common` is empty).  The flag spreads to every
/// later neighbour and flagged blocks are never squashed: typing after a quoted word keeps one block per
/// keystroke for ever.
#[test]
fn f1_flag_without_entry_blocks_squash() {
    let run = |with_quote: bool| {
        let doc = Doc::with_client_id(1);
        let text = doc.get_or_insert_text("text");
        let map = doc.get_or_insert_map("map");
        text.insert(&mut doc.transact_mut(), 0, "ab");
        if with_quote {
            let mut txn = doc.transact_mut();
            let q = text.quote(&txn, 0..=1).unwrap();
            map.insert(&mut txn, "q", q);
        }
        for (i, ch) in ["c", "d", "e", "f", "g", "h"].iter().enumerate() {
            text.insert(&mut doc.transact_mut(), 2 + i as u32, ch);
        }
        let txn = doc.transact();
        assert_eq!(text.get_string(&txn), "abcdefgh");
        show(if with_quote { "F1 quoted" } else { "F1 control" }, &txn, 1)
    };
    let (control, _) = run(false);
    let (quoted, links) = run(true);
    // clock 2 of the quoted run is the item that holds the quotation itself (in the map)
    let text_blocks = |v: &Vec<(u32, u32, bool, bool)>, skip: Option<u32>| v.iter().filter(|b| Some(b.0) != skip).count();
    println!("F1: control has {} blocks, with a quotation of \"ab\" {} blocks", control.len(), quoted.len());
    // the typed characters c..h are outside the quotation (inclusive end at b) ...
    assert_eq!(links.iter().map(|l| l.1).sum::<u32>(), 2);
    // ... yet every one of them is flagged and kept as a block of its own
    let flagged_unregistered = quoted.iter().filter(|b| b.3 && !links.iter().any(|l| l.0 == b.0)).count();
    println!("F1: flagged blocks without an entry in linked_by: {}", flagged_unregistered);
    assert!(flagged_unregistered >= 6);
    assert_eq!(text_blocks(&control, None), 1);
    assert_eq!(text_blocks(&quoted, Some(2)), 7);
}

/// F2: TransactionMut::delete removes the entry of a quoted block but leaves its `linked` flag.
#[test]
fn f2_delete_leaves_flag() {
    let doc = Doc::with_client_id(1);
    let arr = doc.get_or_insert_array("array");
    let map = doc.get_or_insert_map("map");
    arr.insert_range(&mut doc.transact_mut(), 0, [1, 2, 3]);
    {
        let mut txn = doc.transact_mut();
        let q = arr.quote(&txn, 0..=2).unwrap();
        map.insert(&mut txn, "q", q);
    }
    arr.remove(&mut doc.transact_mut(), 1);
    let txn = doc.transact();
    let (blocks, links) = show("F2", &txn, 1);
    let tomb = blocks.iter().find(|b| b.0 == 1).unwrap();
    assert!(tomb.2 && tomb.3, "the deleted element is still flagged");
    assert!(!links.iter().any(|l| l.0 == 1), "and has no entry");
}

/// F3: TransactionMut::split_by_snapshot (Text::diff_range) still splits with BlockStore::split_block:
/// the right half of a quoted block keeps the flag and loses its entry in linked_by (the defect fixed
/// in 19d2098 for the other split sites).  Deleting a character of that half no longer notifies the
/// observers of the quotation.
#[test]
fn f3_split_by_snapshot_drops_entry() {
    let run = |with_diff: bool| -> usize {
        let mut o = Options::with_client_id(yrs::block::ClientID::new(1));
        o.skip_gc = true;
        let doc = Doc::with_options(o);
        let text = doc.get_or_insert_text("text");
        let map = doc.get_or_insert_map("map");
        text.insert(&mut doc.transact_mut(), 0, "hello");
        let prev = doc.transact_mut().snapshot();
        text.insert(&mut doc.transact_mut(), 5, " world");
        let next = doc.transact_mut().snapshot();
        let link = {
            let mut txn = doc.transact_mut();
            let q = text.quote(&txn, 0..=10).unwrap();
            map.insert(&mut txn, "q", q)
        };
        show("F3 after quote", &doc.transact(), 1);
        if with_diff {
            let _ = text.diff_range(&mut doc.transact_mut(), Some(&next), Some(&prev), YChange::identity);
            show("F3 after diff_range", &doc.transact(), 1);
        }
        let calls = Arc::new(AtomicUsize::new(0));
        let c = calls.clone();
        let _sub = link.observe(move |_, _| {
            c.fetch_add(1, Ordering::SeqCst);
        });
        text.remove_range(&mut doc.transact_mut(), 7, 1); // the 'o' of "world"
        assert_eq!(link.get_string(&doc.transact()), "hello wrld");
        let (blocks, links) = show(if with_diff { "F3 diff, after remove" } else { "F3 control, after remove" }, &doc.transact(), 1);
        let _ = (blocks, links);
        calls.load(Ordering::SeqCst)
    };
    let control = run(false);
    let with_diff = run(true);
    println!("F3: quotation observer calls: control {}, after diff_range {}", control, with_diff);
    assert_eq!(control, 1);
    assert_eq!(with_diff, 0, "the quotation is not told that a quoted character was removed");
}

// (The unit-level / block-level difference for an end bound that is absent from the sequence - see
// lkb_c_materialize_end_absent - is NOT reachable through updates: Update::integrate treats both bounds of a
// quotation as dependencies of the item that holds it (update.rs, `missing`), so the item waits in
// Store::pending until they have arrived.  Tried with three writers and out-of-order delivery: linked_by is the
// same as with in-order delivery.)

/// F5 (gc of a linked item): LinkSource::materialize registers the tombstones inside the range;
/// TransactionMut::delete skips children that are deleted already when the parent type is removed, so their
/// entries stay in linked_by; the collector then replaces those children by GC ranges (parent_gc) and frees
/// the items: linked_by keeps keys that point to freed items.
#[test]
fn f5_gc_leaves_dangling_key() {
    use yrs::ArrayPrelim;
    let doc = Doc::with_client_id(1);
    let root = doc.get_or_insert_map("root");
    let arr = root.insert(&mut doc.transact_mut(), "arr", ArrayPrelim::default()); // clock 0
    arr.insert_range(&mut doc.transact_mut(), 0, [1, 2, 3]); // clocks 1..3
    arr.remove(&mut doc.transact_mut(), 1); // 2 becomes a tombstone (clock 2)
    {
        let mut txn = doc.transact_mut();
        let q = arr.quote(&txn, 0..=1).unwrap(); // [1, 3] with the tombstone in between
        root.insert(&mut txn, "q", q);
    }
    {
        let txn = doc.transact();
        let st = dump_store(&txn);
        println!("F5 before: links = {:?}", st.links.iter().map(|(id, len, q)| (id.clock, *len, q.len())).collect::<Vec<_>>());
        assert!(st.links.iter().any(|(id, _, _)| id.clock == 2), "the tombstone is registered");
    }
    root.remove(&mut doc.transact_mut(), "arr"); // deletes the array; commit collects its children
    let txn = doc.transact();
    // NOTE: dump_store (like `{:?}` of the store) reads the id through the dangling key: undefined behaviour
    // that happens to return the old bytes here; run under miri / ASan to see the use-after-free reported
    let st = dump_store(&txn);
    let gc_ranges: Vec<(u32, u32)> = st.blocks.iter().flat_map(|(_, bl)| bl.iter()).filter_map(|b| match b {
        VBlock::GC(id, len) => Some((id.clock, *len)),
        _ => None,
    }).collect();
    let keys: Vec<u32> = st.links.iter().map(|(id, _, _)| id.clock).collect();
    println!("F5 after gc: GC ranges (clock,len) = {:?}, linked_by keys (clock) = {:?}", gc_ranges, keys);
    assert!(gc_ranges.iter().any(|(k, l)| *k <= 2 && 2 < k + l), "the tombstone 1#2 was replaced by a GC range");
    assert!(keys.contains(&2), "and linked_by still has the key that pointed to it");
}
