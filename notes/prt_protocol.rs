// Replays of the protocol-level observations of the Coq model NS.Protocol (prt_*).
#![cfg(feature = "sync")]
use std::sync::atomic::{AtomicUsize, Ordering};
use std::sync::Arc;
use yrs::sync::{Awareness, DefaultProtocol, Message, Protocol, SyncMessage};
use yrs::updates::decoder::Decode;
use yrs::updates::encoder::{Encode, Encoder, EncoderV1};
use yrs::{Doc, GetString, ReadTxn, StateVector, Text, Transact, Update};

fn start_bytes(a: &Awareness) -> Vec<u8> {
    let mut enc = EncoderV1::new();
    DefaultProtocol.start(a, &mut enc).unwrap();
    enc.to_vec()
}

fn encode_all(ms: &[Message]) -> Vec<u8> {
    let mut enc = EncoderV1::new();
    for m in ms {
        m.encode(&mut enc);
    }
    enc.to_vec()
}

/// full handshake: both start, every reply is delivered
fn handshake(a: &mut Awareness, b: &mut Awareness) {
    let sa = start_bytes(a);
    let sb = start_bytes(b);
    let ra = DefaultProtocol.handle(a, &sb).unwrap();
    let rb = DefaultProtocol.handle(b, &sa).unwrap();
    let ra2 = DefaultProtocol.handle(b, &encode_all(&ra)).unwrap();
    let rb2 = DefaultProtocol.handle(a, &encode_all(&rb)).unwrap();
    assert!(ra2.is_empty() && rb2.is_empty());
}

// F-A: a remote removal of the live local state bumps the local clock but nothing is broadcast
// and no event is emitted (the comment in apply_update_internal says "Broadcast a message").
#[test]
fn prt_protect_bump_is_silent() {
    let mut a = Awareness::new(Doc::with_client_id(1));
    let mut b = Awareness::new(Doc::with_client_id(2));
    a.set_local_state_raw("{\"x\":1}");
    handshake(&mut a, &mut b);
    let ida = a.client_id();
    assert_eq!(b.meta(ida).map(|m| m.0), Some(1));
    let events = Arc::new(AtomicUsize::new(0));
    let ev = events.clone();
    let _sub = a.on_update(move |_, _, _| {
        ev.fetch_add(1, Ordering::SeqCst);
    });
    // B decides A is offline
    b.remove_state(ida);
    assert_eq!(b.meta(ida).map(|m| m.0), Some(2));
    let msg = Message::Awareness(b.update_with_clients([ida]).unwrap());
    let replies = DefaultProtocol.handle(&mut a, &msg.encode_v1()).unwrap();
    println!(
        "A after remote removal: meta={:?} state={:?} replies={} events={}",
        a.meta(ida).map(|m| m.0),
        a.local_state_raw(),
        replies.len(),
        events.load(Ordering::SeqCst)
    );
    // local state kept, clock bumped past the removal
    assert_eq!(a.local_state_raw().as_deref(), Some("{\"x\":1}"));
    assert_eq!(a.meta(ida).map(|m| m.0), Some(3));
    // ... but nobody is told: no reply, no update event
    assert!(replies.is_empty());
    assert_eq!(events.load(Ordering::SeqCst), 0);
    // B keeps showing A as offline
    assert!(b.iter().any(|(id, s)| id == ida && s.data.is_none()));
    // only a later query (or handshake) repairs it
    let q = DefaultProtocol
        .handle(&mut a, &Message::AwarenessQuery.encode_v1())
        .unwrap();
    DefaultProtocol.handle(&mut b, &encode_all(&q)).unwrap();
    assert!(b.iter().any(|(id, s)| id == ida && s.data.is_some() && s.clock == 3));
}

// F-B: Protocol::handle over a buffer with several messages: an error drops the replies already
// computed and keeps the state changes already made
#[test]
fn prt_handle_partial_failure() {
    let mut a = Awareness::new(Doc::with_client_id(1));
    let mut c = Awareness::new(Doc::with_client_id(3));
    c.set_local_state_raw("{\"c\":3}");
    let buf = encode_all(&[
        Message::Awareness(c.update().unwrap()),
        Message::Sync(SyncMessage::SyncStep1(StateVector::default())),
        Message::Custom(9, vec![1, 2]),
    ]);
    let r = DefaultProtocol.handle(&mut a, &buf);
    println!("partial failure: {:?}", r.as_ref().err());
    assert!(r.is_err());
    // the awareness update of the first message stays applied
    assert!(a.iter().any(|(id, s)| id == c.client_id() && s.data.is_some()));
}

// F-C: a truncated message is not an error: MessageReader maps EndOfBuffer to "no more messages"
#[test]
fn prt_truncated_is_silent() {
    let mut a = Awareness::new(Doc::with_client_id(1));
    let d = Doc::with_client_id(2);
    let txt = d.get_or_insert_text("t");
    txt.push(&mut d.transact_mut(), "hello");
    let u = d.transact().encode_state_as_update_v1(&StateVector::default());
    let full = Message::Sync(SyncMessage::SyncStep2(u)).encode_v1();
    let cut = &full[..full.len() - 3];
    let r = DefaultProtocol.handle(&mut a, cut).unwrap();
    assert!(r.is_empty());
    let t = a.doc().get_or_insert_text("t");
    assert_eq!(t.get_string(&a.doc().transact()), "");
}

// SyncStep2 carries the pending stash of the answering peer: relaying through a replica with gaps
#[test]
fn prt_step2_relays_pending() {
    let d2 = Doc::with_client_id(2);
    let txt = d2.get_or_insert_text("t");
    txt.push(&mut d2.transact_mut(), "c");
    let u0 = d2.transact().encode_state_as_update_v1(&StateVector::default());
    let sv0 = d2.transact().state_vector();
    txt.push(&mut d2.transact_mut(), "d");
    let u1 = d2.transact().encode_diff_v1(&sv0);

    let mut a = Awareness::new(Doc::with_client_id(1));
    a.doc()
        .transact_mut()
        .apply_update(Update::decode_v1(&u1).unwrap())
        .unwrap();
    assert!(a.doc().transact().has_missing_updates());
    let mut c = Awareness::new(Doc::with_client_id(3));
    handshake(&mut a, &mut c);
    // C got the pending op through A although A never integrated it
    c.doc()
        .transact_mut()
        .apply_update(Update::decode_v1(&u0).unwrap())
        .unwrap();
    let t = c.doc().get_or_insert_text("t");
    assert_eq!(t.get_string(&c.doc().transact()), "cd");
}

// the SyncStep2 reply carries the full delete set whatever the received state vector
#[test]
fn prt_step2_carries_deletions() {
    let mut a = Awareness::new(Doc::with_client_id(1));
    let mut b = Awareness::new(Doc::with_client_id(2));
    let ta = a.doc().get_or_insert_text("t");
    ta.push(&mut a.doc().transact_mut(), "ab");
    handshake(&mut a, &mut b);
    ta.remove_range(&mut a.doc().transact_mut(), 1, 1);
    // the vectors are equal: "already up to date" as far as vectors go
    assert_eq!(a.doc().transact().state_vector(), b.doc().transact().state_vector());
    handshake(&mut a, &mut b);
    let tb = b.doc().get_or_insert_text("t");
    assert_eq!(tb.get_string(&b.doc().transact()), "a");
}

// the string "null" as a live local state is a removal for every receiver
#[test]
fn prt_null_string_state() {
    let mut a = Awareness::new(Doc::with_client_id(1));
    let mut b = Awareness::new(Doc::with_client_id(2));
    a.set_local_state_raw("null");
    assert!(a.local_state_raw().is_some());
    handshake(&mut a, &mut b);
    println!("B sees: {:?}", b.iter().collect::<Vec<_>>().len());
    assert!(b.iter().all(|(_, s)| s.data.is_none()));
}
