// Replay of the scenarios of BlockIterCases.v against a real Doc (layout of blocks after local edits).
use yrs::verif::{dump_store, VContent, VItem};
use yrs::{Array, Doc, GetString, Options, Transact, XmlFragment, XmlTextPrelim};

fn show(items: &[VItem]) -> String {
    let mut out = String::new();
    for it in items {
        let c = match &it.content {
            VContent::Any(v) => format!("Any{:?}", v.iter().map(|a| a.to_string()).collect::<Vec<_>>()),
            VContent::Deleted(n) => format!("Deleted({})", n),
            VContent::Type(_) => "Type".to_string(),
            other => format!("{:?}", other),
        };
        out.push_str(&format!(
            "[{}:{} len={} del={} o={:?} ro={:?} {}] ",
            it.id.client,
            it.id.clock,
            it.len,
            it.deleted,
            it.origin.map(|i| (i.client, i.clock)),
            it.right_origin.map(|i| (i.client, i.clock)),
            c
        ));
    }
    out
}

fn doc(client: u64) -> Doc {
    let mut o = Options::default();
    o.client_id = yrs::block::ClientID::new(client);
    o.skip_gc = true;
    Doc::with_options(o)
}

#[test]
fn array_layout() {
    let d = doc(1);
    let a = d.get_or_insert_array("a");
    {
        let mut txn = d.transact_mut();
        a.insert_range(&mut txn, 0, [0i64, 1, 2, 3, 4]);
    }
    {
        let mut txn = d.transact_mut();
        a.remove_range(&mut txn, 1, 2);
        let s = dump_store(&txn);
        println!("A1 clen={} {}", s.branches[0].content_len, show(&s.branches[0].seq));
    }
    {
        // index 1: directly followed by the tombstones 1:1..1:2
        let mut txn = d.transact_mut();
        a.insert_range(&mut txn, 1, [100i64, 101]);
        let s = dump_store(&txn);
        println!("A2 clen={} {}", s.branches[0].content_len, show(&s.branches[0].seq));
        let v: Vec<String> = a.iter(&txn).map(|x| x.to_string(&txn)).collect();
        println!("A2 values {:?}", v);
    }
    {
        // remove a range that starts inside a block, passes tombstones and ends exactly at a block end
        let mut txn = d.transact_mut();
        a.remove_range(&mut txn, 2, 2);
        let s = dump_store(&txn);
        println!("A3 clen={} {}", s.branches[0].content_len, show(&s.branches[0].seq));
        let v: Vec<String> = a.iter(&txn).map(|x| x.to_string(&txn)).collect();
        println!("A3 values {:?}", v);
        println!("A3 get(0..4) {:?}", (0..4).map(|i| a.get(&txn, i).map(|x| x.to_string(&txn))).collect::<Vec<_>>());
    }
    {
        // range that ends inside the last block
        let mut txn = d.transact_mut();
        a.insert_range(&mut txn, 3, [200i64, 201, 202]);
        a.remove_range(&mut txn, 2, 2);
        let s = dump_store(&txn);
        println!("A4 clen={} {}", s.branches[0].content_len, show(&s.branches[0].seq));
        let v: Vec<String> = a.iter(&txn).map(|x| x.to_string(&txn)).collect();
        println!("A4 values {:?}", v);
    }
}

#[test]
#[should_panic(expected = "Length exceeded")]
fn array_remove_beyond_end_panics() {
    let d = doc(1);
    let a = d.get_or_insert_array("a");
    let mut txn = d.transact_mut();
    a.insert_range(&mut txn, 0, [0i64, 1, 2]);
    a.remove_range(&mut txn, 1, 3);
}

#[test]
#[should_panic(expected = "outside of the range")]
fn array_insert_beyond_end_panics() {
    let d = doc(1);
    let a = d.get_or_insert_array("a");
    let mut txn = d.transact_mut();
    a.insert_range(&mut txn, 0, [0i64, 1, 2]);
    a.insert_range(&mut txn, 4, [9i64]);
}

#[test]
fn xml_layout() {
    // XML children: single-element blocks (ContentType); tombstones right of the index
    let d = doc(1);
    let f = d.get_or_insert_xml_fragment("x");
    {
        let mut txn = d.transact_mut();
        for i in 0..4 {
            f.insert(&mut txn, i, XmlTextPrelim::new(format!("t{}", i)));
        }
    }
    {
        let mut txn = d.transact_mut();
        f.remove_range(&mut txn, 1, 2);
        let s = dump_store(&txn);
        let b = s.branches.iter().find(|b| b.seq.len() == 4).unwrap();
        println!("X1 clen={} {}", b.content_len, show(&b.seq));
    }
    {
        let mut txn = d.transact_mut();
        f.insert(&mut txn, 1, XmlTextPrelim::new("new"));
        let s = dump_store(&txn);
        let b = s.branches.iter().find(|b| b.seq.len() == 5).unwrap();
        println!("X2 clen={} {}", b.content_len, show(&b.seq));
        println!("X2 string {}", f.get_string(&txn));
    }
}
