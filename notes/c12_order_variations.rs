//! Variations of the nested-type tests of `yrs/src/undo.rs` (undo_map: "restore a whole type",
//! undo_array: "test nested structure", undo_xml: remove_range + undo of an element with children):
//! more children, children inserted out of document order (a child deleted and re-created by undo,
//! later children placed between the copy and the tombstone and right of the tombstone), formatting.
//! Oracle: undo of the step that removed the container restores exactly what was rendered before it.
use std::collections::HashMap;
use yrs::types::text::YChange;
use yrs::types::{Attrs, ToJson};
use yrs::undo::{Options, UndoManager};
use yrs::updates::decoder::Decode;
use yrs::{
    Any, Array, ArrayPrelim, ArrayRef, Doc, GetString, Map, MapPrelim, MapRef, Out, ReadTxn,
    StateVector, Text, TextPrelim, TextRef, Transact, Update, Xml, XmlElementPrelim,
    XmlElementRef, XmlFragment, XmlTextPrelim,
};

fn mgr0() -> UndoManager<()> {
    UndoManager::with_options({
        let mut o = Options::default();
        o.capture_timeout_millis = 0;
        o
    })
}

fn show<T: ReadTxn>(t: &TextRef, txn: &T) -> String {
    t.diff(txn, YChange::identity)
        .iter()
        .map(|d| {
            let mut at: Vec<String> = d
                .attributes
                .as_ref()
                .map(|a| a.iter().map(|(k, v)| format!("{}:{}", k, v)).collect())
                .unwrap_or_default();
            at.sort();
            let v = match &d.insert {
                Out::Any(Any::String(s)) => format!("'{}'", s),
                o => format!("<{}>", o),
            };
            format!("{}{{{}}}", v, at.join(","))
        })
        .collect::<Vec<_>>()
        .join(" ")
}

fn bold() -> Attrs {
    let mut m: Attrs = HashMap::new();
    m.insert("bold".into(), Any::Bool(true));
    m
}

/// a second replica that receives everything renders the same
fn remote_json(doc: &Doc, root: &str) -> Any {
    let d2 = Doc::with_client_id(2);
    let m2 = d2.get_or_insert_map(root);
    let u = doc
        .transact()
        .encode_state_as_update_v1(&StateVector::default());
    d2.transact_mut()
        .apply_update(Update::decode_v1(&u).unwrap())
        .unwrap();
    let txn = d2.transact();
    m2.to_json(&txn)
}

/// undo_map, "testing sub-types and if it can restore a whole type": nested array under a key
#[test]
fn map_key_holding_an_array_children_out_of_order() {
    let d1 = Doc::with_client_id(1);
    let map1 = d1.get_or_insert_map("test");
    let mut mgr = mgr0();
    mgr.expand_scope(&d1, &map1);
    let arr: ArrayRef = map1.insert(
        &mut d1.transact_mut(),
        "a",
        ArrayPrelim::from([1, 2, 3, 4, 5]),
    );
    arr.remove_range(&mut d1.transact_mut(), 1, 2); // 2, 3 go
    assert!(mgr.undo_blocking()); // and come back as copies left of their tombstones
    assert_eq!(arr.to_json(&d1.transact()), vec![1, 2, 3, 4, 5].into());
    {
        let mut txn = d1.transact_mut();
        arr.insert(&mut txn, 3, 30); // between the copies and the tombstones (or right of them)
        arr.insert(&mut txn, 2, 20); // between the two copies
        arr.push_back(&mut txn, 6);
        arr.push_front(&mut txn, 0);
    }
    let before = map1.to_json(&d1.transact());
    assert_eq!(
        arr.to_json(&d1.transact()),
        vec![0, 1, 2, 20, 3, 30, 4, 5, 6].into()
    );
    map1.insert(&mut d1.transact_mut(), "a", "overwritten");
    assert!(mgr.undo_blocking());
    assert_eq!(map1.to_json(&d1.transact()), before);
    assert_eq!(remote_json(&d1, "test"), before);
    // and once more through redo / undo: the re-created array is re-created again
    assert!(mgr.redo_blocking());
    assert_eq!(
        map1.get(&d1.transact(), "a").unwrap(),
        "overwritten".into()
    );
    assert!(mgr.undo_blocking());
    assert_eq!(map1.to_json(&d1.transact()), before);
    assert_eq!(remote_json(&d1, "test"), before);
}

/// undo_array, "test nested structure": a rich text inside an array, removed and restored
#[test]
fn array_element_holding_a_formatted_text_children_out_of_order() {
    let d1 = Doc::with_client_id(1);
    let array1 = d1.get_or_insert_array("test");
    let mut mgr = mgr0();
    mgr.expand_scope(&d1, &array1);
    array1.insert_range(&mut d1.transact_mut(), 0, [1, 2]);
    let txt: TextRef = array1.insert(&mut d1.transact_mut(), 1, TextPrelim::new("abcdef"));
    txt.format(&mut d1.transact_mut(), 1, 3, bold()); // a [bcd] ef
    txt.remove_range(&mut d1.transact_mut(), 2, 2); // c, d go
    assert!(mgr.undo_blocking());
    assert_eq!(txt.get_string(&d1.transact()), "abcdef");
    {
        let mut txn = d1.transact_mut();
        // two embeds between the copy of "cd" and its tombstones, one inside the copy
        txt.insert_embed(&mut txn, 4, 100);
        txt.insert_embed(&mut txn, 5, 200);
        txt.insert_embed(&mut txn, 3, 300);
        txt.insert_with_attributes(&mut txn, 7, "X", bold());
        txt.push(&mut txn, "z");
    }
    let before = show(&txt, &d1.transact());
    array1.remove_range(&mut d1.transact_mut(), 1, 1);
    assert_eq!(array1.to_json(&d1.transact()), vec![1, 2].into());
    assert!(mgr.undo_blocking());
    let restored: TextRef = array1.get(&d1.transact(), 1).unwrap().cast().unwrap();
    assert_eq!(show(&restored, &d1.transact()), before);
    assert!(mgr.redo_blocking());
    assert_eq!(array1.to_json(&d1.transact()), vec![1, 2].into());
    assert!(mgr.undo_blocking());
    let restored: TextRef = array1.get(&d1.transact(), 1).unwrap().cast().unwrap();
    assert_eq!(show(&restored, &d1.transact()), before);
}

/// the right neighbour: two elements between the copy and the tombstone
#[test]
fn two_elements_between_copy_and_tombstone() {
    let d1 = Doc::with_client_id(1);
    let map1 = d1.get_or_insert_map("test");
    let mut mgr = mgr0();
    mgr.expand_scope(&d1, &map1);
    let txt: TextRef = map1.insert(&mut d1.transact_mut(), "k", TextPrelim::new("ab"));
    txt.remove_range(&mut d1.transact_mut(), 1, 1);
    assert!(mgr.undo_blocking());
    txt.insert_embed(&mut d1.transact_mut(), 2, 1);
    txt.insert_embed(&mut d1.transact_mut(), 3, 2);
    txt.push(&mut d1.transact_mut(), "c");
    let before = show(&txt, &d1.transact());
    assert_eq!(before, "'ab'{} <1>{} <2>{} 'c'{}");
    map1.insert(&mut d1.transact_mut(), "k", 0);
    assert!(mgr.undo_blocking());
    let restored: TextRef = map1.get(&d1.transact(), "k").unwrap().cast().unwrap();
    assert_eq!(show(&restored, &d1.transact()), before);
}

/// undo_xml: an element with several children is removed and restored
#[test]
fn xml_element_children_out_of_order() {
    let d1 = Doc::with_client_id(1);
    let frag = d1.get_or_insert_xml_fragment("xml");
    let xml1: XmlElementRef = frag.insert(
        &mut d1.transact_mut(),
        0,
        XmlElementPrelim::empty("undefined"),
    );
    let mut mgr = mgr0();
    mgr.expand_scope(&d1, &xml1);
    let p: XmlElementRef = xml1.insert(&mut d1.transact_mut(), 0, XmlElementPrelim::empty("p"));
    {
        let mut txn = d1.transact_mut();
        p.insert(&mut txn, 0, XmlElementPrelim::empty("a"));
        p.insert(&mut txn, 1, XmlElementPrelim::empty("b"));
        let t = p.insert(&mut txn, 2, XmlTextPrelim::new("content"));
        t.format(&mut txn, 3, 4, bold());
        p.insert_attribute(&mut txn, "id", "1");
    }
    p.remove_range(&mut d1.transact_mut(), 1, 1); // <b> goes
    assert!(mgr.undo_blocking()); // and comes back
    {
        let mut txn = d1.transact_mut();
        p.insert(&mut txn, 2, XmlElementPrelim::empty("x"));
        p.insert(&mut txn, 3, XmlElementPrelim::empty("y"));
        p.push_back(&mut txn, XmlElementPrelim::empty("z"));
    }
    let before = xml1.get_string(&d1.transact());
    assert_eq!(
        before,
        "<undefined><p id=\"1\"><a></a><b></b><x></x><y></y>con<bold>tent</bold><z></z></p></undefined>"
    );
    xml1.remove_range(&mut d1.transact_mut(), 0, 1);
    assert_eq!(xml1.get_string(&d1.transact()), "<undefined></undefined>");
    assert!(mgr.undo_blocking());
    assert_eq!(xml1.get_string(&d1.transact()), before);
    assert!(mgr.redo_blocking());
    assert_eq!(xml1.get_string(&d1.transact()), "<undefined></undefined>");
    assert!(mgr.undo_blocking());
    assert_eq!(xml1.get_string(&d1.transact()), before);
}

/// nested_undo: two levels, the inner text re-created below a re-created map
#[test]
fn two_levels_children_out_of_order() {
    let doc = Doc::with_client_id(1);
    let design = doc.get_or_insert_map("map");
    let mut mgr = mgr0();
    mgr.expand_scope(&doc, &design);
    let outer: MapRef = design.insert(
        &mut doc.transact_mut(),
        "text",
        MapPrelim::from([("n", 1)]),
    );
    let txt: TextRef = outer.insert(&mut doc.transact_mut(), "blocks", TextPrelim::new("abc"));
    txt.remove_range(&mut doc.transact_mut(), 1, 1);
    assert!(mgr.undo_blocking());
    {
        let mut txn = doc.transact_mut();
        txt.insert_embed(&mut txn, 2, 7);
        txt.insert_with_attributes(&mut txn, 3, "Q", bold());
        txt.push(&mut txn, "d");
    }
    let before = show(&txt, &doc.transact());
    assert_eq!(before, "'ab'{} <7>{} 'Q'{bold:true} 'cd'{}");
    design.remove(&mut doc.transact_mut(), "text");
    assert!(mgr.undo_blocking());
    let get = |doc: &Doc| -> String {
        let txn = doc.transact();
        let o: MapRef = design.get(&txn, "text").unwrap().cast().unwrap();
        let t: TextRef = o.get(&txn, "blocks").unwrap().cast().unwrap();
        show(&t, &txn)
    };
    assert_eq!(get(&doc), before);
    assert!(mgr.redo_blocking());
    assert!(mgr.undo_blocking());
    assert_eq!(get(&doc), before);
}
