// Replay of the cases of Commit.v / CommitCases.v against the real Doc: how many update events does a
// transaction emit (v1 / v2), and what do they carry.
use std::sync::atomic::{AtomicUsize, Ordering};
use std::sync::{Arc, Mutex};
use yrs::updates::decoder::Decode;
use yrs::updates::encoder::Encode;
use yrs::{Doc, GetString, Map, ReadTxn, StateVector, Text, Transact, Update};

struct Counters {
    v1: Arc<AtomicUsize>,
    v2: Arc<AtomicUsize>,
    last_v1: Arc<Mutex<Vec<u8>>>,
    last_v2: Arc<Mutex<Vec<u8>>>,
    _subs: Vec<yrs::Subscription>,
}

impl Counters {
    fn get(&self) -> (usize, usize) {
        (self.v1.load(Ordering::SeqCst), self.v2.load(Ordering::SeqCst))
    }
}

fn watch(doc: &Doc) -> Counters {
    let v1 = Arc::new(AtomicUsize::new(0));
    let v2 = Arc::new(AtomicUsize::new(0));
    let last_v1 = Arc::new(Mutex::new(Vec::new()));
    let last_v2 = Arc::new(Mutex::new(Vec::new()));
    let (a, la) = (v1.clone(), last_v1.clone());
    let s1 = doc
        .observe_update_v1(move |_, e| {
            a.fetch_add(1, Ordering::SeqCst);
            *la.lock().unwrap() = e.update.clone();
        })
        .unwrap();
    let (b, lb) = (v2.clone(), last_v2.clone());
    let s2 = doc
        .observe_update_v2(move |_, e| {
            b.fetch_add(1, Ordering::SeqCst);
            *lb.lock().unwrap() = e.update.clone();
        })
        .unwrap();
    Counters {
        v1,
        v2,
        last_v1,
        last_v2,
        _subs: vec![s1, s2],
    }
}

// the updates of a two-transaction author: u1 = "a" into text `t`; u2 = "b" after "a" (depends on u1);
// u3 = key into the map `m` (depends on nothing); u4 = delete of "a"
fn author() -> (Vec<u8>, Vec<u8>, Vec<u8>, Vec<u8>) {
    let d = Doc::with_client_id(1);
    let t = d.get_or_insert_text("t");
    let m = d.get_or_insert_map("m");
    let c = watch(&d);
    {
        let mut txn = d.transact_mut();
        t.insert(&mut txn, 0, "a");
    }
    let u1 = c.last_v1.lock().unwrap().clone();
    {
        let mut txn = d.transact_mut();
        t.insert(&mut txn, 1, "b");
    }
    let u2 = c.last_v1.lock().unwrap().clone();
    {
        let mut txn = d.transact_mut();
        m.insert(&mut txn, "k", 7);
    }
    let u3 = c.last_v1.lock().unwrap().clone();
    {
        let mut txn = d.transact_mut();
        t.remove_range(&mut txn, 0, 1);
    }
    let u4 = c.last_v1.lock().unwrap().clone();
    assert_eq!(c.get(), (4, 4));
    (u1, u2, u3, u4)
}

#[test]
fn emt_nothing_changed_nothing_emitted() {
    let d = Doc::with_client_id(2);
    let t = d.get_or_insert_text("t");
    let c = watch(&d);
    {
        let _txn = d.transact_mut(); // empty
    }
    {
        let txn = d.transact_mut(); // only reads
        let _ = t.get_string(&txn);
        let _ = txn.state_vector();
    }
    assert_eq!(c.get(), (0, 0));
    let (u1, u2, _u3, u4) = author();
    // only the stash changes: u2 depends on u1
    d.transact_mut()
        .apply_update(Update::decode_v1(&u2).unwrap())
        .unwrap();
    println!("stash only: {:?}", c.get());
    assert_eq!(c.get(), (0, 0));
    assert!(d.transact().store().pending_update().is_some());
    // only pending_ds changes: u4 deletes an item this replica does not have
    d.transact_mut()
        .apply_update(Update::decode_v1(&u4).unwrap())
        .unwrap();
    println!("pending ds only: {:?}", c.get());
    assert_eq!(c.get(), (0, 0));
    // u1 arrives: u1, the stashed u2 and the stashed deletion are integrated in ONE transaction
    d.transact_mut()
        .apply_update(Update::decode_v1(&u1).unwrap())
        .unwrap();
    assert_eq!(c.get(), (1, 1));
    assert_eq!(t.get_string(&d.transact()), "b");
    // everything is known now: applying u1 / u2 / u4 again changes nothing
    for u in [&u1, &u2, &u4] {
        d.transact_mut()
            .apply_update(Update::decode_v1(u).unwrap())
            .unwrap();
    }
    println!("known content again: {:?}", c.get());
    assert_eq!(c.get(), (1, 1));
}

#[test]
fn emt_out_of_order_apply_fires() {
    let (u1, _u2, u3, _u4) = author();
    let d = Doc::with_client_id(2);
    let _m = d.get_or_insert_map("m");
    let c = watch(&d);
    let sv0 = d.transact().state_vector();
    // u3 (clock 2 of client 1) has no dependency: integrated behind a hole [0, 2)
    d.transact_mut()
        .apply_update(Update::decode_v1(&u3).unwrap())
        .unwrap();
    let sv1 = d.transact().state_vector();
    println!("behind a hole: sv {:?} -> {:?}, events {:?}", sv0, sv1, c.get());
    assert_eq!(sv1.get(&yrs::block::ClientID::new(1)), 0); // the state vector did not advance
    assert_eq!(c.get(), (1, 1));
    // the event holds the map entry: a third replica that applies it sees it (after u1, u2)
    let ev = c.last_v1.lock().unwrap().clone();
    let u = Update::decode_v1(&ev).unwrap();
    println!("event: {:?}", u);
    let _ = u1;
}

#[test]
fn emt_at_most_once() {
    let d = Doc::with_client_id(2);
    let t = d.get_or_insert_text("t");
    let c = watch(&d);
    {
        let mut txn = d.transact_mut();
        t.insert(&mut txn, 0, "x");
        txn.commit();
        assert_eq!(c.get(), (1, 1));
        txn.commit();
        assert_eq!(c.get(), (1, 1));
    } // Drop
    assert_eq!(c.get(), (1, 1));
    // same unit view for v1 and v2
    let a = Update::decode_v1(&c.last_v1.lock().unwrap()).unwrap();
    let b = Update::decode_v2(&c.last_v2.lock().unwrap()).unwrap();
    assert_eq!(a.encode_v1(), b.encode_v1());
}

#[test]
fn emt_event_reflects_final_state() {
    let d = Doc::with_client_id(2);
    let t = d.get_or_insert_text("t");
    let c = watch(&d);
    {
        let mut txn = d.transact_mut();
        t.insert(&mut txn, 0, "secret");
        t.remove_range(&mut txn, 0, 6);
    }
    assert_eq!(c.get(), (1, 1));
    let ev = c.last_v1.lock().unwrap().clone();
    println!("insert+delete, gc on: {:?}", ev);
    assert!(!ev.windows(6).any(|w| w == b"secret")); // the content is gone from the event
    let u = Update::decode_v1(&ev).unwrap();
    println!("{:?}", u);
    let f = Doc::with_client_id(3);
    let tf = f.get_or_insert_text("t");
    f.transact_mut().apply_update(u).unwrap();
    assert_eq!(tf.get_string(&f.transact()), "");
    assert_eq!(
        f.transact().state_vector(),
        d.transact().state_vector()
    );
    // the follower's full state = the leader's full state
    assert_eq!(
        f.transact().encode_state_as_update_v1(&StateVector::default()),
        d.transact().encode_state_as_update_v1(&StateVector::default())
    );
}

// FINDING: TransactionMut::after_state() is a OnceCell. Read before the transaction's last insertion it
// stays at the old value, the commit-time test `after_state != before_state` is false and no update
// event is emitted for a transaction that inserted.
#[test]
fn emt_after_state_read_early_suppresses_the_event() {
    let d = Doc::with_client_id(2);
    let t = d.get_or_insert_text("t");
    let c = watch(&d);
    {
        let mut txn = d.transact_mut();
        t.insert(&mut txn, 0, "a"); // client 2 is known to the state vector afterwards
    }
    assert_eq!(c.get(), (1, 1));
    {
        let mut txn = d.transact_mut();
        let _ = txn.after_state().clone(); // e.g. logging
        t.insert(&mut txn, 1, "b");
    }
    println!(
        "after_state() read before the insertion: events {:?} (expected (2, 2)), text {:?}",
        c.get(),
        t.get_string(&d.transact())
    );
    // control: the same without the read
    {
        let mut txn = d.transact_mut();
        t.insert(&mut txn, 2, "c");
    }
    println!("control: events {:?}", c.get());
    assert_eq!(t.get_string(&d.transact()), "abc");
    assert_eq!(c.get(), (2, 2)); // one event is missing: 3 transactions inserted
}

// after_transaction callbacks get `&mut TransactionMut`: what they insert is part of the event (emitted later) ...
#[test]
fn emt_after_transaction_callback_changes_are_in_the_event() {
    let d = Doc::with_client_id(2);
    let t = d.get_or_insert_text("t");
    let c = watch(&d);
    let t2 = t.clone();
    let _s = d
        .observe_after_transaction(move |txn| {
            if t2.get_string(txn) == "a" {
                t2.insert(txn, 1, "!");
            }
        })
        .unwrap();
    {
        let mut txn = d.transact_mut();
        t.insert(&mut txn, 0, "a");
    }
    assert_eq!(c.get(), (1, 1));
    let f = Doc::with_client_id(3);
    let tf = f.get_or_insert_text("t");
    f.transact_mut()
        .apply_update(Update::decode_v1(&c.last_v1.lock().unwrap()).unwrap())
        .unwrap();
    println!("follower after the event: {:?}", tf.get_string(&f.transact()));
    assert_eq!(tf.get_string(&f.transact()), "a!");
}
