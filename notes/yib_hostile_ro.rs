// Replay of YataBlocksCases.yib_ro_at_origin_refuted: an item whose right origin is its own origin
// (never produced by local insertion) lands at a position that depends on how the receiver's blocks are cut.
use yrs::updates::decoder::Decode;
use yrs::{Doc, GetString, Options, Text, Transact, Update, ReadTxn, StateVector};

fn doc(id: u64) -> Doc {
    let mut o = Options::default();
    o.client_id = yrs::block::ClientID::new(id);
    o.skip_gc = true;
    Doc::with_options(o)
}

#[test]
fn hostile_right_origin_equal_origin() {
    // client 1 types "abc" (one block 1:0..3)
    let d1 = doc(1);
    let t1 = d1.get_or_insert_text("t");
    t1.insert(&mut d1.transact_mut(), 0, "abc");
    let u_abc = d1.transact().encode_state_as_update_v1(&StateVector::default());
    // client 3 inserts Z between a and b (after having abc)
    let d3 = doc(3);
    let t3 = d3.get_or_insert_text("t");
    d3.transact_mut().apply_update(Update::decode_v1(&u_abc).unwrap()).unwrap();
    let sv = d3.transact().state_vector();
    t3.insert(&mut d3.transact_mut(), 1, "Z");
    let u_z = d3.transact().encode_state_as_update_v1(&sv);
    // hostile item: client 2, clock 0, origin = right origin = 1:1, content "X"
    let hostile: Vec<u8> = vec![1, 1, 2, 0, 0xC4, 1, 1, 1, 1, 1, b'X', 0];

    let a = doc(10);
    let ta = a.get_or_insert_text("t");
    a.transact_mut().apply_update(Update::decode_v1(&u_abc).unwrap()).unwrap();
    a.transact_mut().apply_update(Update::decode_v1(&hostile).unwrap()).unwrap();
    let a_mid = ta.get_string(&a.transact());
    a.transact_mut().apply_update(Update::decode_v1(&u_z).unwrap()).unwrap();

    let b = doc(11);
    let tb = b.get_or_insert_text("t");
    b.transact_mut().apply_update(Update::decode_v1(&u_abc).unwrap()).unwrap();
    b.transact_mut().apply_update(Update::decode_v1(&u_z).unwrap()).unwrap();
    b.transact_mut().apply_update(Update::decode_v1(&hostile).unwrap()).unwrap();

    let sa = ta.get_string(&a.transact());
    let sb = tb.get_string(&b.transact());
    println!("YIB A after hostile (abc in one block): {}", a_mid);
    println!("YIB replica A (abc, hostile, Z): {}", sa);
    println!("YIB replica B (abc, Z, hostile): {}", sb);
    println!("YIB same state vectors: {}", a.transact().state_vector() == b.transact().state_vector());
    println!("YIB diverged: {}", sa != sb);
}
