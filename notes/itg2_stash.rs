// Replay of the model cases of StashCases.v (itg2_f1_*): the retry decision of apply_update.
// run: RUSTFLAGS="--cfg y_crdt_y_crdt_verif" cargo test -p yrs --test itg2_stash --offline -- --nocapture
use yrs::updates::decoder::Decode;
use yrs::{Doc, Map, ReadTxn, Transact, Update};

fn doc(client: u64) -> Doc {
    Doc::with_client_id(client)
}

fn apply(d: &Doc, u: &[u8]) {
    let mut txn = d.transact_mut();
    txn.apply_update(Update::decode_v1(u).unwrap()).unwrap();
}

#[cfg(y_crdt_y_crdt_verif)]
fn state(d: &Doc) -> (bool, Vec<(u64, u32)>, Vec<(u64, Vec<(u32, u32, bool)>)>) {
    let txn = d.transact();
    let s = yrs::verif::dump_store(&txn);
    let blocks = s
        .blocks
        .iter()
        .map(|(c, bl)| {
            (
                *c,
                bl.iter()
                    .map(|b| match b {
                        yrs::verif::VBlock::Item(i) => (i.id.clock, i.len, false),
                        yrs::verif::VBlock::GC(id, n) => (id.clock, *n, false),
                        yrs::verif::VBlock::Skip(id, n) => (id.clock, *n, true),
                    })
                    .collect(),
            )
        })
        .collect();
    (s.has_pending, s.pending_missing.clone(), blocks)
}

fn get(d: &Doc, key: &str) -> Option<String> {
    let txn = d.transact();
    let m = txn.get_map("m")?;
    m.get(&txn, key).map(|v| v.to_string(&txn))
}

/// F1. client 1 sets k0..k5 (six independent blocks 1:0 .. 1:5); client 2 overwrites k5 (origin 1:5), client 3
/// overwrites k2 (origin 1:2).  The receiver gets: x (client 2), w (client 3), then 1:5 alone.
/// Model: the stash holds x and w with missing = {1: 2}; 1:5 is integrated behind a hole; the retry test looks at
/// (1, 2) only, so x - all of whose dependencies are integrated - stays in the stash, also across an empty update
/// and across unrelated traffic, until 1:2 arrives.
#[test]
fn itg2_f1_integrable_block_waits_for_lowest_clock() {
    let y = doc(1);
    let my = y.get_or_insert_map("m");
    let mut uy: Vec<Vec<u8>> = Vec::new();
    for i in 0..6 {
        let mut txn = y.transact_mut();
        my.insert(&mut txn, format!("k{}", i), format!("y{}", i));
        uy.push(txn.encode_update_v1());
    }
    // client 2 has seen everything of client 1 and overwrites k5
    let x = doc(2);
    let mx = x.get_or_insert_map("m");
    for u in &uy {
        apply(&x, u);
    }
    let ux = {
        let mut txn = x.transact_mut();
        mx.insert(&mut txn, "k5", "x");
        txn.encode_update_v1()
    };
    // client 3 has seen everything of client 1 and overwrites k2
    let w = doc(3);
    let mw = w.get_or_insert_map("m");
    for u in &uy {
        apply(&w, u);
    }
    let uw = {
        let mut txn = w.transact_mut();
        mw.insert(&mut txn, "k2", "w");
        txn.encode_update_v1()
    };
    // unrelated traffic: client 4 sets another key, has seen nothing
    let z = doc(4);
    let mz = z.get_or_insert_map("m");
    let uz = {
        let mut txn = z.transact_mut();
        mz.insert(&mut txn, "other", "z");
        txn.encode_update_v1()
    };

    let r = doc(9);
    let _mr = r.get_or_insert_map("m");
    apply(&r, &ux);
    #[cfg(y_crdt_y_crdt_verif)]
    println!("after x      : {:?}", state(&r));
    apply(&r, &uw);
    #[cfg(y_crdt_y_crdt_verif)]
    println!("after w      : {:?}", state(&r));
    apply(&r, &uy[5]);
    #[cfg(y_crdt_y_crdt_verif)]
    println!("after 1:5    : {:?}", state(&r));
    println!("k5 after 1:5 = {:?} (x is integrable: its only dependency 1:5 is integrated)", get(&r, "k5"));
    #[cfg(y_crdt_y_crdt_verif)]
    {
        let txn = r.transact();
        let s = yrs::verif::dump_store(&txn);
        for b in s.branches.iter() {
            println!("branch {:?}: map {:?}", b.id, b.map.iter().map(|(k, v)| (k.clone(), v.iter().map(|i| (i.id, i.deleted, format!("{:?}", i.parent))).collect::<Vec<_>>())).collect::<Vec<_>>());
        }
        let m = txn.get_map("m").unwrap();
        println!("keys: {:?}", m.keys(&txn).collect::<Vec<_>>());
    }
    let k5_after_dep = get(&r, "k5");
    // an empty update
    {
        let mut txn = r.transact_mut();
        txn.apply_update(Update::new()).unwrap();
    }
    println!("k5 after empty update = {:?}", get(&r, "k5"));
    let k5_after_empty = get(&r, "k5");
    apply(&r, &uz);
    println!("k5 after unrelated update = {:?}", get(&r, "k5"));
    let k5_after_unrelated = get(&r, "k5");
    #[cfg(y_crdt_y_crdt_verif)]
    println!("after z      : {:?}", state(&r));
    apply(&r, &uy[2]);
    println!("k5 after 1:2 = {:?}, k2 = {:?}", get(&r, "k5"), get(&r, "k2"));
    #[cfg(y_crdt_y_crdt_verif)]
    println!("after 1:2    : {:?}", state(&r));
    let k5_after_min = get(&r, "k5");
    // deliver the rest
    for i in [0usize, 1, 3, 4] {
        apply(&r, &uy[i]);
    }
    #[cfg(y_crdt_y_crdt_verif)]
    {
        let (pending, missing, blocks) = state(&r);
        println!("at the end   : {:?}", (pending, &missing, &blocks));
        assert!(!pending);
        assert!(blocks.iter().all(|(_, bl)| bl.iter().all(|b| !b.2)));
    }
    // what the model predicts
    // x is not integrated although 1:5 is; the delete set of x's update (x overwrites 1:5) HAS been applied
    // (pending_ds is retried by every apply_update), so the key has no value at all in the meantime
    assert_eq!(k5_after_dep.as_deref(), None);
    assert_eq!(k5_after_empty.as_deref(), None);
    assert_eq!(k5_after_unrelated.as_deref(), None);
    assert_eq!(k5_after_min.as_deref(), Some("x"));
    assert_eq!(get(&r, "k2").as_deref(), Some("w"));
}

/// F2 (control). the same with one stashed block only: the entry of the missing vector IS the dependency, the
/// retry fires as soon as it is integrated (behind a hole).
#[test]
fn itg2_f2_single_entry_fires() {
    let y = doc(1);
    let my = y.get_or_insert_map("m");
    let mut uy: Vec<Vec<u8>> = Vec::new();
    for i in 0..6 {
        let mut txn = y.transact_mut();
        my.insert(&mut txn, format!("k{}", i), format!("y{}", i));
        uy.push(txn.encode_update_v1());
    }
    let x = doc(2);
    let mx = x.get_or_insert_map("m");
    for u in &uy {
        apply(&x, u);
    }
    let ux = {
        let mut txn = x.transact_mut();
        mx.insert(&mut txn, "k5", "x");
        txn.encode_update_v1()
    };
    let r = doc(9);
    let _mr = r.get_or_insert_map("m");
    apply(&r, &ux);
    assert_eq!(get(&r, "k5"), None);
    apply(&r, &uy[5]);
    assert_eq!(get(&r, "k5").as_deref(), Some("x"));
    #[cfg(y_crdt_y_crdt_verif)]
    println!("F2 after 1:5 : {:?}", state(&r));
}
