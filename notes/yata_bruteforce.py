import itertools, sys
# unit-level YATA as in yrs Item::resolve_conflict / integrate_item
# item: dict(id=(client,clock), origin=id|None, ro=id|None)
def integrate(lst, x):
    ids = [it['id'] for it in lst]
    pos = {i:k for k,i in enumerate(ids)}
    left = pos[x['origin']] if x['origin'] is not None else -1     # index of left, -1 = none
    right = pos[x['ro']] if x['ro'] is not None else len(lst)      # index of right, len = none
    # detect conflict: left.right != right  (or no left and (no right or right.left != None))
    conflict = (left + 1 != right)
    if x['origin'] is None and x['ro'] is None: conflict = True
    if conflict:
        o = left + 1
        conflicting = set(); before = set()
        l = left
        while o < len(lst) and o != right:
            it = lst[o]
            before.add(it['id']); conflicting.add(it['id'])
            if x['origin'] == it['origin']:
                if it['id'][0] < x['id'][0]:
                    l = o; conflicting.clear()
                elif x['ro'] == it['ro']:
                    break
            elif it['origin'] is not None and it['origin'] in before:
                if it['origin'] not in conflicting:
                    l = o; conflicting.clear()
            else:
                break
            o += 1
        left = l
    return lst[:left+1] + [x] + lst[left+1:]

def canon(items):
    # integrate in a canonical dependency-respecting order: smallest id first among ready
    done = []; lst = []; rem = list(items)
    have = set()
    while rem:
        ready = [it for it in rem if (it['origin'] is None or it['origin'] in have) and (it['ro'] is None or it['ro'] in have)]
        it = min(ready, key=lambda i: i['id'])
        lst = integrate(lst, it); have.add(it['id']); rem.remove(it)
    return lst

def all_orders(items):
    # all linear extensions of explicit-dependency order
    n = len(items)
    def rec(have, remaining, lst):
        if not remaining:
            yield lst; return
        for k, it in enumerate(remaining):
            if (it['origin'] is None or it['origin'] in have) and (it['ro'] is None or it['ro'] in have):
                yield from rec(have | {it['id']}, remaining[:k]+remaining[k+1:], integrate(lst, it))
    yield from rec(frozenset(), list(items), [])

def gen_histories(n, nclients, use_ro=True):
    # history: sequence of creations; creation k by client c with view = down-closed subset of previous items containing own
    def rec(k, items, views, clocks):
        if k == n:
            yield items; return
        for c in range(1, nclients+1):
            own = [i for i,it in enumerate(items) if it['id'][0]==c]
            others = [i for i in range(len(items)) if items[i]['id'][0]!=c]
            for r in range(len(others)+1):
                for extra in itertools.combinations(others, r):
                    view = set(own) | set(extra)
                    # causal closure: view of each seen item included
                    closed = set(view)
                    changed = True
                    while changed:
                        changed = False
                        for i in list(closed):
                            for j in views[i]:
                                if j not in closed: closed.add(j); changed = True
                    if closed != view: continue
                    seen = [items[i] for i in sorted(view)]
                    lst = canon(seen)
                    for gap in range(len(lst)+1):
                        origin = lst[gap-1]['id'] if gap>0 else None
                        ro = lst[gap]['id'] if (gap < len(lst) and use_ro) else None
                        if not use_ro and gap != len(lst) and False: pass
                        it = dict(id=(c, clocks.get(c,0)), origin=origin, ro=ro)
                        nc = dict(clocks); nc[c] = nc.get(c,0)+1
                        yield from rec(k+1, items+[it], views+[frozenset(view)], nc)
    yield from rec(0, [], [], {})

if __name__ == '__main__':
    n = int(sys.argv[1]); nc = int(sys.argv[2]); use_ro = sys.argv[3] == 'ro'
    cnt = 0; bad = 0; orders = 0
    for h in gen_histories(n, nc, use_ro):
        cnt += 1
        ref = None
        for lst in all_orders(h):
            orders += 1
            ids = [it['id'] for it in lst]
            if ref is None: ref = ids
            elif ids != ref:
                bad += 1
                if bad <= 5: print("DIVERGE", h, ref, ids)
                break
    print("histories", cnt, "orders", orders, "bad", bad)
