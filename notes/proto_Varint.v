From Coq Require Import List NArith ZArith Bool Lia ZifyBool ZifyN ZifyNat.
Import ListNotations.
Open Scope N_scope.
Ltac Zify.zify_post_hook ::= Z.div_mod_to_equations.

Inductive err := EndOfBuffer | InvalidVarInt.
Inductive res (A : Type) := Ok (a : A) (rest : list N) | Err (e : err).
Arguments Ok {A}. Arguments Err {A}.

(* u64::wrapping_shl(x, s as u32): shift amount masked to 6 bits, result truncated to 64 bits *)
Definition wshl64 (x s : N) : N := (x * 2 ^ (s mod 64)) mod 2 ^ 64.

(* fn write_var_u64: fuel only for termination; 10 groups of 7 bits cover 64 bits *)
Fixpoint write_var (fuel : nat) (v : N) : list N :=
  match fuel with
  | O => [v mod 128]
  | S f => if v <? 128 then [v] else (v mod 128 + 128) :: write_var f (v / 128)
  end.
Definition write_var_u64 (v : N) := write_var 9 v.

(* fn read_var_u64 *)
Fixpoint read_var (bs : list N) (num len : N) : res N :=
  match bs with
  | [] => Err EndOfBuffer
  | r :: rest =>
    let num' := N.lor num (wshl64 (r mod 128) len) in
    let len' := len + 7 in
    if r <? 128 then Ok num' rest
    else if 70 <? len' then Err InvalidVarInt
    else read_var rest num' len'
  end.
Definition read_var_u64 (bs : list N) := read_var bs 0 0.

Lemma lor_disjoint_add : forall a b k, a < 2 ^ k -> N.lor a (b * 2 ^ k) = a + b * 2 ^ k.
Proof.
  intros a b k Ha. rewrite <- N.shiftl_mul_pow2.
  rewrite <- N.lxor_lor.
  - symmetry. rewrite N.add_nocarry_lxor; [reflexivity|].
    apply N.bits_inj. intro n. rewrite N.land_spec, N.bits_0.
    destruct (N.ltb_spec n k).
    + rewrite N.shiftl_spec_low by assumption. apply andb_false_r.
    + assert (N.testbit a n = false).
      { destruct (N.eq_dec a 0) as [->|Hz]; [apply N.bits_0|].
        apply N.bits_above_log2. apply N.log2_lt_pow2; [lia|].
        eapply N.lt_le_trans; [exact Ha|]. apply N.pow_le_mono_r; lia. }
      rewrite H0. reflexivity.
  - apply N.bits_inj. intro n. rewrite N.land_spec, N.bits_0.
    destruct (N.ltb_spec n k).
    + rewrite N.shiftl_spec_low by assumption. apply andb_false_r.
    + assert (N.testbit a n = false).
      { destruct (N.eq_dec a 0) as [->|Hz]; [apply N.bits_0|].
        apply N.bits_above_log2. apply N.log2_lt_pow2; [lia|].
        eapply N.lt_le_trans; [exact Ha|]. apply N.pow_le_mono_r; lia. }
      rewrite H0. reflexivity.
Qed.

Lemma roundtrip_gen : forall fuel v acc len rest,
  len = 7 * (9 - N.of_nat fuel) -> (fuel <= 9)%nat ->
  acc < 2 ^ len -> v * 2 ^ len < 2 ^ 64 ->
  read_var (write_var fuel v ++ rest) acc len = Ok (acc + v * 2 ^ len) rest.
Proof.
  induction fuel as [|f IH]; intros v acc len rest Hlen Hf Hacc Hv.
  - (* last group: len = 63 *)
    assert (len = 63) by (clear Hacc Hv; cbn in Hlen; lia). subst len. cbn [write_var app read_var].
    assert (v < 2).
    { change (2^64) with (2 * 2^63) in Hv. assert (0 < 2^63) by (apply N.neq_0_lt_0; apply N.pow_nonzero; lia).
      eapply N.mul_lt_mono_pos_r; [exact H0 | exact Hv]. }
    assert (Hm : v mod 128 = v) by (apply N.mod_small; lia).
    rewrite Hm, Hm. replace (v <? 128) with true by (symmetry; apply N.ltb_lt; lia).
    unfold wshl64. change (63 mod 64) with 63. rewrite (N.mod_small (v * 2^63)) by exact Hv.
    rewrite lor_disjoint_add by exact Hacc. reflexivity.
  - cbn [write_var]. destruct (N.ltb_spec v 128) as [Hs|Hb].
    + simpl. rewrite (N.mod_small v 128) by lia.
      replace (v <? 128) with true by (symmetry; apply N.ltb_lt; lia).
      unfold wshl64. assert (len < 64) by lia. rewrite (N.mod_small len 64) by lia.
      rewrite (N.mod_small (v * 2^len)) by exact Hv.
      rewrite lor_disjoint_add by exact Hacc. reflexivity.
    + cbn [app read_var].
      assert (Hlt : len < 57) by lia.
      assert (Hm : (v mod 128 + 128) mod 128 = v mod 128).
      { rewrite N.add_mod by lia. rewrite N.mod_same by lia. rewrite N.add_0_r. rewrite N.mod_mod by lia. apply N.mod_mod; lia. }
      rewrite Hm.
      replace (v mod 128 + 128 <? 128) with false by (symmetry; apply N.ltb_ge; lia).
      replace (70 <? len + 7) with false by (symmetry; apply N.ltb_ge; lia).
      unfold wshl64. rewrite (N.mod_small len 64) by lia.
      assert (Hpow : 2 ^ (len + 7) = 2 ^ len * 128) by (rewrite N.pow_add_r; reflexivity).
      assert (Hvm : v mod 128 * 2 ^ len < 2 ^ 64).
      { eapply N.le_lt_trans; [|exact Hv]. apply N.mul_le_mono_r. apply N.mod_le; lia. }
      rewrite (N.mod_small _ _ Hvm).
      rewrite lor_disjoint_add by exact Hacc.
      rewrite IH.
      * f_equal. rewrite Hpow. pose proof (N.div_mod v 128). nia.
      * lia.
      * lia.
      * rewrite Hpow. assert (v mod 128 < 128) by (apply N.mod_lt; lia). nia.
      * rewrite Hpow. pose proof (N.div_mod v 128). assert (v / 128 * 128 <= v) by nia. nia.
Qed.

Theorem var_u64_roundtrip : forall v rest, v < 2 ^ 64 ->
  read_var_u64 (write_var_u64 v ++ rest) = Ok v rest.
Proof.
  intros v rest Hv. unfold read_var_u64, write_var_u64.
  rewrite (roundtrip_gen 9 v 0 0 rest).
  - f_equal. change (2 ^ 0) with 1. lia.
  - reflexivity.
  - lia.
  - change (2 ^ 0) with 1. lia.
  - change (2 ^ 0) with 1. lia.
Qed.
Print Assumptions var_u64_roundtrip.
