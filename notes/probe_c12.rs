use yrs::{Doc, Text, GetString, Transact, ReadTxn, Map, Array, Any, Options, OffsetKind, UndoManager};
use yrs::types::ToJson;
use yrs::block::ClientID;
struct Rng(u64);
impl Rng { fn next(&mut self) -> u64 { self.0 ^= self.0 << 13; self.0 ^= self.0 >> 7; self.0 ^= self.0 << 17; self.0 } fn below(&mut self, n: u64) -> u64 { self.next() % n } }
fn mk(id: u64, gc: bool) -> Doc { Doc::with_options(Options { client_id: ClientID::new(id), guid: format!("g{id}").into(), collection_id: None, offset_kind: OffsetKind::Utf16, skip_gc: !gc, auto_load: false, should_load: true, cleanup_formatting: false }) }
fn dump(d: &Doc) -> String {
    let t = d.get_or_insert_text("t"); let m = d.get_or_insert_map("m"); let a = d.get_or_insert_array("a");
    let txn = d.transact();
    let mut mj = String::new(); m.to_json(&txn).to_json(&mut mj);
    let mut aj = String::new(); a.to_json(&txn).to_json(&mut aj);
    let mv: serde_json::Value = serde_json::from_str(&mj).unwrap();
    format!("{}|{}|{}", t.get_string(&txn), serde_json::to_string(&mv).unwrap(), aj)
}
fn main() {
    std::panic::set_hook(Box::new(|i| { eprintln!("PANIC: {i}"); }));
    let mut rng = Rng(55555);
    let (mut bad, mut pan) = (0, 0);
    for trial in 0..1500 {
        let res = std::panic::catch_unwind(std::panic::AssertUnwindSafe(|| {
        let gc = rng.below(2) == 0;
        let d = mk(1, gc);
        let t = d.get_or_insert_text("t"); let m = d.get_or_insert_map("m"); let a = d.get_or_insert_array("a");
        // some pre-existing content before the manager tracks
        t.insert(&mut d.transact_mut(), 0, "base");
        a.insert_range(&mut d.transact_mut(), 0, vec![Any::from(1i64), Any::from(2i64)]);
        m.insert(&mut d.transact_mut(), "k0", 0i64);
        let mut mgr = UndoManager::new();
        mgr.expand_scope(&d, &t); mgr.expand_scope(&d, &a); mgr.expand_scope(&d, &m);
        let mut dumps = vec![dump(&d)];
        let mut script = vec![];
        let steps = 1 + rng.below(5);
        for k in 0..steps {
            let mut txn = d.transact_mut();
            for _ in 0..1 + rng.below(3) {
            match rng.below(7) {
                0|1 => { let len = t.len(&txn); let p = rng.below(len as u64 + 1) as u32; t.insert(&mut txn, p, &format!("{}{}", (b'a'+k as u8) as char, k)); script.push(format!("tins {p}")); }
                2 => { let len = t.len(&txn); if len > 0 { let p = rng.below(len as u64) as u32; let l = 1 + rng.below((len - p).min(3) as u64) as u32; t.remove_range(&mut txn, p, l); script.push(format!("tdel {p} {l}")); } }
                3 => { let key = format!("k{}", rng.below(2)); m.insert(&mut txn, key.clone(), 10 + k as i64); script.push(format!("mset {key}")); }
                4 => { let key = format!("k{}", rng.below(2)); m.remove(&mut txn, &key); script.push(format!("mdel {key}")); }
                5 => { let len = a.len(&txn); let p = rng.below(len as u64 + 1) as u32; a.insert_range(&mut txn, p, vec![Any::from(100 + k as i64)]); script.push(format!("ains {p}")); }
                _ => { let len = a.len(&txn); if len > 0 { let p = rng.below(len as u64) as u32; a.remove_range(&mut txn, p, 1); script.push(format!("adel {p}")); } }
            } }
            drop(txn);
            script.push("|".into());
            mgr.reset();
            dumps.push(dump(&d));
        }
        // distinct consecutive dumps define visible steps
        let mut vis: Vec<String> = vec![dumps[0].clone()];
        for x in &dumps[1..] { if vis.last().unwrap() != x { vis.push(x.clone()); } }
        // undo all
        let mut i = vis.len() - 1;
        while i > 0 {
            let r = mgr.undo_blocking();
            let now = dump(&d);
            if !r { return Some(format!("undo returned false at visible step {i}; script {:?}", script)); }
            if now != vis[i-1] { return Some(format!("after undo expected {:?} got {:?}; script {:?} dumps {:?}", vis[i-1], now, script, dumps)); }
            i -= 1;
        }
        // redo all
        for j in 1..vis.len() {
            let r = mgr.redo_blocking();
            let now = dump(&d);
            if !r { return Some(format!("redo returned false at {j}; script {:?}", script)); }
            if now != vis[j] { return Some(format!("after redo expected {:?} got {:?}; script {:?}", vis[j], now, script)); }
        }
        None }));
        match res { Ok(Some(msg)) => { bad += 1; if bad <= 5 { println!("trial {trial}: {msg}"); } } Ok(None) => {} Err(_) => { pan += 1; } }
    }
    println!("bad={bad} panics={pan}");
}
