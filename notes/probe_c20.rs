use yrs::updates::decoder::Decode;
use yrs::{Doc, Update, Transact, ReadTxn, Map, Array, Any, Options, OffsetKind, Out, Quotable, WeakRef, ArrayRef};
use yrs::block::ClientID;
use std::sync::{Arc, Mutex};
struct Rng(u64);
impl Rng { fn next(&mut self) -> u64 { self.0 ^= self.0 << 13; self.0 ^= self.0 >> 7; self.0 ^= self.0 << 17; self.0 } fn below(&mut self, n: u64) -> u64 { self.next() % n } }
fn mk(id: u64, gc: bool) -> Doc { Doc::with_options(Options { client_id: ClientID::new(id), guid: format!("g{id}").into(), collection_id: None, offset_kind: OffsetKind::Utf16, skip_gc: !gc, auto_load: false, should_load: true, cleanup_formatting: false }) }
fn num(o: &Out) -> i64 { match o { Out::Any(Any::Number(n)) => *n as i64, Out::Any(Any::BigInt(n)) => *n, _ => -1 } }
fn main() {
    std::panic::set_hook(Box::new(|i| { eprintln!("PANIC: {i}"); }));
    let mut rng = Rng(777123);
    let (mut bad, mut pan) = (0, 0);
    let mut next_val = 1000i64;
    for trial in 0..800 {
        let n = 2;
        let docs: Vec<Doc> = (0..n).map(|i| mk(i as u64 + 1, false)).collect();
        let logs: Vec<Arc<Mutex<Vec<Vec<u8>>>>> = (0..n).map(|_| Arc::new(Mutex::new(vec![]))).collect();
        let mut subs = vec![];
        for i in 0..n { let l = logs[i].clone(); subs.push(docs[i].observe_update_v1(move |_, e| l.lock().unwrap().push(e.update.clone())).unwrap()); }
        let mut delivered = vec![vec![0usize; n]; n];
        let mut script = vec![];
        let res = std::panic::catch_unwind(std::panic::AssertUnwindSafe(|| {
            // initial content on doc0, synced
            { let a = docs[0].get_or_insert_array("a"); let mut txn = docs[0].transact_mut(); let vals: Vec<Any> = (0..6).map(|_| { next_val += 1; Any::from(next_val) }).collect(); a.insert_range(&mut txn, 0, vals); }
            let sync = |c: usize, o: usize, delivered: &mut Vec<Vec<usize>>| { let ups = logs[o].lock().unwrap().clone(); for u in &ups[delivered[c][o]..] { docs[c].transact_mut().apply_update(Update::decode_v1(u).unwrap()).unwrap(); } delivered[c][o] = ups.len(); };
            sync(1, 0, &mut delivered);
            // quote on doc0
            let a0 = docs[0].get_or_insert_array("a"); let m0 = docs[0].get_or_insert_map("m");
            let (lo, hi, incl_lo, incl_hi);
            let (first_tag, last_tag);
            {
                let mut txn = docs[0].transact_mut();
                let vals: Vec<i64> = a0.iter(&txn).map(|o| num(&o)).collect();
                lo = rng.below(5) as u32; hi = lo + rng.below((5 - lo) as u64 + 1) as u32;
                incl_lo = true; incl_hi = true;
                let q = a0.quote(&txn, lo..=hi).unwrap();
                first_tag = vals[lo as usize]; last_tag = vals[hi as usize];
                m0.insert(&mut txn, "q", q);
                script.push(format!("quote {lo}..={hi} tags {first_tag}..{last_tag}"));
            }
            let _ = (incl_lo, incl_hi);
            for k in 0..10 {
                let c = rng.below(n as u64) as usize;
                let d = &docs[c]; let a = d.get_or_insert_array("a");
                if rng.below(3) != 0 {
                    let mut txn = d.transact_mut();
                    let len = a.len(&txn);
                    if rng.below(3) == 0 && len > 0 { let p = rng.below(len as u64) as u32; a.remove_range(&mut txn, p, 1); script.push(format!("c{c} del {p}")); }
                    else { let p = rng.below(len as u64 + 1) as u32; next_val += 1; a.insert(&mut txn, p, next_val); script.push(format!("c{c} ins {p} {next_val}")); }
                } else { let o = 1 - c; sync(c, o, &mut delivered); script.push(format!("c{c} <- c{o}")); }
                let _ = k;
                for i in 0..n {
                    let d = &docs[i]; let a = d.get_or_insert_array("a"); let m = d.get_or_insert_map("m");
                    let txn = d.transact();
                    let q: Option<WeakRef<ArrayRef>> = m.get(&txn, "q").and_then(|o| o.try_into().ok());
                    if let Some(q) = q {
                        let got: Vec<i64> = q.unquote(&txn).map(|o| num(&o)).collect();
                        let vals: Vec<i64> = a.iter(&txn).map(|o| num(&o)).collect();
                        let (pf, pl) = (vals.iter().position(|v| *v == first_tag), vals.iter().position(|v| *v == last_tag));
                        if let (Some(pf), Some(pl)) = (pf, pl) {
                            let exp: Vec<i64> = vals[pf..=pl].to_vec();
                            if got != exp { return Some(format!("doc {i}: unquote {:?} expected {:?} (array {:?})", got, exp, vals)); }
                        }
                    }
                }
            }
            None
        }));
        match res { Ok(Some(msg)) => { bad += 1; if bad <= 5 { println!("trial {trial}: {msg}\n  script {:?}", script); } } Ok(None) => {} Err(_) => { pan += 1; } }
    }
    println!("bad={bad} panics={pan}");
}
