
use std::panic::{catch_unwind, AssertUnwindSafe};
use yrs::block::ClientID;
use yrs::updates::decoder::Decode;
use yrs::updates::encoder::Encode;
use yrs::block::BlockRange;
use yrs::{ContentAttribute, IdMap, ID};

const V1_CASES: &[(&str, &[u8])] = &[
    ("M1", &[0]),
    ("M2", &[1, 1, 1, 0, 3, 1, 0, 0, 1, 97, 119, 1, 120]),
    ("M3", &[1, 1, 3, 0, 2, 1, 0, 0, 4, 117, 115, 101, 114, 119, 5, 97, 108, 105, 99, 101, 2, 3, 1, 1, 0, 119, 3, 98, 111, 98, 7, 2, 2, 2, 1, 4, 116, 105, 109, 101, 119, 2, 116, 49, 0]),
    ("M4", &[1, 7, 2, 0, 2, 1, 0, 0, 1, 117, 119, 1, 118, 5, 2, 1, 0]),
    ("M5", &[1, 7, 2, 0, 2, 1, 0, 0, 1, 117, 119, 1, 118, 5, 2, 1, 0]),
    ("M6", &[1, 7, 2, 0, 2, 1, 0, 0, 1, 117, 119, 1, 118, 5, 2, 1, 1, 0, 119, 1, 118]),
    ("M7", &[4, 5, 1, 10, 1, 2, 0, 0, 3, 100, 101, 108, 119, 3, 98, 111, 98, 1, 1, 3, 105, 110, 115, 119, 5, 97, 108, 105, 99, 101, 227, 7, 1, 172, 2, 200, 1, 1, 2, 2, 3, 110, 195, 169, 119, 3, 226, 130, 172, 159, 248, 255, 255, 15, 3, 0, 2, 1, 1, 2, 2, 2, 1, 0, 4, 2, 1, 0, 248, 255, 255, 255, 239, 255, 255, 15, 1, 254, 255, 255, 255, 15, 1, 1, 1]),
    ("M8", &[1, 2, 2, 0, 3, 1, 0, 0, 1, 97, 119, 1, 49, 3, 6, 1, 1, 0, 119, 1, 50]),
    ("D1", &[1, 1, 2, 0, 0, 1, 0, 0, 1, 97, 119, 1, 120, 2, 2, 2, 1, 0, 119, 1, 121, 0]),
    ("D2", &[1, 1, 2, 5, 3, 1, 0, 0, 1, 97, 119, 1, 120, 3, 4, 1, 1, 1, 1, 98, 119, 1, 121]),
    ("D3", &[1, 1, 4, 2, 1, 2, 0, 0, 1, 97, 119, 1, 120, 1, 0, 119, 1, 122, 3, 1, 2, 0, 2, 0, 119, 1, 121, 4, 1, 2, 0, 0, 1, 1, 2, 0, 0]),
    ("D4", &[1, 1, 1, 0, 1, 1, 1, 0, 1, 97, 119, 1, 120]),
    ("D5", &[1, 1, 1, 0, 1, 1, 0, 1, 1, 97, 119, 1, 120]),
    ("D6", &[1, 1, 1, 0, 1, 1, 0, 0, 1, 97, 120]),
    ("D7", &[1, 1, 1, 255, 255, 255, 255, 15, 1, 0]),
    ("D8", &[1, 128, 128, 128, 128, 128, 128, 128, 16, 0]),
    ("D9", &[2, 1, 0, 255, 255, 255, 255, 255, 255, 255, 255, 255, 1, 0]),
    ("D10", &[2, 5, 1, 0, 2, 1, 0, 0, 1, 97, 119, 1, 120, 0, 1, 3, 1, 1, 0]),
    ("D11", &[2, 5, 1, 0, 2, 1, 0, 0, 1, 97, 119, 1, 120, 0, 0]),
    ("D12", &[1, 1, 1, 0, 1]),
    ("D13", &[1, 1, 2, 0, 2, 1, 0, 0, 1, 117, 119, 1, 118, 5, 2, 1, 1, 0, 119, 1, 118]),
    ("D14", &[1, 1, 1, 0, 1, 1, 128, 128, 128, 128, 128, 128, 128, 128, 128, 1, 0, 1, 97, 119, 1, 120]),
    ("D15", &[1, 1, 1, 0, 1, 1, 0, 0, 1, 255, 119, 1, 120]),
    ("D16", &[1, 5, 2, 0, 2, 0, 2, 2, 0]),
    ("D17", &[5]),
    ("D18", &[1, 1, 2, 0, 2, 1, 0, 0, 1, 117, 119, 1, 118, 2, 2, 1, 1, 0, 119, 1, 118]),
    ("D19", &[1, 1, 2, 0, 4, 1, 0, 0, 1, 117, 119, 1, 118, 2, 4, 1, 1, 0, 119, 1, 118]),
    ("D20", &[1, 3, 2, 5, 0, 1, 0, 0, 1, 107, 119, 1, 118, 7, 1, 1, 0]),
    ("D22", &[1, 5, 2, 0, 1, 2, 0, 0, 1, 97, 119, 1, 120, 0, 1, 1, 2, 0, 0]),
    ("D23", &[1, 5, 2, 0, 1, 2, 0, 0, 1, 97, 119, 1, 120, 1, 0, 119, 1, 121, 1, 1, 2, 1, 0]),
    ("D24", &[1, 5, 2, 0, 1, 3, 0, 0, 1, 97, 119, 1, 120, 0, 1, 0, 119, 1, 121, 1, 1, 3, 0, 1, 1]),
    ("D25", &[1, 5, 2, 0, 1, 2, 0, 0, 1, 97, 119, 1, 120, 0, 1, 1, 2, 0, 1, 0, 119, 1, 121]),
    ("D26", &[1, 5, 2, 0, 2, 2, 0, 0, 1, 97, 119, 1, 120, 0, 1, 2, 1, 0]),
];

fn coq(b: &[u8]) -> String {
    let v: Vec<String> = b.iter().map(|x| x.to_string()).collect();
    format!("[{}]", v.join("; "))
}

fn view(m: &IdMap<String>) -> String {
    let mut s = String::new();
    for (c, r) in m.iter() {
        let a: Vec<String> = r.attrs.iter().map(|a| format!("{}={}", a.name(), a.value())).collect();
        s.push_str(&format!("({} {}..{} [{}]) ", c.get(), r.range.start, r.range.end, a.join(",")));
    }
    s
}

fn built() -> Vec<(&'static str, IdMap<String>)> {
    let mut out = Vec::new();
    let at = |n: &str, v: &str| ContentAttribute::new(n.to_string(), v.to_string());
    let br = |c: u64, k: u32, l: u32| BlockRange::new(ID::new(ClientID::new(c), k), l);
    // B1: non-ASCII names (2-byte, 3-byte, 4-byte = surrogate pair), repeated name, empty name
    let mut m = IdMap::new();
    m.insert(br(3, 0, 2), vec![at("\u{e9}", "v1")]);
    m.insert(br(3, 5, 1), vec![at("\u{1F600}x", "v2"), at("", "e")]);
    m.insert(br(9, 1, 4), vec![at("\u{e9}", "other"), at("\u{20ac}", "\u{1F600}")]);
    out.push(("B1", m));
    // B2: many equal-length names (run in the length column), same attribution object shared by ranges
    let mut m = IdMap::new();
    let shared = at("aa", "s");
    m.insert(br(1, 0, 1), vec![shared.clone()]);
    m.insert(br(1, 2, 1), vec![at("bb", "t"), shared.clone()]);
    m.insert(br(1, 4, 1), vec![at("cc", "u")]);
    m.insert(br(2, 10, 3), vec![at("dd", "w"), shared.clone()]);
    m.insert(br(1u64 << 40, 4000000000, 7), vec![at("ee", "z")]);
    out.push(("B2", m));
    // B3: range ending at u32::MAX
    let mut m = IdMap::new();
    m.insert(br(1, u32::MAX - 3, 3), vec![at("k", "v")]);
    out.push(("B3", m));
    out
}

struct Rng(u64);
impl Rng {
    fn next(&mut self) -> u64 {
        let mut x = self.0;
        x ^= x << 13;
        x ^= x >> 7;
        x ^= x << 17;
        self.0 = x;
        x
    }
    fn below(&mut self, n: usize) -> usize {
        (self.next() % (n as u64)) as usize
    }
}

fn try_decode(b: &[u8]) -> Result<Result<IdMap<String>, String>, ()> {
    let r = catch_unwind(AssertUnwindSafe(|| IdMap::<String>::decode_v2(b)));
    match r {
        Ok(Ok(m)) => Ok(Ok(m)),
        Ok(Err(e)) => Ok(Err(format!("{:?}", e))),
        Err(_) => Err(()),
    }
}

#[test]
fn im2_cases() {
    let mut seeds: Vec<Vec<u8>> = Vec::new();
    for (name, v1) in V1_CASES {
        match IdMap::<String>::decode_v1(v1) {
            Ok(m) => {
                let v2 = m.encode_v2();
                let back = IdMap::<String>::decode_v2(&v2);
                let (eq, re1, re2) = match &back {
                    Ok(b) => (*b == m, coq(&b.encode_v1()), coq(&b.encode_v2())),
                    Err(e) => (false, format!("{:?}", e), String::new()),
                };
                println!("CASE {} v1re={} v2={} eq={} back_v1={} back_v2={} view={}", name, coq(&m.encode_v1()), coq(&v2), eq, re1, re2, view(&m));
                seeds.push(v2);
            }
            Err(e) => println!("CASE {} v1err={:?}", name, e),
        }
    }
    for (name, m) in built() {
        let v1 = m.encode_v1();
        let v2 = m.encode_v2();
        let back = IdMap::<String>::decode_v2(&v2).unwrap();
        let b1 = IdMap::<String>::decode_v1(&v1).unwrap();
        println!("BUILT {} v1={} v2={} eq={} eq1={} back_v2={} view={} viewback={}", name, coq(&v1), coq(&v2), back == m, b1 == m, coq(&back.encode_v2()), view(&m), view(&back));
        seeds.push(v2);
    }
    // replay of explicit inputs: IM2_BYTES="1,2,3;4,5"
    if let Ok(s) = std::env::var("IM2_BYTES") {
        for part in s.split(';') {
            let b: Vec<u8> = part.split(',').filter(|x| !x.trim().is_empty()).map(|x| x.trim().parse().unwrap()).collect();
            match try_decode(&b) {
                Ok(Ok(m)) => println!("REPLAY {} -> Ok view={} v1={} v2={}", coq(&b), view(&m), coq(&m.encode_v1()), coq(&m.encode_v2())),
                Ok(Err(e)) => println!("REPLAY {} -> Err {}", coq(&b), e),
                Err(()) => println!("REPLAY {} -> PANIC", coq(&b)),
            }
        }
    }
    // mutation fuzzing
    std::panic::set_hook(Box::new(|_| {}));
    let mut rng = Rng(0x9E3779B97F4A7C15);
    let mut n_ok = 0usize;
    let mut n_err = 0usize;
    let mut n_panic = 0usize;
    let mut n_ok_d = 0usize;
    let mut n_err_d = 0usize;
    let iters: usize = std::env::var("IM2_ITERS").ok().and_then(|x| x.parse().ok()).unwrap_or(200000);
    for i in 0..iters {
        let mut b: Vec<u8> = if i % 10 == 9 {
            let n = rng.below(40);
            (0..n).map(|_| rng.next() as u8).collect()
        } else {
            seeds[rng.below(seeds.len())].clone()
        };
        let muts = 1 + rng.below(4);
        for _ in 0..muts {
            match rng.below(6) {
                0 if !b.is_empty() => { let p = rng.below(b.len()); b[p] = rng.next() as u8; }
                1 if !b.is_empty() => { let p = rng.below(b.len()); b[p] ^= 1 << rng.below(8); }
                2 => { let p = rng.below(b.len() + 1); b.insert(p, rng.next() as u8); }
                3 if !b.is_empty() => { let p = rng.below(b.len()); b.remove(p); }
                4 if !b.is_empty() => { let p = rng.below(b.len()); b.truncate(p); }
                5 if !b.is_empty() => { let p = rng.below(b.len()); b[p] = [0u8, 1, 127, 128, 255, 64, 63][rng.below(7)]; }
                _ => {}
            }
        }
        let dump = (i % 7 == 0) && b.len() < 60;
        match try_decode(&b) {
            Ok(Ok(m)) => {
                n_ok += 1;
                if dump && n_ok_d < 200 { n_ok_d += 1; println!("MUT {} -> OK {}", coq(&b), coq(&m.encode_v1())); }
                // decoded values re-encode and decode to an equal map
                let r = catch_unwind(AssertUnwindSafe(|| {
                    let v2 = m.encode_v2();
                    let again = IdMap::<String>::decode_v2(&v2);
                    let v1 = m.encode_v1();
                    let again1 = IdMap::<String>::decode_v1(&v1);
                    (again.map(|x| x == m).unwrap_or(false), again1.map(|x| x == m).unwrap_or(false))
                }));
                match r {
                    Ok((true, true)) => {}
                    Ok(x) => println!("REENCODE-MISMATCH {:?} on {}", x, coq(&b)),
                    Err(_) => println!("REENCODE-PANIC on {}", coq(&b)),
                }
            }
            Ok(Err(e)) => { n_err += 1; if dump && n_err_d < 400 { n_err_d += 1; println!("MUT {} -> ERR {}", coq(&b), e); } }
            Err(()) => { n_panic += 1; if n_panic <= 20 { println!("PANIC on {}", coq(&b)); } }
        }
    }
    println!("FUZZ iters={} ok={} err={} panic={}", iters, n_ok, n_err, n_panic);
}
