// Replays of the counterexamples found by the Coq model GcBlocks.v (NS.GcBlocksCases).
use std::panic::{catch_unwind, AssertUnwindSafe};
use yrs::{ClientID, Doc, IdSet, Map, Options, ReadTxn, Text, Transact, ID};

fn doc1() -> Doc {
    Doc::with_options(Options {
        client_id: ClientID::new(1),
        skip_gc: true,
        ..Default::default()
    })
}

fn ds(client: u64, start: u32, len: u32) -> IdSet {
    let mut s = IdSet::new();
    s.insert(ID::new(ClientID::new(client), start), len);
    s
}

// R1: TransactionMut::gc(Some(ds)) where ds names a clock the store does not hold:
//     find_index has no `clock < blocks.clock()` guard in mark_in_scope.
#[test]
fn r1_ds_beyond_store_single_unit_block() {
    let doc = doc1();
    let txt = doc.get_or_insert_text("t");
    txt.insert(&mut doc.transact_mut(), 0, "a"); // one block (1,0) len 1: clock_range = (0, 0)
    let d = ds(1, 1, 1);
    let r = catch_unwind(AssertUnwindSafe(|| {
        doc.transact_mut().gc(Some(&d));
    }));
    println!("R1 gc(Some({{1:[1,2)}})) on a store holding (1,0) len 1: panicked = {}", r.is_err());
    assert!(r.is_err(), "expected: attempt to divide by zero in find_index");
}

#[test]
fn r1b_ds_beyond_store_index_out_of_bounds() {
    let doc = doc1();
    let m = doc.get_or_insert_map("m");
    m.insert(&mut doc.transact_mut(), "a", 1); // (1,0)
    m.insert(&mut doc.transact_mut(), "b", 2); // (1,1): not squashed (map entries)
    let d = ds(1, 7, 1);
    let r = catch_unwind(AssertUnwindSafe(|| {
        doc.transact_mut().gc(Some(&d));
    }));
    println!("R1b gc(Some({{1:[7,8)}})) on a store holding (1,0),(1,1): panicked = {}", r.is_err());
    assert!(r.is_err(), "expected: index out of bounds in find_index (mid = (7 / 1) * 1)");
}

// R2: a range that starts inside a block: `start` is advanced by the FULL length of the first block.
//     blocks of client 1: [0,2) "ab" deleted, [2,3) map entry deleted. ds = [1,3).
//     Blocks wholly inside [1,3): only [2,3). The walk collects [0,2) and does not collect [2,3).
#[cfg(y_crdt_y_crdt_verif)]
#[test]
fn r2_unaligned_range() {
    use yrs::verif::{dump_store, VBlock, VContent};
    let doc = doc1();
    let txt = doc.get_or_insert_text("t");
    let m = doc.get_or_insert_map("m");
    txt.insert(&mut doc.transact_mut(), 0, "ab"); // (1,0) len 2
    m.insert(&mut doc.transact_mut(), "k", 5); // (1,2) len 1
    {
        let mut tx = doc.transact_mut();
        txt.remove_range(&mut tx, 0, 2);
        m.remove(&mut tx, "k");
    }
    let show = |tag: &str| {
        let tx = doc.transact();
        let st = dump_store(&tx);
        for (c, bl) in st.blocks.iter() {
            for b in bl {
                match b {
                    VBlock::Item(i) => println!(
                        "{} client {} item clock {} len {} deleted {} content {:?}",
                        tag, c, i.id.clock, i.len, i.deleted, i.content
                    ),
                    VBlock::GC(id, l) => println!("{} client {} GC {} len {}", tag, c, id.clock, l),
                    VBlock::Skip(id, l) => println!("{} client {} Skip {} len {}", tag, c, id.clock, l),
                }
            }
        }
        st
    };
    show("R2 before");
    let d = ds(1, 1, 2); // [1,3)
    doc.transact_mut().gc(Some(&d));
    let st = show("R2 after ");
    let bl = &st.blocks[0].1;
    let c0 = match &bl[0] { VBlock::Item(i) => matches!(i.content, VContent::Deleted(_)), _ => false };
    let c1 = match &bl[1] { VBlock::Item(i) => matches!(i.content, VContent::Deleted(_)), _ => false };
    println!("R2 block [0,2) (half outside the range) collected = {}, block [2,3) (wholly inside) collected = {}", c0, c1);
    assert!(c0 && !c1);
}
