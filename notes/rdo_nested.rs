// Agreement test for the Coq model /tmp/rdo/Redo.v (nested undo / redo).
// Drives UndoManager over nested Array / Map histories, records the rendered content after every
// action, checks the inverse law with a mirror oracle, and writes the histories with their renders as
// Coq terms (RedoAgree*.v) so that the model can be run on the very same histories.
//
//   RDO_MODE=exh  RDO_DEPTH=4     exhaustive enumeration of single-call steps / undo / redo
//   RDO_MODE=rnd  RDO_N=2000 RDO_LEN=9 RDO_SEED=1 [RDO_OTHER=1] [RDO_MULTI=1]   random histories
//   RDO_OUT=/tmp/rdo/agree        prefix of the Coq files written
use std::fmt::Write as _;
use yrs::undo::Options as UOptions;
use yrs::{
    Any, Array, ArrayPrelim, ArrayRef, Doc, Map, MapPrelim, MapRef, Options, Out, ReadTxn,
    Transact, UndoManager,
};

#[derive(Clone, Debug, PartialEq)]
enum StepK {
    Idx(u32),
    Key(u32),
}
#[derive(Clone, Debug, PartialEq)]
enum Cnt {
    Val(u32),
    Type(u32), // 0 = array, 1 = map
}
#[derive(Clone, Debug, PartialEq)]
enum Op {
    Ins(u32, Vec<StepK>, u32, Cnt),
    Del(u32, Vec<StepK>, u32),
    Set(u32, Vec<StepK>, u32, Cnt),
    Rem(u32, Vec<StepK>, u32),
}
#[derive(Clone, Debug, PartialEq)]
enum Act {
    Step(Vec<Vec<Op>>),
    Other(Vec<Op>),
    Undo,
    Redo,
}

// roots: 0 = array "r0" (scope), 1 = map "r1" (scope), 2 = array "r2" (outside the scope)
struct World {
    doc: Doc,
    a: ArrayRef,
    m: MapRef,
    x: ArrayRef,
    mgr: UndoManager,
}

fn key_name(k: u32) -> String {
    format!("k{}", k)
}

impl World {
    fn new(skip_gc: bool) -> World {
        let mut o = Options::with_client_id(yrs::block::ClientID::new(1));
        o.skip_gc = skip_gc;
        let doc = Doc::with_options(o);
        let a = doc.get_or_insert_array("r0");
        let m = doc.get_or_insert_map("r1");
        let x = doc.get_or_insert_array("r2");
        let mut uo = UOptions::default();
        uo.capture_timeout_millis = 1_000_000_000;
        let mut mgr = UndoManager::with_options(uo);
        mgr.expand_scope(&doc, &a);
        mgr.expand_scope(&doc, &m);
        World { doc, a, m, x, mgr }
    }

    fn root(&self, r: u32) -> Out {
        match r {
            0 => Out::YArray(self.a.clone()),
            1 => Out::YMap(self.m.clone()),
            _ => Out::YArray(self.x.clone()),
        }
    }

    fn resolve<T: ReadTxn>(&self, txn: &T, r: u32, path: &[StepK]) -> Option<Out> {
        let mut cur = self.root(r);
        for s in path {
            let next = match (s, &cur) {
                (StepK::Idx(n), Out::YArray(a)) => a.get(txn, *n),
                (StepK::Key(k), Out::YMap(m)) => m.get(txn, &key_name(*k)),
                _ => None,
            };
            match next {
                Some(Out::YArray(a)) => cur = Out::YArray(a),
                Some(Out::YMap(m)) => cur = Out::YMap(m),
                _ => return None,
            }
        }
        Some(cur)
    }

    // returns false when the call is not well-typed here (the model is then not comparable)
    fn apply_ops(&mut self, ops: &[Op], origin: Option<&str>) -> bool {
        let mut txn = match origin {
            Some(o) => self.doc.transact_mut_with(o),
            None => self.doc.transact_mut(),
        };
        let mut ok = true;
        for op in ops {
            match op {
                Op::Ins(r, p, pos, c) => match self.resolve(&txn, *r, p) {
                    Some(Out::YArray(a)) => {
                        let pos = (*pos).min(a.len(&txn));
                        match c {
                            Cnt::Val(v) => {
                                a.insert(&mut txn, pos, Any::BigInt(*v as i64));
                            }
                            Cnt::Type(0) => {
                                a.insert(&mut txn, pos, ArrayPrelim::default());
                            }
                            Cnt::Type(_) => {
                                a.insert(&mut txn, pos, MapPrelim::default());
                            }
                        }
                    }
                    Some(_) => ok = false,
                    None => {}
                },
                Op::Del(r, p, pos) => match self.resolve(&txn, *r, p) {
                    Some(Out::YArray(a)) => {
                        if *pos < a.len(&txn) {
                            a.remove(&mut txn, *pos);
                        }
                    }
                    Some(_) => ok = false,
                    None => {}
                },
                Op::Set(r, p, k, c) => match self.resolve(&txn, *r, p) {
                    Some(Out::YMap(m)) => match c {
                        Cnt::Val(v) => {
                            m.insert(&mut txn, key_name(*k), Any::BigInt(*v as i64));
                        }
                        Cnt::Type(0) => {
                            m.insert(&mut txn, key_name(*k), ArrayPrelim::default());
                        }
                        Cnt::Type(_) => {
                            m.insert(&mut txn, key_name(*k), MapPrelim::default());
                        }
                    },
                    Some(_) => ok = false,
                    None => {}
                },
                Op::Rem(r, p, k) => match self.resolve(&txn, *r, p) {
                    Some(Out::YMap(m)) => {
                        m.remove(&mut txn, &key_name(*k));
                    }
                    Some(_) => ok = false,
                    None => {}
                },
            }
        }
        txn.commit();
        ok
    }

    fn act(&mut self, a: &Act) -> bool {
        match a {
            Act::Step(txns) => {
                self.mgr.reset();
                let mut ok = true;
                for ops in txns {
                    ok &= self.apply_ops(ops, None);
                }
                ok
            }
            Act::Other(ops) => self.apply_ops(ops, Some("other")),
            Act::Undo => {
                self.mgr.undo_blocking();
                true
            }
            Act::Redo => {
                self.mgr.redo_blocking();
                true
            }
        }
    }

    fn render_out<T: ReadTxn>(&self, txn: &T, o: &Out, out: &mut Vec<u64>, top: bool) {
        match o {
            Out::Any(Any::BigInt(v)) => {
                out.push(0);
                out.push(*v as u64);
            }
            Out::Any(Any::Number(v)) => {
                out.push(0);
                out.push(*v as u64);
            }
            Out::YArray(a) => {
                if !top {
                    out.push(1);
                    out.push(0);
                }
                for i in 0..a.len(txn) {
                    let c = a.get(txn, i).unwrap();
                    self.render_out(txn, &c, out, false);
                }
                out.push(2);
                out.push(3);
            }
            Out::YMap(m) => {
                if !top {
                    out.push(1);
                    out.push(1);
                }
                out.push(2);
                let mut keys: Vec<String> = m.keys(txn).map(|k| k.to_string()).collect();
                keys.sort();
                for k in keys {
                    let c = m.get(txn, &k).unwrap();
                    out.push(k[1..].parse::<u64>().unwrap());
                    self.render_out(txn, &c, out, false);
                }
                out.push(3);
            }
            other => panic!("unexpected value {:?}", other),
        }
    }

    fn render(&self) -> Vec<Vec<u64>> {
        let txn = self.doc.transact();
        (0..3)
            .map(|r| {
                let mut v = Vec::new();
                self.render_out(&txn, &self.root(r), &mut v, true);
                v
            })
            .collect()
    }

    // the containers visible below the roots 0 and 1 (and 2 when `all`): (root, path, is_map, len)
    fn containers(&self, all: bool) -> Vec<(u32, Vec<StepK>, bool, u32)> {
        let txn = self.doc.transact();
        let mut res = Vec::new();
        let mut todo: Vec<(u32, Vec<StepK>, Out)> = vec![
            (0, vec![], self.root(0)),
            (1, vec![], self.root(1)),
        ];
        if all {
            todo.push((2, vec![], self.root(2)));
        }
        while let Some((r, p, o)) = todo.pop() {
            match &o {
                Out::YArray(a) => {
                    let len = a.len(&txn);
                    res.push((r, p.clone(), false, len));
                    for i in 0..len {
                        let c = a.get(&txn, i).unwrap();
                        if matches!(c, Out::YArray(_) | Out::YMap(_)) {
                            let mut q = p.clone();
                            q.push(StepK::Idx(i));
                            todo.push((r, q, c));
                        }
                    }
                }
                Out::YMap(m) => {
                    res.push((r, p.clone(), true, 0));
                    for k in 0..2u32 {
                        if let Some(c) = m.get(&txn, &key_name(k)) {
                            if matches!(c, Out::YArray(_) | Out::YMap(_)) {
                                let mut q = p.clone();
                                q.push(StepK::Key(k));
                                todo.push((r, q, c));
                            }
                        }
                    }
                }
                _ => {}
            }
        }
        res.sort_by(|x, y| format!("{:?}", (x.0, &x.1)).cmp(&format!("{:?}", (y.0, &y.1))));
        res
    }

    fn has_key(&self, r: u32, p: &[StepK], k: u32) -> bool {
        let txn = self.doc.transact();
        match self.resolve(&txn, r, p) {
            Some(Out::YMap(m)) => m.get(&txn, &key_name(k)).is_some(),
            _ => false,
        }
    }

    // the calls that make sense in the current state; `tok` = value token for new values
    fn calls(&self, tok: u32, all_roots: bool, small: bool) -> Vec<Op> {
        let mut res = Vec::new();
        for (r, p, is_map, len) in self.containers(all_roots) {
            if p.len() > 2 {
                continue;
            }
            if !is_map {
                let positions: Vec<u32> = if small && len > 1 { vec![0, len] } else { (0..=len).collect() };
                for pos in positions {
                    res.push(Op::Ins(r, p.clone(), pos, Cnt::Val(tok)));
                    if p.len() < 2 {
                        res.push(Op::Ins(r, p.clone(), pos, Cnt::Type(0)));
                        res.push(Op::Ins(r, p.clone(), pos, Cnt::Type(1)));
                    }
                }
                for pos in 0..len {
                    res.push(Op::Del(r, p.clone(), pos));
                }
            } else {
                let keys: u32 = if small { 1 } else { 2 };
                for k in 0..keys {
                    res.push(Op::Set(r, p.clone(), k, Cnt::Val(tok)));
                    if p.len() < 2 {
                        res.push(Op::Set(r, p.clone(), k, Cnt::Type(0)));
                        res.push(Op::Set(r, p.clone(), k, Cnt::Type(1)));
                    }
                    if self.has_key(r, &p, k) {
                        res.push(Op::Rem(r, p.clone(), k));
                    }
                }
            }
        }
        res
    }
}

// ------------------------------------------------------------------------------------------------
// Coq syntax

fn coq_path(p: &[StepK]) -> String {
    let v: Vec<String> = p
        .iter()
        .map(|s| match s {
            StepK::Idx(n) => format!("RdoIdx {}", n),
            StepK::Key(k) => format!("RdoKey {}", k),
        })
        .collect();
    format!("[{}]", v.join("; "))
}
fn coq_cnt(c: &Cnt) -> String {
    match c {
        Cnt::Val(v) => format!("(RdoVal {})", v),
        Cnt::Type(k) => format!("(RdoType {})", k),
    }
}
fn coq_op(o: &Op) -> String {
    match o {
        Op::Ins(r, p, pos, c) => format!("RdoOIns {} {} {} {}", r, coq_path(p), pos, coq_cnt(c)),
        Op::Del(r, p, pos) => format!("RdoODel {} {} {}", r, coq_path(p), pos),
        Op::Set(r, p, k, c) => format!("RdoOSet {} {} {} {}", r, coq_path(p), k, coq_cnt(c)),
        Op::Rem(r, p, k) => format!("RdoORem {} {} {}", r, coq_path(p), k),
    }
}
fn coq_ops(ops: &[Op]) -> String {
    let v: Vec<String> = ops.iter().map(coq_op).collect();
    format!("[{}]", v.join("; "))
}
fn coq_act(a: &Act) -> String {
    match a {
        Act::Step(txns) => {
            let v: Vec<String> = txns.iter().map(|t| coq_ops(t)).collect();
            format!("RdoAStep [{}]", v.join("; "))
        }
        Act::Other(ops) => format!("RdoAOther {}", coq_ops(ops)),
        Act::Undo => "RdoAUndo".to_string(),
        Act::Redo => "RdoARedo".to_string(),
    }
}
fn coq_hist(h: &[Act]) -> String {
    let v: Vec<String> = h.iter().map(coq_act).collect();
    format!("[{}]", v.join("; "))
}
fn coq_renders(rs: &[Vec<Vec<u64>>]) -> String {
    let v: Vec<String> = rs
        .iter()
        .map(|r| {
            let w: Vec<String> = r
                .iter()
                .map(|l| {
                    let x: Vec<String> = l.iter().map(|n| n.to_string()).collect();
                    format!("[{}]", x.join(";"))
                })
                .collect();
            format!("[{}]", w.join(";"))
        })
        .collect();
    format!("[{}]", v.join("; "))
}

struct Emitter {
    prefix: String,
    chunk: usize,
    count: usize,
    buf: String,
    files: usize,
}
impl Emitter {
    fn new(prefix: String, chunk: usize) -> Self {
        Emitter { prefix, chunk, count: 0, buf: String::new(), files: 0 }
    }
    fn add(&mut self, h: &[Act], rs: &[Vec<Vec<u64>>]) {
        write!(self.buf, "  ({},\n   {}) ::\n", coq_hist(h), coq_renders(rs)).unwrap();
        self.count += 1;
        if self.count % self.chunk == 0 {
            self.flush();
        }
    }
    fn flush(&mut self) {
        if self.buf.is_empty() {
            return;
        }
        let name = format!("{}{}", self.prefix, self.files);
        let modname = std::path::Path::new(&name).file_name().unwrap().to_str().unwrap().to_string();
        let mut s = String::new();
        s.push_str("(* generated by yrs/tests/rdo_nested.rs: histories replayed on the real code, with the renders after every action *)\n");
        s.push_str("From Coq Require Import List NArith Bool.\nImport ListNotations.\nFrom NS Require Import Redo.\nOpen Scope N_scope.\n");
        s.push_str("Definition rdo_agree_cases : list (list rdo_action * list (list (list N))) :=\n");
        s.push_str(&self.buf);
        s.push_str("  [].\n");
        s.push_str("Definition rdo_lN_eqb (a b : list (list (list N))) : bool := if list_eq_dec (list_eq_dec (list_eq_dec N.eq_dec)) a b then true else false.\n");
        s.push_str("Definition rdo_agree_bad := filter (fun c => negb (rdo_lN_eqb (rdo_renders (rdo_state0 [0;1]) [0;1;2] (fst c)) (snd c))) rdo_agree_cases.\n");
        s.push_str("Definition rdo_agree_first_bad := match rdo_agree_bad with c :: _ => Some (fst c, rdo_renders (rdo_state0 [0;1]) [0;1;2] (fst c), snd c) | [] => None end.\n");
        s.push_str("Eval vm_compute in (length rdo_agree_cases, length rdo_agree_bad).\n");
        s.push_str("Eval vm_compute in rdo_agree_first_bad.\n");
        let _ = modname;
        std::fs::write(format!("{}.v", name), s).unwrap();
        self.files += 1;
        self.buf.clear();
    }
}

// ------------------------------------------------------------------------------------------------
// the mirror oracle for the inverse law (histories without Other): contents before every captured step

// port of mirror_step of /verif/coq/Crdt/UndoSpec.v: mu[j] = content when the undo stack held j entries,
// mr[i] = content a redo that pops the redo stack down to i entries must lead to
struct Mirror {
    mu: Vec<Vec<Vec<u64>>>,
    mr: Vec<Vec<Vec<u64>>>,
}

fn scope_part(r: &Vec<Vec<u64>>) -> Vec<Vec<u64>> {
    r[0..2].to_vec()
}

// replays a history; returns the renders and the index of the first action violating the inverse law
fn replay(h: &[Act], skip_gc: bool) -> (Vec<Vec<Vec<u64>>>, Option<usize>, bool) {
    let mut w = World::new(skip_gc);
    let mut rs = Vec::new();
    let mut m = Mirror { mu: vec![scope_part(&w.render())], mr: vec![] };
    let mut violation = None;
    let mut typed = true;
    let mut pure = true;
    for (i, a) in h.iter().enumerate() {
        let before = scope_part(&w.render());
        let (ul0, rl0) = (w.mgr.undo_stack().len(), w.mgr.redo_stack().len());
        typed &= w.act(a);
        let now = w.render();
        let cur = scope_part(&now);
        let (ul1, rl1) = (w.mgr.undo_stack().len(), w.mgr.redo_stack().len());
        let mut ok = true;
        if pure && violation.is_none() {
            match a {
                Act::Other(_) => pure = false,
                Act::Step(_) => {
                    if ul1 == ul0 + 1 {
                        ok = rl1 == 0;
                        m.mu.truncate(ul0 + 1);
                        m.mu.push(cur.clone());
                        m.mr.clear();
                    } else if ul1 == ul0 {
                        ok = before == cur;
                    } else {
                        ok = false;
                    }
                }
                Act::Undo => {
                    if ul0 < ul1 {
                        ok = false;
                    } else if cur != m.mu[ul1] {
                        ok = false;
                    } else if !((ul1 + 2..ul0.max(ul1 + 1)).all(|j| m.mu[j] == m.mu[j - 1])) {
                        ok = false;
                    } else if rl1 == rl0 + 1 {
                        let target = m.mu[ul0].clone();
                        m.mu.truncate(ul1 + 1);
                        m.mr.truncate(rl0);
                        m.mr.push(target);
                    } else if rl1 == rl0 {
                        ok = cur == before;
                        m.mu.truncate(ul1 + 1);
                    } else {
                        ok = false;
                    }
                }
                Act::Redo => {
                    if rl0 < rl1 {
                        ok = false;
                    } else if rl0 == rl1 {
                        ok = cur == before && ul1 == ul0;
                    } else if ul1 == ul0 + 1 {
                        if cur != m.mr[rl1] {
                            ok = false;
                        } else if !((rl1 + 1..rl0).all(|j| m.mr[j] == before)) {
                            ok = false;
                        } else {
                            m.mu.truncate(ul0 + 1);
                            m.mu.push(cur.clone());
                            m.mr.truncate(rl1);
                        }
                    } else if ul1 == ul0 {
                        if cur != before || !((rl1..rl0).all(|j| m.mr[j] == before)) {
                            ok = false;
                        } else {
                            m.mr.truncate(rl1);
                        }
                    } else {
                        ok = false;
                    }
                }
            }
        }
        if !ok {
            violation = Some(i);
        }
        rs.push(now);
    }
    (rs, violation, typed)
}

struct Rng(u64);
impl Rng {
    fn next(&mut self) -> u64 {
        self.0 ^= self.0 << 13;
        self.0 ^= self.0 >> 7;
        self.0 ^= self.0 << 17;
        self.0
    }
    fn below(&mut self, n: usize) -> usize {
        (self.next() % (n as u64)) as usize
    }
}

fn env(name: &str, default: &str) -> String {
    std::env::var(name).unwrap_or_else(|_| default.to_string())
}

fn report(h: &[Act], rs: &[Vec<Vec<u64>>], at: usize, what: &str) {
    println!("{} at action {}:\n  {}\n  renders {:?}", what, at, coq_hist(h), rs);
}

#[test]
fn rdo_nested_agreement() {
    let mode = env("RDO_MODE", "exh");
    let out = env("RDO_OUT", "/tmp/rdo/RedoAgree");
    let mut em = Emitter::new(out, env("RDO_CHUNK", "1500").parse().unwrap());
    let mut violations = 0usize;
    let mut gc_diffs = 0usize;
    let mut total = 0usize;
    let mut shortest: Option<Vec<Act>> = None;

    let mut check = |h: &[Act], em: &mut Emitter| {
        let (rs, v, typed) = replay(h, true);
        if !typed {
            return;
        }
        total += 1;
        em.add(h, &rs);
        if let Some(at) = v {
            violations += 1;
            if shortest.as_ref().map_or(true, |s| s.len() > at + 1) {
                shortest = Some(h[..=at].to_vec());
                report(&h[..=at], &rs[..=at], at, "INVERSE LAW VIOLATED");
            }
        }
        let (rs2, _, _) = replay(h, false);
        if rs2 != rs {
            gc_diffs += 1;
            if gc_diffs <= 3 {
                report(h, &rs2, 0, "GC CHANGES THE RENDERS");
            }
        }
    };

    if mode == "exh" {
        let depth: usize = env("RDO_DEPTH", "4").parse().unwrap();
        let small = env("RDO_SMALL", "0") == "1";
        // depth-first; the continuation set depends on the state reached
        fn dfs(
            h: &mut Vec<Act>,
            depth: usize,
            small: bool,
            check: &mut dyn FnMut(&[Act]),
        ) {
            if h.len() == depth {
                check(h);
                return;
            }
            let mut w = World::new(true);
            for a in h.iter() {
                w.act(a);
            }
            let mut next: Vec<Act> = Vec::new();
            if w.mgr.can_undo() {
                next.push(Act::Undo);
            }
            if w.mgr.can_redo() {
                next.push(Act::Redo);
            }
            let tok = 10 + h.len() as u32;
            for c in w.calls(tok, false, small) {
                next.push(Act::Step(vec![vec![c]]));
            }
            drop(w);
            for a in next {
                h.push(a);
                dfs(h, depth, small, check);
                h.pop();
            }
        }
        let mut h = Vec::new();
        dfs(&mut h, depth, small, &mut |h| check(h, &mut em));
    } else {
        let n: usize = env("RDO_N", "1000").parse().unwrap();
        let len: usize = env("RDO_LEN", "9").parse().unwrap();
        let other = env("RDO_OTHER", "0") == "1";
        let multi = env("RDO_MULTI", "0") == "1";
        let mut rng = Rng(env("RDO_SEED", "1").parse::<u64>().unwrap().wrapping_mul(0x9E3779B97F4A7C15).wrapping_add(1));
        for _ in 0..n {
            let mut h: Vec<Act> = Vec::new();
            while h.len() < len {
                let mut w = World::new(true);
                for a in h.iter() {
                    w.act(a);
                }
                let tok = 10 + 3 * h.len() as u32;
                let roll = rng.below(10);
                let a = if roll < 2 && w.mgr.can_undo() {
                    Act::Undo
                } else if roll < 4 && w.mgr.can_redo() {
                    Act::Redo
                } else if roll == 4 && other {
                    let cs = w.calls(tok, true, false);
                    Act::Other(vec![cs[rng.below(cs.len())].clone()])
                } else {
                    let mut cs = w.calls(tok, other, false);
                    if env("RDO_BIAS", "0") == "1" && rng.below(3) == 0 {
                        let dels: Vec<Op> = cs.iter().filter(|c| matches!(c, Op::Del(..) | Op::Rem(..))).cloned().collect();
                        if !dels.is_empty() {
                            cs = dels;
                        }
                    }
                    let c1 = cs[rng.below(cs.len())].clone();
                    if multi && rng.below(3) == 0 {
                        // a second call in the same step, chosen in the state after the first
                        let mut w2 = World::new(true);
                        for a in h.iter() {
                            w2.act(a);
                        }
                        w2.mgr.reset();
                        w2.apply_ops(&[c1.clone()], None);
                        let cs2 = w2.calls(tok + 1, other, false);
                        let c2 = cs2[rng.below(cs2.len())].clone();
                        if rng.below(2) == 0 {
                            Act::Step(vec![vec![c1, c2]])
                        } else {
                            Act::Step(vec![vec![c1], vec![c2]])
                        }
                    } else {
                        Act::Step(vec![vec![c1]])
                    }
                };
                h.push(a);
            }
            check(&h, &mut em);
        }
    }
    em.flush();
    println!(
        "histories {} ; inverse-law violations {} ; gc differences {} ; coq files {}",
        total, violations, gc_diffs, em.files
    );
    if let Some(s) = shortest {
        println!("shortest violating prefix: {}", coq_hist(&s));
        // greedy minimisation: drop actions / calls while some violation remains
        let mut cur = s.clone();
        let bad = |h: &[Act]| { let (_, v, typed) = replay(h, true); typed && v.is_some() };
        loop {
            let mut progress = false;
            let mut i = 0;
            while i < cur.len() {
                let mut cand = cur.clone();
                cand.remove(i);
                if bad(&cand) { cur = cand; progress = true; } else { i += 1; }
            }
            for i in 0..cur.len() {
                if let Act::Step(txns) = &cur[i] {
                    let flat: Vec<Op> = txns.iter().flatten().cloned().collect();
                    if flat.len() > 1 {
                        for j in 0..flat.len() {
                            let mut f2 = flat.clone();
                            f2.remove(j);
                            let mut cand = cur.clone();
                            cand[i] = Act::Step(vec![f2]);
                            if bad(&cand) { cur = cand; progress = true; break; }
                        }
                    }
                }
            }
            if !progress { break; }
        }
        let (rs, v, _) = replay(&cur, true);
        println!("MINIMISED ({} actions, violation at {:?}): {}\n  renders {:?}", cur.len(), v, coq_hist(&cur), rs);
    }
}

// FINDING (theorem 3): a map entry written by ANOTHER origin into a re-created container is overwritten
// (hidden) by a later undo of the tracked origin, while the same situation in a container that was never
// re-created is detected as a conflict and the foreign entry survives.
#[test]
fn rdo_foreign_entry_overwritten() {
    let t = |k: u32| Cnt::Val(k);
    // nested, container re-created in between
    let nested = vec![
        Act::Step(vec![vec![Op::Set(1, vec![], 0, Cnt::Type(1))]]),
        Act::Step(vec![vec![Op::Set(1, vec![StepK::Key(0)], 1, t(11))]]),
        Act::Step(vec![vec![Op::Rem(1, vec![StepK::Key(0)], 1)]]),
        Act::Step(vec![vec![Op::Rem(1, vec![], 0)]]),
        Act::Undo,
        Act::Other(vec![Op::Set(1, vec![StepK::Key(0)], 1, t(99))]),
        Act::Undo,
    ];
    // the same entry history directly in the root map (a container that is never re-created)
    let same_parent = vec![
        Act::Step(vec![vec![Op::Set(1, vec![], 1, t(11))]]),
        Act::Step(vec![vec![Op::Rem(1, vec![], 1)]]),
        Act::Other(vec![Op::Set(1, vec![], 1, t(99))]),
        Act::Undo,
    ];
    for skip_gc in [true, false] {
        let (r1, _, _) = replay(&nested, skip_gc);
        let (r2, _, _) = replay(&same_parent, skip_gc);
        println!("nested      {}\n  -> {:?}", coq_hist(&nested), r1);
        println!("same parent {}\n  -> {:?}", coq_hist(&same_parent), r2);
        // r1 = { k0: { k1: _ } }
        let foreign_visible_nested = r1.last().unwrap()[1] == vec![2, 0, 1, 1, 2, 1, 0, 99, 3, 3];
        let foreign_visible_same = r2.last().unwrap()[1] == vec![2, 1, 0, 99, 3];
        println!(
            "skip_gc={} foreign entry visible after undo: re-created container {} / same container {}",
            skip_gc, foreign_visible_nested, foreign_visible_same
        );
        assert!(foreign_visible_same);
        assert!(!foreign_visible_nested, "the finding no longer reproduces");
    }
}

// FINDING (theorem 2, block level - not visible in the unit-level model): an element is lost by undo.
// A = [38, M, 52, 50]; delete 50; undo (copy 50' = id 5 is linked before the tombstone 50 = id 3, with
// origin 52 = id 4 and right origin 50 = id 3, exactly the right origin of 52); overwriting the key deletes
// A with its children, and commit squashes the two tombstones 52 / 50' into ONE block (4, len 2).
// Undo: ItemPtr::redo of that block traces its right neighbours; the old tombstone 50 has
// `redone = 5`, and `get_item_clean_start(5)` + `materialize` (block.rs, right-trace loop of ItemPtr::redo)
// SPLITS THE BLOCK THAT IS BEING RE-CREATED. The copy is made from the first half only (52); the second
// half (50') is a new block that is not in `redo_order` (collected before), so it is never re-created.
#[test]
fn rdo_squashed_copy_split() {
    let a = vec![StepK::Key(1)];
    let h = vec![
        Act::Step(vec![vec![Op::Set(1, vec![], 1, Cnt::Type(0))], vec![Op::Ins(1, a.clone(), 0, Cnt::Val(38))]]),
        Act::Step(vec![vec![Op::Ins(1, a.clone(), 1, Cnt::Type(1)), Op::Ins(1, a.clone(), 2, Cnt::Val(50))]]),
        Act::Step(vec![vec![Op::Ins(1, a.clone(), 2, Cnt::Val(52))]]),
        Act::Step(vec![vec![Op::Del(1, a.clone(), 3)]]),
        Act::Undo,
        Act::Step(vec![vec![Op::Set(1, vec![], 1, Cnt::Val(64))]]),
        Act::Undo,
    ];
    for skip_gc in [true, false] {
        let (rs, v, typed) = replay(&h, skip_gc);
        assert!(typed);
        println!("{}\n  -> {:?}\n  violation at {:?}", coq_hist(&h), rs, v);
        let before = &rs[4][1]; // content before the step `set k1 = 64`
        let after_undo = &rs[6][1];
        assert_eq!(before, &vec![2, 1, 1, 0, 0, 38, 1, 1, 2, 3, 0, 52, 0, 50, 2, 3, 3]);
        // what the unit-level model (and the inverse law) says: after_undo == before.
        // what the code does: 50 is gone.
        assert_eq!(after_undo, &vec![2, 1, 1, 0, 0, 38, 1, 1, 2, 3, 0, 52, 2, 3, 3], "the finding no longer reproduces");
        assert_eq!(v, Some(6));
    }
}

#[cfg(y_crdt_y_crdt_verif)]
#[test]
fn rdo_squashed_dump() {
    let a = vec![StepK::Key(1)];
    let h = vec![
        Act::Step(vec![vec![Op::Set(1, vec![], 1, Cnt::Type(0))], vec![Op::Ins(1, a.clone(), 0, Cnt::Val(38))]]),
        Act::Step(vec![vec![Op::Ins(1, a.clone(), 1, Cnt::Type(1)), Op::Ins(1, a.clone(), 2, Cnt::Val(50))]]),
        Act::Step(vec![vec![Op::Ins(1, a.clone(), 2, Cnt::Val(52))]]),
        Act::Step(vec![vec![Op::Del(1, a.clone(), 3)]]),
        Act::Undo,
        Act::Step(vec![vec![Op::Set(1, vec![], 1, Cnt::Val(64))]]),
        Act::Undo,
    ];
    let mut w = World::new(true);
    for (i, act) in h.iter().enumerate() {
        w.act(act);
        if i >= 4 {
            let txn = w.doc.transact();
            let vs = yrs::verif::dump_store(&txn);
            println!("after action {}:", i);
            for (_, blocks) in vs.blocks.iter() {
                for b in blocks {
                    if let yrs::verif::VBlock::Item(it) = b {
                        println!("  id {} len {} del {} redone {:?} origin {:?} rorigin {:?} parent {:?}", it.id, it.len, it.deleted, it.redone, it.origin, it.right_origin, it.parent);
                    }
                }
            }
        }
    }
}
