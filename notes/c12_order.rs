//! Undo of an overwritten map key re-creates the nested Text that lived under the key together with
//! its children: the children have to come back in the order they had.
use std::collections::HashMap;
use std::sync::atomic::{AtomicU64, Ordering};
use std::sync::Arc;
use yrs::types::text::YChange;
use yrs::types::Attrs;
use yrs::undo::{Options, UndoManager};
use yrs::{
    Any, Array, ArrayRef, ClientID, Doc, GetString, Map, MapRef, OffsetKind, Out, ReadTxn, Text,
    TextPrelim, TextRef, Transact, TransactionMut, XmlFragment, XmlFragmentRef, XmlOut,
    XmlTextPrelim,
};

struct Ctx {
    doc: Doc,
    mgr: UndoManager<()>,
    clock: Arc<AtomicU64>,
    t: TextRef,
    a: ArrayRef,
    m: MapRef,
    x: XmlFragmentRef,
}

fn ctx(gc: bool) -> Ctx {
    let doc = Doc::with_options(yrs::Options {
        client_id: ClientID::new(1),
        guid: "g1".into(),
        collection_id: None,
        offset_kind: OffsetKind::Utf16,
        skip_gc: !gc,
        auto_load: false,
        should_load: true,
        cleanup_formatting: false,
    });
    let t = doc.get_or_insert_text("t");
    let a = doc.get_or_insert_array("a");
    let m = doc.get_or_insert_map("m");
    let x = doc.get_or_insert_xml_fragment("x");
    let clock = Arc::new(AtomicU64::new(10_000));
    let ck = clock.clone();
    let mut mgr: UndoManager<()> = UndoManager::with_options(Options {
        capture_timeout_millis: 500,
        timestamp: Arc::new(move || ck.load(Ordering::SeqCst)),
        ..Options::default()
    });
    mgr.expand_scope(&doc, &t);
    mgr.expand_scope(&doc, &a);
    mgr.expand_scope(&doc, &m);
    mgr.expand_scope(&doc, &x);
    mgr.include_origin("me");
    Ctx {
        doc,
        mgr,
        clock,
        t,
        a,
        m,
        x,
    }
}

type Call<'a> = &'a dyn Fn(&Ctx, &mut TransactionMut);

impl Ctx {
    /// one capture group: the clock jumps past the capture timeout, then every slice of calls runs
    /// in a transaction of its own
    fn step(&self, txns: &[&[Call]]) {
        self.clock.fetch_add(1000, Ordering::SeqCst);
        for calls in txns {
            {
                let mut txn = self.doc.transact_mut_with("me");
                for c in calls.iter() {
                    c(self, &mut txn);
                }
            }
            self.clock.fetch_add(1, Ordering::SeqCst);
        }
    }
    fn k1(&self, txn: &TransactionMut) -> TextRef {
        match self.m.get(txn, "k1") {
            Some(Out::YText(t)) => t,
            other => panic!("m.k1 is not a text: {:?}", other.map(|_| ())),
        }
    }
    fn k1_now(&self) -> String {
        let txn = self.doc.transact();
        match self.m.get(&txn, "k1") {
            Some(Out::YText(t)) => show(&t, &txn),
            Some(o) => format!("{}", o),
            None => "-".into(),
        }
    }
}

fn show<T: ReadTxn>(t: &TextRef, txn: &T) -> String {
    t.diff(txn, YChange::identity)
        .iter()
        .map(|d| {
            let mut at: Vec<String> = d
                .attributes
                .as_ref()
                .map(|a| a.iter().map(|(k, v)| format!("{}:{}", k, v)).collect())
                .unwrap_or_default();
            at.sort();
            let v = match &d.insert {
                Out::Any(Any::String(s)) => format!("'{}'", s),
                Out::Any(a) => format!("embed {}", a),
                o => format!("{}", o),
            };
            if at.is_empty() {
                v
            } else {
                format!("{}{{{}}}", v, at.join(","))
            }
        })
        .collect::<Vec<_>>()
        .join(" , ")
}

#[cfg(y_crdt_y_crdt_verif)]
fn dump(c: &Ctx, what: &str) {
    use yrs::verif::*;
    let txn = c.doc.transact();
    let vs = dump_store(&txn);
    let id = |i: &Option<yrs::ID>| i.map(|i| format!("{}", i.clock)).unwrap_or("-".into());
    println!("--- {}", what);
    for b in vs.branches.iter() {
        let name = match &b.id {
            VParent::Root(n) => format!("root {}", n),
            VParent::Nested(i) => format!("nested {}", i.clock),
            VParent::Unknown => "?".into(),
        };
        let line = |it: &VItem| {
            format!(
                "    {}{} len {} {:?} origin {} rorigin {} redone {} left {} right {}",
                it.id.clock,
                if it.deleted { "~" } else { " " },
                it.len,
                it.content,
                id(&it.origin),
                id(&it.right_origin),
                id(&it.redone),
                id(&it.left),
                id(&it.right)
            )
        };
        if b.seq.is_empty() && b.map.is_empty() {
            continue;
        }
        println!("  {}:", name);
        for it in b.seq.iter() {
            println!("{}", line(it));
        }
        for (k, chain) in b.map.iter() {
            println!("   key {}:", k);
            for it in chain.iter() {
                println!("{}", line(it));
            }
        }
    }
}
#[cfg(not(y_crdt_y_crdt_verif))]
fn dump(_c: &Ctx, _what: &str) {}

fn attrs(k: &str, v: Any) -> Attrs {
    let mut m: Attrs = HashMap::new();
    m.insert(k.into(), v);
    m
}
fn red() -> Attrs {
    attrs("b", Any::from("red"))
}
fn arr(s: &str) -> Any {
    Any::from(vec![Any::from(s)])
}

/// the history of the property check (seed 7, stream 121, index 29431), transaction boundaries as
/// the generator drew them
#[test]
fn c12_order_full_history() {
    let mut c = ctx(true);
    assert!(!c.mgr.undo_blocking());
    c.step(&[
        &[
            &|c, txn| {
                c.a.insert(txn, 0, 0x3ec);
            },
            &|c, txn| {
                c.m.insert(txn, "k2", 0x7d0);
            },
            &|c, txn| {
                c.m.insert(txn, "k1", 0xbb8);
            },
        ],
        &[
            &|c, txn| {
                c.m.insert(txn, "k1", 41.5f64);
            },
            &|c, txn| c.m.clear(txn),
            &|c, txn| {
                c.m.remove(txn, "κ3");
            },
        ],
        &[&|c, txn| {
            c.m.insert(txn, "k2", 0x1388);
        }],
    ]);
    c.step(&[
        &[&|c, txn| {
            c.m.insert(txn, "κ3", 0x1770);
        }],
        &[
            &|c, txn| {
                c.m.insert(txn, "k1", TextPrelim::new("mt"));
            },
            &|c, txn| c.t.insert(txn, 0, "😀bb"),
            &|c, txn| c.k1(txn).format(txn, 1, 1, red()),
        ],
        &[
            &|c, txn| {
                c.t.insert_embed(txn, 2, 0x9a);
            },
            &|c, txn| {
                let k = c.k1(txn);
                k.insert_embed(txn, 1, arr("yé"));
            },
            &|c, txn| c.a.remove_range(txn, 0, 1),
        ],
    ]);
    assert!(!c.mgr.redo_blocking());
    c.step(&[&[
        &|c, txn| {
                c.a.insert(txn, 0, 0x1b5d);
            },
        &|c, txn| c.k1(txn).insert(txn, 2, "d "),
        &|c, txn| c.t.remove_range(txn, 2, 1),
    ]]);
    assert!(c.mgr.undo_blocking());
    println!("after undo 1: {}", c.k1_now());
    c.step(&[
        &[&|c, txn| c.k1(txn).remove_range(txn, 2, 1)],
        &[
            &|c, txn| c.t.remove_range(txn, 3, 2),
            &|c, txn| {
                c.a.insert(txn, 0, 0x1f45);
            },
        ],
    ]);
    assert!(c.mgr.undo_blocking());
    println!("after undo 2: {}", c.k1_now());
    c.step(&[
        &[
            &|c, txn| {
                c.t.insert_embed(txn, 0, arr("y"));
            },
            &|c, txn| {
                let k = c.k1(txn);
                k.insert_embed(txn, 3, arr("ac "));
            },
            &|c, txn| {
                c.x.insert(txn, 0, XmlTextPrelim::new("中"));
            },
        ],
        &[
            &|c, txn| c.t.insert(txn, 6, "ßé"),
            &|c, txn| {
                c.a.insert(txn, 0, 0x232d);
            },
        ],
        &[
            &|c, txn| {
                c.a.insert(txn, 0, 0x2715);
            },
            &|c, txn| c.k1(txn).push(txn, "é𝄞"),
            &|c, txn| c.a.remove_range(txn, 0, 2),
        ],
    ]);
    c.step(&[
        &[
            &|c, txn| c.t.insert(txn, 6, "𝄞éß"),
            &|c, txn| c.t.insert(txn, 1, "中"),
            &|c, txn| c.k1(txn).insert_with_attributes(txn, 7, "é", red()),
        ],
        &[&|c, txn| c.t.insert(txn, 12, "x")],
    ]);
    c.step(&[
        &[&|c, txn| {
            c.t.insert_with_attributes(txn, 9, "é", attrs("b", Any::Null))
        }],
        &[
            &|c, txn| c.t.remove_range(txn, 12, 2),
            &|c, txn| c.t.push(txn, "cß"),
        ],
        &[
            &|c, txn| c.k1(txn).insert(txn, 2, "a中d"),
            &|c, txn| {
                c.m.insert(txn, "k1", 0x2af8);
            },
            &|c, txn| c.t.insert(txn, 2, "é"),
        ],
    ]);
    c.step(&[&[
        &|c, txn| {
                c.a.insert(txn, 0, 0x2ee3);
            },
        &|c, txn| c.t.insert_with_attributes(txn, 7, "b ", attrs("i", Any::Bool(true))),
    ]]);
    c.step(&[
        &[&|c, txn| {
            c.m.insert(txn, "κ3", 0x32c8);
        }],
        &[
            &|c, txn| {
                c.a.insert(txn, 0, 0x36b4);
            },
            &|c, txn| {
                if let Some(XmlOut::Text(x0)) = c.x.get(txn, 0) {
                    x0.format(txn, 0, 1, attrs("b", Any::Null));
                }
            },
            &|c, txn| c.t.insert(txn, 5, "ac"),
        ],
        &[&|c, txn| {
            c.m.remove(txn, "k1");
        }],
    ]);
    assert!(c.mgr.undo_blocking());
    println!("after undo 3: {}", c.k1_now());
    assert!(c.mgr.undo_blocking());
    println!("after undo 4: {}", c.k1_now());
    dump(&c, "full history: before the last undo");
    assert!(c.mgr.undo_blocking());
    dump(&c, "full history: after the last undo");
    let now = c.k1_now();
    println!("after undo 5: {}", now);
    {
        let txn = c.doc.transact();
        assert_eq!(c.t.get_string(&txn), "中😀bb𝄞éßßxé");
    }
    assert_eq!(
        now,
        "'m' , embed [yé] , 't'{b:red} , embed [ac ]{b:red} , 'é𝄞é'{b:red}"
    );
}

/// the minimal history: a child is deleted and re-created by undo (the copy sits left of the
/// tombstone), elements are inserted between the copy and the tombstone and right of the tombstone,
/// then the key is overwritten and the overwrite undone
#[test]
fn c12_order_minimal() {
    let mut c = ctx(true);
    c.step(&[&[&|c, txn| {
        c.m.insert(txn, "k1", TextPrelim::new("ab"));
    }]]);
    c.step(&[&[&|c, txn| c.k1(txn).remove_range(txn, 1, 1)]]);
    assert!(c.mgr.undo_blocking());
    assert_eq!(c.k1_now(), "'ab'");
    c.step(&[&[
        &|c, txn| {
            let k = c.k1(txn);
            k.insert_embed(txn, 2, 7);
        },
        &|c, txn| c.k1(txn).push(txn, "d"),
    ]]);
    assert_eq!(c.k1_now(), "'ab' , embed 7 , 'd'");
    c.step(&[&[&|c, txn| {
        c.m.insert(txn, "k1", 1);
    }]]);
    dump(&c, "before the undo of the overwrite");
    assert!(c.mgr.undo_blocking());
    dump(&c, "after the undo of the overwrite");
    assert_eq!(c.k1_now(), "'ab' , embed 7 , 'd'");
}

/// two elements between the copy and the tombstone: the second one must not name the copy (which
/// lies left of it) as its right origin
#[cfg(y_crdt_y_crdt_verif)]
#[test]
fn c12_order_right_origin_lies_right() {
    let mut c = ctx(true);
    c.step(&[&[&|c, txn| {
        c.m.insert(txn, "k1", TextPrelim::new("ab"));
    }]]);
    c.step(&[&[&|c, txn| c.k1(txn).remove_range(txn, 1, 1)]]);
    assert!(c.mgr.undo_blocking());
    c.step(&[&[
        &|c, txn| {
            let k = c.k1(txn);
            k.insert_embed(txn, 2, 7);
        },
        &|c, txn| {
            let k = c.k1(txn);
            k.insert_embed(txn, 3, 8);
        },
        &|c, txn| c.k1(txn).push(txn, "d"),
    ]]);
    c.step(&[&[&|c, txn| {
        c.m.insert(txn, "k1", 1);
    }]]);
    assert!(c.mgr.undo_blocking());
    dump(&c, "two elements between copy and tombstone: after the undo of the overwrite");
    assert_eq!(c.k1_now(), "'ab' , embed 7 , embed 8 , 'd'");
    let txn = c.doc.transact();
    let vs = yrs::verif::dump_store(&txn);
    for b in vs.branches.iter() {
        let pos = |id: &yrs::ID| {
            b.seq
                .iter()
                .position(|it| it.id.client == id.client && it.id.clock <= id.clock && id.clock < it.id.clock + it.len)
        };
        for (i, it) in b.seq.iter().enumerate() {
            if let Some(ro) = it.right_origin.as_ref() {
                if let Some(j) = pos(ro) {
                    assert!(j > i, "item {:?} names {:?} as right origin, which lies left of it", it.id, ro);
                }
            }
        }
    }
}
