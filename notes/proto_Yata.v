From Coq Require Import List NArith Bool Lia.
Import ListNotations.
Open Scope N_scope.

Definition id := (N * N)%type.
Definition id_eqb (a b : id) := (fst a =? fst b) && (snd a =? snd b).
Definition oid_eqb (a b : option id) := match a, b with
  | None, None => true | Some x, Some y => id_eqb x y | _, _ => false end.
Record item := { iid : id; origin : option id; rorigin : option id }.
Definition mem (x : id) (l : list id) := existsb (id_eqb x) l.

(* scan: o ranges over the suffix after left; returns number of items to skip (new left offset) *)
(* state: k = number scanned so far, lft = best skip count, conflicting, before *)
Fixpoint scan (x : item) (rest : list item) (k lft : nat) (conf before : list id) : nat :=
  match rest with
  | [] => lft
  | o :: rest' =>
    if oid_eqb (Some (iid o)) (rorigin x) then lft else
    let before' := iid o :: before in
    let conf' := iid o :: conf in
    if oid_eqb (origin x) (origin o) then
      if fst (iid o) <? fst (iid x) then scan x rest' (S k) (S k) [] before'
      else if oid_eqb (rorigin x) (rorigin o) then lft
      else scan x rest' (S k) lft conf' before'
    else match origin o with
      | Some oo => if mem oo before' then
                     if negb (mem oo conf') then scan x rest' (S k) (S k) [] before'
                     else scan x rest' (S k) lft conf' before'
                   else lft
      | None => lft
      end
  end.

Fixpoint split_after (i : id) (l : list item) : option (list item * list item) :=
  match l with
  | [] => None
  | y :: r => if id_eqb (iid y) i then Some ([y], r)
              else match split_after i r with Some (a, b) => Some (y :: a, b) | None => None end
  end.

Definition integrate (l : list item) (x : item) : list item :=
  let '(pre, suf) := match origin x with
                     | None => ([], l)
                     | Some o => match split_after o l with Some p => p | None => ([], l) end
                     end in
  let n := scan x suf 0 0 [] [] in
  pre ++ firstn n suf ++ x :: skipn n suf.

Lemma split_after_app : forall o l a b, split_after o l = Some (a, b) -> l = a ++ b.
Proof.
  intros o l. induction l as [|y r IH]; intros a b S; simpl in S; [discriminate|].
  destruct (id_eqb (iid y) o). { inversion S; reflexivity. }
  destruct (split_after o r) as [[a' b']|] eqn:E; [|discriminate].
  inversion S; subst. simpl. f_equal. apply IH. reflexivity.
Qed.

Lemma integrate_inserts_once : forall l x, exists l1 l2, l = l1 ++ l2 /\ integrate l x = l1 ++ x :: l2.
Proof.
  intros l x. unfold integrate.
  destruct (match origin x with None => ([], l) | Some o => match split_after o l with Some p => p | None => ([], l) end end) as [pre suf] eqn:E.
  assert (H : l = pre ++ suf).
  { destruct (origin x) as [o|]; [|inversion E; reflexivity].
    destruct (split_after o l) as [[a b]|] eqn:S; [|inversion E; reflexivity].
    inversion E; subst. eapply split_after_app; eauto. }
  set (n := scan x suf 0 0 [] []).
  exists (pre ++ firstn n suf), (skipn n suf). split.
  - rewrite <- app_assoc, firstn_skipn. exact H.
  - rewrite <- app_assoc. reflexivity.
Qed.
Print Assumptions integrate_inserts_once.

(* tiny sanity run *)
Definition mk c k o r := {| iid := (c,k); origin := o; rorigin := r |}.
Eval vm_compute in map iid (integrate (integrate (integrate [] (mk 1 0 None None)) (mk 2 0 None None)) (mk 1 1 (Some (1,0)) (Some (2,0)))).
