// Prints (store dump, snapshot, bytes of encode_state_from_snapshot) in Coq syntax for SnapshotCases.v.
#![cfg(y_crdt_y_crdt_verif)]
use std::iter::FromIterator;
use yrs::block::ClientID;
use yrs::updates::decoder::Decode;
use yrs::updates::encoder::{Encoder, EncoderV1};
use yrs::verif::{VBlock, VContent, VParent};
use yrs::{
    Any, Doc, GetString, IdSet, Map, Options, ReadTxn, Snapshot, StateVector, Text, Transact,
    Update, ID,
};

fn doc(client: u64, skip_gc: bool) -> Doc {
    let mut o = Options::with_client_id(ClientID::new(client));
    o.skip_gc = skip_gc;
    Doc::with_options(o)
}
fn bytes(s: &str) -> String {
    let v: Vec<String> = s.as_bytes().iter().map(|b| b.to_string()).collect();
    format!("[{}]", v.join("; "))
}
fn cid(id: &ID) -> String {
    format!("(mkid {} {})", id.client.get(), id.clock)
}
fn oid(id: &Option<ID>) -> String {
    match id {
        Some(i) => format!("(Some {})", cid(i)),
        None => "None".into(),
    }
}
fn any(a: &Any) -> String {
    match a {
        Any::String(s) => format!("(AString {})", bytes(s)),
        Any::Null => "ANull".into(),
        other => panic!("any not printed: {:?}", other),
    }
}
fn coq_store(d: &Doc) -> String {
    let txn = d.transact();
    let s = yrs::verif::dump_store(&txn);
    let mut cl = Vec::new();
    for (c, bl) in s.blocks.iter() {
        let mut bs = Vec::new();
        for b in bl {
            bs.push(match b {
                VBlock::GC(id, n) => format!("(BGC {} {}, false)", cid(id), n),
                VBlock::Skip(id, n) => format!("(BSkip {} {}, false)", cid(id), n),
                VBlock::Item(i) => {
                    let p = match &i.parent {
                        VParent::Root(n) => format!("(PNamed {})", bytes(n)),
                        VParent::Nested(id) => format!("(PId {})", cid(id)),
                        VParent::Unknown => "PUnknown".into(),
                    };
                    let ps = match &i.parent_sub {
                        Some(k) => format!("(Some {})", bytes(k)),
                        None => "None".into(),
                    };
                    let c = match &i.content {
                        VContent::String(s) => format!("(BString {})", bytes(s)),
                        VContent::Deleted(n) => format!("(BDeleted {})", n),
                        VContent::Any(v) => format!(
                            "(BAny [{}])",
                            v.iter().map(any).collect::<Vec<_>>().join("; ")
                        ),
                        VContent::Type(t) => match t {
                            yrs::types::TypeRef::Map => "(BType TMap)".into(),
                            yrs::types::TypeRef::Text => "(BType TText)".into(),
                            yrs::types::TypeRef::Array => "(BType TArray)".into(),
                            o => panic!("type not printed {:?}", o),
                        },
                        o => panic!("content not printed {:?}", o),
                    };
                    format!(
                        "(BItem {} {} {} {} {} {}, {})",
                        cid(&i.id),
                        oid(&i.origin),
                        oid(&i.right_origin),
                        p,
                        ps,
                        c,
                        i.deleted
                    )
                }
            });
        }
        cl.push(format!("   ({}, [{}])", c, bs.join(";\n        ")));
    }
    format!("[\n{}]", cl.join(";\n"))
}
fn coq_snap(s: &Snapshot) -> (String, String) {
    let mut sv: Vec<_> = s.state_map.iter().map(|(c, k)| (c.get(), *k)).collect();
    sv.sort();
    let svs = format!(
        "[{}]",
        sv.iter().map(|(c, k)| format!("({}, {})", c, k)).collect::<Vec<_>>().join("; ")
    );
    let mut ds = Vec::new();
    for (c, rs) in s.delete_set.iter() {
        let r: Vec<String> = rs.iter().map(|r| format!("({}, {}, tt)", r.start, r.end)).collect();
        ds.push(format!("({}, [{}])", c.get(), r.join("; ")));
    }
    (svs, format!("[{}]", ds.join("; ")))
}
fn case(n: &str, d: &Doc, snap: &Snapshot) {
    let mut enc = EncoderV1::new();
    d.transact().encode_state_from_snapshot(snap, &mut enc).unwrap();
    let b = enc.to_vec();
    let (sv, ds) = coq_snap(snap);
    println!("(* case {n} *)");
    println!("Definition snp_case_{n}_store : wbf_store := {}.", coq_store(d));
    println!("Definition snp_case_{n}_sv : list (N * N) := {}.", sv);
    println!("Definition snp_case_{n}_ds : idset := {}.", ds);
    println!(
        "Definition snp_case_{n}_bytes : list N := [{}].",
        b.iter().map(|x| x.to_string()).collect::<Vec<_>>().join("; ")
    );
    // what a fresh replica shows after applying it
    let r = doc(99, true);
    r.transact_mut().apply_update(Update::decode_v1(&b).unwrap()).unwrap();
    let t = r.get_or_insert_text("t");
    println!("(* restored text t = {:?} *)", t.get_string(&r.transact()));
}

#[test]
fn snp_print_cases() {
    // --- two authors on one text, deletions kept, snapshots at three moments
    let a = doc(1, true);
    let b = doc(2, true);
    let ta = a.get_or_insert_text("t");
    let tb = b.get_or_insert_text("t");
    ta.insert(&mut a.transact_mut(), 0, "hello");
    let s1 = a.transact().snapshot();
    case("1_own", &a, &s1); // snapshot = current state
    ta.insert(&mut a.transact_mut(), 5, "_world"); // squashed into the same block: the snapshot cuts a block
    case("2_cut", &a, &s1);
    ta.remove_range(&mut a.transact_mut(), 1, 3); // "h" "ell"(deleted) "o_world"
    case("3_del", &a, &s1);
    let s2 = a.transact().snapshot(); // a snapshot with a delete set
    // sync a -> b, b edits, sync back
    let u = a.transact().encode_diff_v1(&StateVector::default());
    b.transact_mut().apply_update(Update::decode_v1(&u).unwrap()).unwrap();
    tb.insert(&mut b.transact_mut(), 1, "EY");
    tb.remove_range(&mut b.transact_mut(), 4, 2);
    let u = b.transact().encode_diff_v1(&a.transact().state_vector());
    a.transact_mut().apply_update(Update::decode_v1(&u).unwrap()).unwrap();
    ta.insert(&mut a.transact_mut(), 0, "\u{1F600}!");
    case("4_s1_late", &a, &s1);
    case("5_s2_late", &a, &s2);
    let s3 = a.transact().snapshot();
    case("6_s3_own", &a, &s3);
    // a hand-made snapshot: clients the store does not know, clock 0, a clock above the local one, inside the pair
    let sv = StateVector::from_iter([
        (ClientID::new(1), 12u32), // inside the surrogate pair (clocks 11, 12)
        (ClientID::new(2), 100),
        (ClientID::new(3), 4),
        (ClientID::new(4), 0),
    ]);
    case("7_handmade", &a, &Snapshot::new(sv, IdSet::default()));
    let sv = StateVector::from_iter([(ClientID::new(2), 1u32)]);
    case("8_only2", &a, &Snapshot::new(sv, s3.delete_set.clone()));

    // --- out of order delivery + GC ranges from a collecting author
    let x = doc(7, false); // collects
    let m = x.get_or_insert_map("m");
    let mut ups = Vec::new();
    for step in 0..4 {
        let before = x.transact().state_vector();
        match step {
            0 => {
                m.insert(&mut x.transact_mut(), "a", "1");
            }
            1 => {
                m.insert(&mut x.transact_mut(), "b", "2");
            }
            2 => {
                m.insert(&mut x.transact_mut(), "a", "3"); // overwrites: the old value is deleted and collected
            }
            _ => {
                m.insert(&mut x.transact_mut(), "c", "4");
            }
        }
        ups.push(x.transact().encode_diff_v1(&before));
    }
    let y = doc(9, true);
    for i in [0usize, 3] {
        y.transact_mut().apply_update(Update::decode_v1(&ups[i]).unwrap()).unwrap();
    }
    let sg = y.transact().snapshot();
    case("9_gap_own", &y, &sg);
    for i in [1usize, 2] {
        y.transact_mut().apply_update(Update::decode_v1(&ups[i]).unwrap()).unwrap();
    }
    case("10_gap_late", &y, &sg);
    let sf = y.transact().snapshot();
    case("11_full", &y, &sf);
    let sv = StateVector::from_iter([(ClientID::new(7), 3u32)]);
    case("12_cut3", &y, &Snapshot::new(sv, IdSet::default()));
    let _ = m.len(&x.transact());

    // --- a GC range and a collected item cut by the vector
    let z = doc(9, true);
    let gc_update: Vec<u8> = vec![1, 1, 8, 0, 0, 5, 0]; // client 8, clock 0, GC, len 5
    z.transact_mut().apply_update(Update::decode_v1(&gc_update).unwrap()).unwrap();
    let tz = z.get_or_insert_text("t");
    tz.insert(&mut z.transact_mut(), 0, "abc");
    tz.remove_range(&mut z.transact_mut(), 0, 3);
    z.transact_mut().gc(None);
    let sv = StateVector::from_iter([(ClientID::new(8), 3u32), (ClientID::new(9), 2u32)]);
    case("13_gc_cut", &z, &Snapshot::new(sv, IdSet::default()));
    let so = z.transact().snapshot();
    case("14_gc_own", &z, &so);
}
