use yrs::updates::decoder::Decode;
use yrs::{Doc, Update, Text, GetString, Transact, ReadTxn, Map, Array, Any, Options, OffsetKind, Observable, Out, IndexedSequence, Assoc, StickyIndex};
use yrs::types::{ToJson, Change, Delta, EntryChange};
use yrs::block::ClientID;
use std::sync::{Arc, Mutex};
use std::collections::BTreeMap;
struct Rng(u64);
impl Rng { fn next(&mut self) -> u64 { self.0 ^= self.0 << 13; self.0 ^= self.0 >> 7; self.0 ^= self.0 << 17; self.0 } fn below(&mut self, n: u64) -> u64 { self.next() % n } }
fn mk(id: u64, gc: bool) -> Doc { Doc::with_options(Options { client_id: ClientID::new(id), guid: format!("g{id}").into(), collection_id: None, offset_kind: OffsetKind::Utf16, skip_gc: !gc, auto_load: false, should_load: true, cleanup_formatting: false }) }
fn anys(o: &Out) -> String { match o { Out::Any(a) => { let mut s = String::new(); a.to_json(&mut s); s } _ => "<t>".into() } }
fn main() {
    std::panic::set_hook(Box::new(|i| { eprintln!("PANIC: {i}"); }));
    let mut rng = Rng(1234567891);
    let (mut bad11, mut bad17, mut bad14, mut pan) = (0,0,0,0);
    let mut uniq = 0x4e00u32; // CJK chars, 1 utf16 unit each, unique
    for trial in 0..500 {
        let n = 3;
        let docs: Vec<Doc> = (0..n).map(|i| mk(i as u64 + 1, i % 2 == 0)).collect();
        let logs: Vec<Arc<Mutex<Vec<Vec<u8>>>>> = (0..n).map(|_| Arc::new(Mutex::new(vec![]))).collect();
        let mut subs = vec![];
        // shadows per doc
        let sh_txt: Vec<Arc<Mutex<Vec<u16>>>> = (0..n).map(|_| Arc::new(Mutex::new(vec![]))).collect();
        let sh_arr: Vec<Arc<Mutex<Vec<String>>>> = (0..n).map(|_| Arc::new(Mutex::new(vec![]))).collect();
        let sh_map: Vec<Arc<Mutex<BTreeMap<String,String>>>> = (0..n).map(|_| Arc::new(Mutex::new(BTreeMap::new()))).collect();
        let errs: Arc<Mutex<Vec<String>>> = Arc::new(Mutex::new(vec![]));
        for i in 0..n {
            let l = logs[i].clone(); subs.push(docs[i].observe_update_v1(move |_, e| l.lock().unwrap().push(e.update.clone())).unwrap());
            let t = docs[i].get_or_insert_text("t"); let a = docs[i].get_or_insert_array("a"); let m = docs[i].get_or_insert_map("m");
            let st = sh_txt[i].clone();
            subs.push(t.observe(move |txn, e| { let mut s = st.lock().unwrap(); let mut pos = 0usize;
                for d in e.delta(txn) { match d { Delta::Retain(k, _) => pos += *k as usize, Delta::Deleted(k) => { let end = (pos + *k as usize).min(s.len()); s.drain(pos..end); }, Delta::Inserted(v, _) => { if let Out::Any(Any::String(x)) = v { let u: Vec<u16> = x.encode_utf16().collect(); let l = u.len(); let p = pos.min(s.len()); s.splice(p..p, u); pos += l; } } } } }));
            let sa = sh_arr[i].clone(); let er = errs.clone();
            subs.push(a.observe(move |txn, e| { let mut s = sa.lock().unwrap(); let mut pos = 0usize;
                for c in e.delta(txn) { match c { Change::Retain(k) => pos += *k as usize, Change::Removed(k) => { let end = pos + *k as usize; if end > s.len() { er.lock().unwrap().push(format!("array remove beyond end")); } let end = end.min(s.len()); if pos <= end { s.drain(pos..end); } }, Change::Added(vs) => { let p = pos.min(s.len()); let items: Vec<String> = vs.iter().map(anys).collect(); let l = items.len(); s.splice(p..p, items); pos += l; } } } }));
            let sm = sh_map[i].clone(); let er2 = errs.clone();
            subs.push(m.observe(move |txn, e| { let mut s = sm.lock().unwrap();
                for (k, ch) in e.keys(txn) { match ch { EntryChange::Inserted(v) => { if s.contains_key(&**k) { er2.lock().unwrap().push(format!("Inserted on existing key {k}")); } s.insert(k.to_string(), anys(v)); }, EntryChange::Updated(o, v) => { if s.get(&**k) != Some(&anys(o)) { er2.lock().unwrap().push(format!("Updated old mismatch key {k}: ev {} shadow {:?}", anys(o), s.get(&**k))); } s.insert(k.to_string(), anys(v)); }, EntryChange::Removed(o) => { if s.get(&**k) != Some(&anys(o)) { er2.lock().unwrap().push(format!("Removed old mismatch key {k}: ev {} shadow {:?}", anys(o), s.get(&**k))); } s.remove(&**k); } } } }));
        }
        let mut delivered = vec![vec![0usize; n]; n];
        let mut stickies: Vec<(usize, StickyIndex, u16, Assoc)> = vec![];
        let mut script: Vec<String> = vec![];
        let res = std::panic::catch_unwind(std::panic::AssertUnwindSafe(|| {
        for k in 0..16 {
            let c = rng.below(n as u64) as usize;
            let d = &docs[c];
            let t = d.get_or_insert_text("t"); let m = d.get_or_insert_map("m"); let a = d.get_or_insert_array("a");
            if rng.below(3) != 0 {
                let mut txn = d.transact_mut();
                for _ in 0..1 + rng.below(3) {
                match rng.below(7) {
                    0|1 => { let len = t.len(&txn); let p = rng.below(len as u64 + 1) as u32; let mut s = String::new(); for _ in 0..1+rng.below(3) { s.push(char::from_u32(uniq).unwrap()); uniq += 1; } t.insert(&mut txn, p, &s); script.push(format!("c{c} tins {p} {}", s.chars().count())); }
                    2 => { let len = t.len(&txn); if len > 0 { let p = rng.below(len as u64) as u32; let l = 1 + rng.below((len - p).min(3) as u64) as u32; t.remove_range(&mut txn, p, l); script.push(format!("c{c} tdel {p} {l}")); } }
                    3 => { let key = format!("k{}", rng.below(3)); m.insert(&mut txn, key.clone(), k as i64); script.push(format!("c{c} mset {key}")); }
                    4 => { let key = format!("k{}", rng.below(3)); m.remove(&mut txn, &key); script.push(format!("c{c} mdel {key}")); }
                    5 => { let len = a.len(&txn); let p = rng.below(len as u64 + 1) as u32; a.insert_range(&mut txn, p, vec![Any::from((trial*100+k) as i64), Any::from((trial*100+k) as i64 + 50)]); script.push(format!("c{c} ains {p}")); }
                    _ => { let len = a.len(&txn); if len > 0 { let p = rng.below(len as u64) as u32; let l = 1 + rng.below((len-p).min(2) as u64) as u32; a.remove_range(&mut txn, p, l); script.push(format!("c{c} adel {p} {l}")); } }
                } }
            } else {
                // FIFO delivery from a random other
                let o = (c + 1 + rng.below(n as u64 - 1) as usize) % n;
                let ups = logs[o].lock().unwrap().clone();
                let from = delivered[c][o];
                let upto = from + rng.below((ups.len() - from) as u64 + 1) as usize;
                for u in &ups[from..upto] { d.transact_mut().apply_update(Update::decode_v1(u).unwrap()).unwrap(); }
                delivered[c][o] = upto; script.push(format!("c{c} <- c{o} [{from}..{upto})"));
            }
            // sticky creation
            { let txn = d.transact(); let s = t.get_string(&txn); let u: Vec<u16> = s.encode_utf16().collect();
              if !u.is_empty() && rng.below(2)==0 { let p = rng.below(u.len() as u64) as u32; let assoc = if rng.below(2)==0 { Assoc::After } else { Assoc::Before };
                let (idx, tag) = if assoc == Assoc::After { (p, u[p as usize]) } else { (p + 1, u[p as usize]) };
                if let Some(si) = t.sticky_index(&txn, idx, assoc) { stickies.push((c, si, tag, assoc)); } else { println!("sticky None at {idx} {:?} len {}", assoc, u.len()); } } }
            // checks on every doc
            for i in 0..n {
                let d = &docs[i]; let t = d.get_or_insert_text("t"); let m = d.get_or_insert_map("m"); let a = d.get_or_insert_array("a");
                let txn = d.transact();
                let s: Vec<u16> = t.get_string(&txn).encode_utf16().collect();
                if t.len(&txn) as usize != s.len() { return Some(format!("C17 text len {} vs {}", t.len(&txn), s.len())); }
                let items: Vec<String> = a.iter(&txn).map(|o| anys(&o)).collect();
                if a.len(&txn) as usize != items.len() { return Some(format!("C17 array len")); }
                for (j, it) in items.iter().enumerate() { if a.get(&txn, j as u32).map(|o| anys(&o)).as_ref() != Some(it) { return Some(format!("C17 array get {j}")); } }
                if a.get(&txn, items.len() as u32).is_some() { return Some("C17 array get(len) is some".into()); }
                let mm: BTreeMap<String,String> = m.iter(&txn).map(|(k,v)| (k.to_string(), anys(&v))).collect();
                if m.len(&txn) as usize != mm.len() { return Some("C17 map len".into()); }
                if *sh_txt[i].lock().unwrap() != s { return Some(format!("C11 text shadow doc {i}: shadow {:?} real {:?}", String::from_utf16_lossy(&sh_txt[i].lock().unwrap()), String::from_utf16_lossy(&s))); }
                if *sh_arr[i].lock().unwrap() != items { return Some(format!("C11 array shadow doc {i}: {:?} vs {:?}", sh_arr[i].lock().unwrap(), items)); }
                if *sh_map[i].lock().unwrap() != mm { return Some(format!("C11 map shadow doc {i}: {:?} vs {:?}", sh_map[i].lock().unwrap(), mm)); }
                if let Some(e) = errs.lock().unwrap().first() { return Some(format!("C11 {e}")); }
                for (owner, si, tag, assoc) in &stickies {
                    if let Some(off) = si.get_offset(&txn) {
                        if let Some(p) = s.iter().position(|x| x == tag) {
                            let exp = if *assoc == Assoc::After { p as u32 } else { p as u32 + 1 };
                            if off.index != exp { return Some(format!("C14 doc {i} (owner {owner}) sticky {:?} resolved {} expected {}", assoc, off.index, exp)); }
                        }
                    } else if *owner == i { return Some(format!("C14 owner cannot resolve")); }
                }
            }
        }
        None }));
        match res { Ok(Some(msg)) => { if msg.starts_with("C11") { bad11 += 1 } else if msg.starts_with("C17") { bad17 += 1 } else { bad14 += 1 }; if bad11 + bad17 + bad14 <= 6 { println!("trial {trial}: {msg}\n   script {:?}", script); } } Ok(None) => {} Err(_) => { pan += 1; } }
    }
    println!("bad11={bad11} bad17={bad17} bad14={bad14} panics={pan}");
}
