use yrs::updates::decoder::Decode;
use yrs::{Doc, Update, Text, GetString, Transact, ReadTxn, Map, Array, Any, Options, OffsetKind, Xml, XmlFragment, XmlElementPrelim, XmlTextPrelim};
use yrs::types::ToJson;
use yrs::block::ClientID;
use std::sync::{Arc, Mutex};
struct Rng(u64);
impl Rng { fn next(&mut self) -> u64 { self.0 ^= self.0 << 13; self.0 ^= self.0 >> 7; self.0 ^= self.0 << 17; self.0 } fn below(&mut self, n: u64) -> u64 { self.next() % n } }
fn mk(id: u64, gc: bool) -> Doc { Doc::with_options(Options { client_id: ClientID::new(id), guid: format!("g{id}").into(), collection_id: None, offset_kind: OffsetKind::Utf16, skip_gc: !gc, auto_load: false, should_load: true, cleanup_formatting: false }) }
fn dump(d: &Doc) -> String {
    let t = d.get_or_insert_text("t"); let m = d.get_or_insert_map("m"); let a = d.get_or_insert_array("a");
    let txn = d.transact();
    let mut mj = String::new(); m.to_json(&txn).to_json(&mut mj);
    let mut aj = String::new(); a.to_json(&txn).to_json(&mut aj);
    let mv: serde_json::Value = serde_json::from_str(&mj).unwrap();
    format!("{}|{}|{}", t.get_string(&txn), serde_json::to_string(&mv).unwrap(), aj)
}
fn edit(d: &Doc, rng: &mut Rng, k: usize) {
    let t = d.get_or_insert_text("t"); let m = d.get_or_insert_map("m"); let a = d.get_or_insert_array("a");
    let mut txn = d.transact_mut();
    for _ in 0..1 + rng.below(2) {
    match rng.below(8) {
        0|1 => { let len = t.len(&txn); let p = rng.below(len as u64 + 1) as u32; t.insert(&mut txn, p, &format!("{}x", (b'a'+(k%26) as u8) as char)); }
        2 => { let len = t.len(&txn); if len > 0 { let p = rng.below(len as u64) as u32; let l = 1 + rng.below((len - p) as u64) as u32; t.remove_range(&mut txn, p, l); } }
        3 => { m.insert(&mut txn, format!("k{}", rng.below(3)), k as i64); }
        4 => { m.remove(&mut txn, &format!("k{}", rng.below(3))); }
        5 => { let len = a.len(&txn); let p = rng.below(len as u64 + 1) as u32; a.insert_range(&mut txn, p, vec![Any::from(k as i64), Any::from(100 + k as i64)]); }
        6 => { let len = a.len(&txn); if len > 0 { let p = rng.below(len as u64) as u32; a.remove_range(&mut txn, p, 1); } }
        _ => { let len = t.len(&txn); if len > 1 { let p = rng.below(len as u64 - 1) as u32; let mut at = yrs::types::Attrs::new(); at.insert("b".into(), if rng.below(2)==0 { Any::Bool(true) } else { Any::Null }); t.format(&mut txn, p, 1 + rng.below((len-p-1) as u64) as u32, at); } }
    } }
}
fn main() {
    std::panic::set_hook(Box::new(|i| { eprintln!("PANIC: {i}"); }));
    let mut rng = Rng(987654321);
    let mut bad = 0; let mut pan = 0;
    for trial in 0..600 {
        let res = std::panic::catch_unwind(std::panic::AssertUnwindSafe(|| {
        let gc = rng.below(2) == 0;
        let leader = mk(1, gc);
        let others = [mk(2, true), mk(3, false)];
        let f1 = mk(11, rng.below(2)==0); let f2 = mk(12, rng.below(2)==0);
        let l1: Arc<Mutex<Vec<Vec<u8>>>> = Arc::new(Mutex::new(vec![])); let l2 = Arc::new(Mutex::new(vec![]));
        let (c1, c2) = (l1.clone(), l2.clone());
        let _s1 = leader.observe_update_v1(move |_, e| c1.lock().unwrap().push(e.update.clone())).unwrap();
        let _s2 = leader.observe_update_v2(move |_, e| c2.lock().unwrap().push(e.update.clone())).unwrap();
        let olog: Vec<Arc<Mutex<Vec<Vec<u8>>>>> = (0..2).map(|_| Arc::new(Mutex::new(vec![]))).collect();
        let mut subs = vec![];
        for i in 0..2 { let l = olog[i].clone(); subs.push(others[i].observe_update_v1(move |_, e| l.lock().unwrap().push(e.update.clone())).unwrap()); }
        let mut inbox: Vec<Vec<u8>> = vec![];
        let mut script = vec![];
        for k in 0..14 {
            let before1 = l1.lock().unwrap().len();
            match rng.below(4) {
                0|1 => { edit(&leader, &mut rng, k); script.push("L edit".to_string()); }
                2 => { let o = rng.below(2) as usize;
                       // others may see leader's state sometimes
                       if rng.below(2)==0 { let sv = others[o].transact().state_vector(); let u = leader.transact().encode_state_as_update_v1(&sv); others[o].transact_mut().apply_update(Update::decode_v1(&u).unwrap()).unwrap(); }
                       edit(&others[o], &mut rng, k); inbox.append(&mut olog[o].lock().unwrap()); script.push(format!("O{o} edit")); }
                _ => { if !inbox.is_empty() { let i = rng.below(inbox.len() as u64) as usize; let u = if rng.below(4)==0 { inbox[i].clone() } else { inbox.remove(i) }; leader.transact_mut().apply_update(Update::decode_v1(&u).unwrap()).unwrap(); script.push("L apply".to_string()); } }
            }
            let new1: Vec<Vec<u8>> = l1.lock().unwrap()[before1..].to_vec();
            if new1.len() > 1 { println!("trial {trial}: {} v1 events in one txn", new1.len()); }
            for u in new1 { f1.transact_mut().apply_update(Update::decode_v1(&u).unwrap()).unwrap(); }
            let n2: Vec<Vec<u8>> = l2.lock().unwrap().drain(..).collect();
            for u in n2 { f2.transact_mut().apply_update(Update::decode_v2(&u).unwrap()).unwrap(); }
            let (dl, d1, d2) = (dump(&leader), dump(&f1), dump(&f2));
            if dl != d1 || dl != d2 { let evs: Vec<String> = l1.lock().unwrap().iter().map(|u| format!("{:?}", Update::decode_v1(u).unwrap())).collect(); return Some(format!("trial {trial} step {k} script {:?}\n L={dl}\n f1={d1}\n f2={d2}\n Lpend={} f1pend={} Lsv={:?} f1sv={:?}\n events={:#?}\n f1pending={:?}", script, leader.transact().has_missing_updates(), f1.transact().has_missing_updates(), leader.transact().state_vector(), f1.transact().state_vector(), evs, f1.transact().store().pending_update())); }
        }
        None }));
        match res { Ok(Some(msg)) => { bad += 1; if bad <= 1 { println!("{msg}"); } } Ok(None) => {} Err(_) => { pan += 1; if pan <= 3 { println!("panic in trial {trial}"); } } }
    }
    println!("bad={bad} panics={pan}");
}
