From Coq Require Import List NArith Bool Lia.
Import ListNotations.
Require Import Yata.
Open Scope N_scope.

Definition dep_ok (have : list id) (x : item) : bool :=
  (match origin x with None => true | Some o => mem o have end) &&
  (match rorigin x with None => true | Some o => mem o have end).
Definition id_ltb (a b : id) := (fst a <? fst b) || ((fst a =? fst b) && (snd a <? snd b)).
Fixpoint ids_eqb (a b : list id) : bool :=
  match a, b with [], [] => true | x :: a', y :: b' => id_eqb x y && ids_eqb a' b' | _, _ => false end.
Fixpoint remove_nth {A} (n : nat) (l : list A) : list A :=
  match n, l with O, _ :: r => r | S k, x :: r => x :: remove_nth k r | _, [] => [] end.

Fixpoint all_orders_ok (fuel : nat) (ref : list id) (have : list id) (rem : list item) (lst : list item) : bool :=
  match fuel with
  | O => ids_eqb (map iid lst) ref
  | S f =>
    match rem with
    | [] => ids_eqb (map iid lst) ref
    | _ => forallb (fun k =>
             match nth_error rem k with
             | Some x => if dep_ok have x then all_orders_ok f ref (iid x :: have) (remove_nth k rem) (integrate lst x) else true
             | None => true end) (seq 0 (length rem))
    end
  end.

(* canonical order: smallest ready id first *)
Fixpoint pick_min (have : list id) (rem : list item) (best : option (nat * item)) (k : nat) : option (nat * item) :=
  match rem with
  | [] => best
  | x :: r => let best' := if dep_ok have x then
                              match best with None => Some (k, x)
                              | Some (_, b) => if id_ltb (iid x) (iid b) then Some (k, x) else best end
                            else best in
              pick_min have r best' (S k)
  end.
Fixpoint canon (fuel : nat) (have : list id) (rem : list item) (lst : list item) : list item :=
  match fuel with O => lst | S f =>
    match pick_min have rem None 0 with
    | None => lst
    | Some (k, x) => canon f (iid x :: have) (remove_nth k rem) (integrate lst x)
    end end.
Definition render (its : list item) := canon (length its) [] its [].

(* history generation *)
Fixpoint sublists {A} (l : list A) : list (list A) :=
  match l with [] => [[]] | x :: r => let s := sublists r in s ++ map (cons x) s end.
Definition natmem (n : nat) (l : list nat) := existsb (Nat.eqb n) l.
Definition closed (views : list (list nat)) (view : list nat) : bool :=
  forallb (fun i => forallb (fun j => natmem j view) (nth i views [])) view.
Definition clock_of (c : N) (items : list item) : N := N.of_nat (length (filter (fun it => fst (iid it) =? c) items)).

Fixpoint gen (n : nat) (clients : list N) (items : list item) (views : list (list nat)) : list (list item) :=
  match n with
  | O => [items]
  | S n' =>
    flat_map (fun c =>
      let idx := seq 0 (length items) in
      let own := filter (fun i => match nth_error items i with Some it => fst (iid it) =? c | None => false end) idx in
      let others := filter (fun i => negb (natmem i own)) idx in
      flat_map (fun extra =>
        let view := own ++ extra in
        if closed views view then
          let seen := flat_map (fun i => match nth_error items i with Some it => if natmem i view then [it] else [] | None => [] end) idx in
          let lst := render seen in
          flat_map (fun gap =>
            let o := match gap with O => None | S g => option_map iid (nth_error lst g) end in
            let r := option_map iid (nth_error lst gap) in
            gen n' clients (items ++ [{| iid := (c, clock_of c items); origin := o; rorigin := r |}]) (views ++ [view]))
            (seq 0 (S (length lst)))
        else []) (sublists others)) clients
  end.

Definition check (n : nat) (clients : list N) : bool :=
  forallb (fun h => all_orders_ok (length h) (map iid (render h)) [] h []) (gen n clients [] []).

Eval vm_compute in length (gen 3 [1;2] [] []).
Eval vm_compute in length (gen 4 [1;2;3] [] []).
Time Eval vm_compute in check 4 [1;2;3].
Time Eval vm_compute in check 5 [1;2].
