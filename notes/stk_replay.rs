// Replays of the Coq model /tmp/stk/Sticky.v against the real code.
use std::panic::{catch_unwind, AssertUnwindSafe};
use yrs::{Assoc, Doc, GetString, IndexedSequence, Map, OffsetKind, Options, Text, Transact};

fn doc(kind: OffsetKind, client: u64) -> Doc {
    let mut o = Options::default();
    o.offset_kind = kind;
    o.client_id = yrs::ClientID::new(client);
    o.skip_gc = true;
    Doc::with_options(o)
}

fn show(st: &Option<yrs::StickyIndex>) -> String {
    match st {
        None => "None".into(),
        Some(s) => format!("Some(id={:?}, assoc={:?})", s.id(), s.assoc),
    }
}

// R1: After at the very end of a non-empty / empty sequence
#[test]
fn r1_after_at_end() {
    for kind in [OffsetKind::Utf16, OffsetKind::Bytes] {
        let d = doc(kind, 1);
        let t = d.get_or_insert_text("t");
        let mut txn = d.transact_mut();
        let e = t.sticky_index(&txn, 0, Assoc::After);
        println!("R1 {:?} empty at(0,After) = {}", kind, show(&e));
        let eb = t.sticky_index(&txn, 0, Assoc::Before);
        println!("R1 {:?} empty at(0,Before) = {} -> {:?}", kind, show(&eb), eb.as_ref().and_then(|s| s.get_offset(&txn)).map(|o| o.index));
        t.insert(&mut txn, 0, "ab");
        for i in 0..=3u32 {
            for a in [Assoc::After, Assoc::Before] {
                let s = t.sticky_index(&txn, i, a);
                let off = s.as_ref().and_then(|s| s.get_offset(&txn)).map(|o| o.index);
                println!("R1 {:?} 'ab' at({},{:?}) = {} -> {:?}", kind, i, a, show(&s), off);
            }
        }
    }
}

// R2: Bytes kind, index inside a multi-byte character; Utf16 kind, index inside a surrogate pair
#[test]
fn r2_inside_character() {
    // "é" = 2 bytes, 1 unit; "😀" = 4 bytes, 2 units
    for (kind, s) in [(OffsetKind::Bytes, "aéb"), (OffsetKind::Bytes, "a😀b"), (OffsetKind::Utf16, "a😀b")] {
        let d = doc(kind, 1);
        let t = d.get_or_insert_text("t");
        let mut txn = d.transact_mut();
        t.insert(&mut txn, 0, s);
        let len = t.len(&txn);
        println!("R2 {:?} {:?} len={}", kind, s, len);
        for i in 0..=len {
            for a in [Assoc::After, Assoc::Before] {
                let r = catch_unwind(AssertUnwindSafe(|| {
                    let st = t.sticky_index(&txn, i, a);
                    let off = st.as_ref().and_then(|s| s.get_offset(&txn)).map(|o| o.index);
                    (show(&st), off)
                }));
                match r {
                    Ok((st, off)) => println!("R2 {:?} {:?} at({},{:?}) = {} -> {:?}", kind, s, i, a, st, off),
                    Err(_) => println!("R2 {:?} {:?} at({},{:?}) PANIC", kind, s, i, a),
                }
            }
        }
    }
}

// R3: anchors across deleted blocks, both kinds
#[test]
fn r3_before_over_tombstones() {
    for kind in [OffsetKind::Utf16, OffsetKind::Bytes] {
        let d = doc(kind, 1);
        let t = d.get_or_insert_text("t");
        let mut txn = d.transact_mut();
        t.insert(&mut txn, 0, "éa");
        t.insert(&mut txn, if kind == OffsetKind::Bytes { 3 } else { 2 }, "xy");
        t.insert(&mut txn, if kind == OffsetKind::Bytes { 5 } else { 4 }, "z中");
        // delete "xy"
        t.remove_range(&mut txn, if kind == OffsetKind::Bytes { 3 } else { 2 }, 2);
        println!("R3 {:?} text={:?} len={}", kind, t.get_string(&txn), t.len(&txn));
        let len = t.len(&txn);
        for i in 0..=len {
            for a in [Assoc::After, Assoc::Before] {
                let r = catch_unwind(AssertUnwindSafe(|| {
                    let st = t.sticky_index(&txn, i, a);
                    let off = st.as_ref().and_then(|s| s.get_offset(&txn)).map(|o| o.index);
                    (show(&st), off)
                }));
                match r {
                    Ok((st, off)) => println!("R3 {:?} at({},{:?}) = {} -> {:?}", kind, i, a, st, off),
                    Err(_) => println!("R3 {:?} at({},{:?}) PANIC", kind, i, a),
                }
            }
        }
    }
}

// R4: sticky index in a nested array whose holder was deleted
#[test]
fn r4_deleted_parent() {
    let d = doc(OffsetKind::Utf16, 1);
    let m = d.get_or_insert_map("m");
    let mut txn = d.transact_mut();
    let arr = m.insert(&mut txn, "a", yrs::ArrayPrelim::from([1, 2, 3]));
    let s1 = arr.sticky_index(&txn, 1, Assoc::After).unwrap();
    println!("R4 before delete: {:?}", s1.get_offset(&txn).map(|o| o.index));
    m.remove(&mut txn, "a");
    println!("R4 after delete of the holder: old anchor -> {:?}", s1.get_offset(&txn).map(|o| o.index));
    let s2 = arr.sticky_index(&txn, 0, Assoc::After);
    println!("R4 at(0,After) on deleted = {}", show(&s2));
    let s3 = arr.sticky_index(&txn, 0, Assoc::Before);
    println!("R4 at(0,Before) on deleted = {} -> {:?}", show(&s3), s3.as_ref().and_then(|s| s.get_offset(&txn)).map(|o| o.index));

}
