use yrs::updates::decoder::Decode;
use yrs::{Doc, Update, Text, GetString, Transact, ReadTxn};
use std::sync::{Arc, Mutex};
fn perms(n: usize) -> Vec<Vec<usize>> {
    if n == 0 { return vec![vec![]]; }
    let mut out = vec![];
    for p in perms(n-1) { for i in 0..=p.len() { let mut q = p.clone(); q.insert(i, n-1); out.push(q);} }
    out
}
struct Rng(u64);
impl Rng { fn next(&mut self) -> u64 { self.0 ^= self.0 << 13; self.0 ^= self.0 >> 7; self.0 ^= self.0 << 17; self.0 } fn below(&mut self, n: u64) -> u64 { self.next() % n } }
fn main() {
    let a: Vec<String> = std::env::args().collect();
    let nclients: usize = a[1].parse().unwrap(); let nops: usize = a[2].parse().unwrap(); let trials: usize = a[3].parse().unwrap();
    std::panic::set_hook(Box::new(|_| {}));
    let mut rng = Rng(0x9E3779B97F4A7C15);
    let (mut stuck, mut diverged, mut panics) = (0, 0, 0);
    for trial in 0..trials {
        let docs: Vec<Doc> = (0..nclients).map(|i| Doc::with_client_id(i as u64 + 1)).collect();
        let texts: Vec<_> = docs.iter().map(|d| d.get_or_insert_text("t")).collect();
        let mut local: Vec<(usize, Vec<u8>)> = vec![];
        let mut script = vec![];
        for k in 0..nops {
            let c = rng.below(nclients as u64) as usize;
            if rng.below(2) == 0 {
                let o = (c + 1 + rng.below(nclients as u64 - 1) as usize) % nclients;
                for (who, u) in local.iter() { if *who == o { docs[c].transact_mut().apply_update(Update::decode_v1(u).unwrap()).unwrap(); } }
                script.push(format!("sync {}<-{}", c+1, o+1));
            }
            let cap: Arc<Mutex<Vec<Vec<u8>>>> = Arc::new(Mutex::new(vec![]));
            let cap2 = cap.clone();
            let sub = docs[c].observe_update_v1(move |_, e| cap2.lock().unwrap().push(e.update.clone())).unwrap();
            {
                let mut txn = docs[c].transact_mut();
                let len = texts[c].len(&txn);
                let del = len > 0 && rng.below(5) == 0;
                if del {
                    let pos = rng.below(len as u64) as u32;
                    texts[c].remove_range(&mut txn, pos, 1);
                    script.push(format!("c{} del {}", c+1, pos));
                } else {
                    let pos = rng.below(len as u64 + 1) as u32;
                    let ch = ((b'a' + k as u8) as char).to_string();
                    texts[c].insert(&mut txn, pos, &ch);
                    script.push(format!("c{} ins {} {}", c+1, pos, ch));
                }
            }
            drop(sub);
            for u in cap.lock().unwrap().drain(..) { local.push((c, u)); }
        }
        let refdoc = Doc::with_client_id(7);
        let rt = refdoc.get_or_insert_text("t");
        for (_, u) in &local { refdoc.transact_mut().apply_update(Update::decode_v1(u).unwrap()).unwrap(); }
        let expect = rt.get_string(&refdoc.transact());
        let mut t_stuck=false; let mut t_div=false; let mut t_pan=false;
        for p in perms(local.len()) {
            let r = Doc::with_client_id(9);
            let t = r.get_or_insert_text("t");
            let mut panicked = false;
            for &i in &p {
                let res = std::panic::catch_unwind(std::panic::AssertUnwindSafe(|| {
                    r.transact_mut().apply_update(Update::decode_v1(&local[i].1).unwrap()).unwrap();
                }));
                if res.is_err() { panicked = true; break; }
            }
            if panicked { if !t_pan { println!("PANIC trial {trial} {:?} perm {:?}", script, p);} t_pan = true; continue; }
            let txn = r.transact();
            let s = t.get_string(&txn);
            let pend = txn.has_missing_updates();
            if pend { if !t_stuck && stuck < 5 { println!("STUCK trial {trial} {:?} perm {:?}", script, p);} t_stuck = true; }
            else if s != expect { if !t_div { println!("DIVERGE trial {trial} {:?} perm {:?}: got {:?} expected {:?}", script, p, s, expect);} t_div = true; }
        }
        stuck += t_stuck as u32; diverged += t_div as u32; panics += t_pan as u32;
    }
    println!("stuck {stuck} diverged {diverged} panics {panics}");
}
