// Replay of the dispatch model (Dispatch.v): which observers are called at commit, with which events.
use std::collections::HashMap;
use std::sync::{Arc, Mutex};
use yrs::types::{Attrs, Event, PathSegment};
use yrs::updates::decoder::Decode;
use yrs::{Any, Array, ArrayPrelim, Doc, GetString, Map, MapPrelim, Observable, DeepObservable, ReadTxn, StateVector, Text, Transact, TransactionMut, Update};

fn path_str(p: &yrs::types::Path) -> String {
    let v: Vec<String> = p
        .iter()
        .map(|s| match s {
            PathSegment::Key(k) => format!("K({})", k),
            PathSegment::Index(i) => format!("I({})", i),
        })
        .collect();
    format!("[{}]", v.join(","))
}

fn kind(e: &Event) -> &'static str {
    match e {
        Event::Text(_) => "Text",
        Event::Array(_) => "Array",
        Event::Map(_) => "Map",
        Event::XmlFragment(_) => "XmlFragment",
        Event::XmlText(_) => "XmlText",
        #[cfg(feature = "weak")]
        Event::Weak(_) => "Weak",
    }
}

fn describe(txn: &TransactionMut, e: &Event) -> String {
    let body = match e {
        Event::Array(a) => format!("delta={:?}", a.delta(txn)),
        Event::Map(m) => {
            let mut ks: Vec<String> = m.keys(txn).iter().map(|(k, v)| format!("{}:{:?}", k, v)).collect();
            ks.sort();
            format!("keys={:?}", ks)
        }
        Event::Text(t) => format!("delta={:?}", t.delta(txn)),
        _ => String::new(),
    };
    format!("{} path={} {}", kind(e), path_str(&e.path()), body)
}

type Log = Arc<Mutex<Vec<String>>>;

fn deep_logger(log: &Log, name: &'static str) -> impl Fn(&TransactionMut, &yrs::types::Events) + 'static {
    let log = log.clone();
    move |txn, evts| {
        let mut l = log.lock().unwrap();
        let items: Vec<String> = evts.iter().map(|e| describe(txn, e)).collect();
        l.push(format!("deep({}) n={} :: {}", name, items.len(), items.join(" | ")));
    }
}

fn dump(title: &str, log: &Log) {
    println!("--- {}", title);
    for l in log.lock().unwrap().drain(..) {
        println!("    {}", l);
    }
}

// insert-then-delete in one transaction: the type is touched, content unchanged, an event with an
// empty edit script is delivered (shallow and deep).
#[test]
fn evd_noop_event() {
    let doc = Doc::with_client_id(1);
    let arr = doc.get_or_insert_array("a");
    arr.push_back(&mut doc.transact_mut(), 1);
    let log: Log = Default::default();
    let l2 = log.clone();
    let _s = arr.observe(move |txn, e| {
        l2.lock().unwrap().push(format!("shallow(a) delta={:?}", e.delta(txn)));
    });
    let _d = arr.observe_deep(deep_logger(&log, "a"));
    {
        let mut txn = doc.transact_mut();
        arr.push_back(&mut txn, 2);
        arr.remove(&mut txn, 1);
    }
    let n = log.lock().unwrap().len();
    dump("noop_event (insert then delete in one transaction)", &log);
    assert_eq!(n, 2);
}

// a type created in this transaction fires nothing itself; its parent does. Deep observer of the
// parent gets exactly one event (the parent's).
#[test]
fn evd_created_type_silent() {
    let doc = Doc::with_client_id(1);
    let arr = doc.get_or_insert_array("a");
    let log: Log = Default::default();
    let _d = arr.observe_deep(deep_logger(&log, "a"));
    {
        let mut txn = doc.transact_mut();
        let nested = arr.push_back(&mut txn, MapPrelim::default());
        let l2 = log.clone();
        // observer registered inside the transaction, before the nested type is touched
        let _s = nested.observe(move |_txn, _e| {
            l2.lock().unwrap().push("shallow(nested) CALLED".to_string());
        });
        nested.insert(&mut txn, "k", 1);
        std::mem::forget(_s);
    }
    dump("created_type_silent", &log);
}

// content changed inside a type deleted earlier in the same transaction, and a type deleted after it
// was touched: neither fires.
#[test]
fn evd_deleted_type_silent() {
    let doc = Doc::with_client_id(1);
    let arr = doc.get_or_insert_array("a");
    let (n1, n2) = {
        let mut txn = doc.transact_mut();
        let n1 = arr.push_back(&mut txn, MapPrelim::default());
        let n2 = arr.push_back(&mut txn, MapPrelim::default());
        (n1, n2)
    };
    let log: Log = Default::default();
    let l1 = log.clone();
    let _s1 = n1.observe(move |_t, _e| l1.lock().unwrap().push("shallow(n1) CALLED".into()));
    let l2 = log.clone();
    let _s2 = n2.observe(move |_t, _e| l2.lock().unwrap().push("shallow(n2) CALLED".into()));
    let _d = arr.observe_deep(deep_logger(&log, "a"));
    {
        let mut txn = doc.transact_mut();
        n1.insert(&mut txn, "k", 1); // touched, then deleted
        arr.remove(&mut txn, 0);
        arr.remove(&mut txn, 0); // n2 deleted, then touched
        n2.insert(&mut txn, "k", 2);
    }
    dump("deleted_type_silent", &log);
}

// paths are computed at commit: a sibling inserted in the same transaction shifts the index.
#[test]
fn evd_path_after_sibling_insert() {
    let doc = Doc::with_client_id(1);
    let arr = doc.get_or_insert_array("a");
    let nested = arr.push_back(&mut doc.transact_mut(), MapPrelim::default());
    let inner = nested.insert(&mut doc.transact_mut(), "in", ArrayPrelim::default());
    let log: Log = Default::default();
    let _d = arr.observe_deep(deep_logger(&log, "a"));
    let _d2 = nested.observe_deep(deep_logger(&log, "nested"));
    {
        let mut txn = doc.transact_mut();
        inner.push_back(&mut txn, 7);
        nested.insert(&mut txn, "k", 1);
        arr.insert(&mut txn, 0, "x");
        arr.insert(&mut txn, 0, "y");
    }
    dump("path_after_sibling_insert", &log);
}

// a remote map entry that loses to a concurrent one: touched, keys() empty
#[test]
fn evd_losing_map_entry() {
    let d1 = Doc::with_client_id(1);
    let d2 = Doc::with_client_id(2);
    let m1 = d1.get_or_insert_map("m");
    let m2 = d2.get_or_insert_map("m");
    m1.insert(&mut d1.transact_mut(), "k", "low");
    m2.insert(&mut d2.transact_mut(), "k", "high");
    let log: Log = Default::default();
    let l = log.clone();
    let _s = m2.observe(move |txn, e| {
        l.lock().unwrap().push(format!("shallow(m@2) keys={:?}", e.keys(txn)));
    });
    let u = d1.transact().encode_state_as_update_v1(&StateVector::default());
    d2.transact_mut().apply_update(Update::decode_v1(&u).unwrap()).unwrap();
    println!("    value at 2: {:?}", m2.get(&d2.transact(), "k"));
    dump("losing_map_entry", &log);
}

// cleanup of redundant formatting runs after the observers, inside the same transaction: the items it
// deletes are in the delete set seen by after_transaction but not in the one seen by the observers,
// and no second round of observer calls happens.
#[test]
fn evd_cleanup_after_observers() {
    let d1 = Doc::with_client_id(1);
    let d2 = Doc::with_client_id(2);
    let t1 = d1.get_or_insert_text("t");
    let t2 = d2.get_or_insert_text("t");
    t1.insert(&mut d1.transact_mut(), 0, "abc");
    let u = d1.transact().encode_state_as_update_v1(&StateVector::default());
    d2.transact_mut().apply_update(Update::decode_v1(&u).unwrap()).unwrap();
    let bold: Attrs = HashMap::from([(Arc::from("bold"), Any::Bool(true))]);
    t1.format(&mut d1.transact_mut(), 0, 3, bold.clone());
    t2.format(&mut d2.transact_mut(), 0, 3, bold.clone());
    let log: Log = Default::default();
    let l = log.clone();
    let _s = t1.observe(move |txn, e| {
        l.lock().unwrap().push(format!("shallow(t@1) delta={:?} delete_set={}", e.delta(txn), txn.delete_set()));
    });
    let l = log.clone();
    let _a = d1
        .observe_after_transaction(move |txn| {
            l.lock().unwrap().push(format!("after_transaction delete_set={}", txn.delete_set()));
        })
        .unwrap();
    let u = d2.transact().encode_state_as_update_v1(&d1.transact().state_vector());
    d1.transact_mut().apply_update(Update::decode_v1(&u).unwrap()).unwrap();
    dump("cleanup_after_observers", &log);
}

// quotation detour: the holder of `nested` is quoted by a link that lives below the same ancestor:
// the ancestor's deep observer receives the same event twice.
#[cfg(feature = "weak")]
#[test]
fn evd_deep_duplicate_through_link() {
    let doc = Doc::with_client_id(1);
    let root = doc.get_or_insert_map("m");
    let nested = root.insert(&mut doc.transact_mut(), "a", MapPrelim::default());
    let link = {
        let mut txn = doc.transact_mut();
        let link = root.link(&txn, "a").unwrap();
        root.insert(&mut txn, "l", link)
    };
    let log: Log = Default::default();
    let _d = root.observe_deep(deep_logger(&log, "m"));
    let _dl = link.observe_deep(deep_logger(&log, "link"));
    let l = log.clone();
    let _s = nested.observe(move |_t, _e| l.lock().unwrap().push("shallow(nested)".into()));
    nested.insert(&mut doc.transact_mut(), "k", 1);
    let lines = log.lock().unwrap().clone();
    dump("deep_duplicate_through_link", &log);
    let deep: Vec<_> = lines.iter().filter(|l| l.starts_with("deep(m)")).collect();
    println!("    deep(m) calls: {}", deep.len());
}
