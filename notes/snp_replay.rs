// Replays of the witnesses of Snapshot*.v against the real code (scratch test, not part of the repository).
use std::panic::{catch_unwind, AssertUnwindSafe};
use yrs::block::ClientID;
use yrs::updates::decoder::Decode;
use yrs::updates::encoder::{Encoder, EncoderV1};
use yrs::{
    Doc, GetString, Map, Options, Out, ReadTxn, StateVector, Text, Transact, Update, WriteTxn,
};

fn doc(client: u64, skip_gc: bool) -> Doc {
    let mut o = Options::with_client_id(ClientID::new(client));
    o.skip_gc = skip_gc;
    Doc::with_options(o)
}

#[cfg(y_crdt_y_crdt_verif)]
fn dump(label: &str, d: &Doc) {
    let txn = d.transact();
    let s = yrs::verif::dump_store(&txn);
    println!("--- store {label}");
    for (c, bl) in s.blocks.iter() {
        println!("  client {c}:");
        for b in bl {
            match b {
                yrs::verif::VBlock::Item(i) => println!(
                    "    Item id={:?} len={} deleted={} origin={:?} ro={:?} parent={:?} sub={:?} content={:?}",
                    i.id, i.len, i.deleted, i.origin, i.right_origin, i.parent, i.parent_sub, i.content
                ),
                yrs::verif::VBlock::GC(id, n) => println!("    GC id={:?} len={}", id, n),
                yrs::verif::VBlock::Skip(id, n) => println!("    Skip id={:?} len={}", id, n),
            }
        }
    }
    let mut sv: Vec<_> = txn.state_vector().iter().map(|(c, k)| (c.get(), *k)).collect();
    sv.sort();
    println!("  state_vector = {:?}", sv);
}
#[cfg(not(y_crdt_y_crdt_verif))]
fn dump(_label: &str, _d: &Doc) {}

fn map_entries(d: &Doc, name: &str) -> Vec<(String, String)> {
    let m = d.get_or_insert_map(name);
    let txn = d.transact();
    let mut v: Vec<(String, String)> = m
        .iter(&txn)
        .map(|(k, v)| (k.to_string(), v.to_string(&txn)))
        .collect();
    v.sort();
    v
}

fn restore(from: &Doc, snap: &yrs::Snapshot, client: u64) -> (Doc, Vec<u8>) {
    let mut enc = EncoderV1::new();
    from.transact()
        .encode_state_from_snapshot(snap, &mut enc)
        .unwrap();
    let bytes = enc.to_vec();
    let d = doc(client, true);
    d.transact_mut()
        .apply_update(Update::decode_v1(&bytes).unwrap())
        .unwrap();
    (d, bytes)
}

// three independent transactions of client 1 (map entries: no origins, nothing depends on anything)
fn author_updates() -> Vec<Vec<u8>> {
    let x = doc(1, true);
    let m = x.get_or_insert_map("m");
    let mut ups = Vec::new();
    for (k, v) in [("k1", "v1"), ("k2", "v2"), ("k3", "v3")] {
        let before = x.transact().state_vector();
        m.insert(&mut x.transact_mut(), k, v);
        ups.push(x.transact().encode_diff_v1(&before));
    }
    ups
}

/// Theorem 3, the strong statement is false: a snapshot taken while a gap is open forgets what lies behind it.
#[test]
fn snp_gap_snapshot_forgets() {
    let ups = author_updates();
    // --- a hole in the middle: u1, u3 delivered; u2 late
    let a = doc(9, true);
    a.transact_mut().apply_update(Update::decode_v1(&ups[0]).unwrap()).unwrap();
    a.transact_mut().apply_update(Update::decode_v1(&ups[2]).unwrap()).unwrap();
    dump("s0 (hole in the middle)", &a);
    let shown_at_snapshot = map_entries(&a, "m");
    println!("document at snapshot time: {:?}", shown_at_snapshot);
    let snap = a.transact().snapshot();
    let mut sv: Vec<_> = snap.state_map.iter().map(|(c, k)| (c.get(), *k)).collect();
    sv.sort();
    println!("snapshot state_map = {:?}  delete_set = {:?}", sv, snap.delete_set);
    // restore right away (s1 = s0) ...
    let (b0, bytes0) = restore(&a, &snap, 20);
    println!("restored at once: {:?}  bytes {:?}", map_entries(&b0, "m"), bytes0);
    // ... and after the gap was closed
    a.transact_mut().apply_update(Update::decode_v1(&ups[1]).unwrap()).unwrap();
    dump("s1 (gap closed)", &a);
    let (b1, bytes1) = restore(&a, &snap, 21);
    let restored = map_entries(&b1, "m");
    println!("restored later:   {:?}  bytes {:?}", restored, bytes1);
    assert_eq!(bytes0, bytes1, "later activity is invisible");
    assert_eq!(shown_at_snapshot.len(), 2);
    // the observable difference: k3 was in the document when the snapshot was taken, the restored document lacks it
    assert_eq!(restored, vec![("k1".to_string(), "v1".to_string())]);
    assert_ne!(restored, shown_at_snapshot);

    // --- a hole at clock 0: only u2 delivered
    let a = doc(9, true);
    a.transact_mut().apply_update(Update::decode_v1(&ups[1]).unwrap()).unwrap();
    dump("s0 (hole at clock 0)", &a);
    let shown = map_entries(&a, "m");
    let snap = a.transact().snapshot();
    a.transact_mut().apply_update(Update::decode_v1(&ups[0]).unwrap()).unwrap();
    let (b, bytes) = restore(&a, &snap, 22);
    println!("hole at 0: shown {:?} restored {:?} bytes {:?}", shown, map_entries(&b, "m"), bytes);
    assert_eq!(shown.len(), 1);
    assert!(map_entries(&b, "m").is_empty());
}

/// a deleted unit behind the gap: the snapshot's delete set names it although its block is not written
#[test]
fn snp_gap_delete_set_dangles() {
    let x = doc(1, true);
    let m = x.get_or_insert_map("m");
    let mut ups = Vec::new();
    for step in 0..3 {
        let before = x.transact().state_vector();
        match step {
            0 => {
                m.insert(&mut x.transact_mut(), "k1", "v1");
            }
            1 => {
                m.insert(&mut x.transact_mut(), "k2", "v2");
            }
            _ => {
                m.insert(&mut x.transact_mut(), "k3", "v3");
                m.remove(&mut x.transact_mut(), "k3");
            }
        }
        ups.push(x.transact().encode_diff_v1(&before));
    }
    let a = doc(9, true);
    a.transact_mut().apply_update(Update::decode_v1(&ups[0]).unwrap()).unwrap();
    a.transact_mut().apply_update(Update::decode_v1(&ups[2]).unwrap()).unwrap();
    dump("s0 (deleted unit behind the hole)", &a);
    let snap = a.transact().snapshot();
    let (b, bytes) = restore(&a, &snap, 23);
    println!("bytes {:?}", bytes);
    dump("restored", &b);
    #[cfg(y_crdt_y_crdt_verif)]
    {
        let s = yrs::verif::dump_store(&b.transact());
        println!("restored replica: has_pending_ds = {} pending_ds = {:?}", s.has_pending_ds, s.pending_ds);
    }
}

/// Theorem 1 needs `blocks.clock() < u32::MAX`: a client whose list ends at u32::MAX
#[test]
fn snp_clock_u32_max() {
    // update: 1 client, 1 block, client 5, clock 0, GC (info 0), len 0xFFFFFFFF; empty delete set
    let bytes: Vec<u8> = vec![1, 1, 5, 0, 0, 0xFF, 0xFF, 0xFF, 0xFF, 0x0F, 0];
    let a = doc(9, true);
    a.transact_mut().apply_update(Update::decode_v1(&bytes).unwrap()).unwrap();
    dump("list ends at u32::MAX", &a);
    let snap = a.transact().snapshot();
    let r = catch_unwind(AssertUnwindSafe(|| {
        let mut enc = EncoderV1::new();
        a.transact().encode_state_from_snapshot(&snap, &mut enc).map(|_| enc.to_vec())
    }));
    println!("encode_state_from_snapshot on a list that ends at u32::MAX: {:?}", r.as_ref().map_err(|_| "PANIC"));
    // for comparison: the diff encoder on the same store
    let r2 = catch_unwind(AssertUnwindSafe(|| a.transact().encode_diff_v1(&StateVector::default())));
    println!("encode_diff_v1 on the same store: {:?}", r2.as_ref().map_err(|_| "PANIC"));
    assert!(r.is_err());
}

/// Theorem 5: Err(Gc) without skip_gc; TransactionMut::gc on a skip_gc document defeats the guard
#[test]
fn snp_gc_guard() {
    // (a) the guard
    let d = doc(1, false);
    let t = d.get_or_insert_text("t");
    t.insert(&mut d.transact_mut(), 0, "abc");
    let snap = d.transact().snapshot();
    let mut enc = EncoderV1::new();
    let r = d.transact().encode_state_from_snapshot(&snap, &mut enc);
    println!("skip_gc = false: {:?}", r);
    assert!(r.is_err());

    // (b) skip_gc = true, snapshot, delete, explicit gc
    let d = doc(1, true);
    let t = d.get_or_insert_text("t");
    t.insert(&mut d.transact_mut(), 0, "abc");
    dump("s0", &d);
    let snap = d.transact().snapshot();
    let (b, bytes) = restore(&d, &snap, 30);
    println!("restored before gc: {:?} bytes {:?}", b.get_or_insert_text("t").get_string(&b.transact()), bytes);
    t.remove_range(&mut d.transact_mut(), 0, 3);
    let (b, bytes) = restore(&d, &snap, 31);
    println!("restored after delete (no gc): {:?} bytes {:?}", b.get_or_insert_text("t").get_string(&b.transact()), bytes);
    assert_eq!(b.get_or_insert_text("t").get_string(&b.transact()), "abc");
    d.transact_mut().gc(None);
    dump("s1 after TransactionMut::gc(None)", &d);
    let mut enc = EncoderV1::new();
    let r = d.transact().encode_state_from_snapshot(&snap, &mut enc);
    println!("after explicit gc: {:?}", r);
    assert!(r.is_ok());
    let (b, bytes) = restore(&d, &snap, 32);
    let got = b.get_or_insert_text("t").get_string(&b.transact());
    println!("restored after explicit gc: {:?} bytes {:?}", got, bytes);
    assert_eq!(got, "");

    // (c) a nested type deleted and collected: GC ranges inside the snapshot
    let d = doc(1, true);
    let m = d.get_or_insert_map("m");
    {
        let mut txn = d.transact_mut();
        let inner = m.insert(&mut txn, "k", yrs::MapPrelim::default());
        inner.insert(&mut txn, "x", "y");
    }
    let snap = d.transact().snapshot();
    m.remove(&mut d.transact_mut(), "k");
    d.transact_mut().gc(None);
    dump("s1 nested after gc", &d);
    let (b, bytes) = restore(&d, &snap, 33);
    println!("nested restored after gc: {:?} bytes {:?}", map_entries(&b, "m"), bytes);
    let _ = Out::Any(yrs::Any::Null);
}
