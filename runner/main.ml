(* Line-oriented driver around the extracted model (Model = coq/Extract/Extract.v output).
   One command per line on stdin, one result line on stdout.  Numbers are lowercase hex. *)
open Model

(* ---------- numbers ---------- *)
let rec pos_of_bits (bits : bool list) : positive =
  (* bits: least significant first, last bit is the leading one *)
  match bits with
  | [] -> XH
  | [_] -> XH
  | b :: r -> if b then XI (pos_of_bits r) else XO (pos_of_bits r)

let hexval c =
  match c with
  | '0' .. '9' -> Char.code c - 48
  | 'a' .. 'f' -> Char.code c - 87
  | 'A' .. 'F' -> Char.code c - 55
  | _ -> failwith ("bad hex digit " ^ String.make 1 c)

let n_of_hex (s : string) : n =
  (* collect bits lsb first *)
  let bits = ref [] in
  String.iter (fun c ->
      let v = hexval c in
      (* msb-first nibble: push to front so that list ends up lsb first *)
      bits := ((v land 1) <> 0) :: ((v land 2) <> 0) :: ((v land 4) <> 0) :: ((v land 8) <> 0) :: !bits)
    s;
  (* !bits is lsb first; strip leading zeros at the msb end *)
  let rec strip = function
    | [] -> []
    | false :: r -> strip r
    | l -> l in
  let msb_first = strip (List.rev !bits) in
  match msb_first with
  | [] -> N0
  | _ -> Npos (pos_of_bits (List.rev msb_first))

let hex_of_n (x : n) : string =
  match x with
  | N0 -> "0"
  | Npos p ->
    let rec bits p acc = match p with
      | XH -> List.rev (true :: acc)
      | XO q -> bits q (false :: acc)
      | XI q -> bits q (true :: acc) in
    let lsb = bits p [] in
    let buf = Buffer.create 16 in
    let rec nibbles l acc =
      match l with
      | [] -> acc
      | _ ->
        let take k l = let rec go k l v sh = if k = 0 then (v, l) else
                           match l with [] -> (v, []) | b :: r -> go (k-1) r (if b then v lor (1 lsl sh) else v) (sh+1) in
          go k l 0 0 in
        let (v, rest) = take 4 l in
        nibbles rest (v :: acc) in
    let ns = nibbles lsb [] in
    List.iter (fun v -> Buffer.add_char buf "0123456789abcdef".[v]) ns;
    Buffer.contents buf

let rec nat_of_int i = if i <= 0 then O else S (nat_of_int (i - 1))
let rec int_of_nat = function O -> 0 | S m -> 1 + int_of_nat m
let n_of_int i = n_of_hex (Printf.sprintf "%x" i)
let int_of_n x = int_of_string ("0x" ^ hex_of_n x)

let z_of_str (s : string) : z =
  if String.length s > 0 && s.[0] = '-' then
    (match n_of_hex (String.sub s 1 (String.length s - 1)) with N0 -> Z0 | Npos p -> Zneg p)
  else (match n_of_hex s with N0 -> Z0 | Npos p -> Zpos p)
let str_of_z (x : z) : string =
  match x with Z0 -> "0" | Zpos p -> hex_of_n (Npos p) | Zneg p -> "-" ^ hex_of_n (Npos p)

(* ---------- bytes ---------- *)
let bytes_of_hex (s : string) : n list =
  if s = "_" then [] else begin
    let len = String.length s / 2 in
    let rec go i acc = if i < 0 then acc else
        go (i - 1) (n_of_int (hexval s.[2*i] * 16 + hexval s.[2*i+1]) :: acc) in
    go (len - 1) []
  end
let hex_of_bytes (l : n list) : string =
  match l with [] -> "_" | _ ->
    let buf = Buffer.create 64 in
    List.iter (fun b -> Buffer.add_string buf (Printf.sprintf "%02x" (int_of_n b))) l;
    Buffer.contents buf

let split_on c s = if s = "" then [] else String.split_on_char c s

(* ---------- C16: ranges ---------- *)
(* set ranges: "s-e,s-e" or "_" ; map ranges: "s-e:a.b,s-e:c" *)
let parse_set_ranges (s : string) : (((n * n) * unit) list) =
  if s = "_" then [] else
    List.map (fun t -> match String.split_on_char '-' t with
        | [a; b] -> ((n_of_hex a, n_of_hex b), ())
        | _ -> failwith "bad range") (split_on ',' s)
let print_set_ranges (l : ((n * n) * unit) list) : string =
  match l with [] -> "_" | _ ->
    String.concat "," (List.map (fun ((a, b), ()) -> hex_of_n a ^ "-" ^ hex_of_n b) l)
let parse_attrs (s : string) : n list = if s = "" then [] else List.map n_of_hex (String.split_on_char '.' s)
let print_attrs (l : n list) : string =
  String.concat "." (List.map hex_of_n (List.sort compare (List.map (fun x -> x) l)))
let parse_map_ranges (s : string) : (((n * n) * n list) list) =
  if s = "_" then [] else
    List.map (fun t -> match String.split_on_char ':' t with
        | [r; at] -> (match String.split_on_char '-' r with
            | [a; b] -> ((n_of_hex a, n_of_hex b), parse_attrs at)
            | _ -> failwith "bad range")
        | _ -> failwith "bad map range") (split_on ',' s)
let sort_attrs (l : n list) = List.sort (fun a b -> compare (int_of_n a) (int_of_n b)) l
let print_map_ranges (l : ((n * n) * n list) list) : string =
  match l with [] -> "_" | _ ->
    String.concat "," (List.map (fun ((a, b), at) ->
        hex_of_n a ^ "-" ^ hex_of_n b ^ ":" ^ String.concat "." (List.map hex_of_n (sort_attrs at))) l)

let ob f = function Some x -> "ok " ^ f x | None -> "panic index"
let pb b = if b then "1" else "0"

(* idset / idattrmap at client level: "c[ranges];c[ranges]" or "_" *)
let parse_clients pr (s : string) =
  if s = "_" then [] else
    List.map (fun t ->
        let i = String.index t '[' in
        let c = n_of_hex (String.sub t 0 i) in
        let body = String.sub t (i + 1) (String.length t - i - 2) in
        (c, pr (if body = "" then "_" else body))) (split_on ';' s)
let print_clients pp l =
  match l with [] -> "_" | _ ->
    String.concat ";" (List.map (fun (c, r) -> hex_of_n c ^ "[" ^ (match r with [] -> "" | _ -> pp r) ^ "]") l)

let cmd_ranges (args : string list) : string =
  match args with
  | ["S"; "ins"; a; s; e] -> ob print_set_ranges (insert_with ueq umerge (parse_set_ranges a) (n_of_hex s) (n_of_hex e) ())
  | ["S"; "rem"; a; s; e] -> ob print_set_ranges (remove (parse_set_ranges a) (n_of_hex s) (n_of_hex e))
  | ["S"; "merge"; a; b] -> "ok " ^ print_set_ranges (merge ueq umerge (parse_set_ranges a) (parse_set_ranges b))
  | ["S"; "excl"; a; b] -> "ok " ^ print_set_ranges (exclude (parse_set_ranges a) (parse_set_ranges b))
  | ["S"; "isect"; a; b] -> "ok " ^ print_set_ranges (intersect ueq umerge (parse_set_ranges a) (parse_set_ranges b))
  | ["S"; "subset"; a; b] -> "ok " ^ pb (subset_of (parse_set_ranges a) (parse_set_ranges b))
  | ["S"; "contains"; a; k] -> ob pb (contains_clock (parse_set_ranges a) (n_of_hex k))
  | ["M"; "ins"; a; s; e; at] -> ob print_map_ranges (insert_with attrs_eq attrs_merge (parse_map_ranges a) (n_of_hex s) (n_of_hex e) (parse_attrs at))
  | ["M"; "rem"; a; s; e] -> ob print_map_ranges (remove (parse_map_ranges a) (n_of_hex s) (n_of_hex e))
  | ["M"; "merge"; a; b] -> "ok " ^ print_map_ranges (merge attrs_eq attrs_merge (parse_map_ranges a) (parse_map_ranges b))
  | ["M"; "excl"; a; b] -> "ok " ^ print_map_ranges (exclude (parse_map_ranges a) (parse_map_ranges b))
  | ["M"; "exclS"; a; b] -> "ok " ^ print_map_ranges (exclude (parse_map_ranges a) (parse_set_ranges b))
  | ["M"; "isect"; a; b] -> "ok " ^ print_map_ranges (intersect attrs_eq attrs_merge (parse_map_ranges a) (parse_map_ranges b))
  | ["M"; "contains"; a; k] -> ob pb (contains_clock (parse_map_ranges a) (n_of_hex k))
  (* client level: IdSet *)
  | ["IS"; "insert"; m; c; k; len] -> ob (print_clients print_set_ranges) (idset_insert (parse_clients parse_set_ranges m) (n_of_hex c) (n_of_hex k) (n_of_hex len))
  | ["IS"; "remove"; m; c; k; len] ->
    let k = n_of_hex k in
    ob (print_clients print_set_ranges) (im_remove_range (parse_clients parse_set_ranges m) (n_of_hex c) k (N.add k (n_of_hex len)))
  | ["IS"; "merge"; a; b] -> "ok " ^ print_clients print_set_ranges (im_merge_with ueq umerge (parse_clients parse_set_ranges a) (parse_clients parse_set_ranges b))
  | ["IS"; "diff"; a; b] -> "ok " ^ print_clients print_set_ranges (im_diff_with (parse_clients parse_set_ranges a) (parse_clients parse_set_ranges b))
  | ["IS"; "isect"; a; b] -> "ok " ^ print_clients print_set_ranges (im_intersect_with ueq umerge (parse_clients parse_set_ranges a) (parse_clients parse_set_ranges b))
  | ["IS"; "contains"; a; c; k] -> ob pb (im_contains (parse_clients parse_set_ranges a) (n_of_hex c) (n_of_hex k))
  | ["IS"; "insert_range"; a; c; r] -> "ok " ^ print_clients print_set_ranges (idset_insert_range (parse_clients parse_set_ranges a) (n_of_hex c) (parse_set_ranges r))
  (* client level: IdMap *)
  | ["IM"; "insert"; m; c; k; len; at] -> ob (print_clients print_map_ranges) (idattr_insert (parse_clients parse_map_ranges m) (n_of_hex c) (n_of_hex k) (n_of_hex len) (parse_attrs at))
  | ["IM"; "remove"; m; c; k; len] -> ob (print_clients print_map_ranges) (idattr_remove (parse_clients parse_map_ranges m) (n_of_hex c) (n_of_hex k) (n_of_hex len))
  | ["IM"; "merge"; a; b] -> "ok " ^ print_clients print_map_ranges (im_merge_with attrs_eq attrs_merge (parse_clients parse_map_ranges a) (parse_clients parse_map_ranges b))
  | ["IM"; "diff"; a; b] -> "ok " ^ print_clients print_map_ranges (im_diff_with (parse_clients parse_map_ranges a) (parse_clients parse_map_ranges b))
  | ["IM"; "diffS"; a; b] -> "ok " ^ print_clients print_map_ranges (im_diff_with (parse_clients parse_map_ranges a) (parse_clients parse_set_ranges b))
  | ["IM"; "isect"; a; b] -> "ok " ^ print_clients print_map_ranges (im_intersect_with attrs_eq attrs_merge (parse_clients parse_map_ranges a) (parse_clients parse_map_ranges b))
  | ["IM"; "as_set"; a] -> ob (print_clients print_set_ranges) (idattr_as_set (parse_clients parse_map_ranges a))
  | _ -> "err badcmd"


(* ---------- printing of results ---------- *)
let err_name = function
  | EndOfBuffer -> "EndOfBuffer" | InvalidVarInt -> "InvalidVarInt" | UnexpectedValue -> "UnexpectedValue"
  | NotEnoughMemory -> "NotEnoughMemory" | InvalidJSON -> "InvalidJSON" | Custom -> "Custom"
let pres (f : 'a -> string) (r : 'a res) : string =
  match r with
  | Ok (v, rest) -> "ok " ^ f v ^ " rest=" ^ string_of_int (List.length rest)
  | Err e -> "err " ^ err_name e
  | Panic site -> "panic " ^ hex_of_n site
  | Fuel -> "fuel"
let fuel_for (bs : n list) = nat_of_int (List.length bs + 2)

let rawhex (l : n list) : string =
  let buf = Buffer.create 64 in
  List.iter (fun b -> Buffer.add_string buf (Printf.sprintf "%02x" (int_of_n b))) l;
  Buffer.contents buf

(* canonical Any printing; maps sorted by key, later duplicate wins *)
let rec print_any (a : any) : string =
  match a with
  | AUndefined -> "u" | ANull -> "n"
  | ABool b -> if b then "T" else "F"
  | AInt z -> "i" ^ str_of_z z
  | AF32 bits -> "f" ^ hex_of_n bits
  | AF64 bits -> "D" ^ hex_of_n bits
  | ABigInt bits -> "g" ^ hex_of_n bits
  | AString s -> "s" ^ rawhex s
  | ABuffer b -> "x" ^ rawhex b
  | AArray l -> "[" ^ String.concat "," (List.map print_any l) ^ "]"
  | AMap l ->
    let tbl = Hashtbl.create 8 in
    List.iter (fun (k, v) -> Hashtbl.replace tbl (rawhex k) v) l;
    let keys = List.sort_uniq compare (List.map (fun (k, _) -> rawhex k) l) in
    "{" ^ String.concat "," (List.map (fun k -> k ^ ":" ^ print_any (Hashtbl.find tbl k)) keys) ^ "}"

let print_id (i : id) = hex_of_n i.cl ^ ":" ^ hex_of_n i.ck
let print_oid = function None -> "-" | Some i -> print_id i
let print_scope = function
  | SRoot n -> "R" ^ rawhex n | SNested i -> "N" ^ print_id i | SRelative i -> "I" ^ print_id i
let print_tyref (t : tyref) : string =
  match t with
  | TArray -> "0" | TMap -> "1" | TText -> "2" | TXmlElement n -> "3:" ^ rawhex n | TXmlFragment -> "4"
  | TXmlHook -> "5" | TXmlText -> "6" | TSubDoc -> "9"
  | TWeak w -> "7:" ^ print_scope w.wl_start ^ (if w.wl_start_after then "a" else "b") ^ "/" ^ print_scope w.wl_end ^ (if w.wl_end_after then "a" else "b")
  | TUndefined -> "f"
let print_parent = function PNamed n -> "R" ^ rawhex n | PId i -> "N" ^ print_id i | PUnknown -> "?"
let print_ucontent (c : ucontent) : string =
  match c with
  | UDeleted -> "x"
  | UString u -> "u" ^ hex_of_n u
  | UJson s -> "j" ^ rawhex s
  | UBinary b -> "b" ^ rawhex b
  | UEmbed j -> "e" ^ rawhex j
  | UFormat (k, j) -> "f" ^ rawhex k ^ ":" ^ rawhex j
  | UType t -> "t" ^ print_tyref t
  | UAny a -> "a" ^ print_any a
  | UDoc (g, o) -> "d" ^ rawhex g ^ ":" ^ print_any o
let print_bcontent (c : bcontent) : string =
  match c with
  | BDeleted n -> "x" ^ hex_of_n n
  | BJson l -> "j[" ^ String.concat "," (List.map rawhex l) ^ "]"
  | BBinary b -> "b" ^ rawhex b
  | BString s -> "s" ^ rawhex s
  | BEmbed j -> "e" ^ rawhex j
  | BFormat (k, j) -> "f" ^ rawhex k ^ ":" ^ rawhex j
  | BType t -> "t" ^ print_tyref t
  | BAny l -> "a[" ^ String.concat "," (List.map print_any l) ^ "]"
  | BDoc (g, o) -> "d" ^ rawhex g ^ ":" ^ print_any o
let print_block (b : block) : string =
  match b with
  | BSkip (i, n) -> "S" ^ print_id i ^ "+" ^ hex_of_n n
  | BGC (i, n) -> "G" ^ print_id i ^ "+" ^ hex_of_n n
  | BItem (i, o, ro, p, ps, c) ->
    "I" ^ print_id i ^ "<" ^ print_oid o ^ ">" ^ print_oid ro ^ "^" ^ print_parent p ^
    (match ps with Some k -> "/" ^ rawhex k | None -> "") ^ "=" ^ print_bcontent c
let print_idset (s : ((n * ((n * n) * unit) list) list)) : string = print_clients print_set_ranges s
let print_update (u : update) : string =
  let cs = List.sort (fun (a, _) (b, _) -> compare (hex_of_n b |> String.length, hex_of_n b) (hex_of_n a |> String.length, hex_of_n a)) u.u_blocks in
  "B{" ^ String.concat ";" (List.map (fun (c, bs) -> hex_of_n c ^ "[" ^ String.concat " " (List.map print_block bs) ^ "]") cs) ^ "}D{" ^ print_idset u.u_ds ^ "}"
let print_sv (s : (n * n) list) : string =
  let l = List.sort compare (List.map (fun (c, k) -> (String.length (hex_of_n c), hex_of_n c, hex_of_n k)) s) in
  match l with [] -> "_" | _ -> String.concat "," (List.map (fun (_, c, k) -> c ^ ":" ^ k) l)

let print_aw (l : (n * (n * n list)) list) : string =
  let es = List.sort compare (List.map (fun (c, (k, j)) -> (String.length (hex_of_n c), hex_of_n c, hex_of_n k, rawhex j)) l) in
  "[" ^ String.concat "," (List.map (fun (_, c, k, j) -> c ^ ":" ^ k ^ ":" ^ j) es) ^ "]"
let print_message (m : message) : string =
  match m with
  | MSync (SyncStep1 v) -> "sync1 " ^ print_sv v
  | MSync (SyncStep2 u) -> "sync2 " ^ rawhex u
  | MSync (SyncUpdate u) -> "update " ^ rawhex u
  | MAuth None -> "auth granted"
  | MAuth (Some r) -> "auth denied " ^ rawhex r
  | MAwarenessQuery -> "awq"
  | MAwareness a -> "aw " ^ print_aw a
  | MCustom (t, d) -> "custom " ^ hex_of_n t ^ " " ^ rawhex d

(* ---------- document dump ---------- *)
let print_seqkey ((p, sub) : (parent * n list option)) : string =
  print_parent p ^ (match sub with Some k -> "/" ^ rawhex k | None -> "")
let print_ditem (x : ditem) : string =
  print_id x.d_op.oid ^ (if x.d_del then "~" else "") ^ "=" ^ print_ucontent x.d_op.ocont
let idcmp (a : id) (b : id) = compare (String.length (hex_of_n a.cl), hex_of_n a.cl, String.length (hex_of_n a.ck), hex_of_n a.ck)
    (String.length (hex_of_n b.cl), hex_of_n b.cl, String.length (hex_of_n b.ck), hex_of_n b.ck)
let print_doc ((d, stash) : doc * xop list) : string =
  let lists = List.filter (fun (_, l) -> l <> []) d.d_lists in
  let ls = List.sort compare (List.map (fun (k, l) -> print_seqkey k ^ "=[" ^ String.concat "," (List.map print_ditem l) ^ "]") lists) in
  let gc = List.sort idcmp d.d_gc in
  let st = List.sort idcmp (List.map xid stash) in
  String.concat ";" ls ^ " |G " ^ String.concat "," (List.map print_id gc) ^ " |W " ^ String.concat "," (List.map print_id st)

let replicas : (string, replica) Hashtbl.t = Hashtbl.create 8
let get_rep r = try Hashtbl.find replicas r with Not_found -> empty_replica

let cmd_doc (args : string list) : string =
  match args with
  | ["new"; r] -> Hashtbl.replace replicas r empty_replica; "ok"
  | ["copy"; r; src] -> Hashtbl.replace replicas r (get_rep src); "ok"
  | ["apply"; r; hx] ->
    let bs = bytes_of_hex hx in
    (match decode_update_v1 (fuel_for bs) bs with
     | Ok (u, _) -> Hashtbl.replace replicas r (replica_apply (get_rep r) u);
       "ok units=" ^ string_of_int (List.length (units_of_update u))
     | Err e -> "err " ^ err_name e
     | Panic s -> "panic " ^ hex_of_n s
     | Fuel -> "fuel")
  | ["state"; r] ->
    let rp = get_rep r in
    let (d, stash) = replica_state rp in
    "ok " ^ print_doc (d, stash) ^ " |P " ^ String.concat "," (List.map print_id (List.sort idcmp (pending_ds d rp.r_ds)))
  | ["stateof"; r; ids] ->
    let rp = get_rep r in
    "ok " ^ print_doc (render (restrict_pool rp.r_pool (parse_clients parse_set_ranges ids)) rp.r_ds)
  | ["ds"; r] -> "ok " ^ print_idset (get_rep r).r_ds
  | "localop" :: r :: ids :: key :: i :: mode ->
    (* where a local insertion at live index i of the sequence `key` lands: origin and right origin of the created unit *)
    let rp = get_rep r in
    let (d, _) = render (restrict_pool rp.r_pool (parse_clients parse_set_ranges ids)) rp.r_ds in
    let l = (match List.find_opt (fun (k, _) -> print_seqkey k = key) d.d_lists with Some (_, l) -> l | None -> []) in
    (* Text::insert and BlockIter (arrays) move on over the tombstones that follow; Branch::insert_at (XML children) does not *)
    let (a, b) = if mode = ["direct"] then split_live (nat_of_int (int_of_string i)) l else split_gap (nat_of_int (int_of_string i)) l in
    let last_id = (match List.rev a with x :: _ -> Some x.d_op.oid | [] -> None) in
    let head_id = (match b with x :: _ -> Some x.d_op.oid | [] -> None) in
    "ok " ^ print_oid last_id ^ " " ^ print_oid head_id
  | _ -> "err badcmd"

(* ---------- quotations: which elements are registered for a quotation, and when observers must be told ---------- *)
(* units: "c:k+" (live) / "c:k-" (tombstone) comma separated, "_" = none; bound: "-" | "c:k,i" (inclusive) | "c:k,e"; ids: "c:k,..." *)
let parse_ck (t : string) : n * n = match String.split_on_char ':' t with [c; k] -> (n_of_hex c, n_of_hex k) | _ -> failwith "ck"
let lk_units (s : string) : ((n * n) * bool) list =
  if s = "_" then [] else List.map (fun t -> let l = String.length t in (parse_ck (String.sub t 0 (l - 1)), t.[l - 1] = '+')) (String.split_on_char ',' s)
let lk_ids (s : string) : (n * n) list = if s = "_" then [] else List.map parse_ck (String.split_on_char ',' s)
let lk_bound_of (s : string) : ((n * n) * bool) option =
  if s = "-" then None else (match String.split_on_char ',' s with [i; f] -> Some (parse_ck i, f = "i") | _ -> failwith "bound")
let print_ck ((c, k) : n * n) = hex_of_n c ^ ":" ^ hex_of_n k
let print_cks l = match l with [] -> "_" | _ -> String.concat "," (List.sort compare (List.map print_ck l))
let cmd_lk (args : string list) : string =
  match args with
  | ["init"; units; s; e] -> "ok " ^ print_cks (lk_initial_registered (lk_units units) (lk_bound_of s) (lk_bound_of e))
  | ["step"; before; reg; after; s; e] ->
    let (b, r, a, s, e) = (lk_units before, lk_ids reg, lk_units after, lk_bound_of s, lk_bound_of e) in
    "ok " ^ (if lk_should_notify b r a s e then "notify" else "silent") ^ " " ^ print_cks (lk_next_registered b r a s e)
  | _ -> "err badcmd"

(* ---------- k-way merge of updates (Crdt/Merge.v: transcription of Update::merge_updates) ---------- *)
let cmd_mrg (args : string list) : string =
  match args with
  | "merge" :: hexes ->
    let decs = List.map (fun hx -> let bs = bytes_of_hex hx in match decode_update_v1 (fuel_for bs) bs with Ok (u, _) -> Some u | _ -> None) hexes in
    if List.exists (fun x -> x = None) decs then "err undecodable-argument" else
    let us = List.filter_map (fun x -> x) decs in
    let r = mrg_merge_updates us in
    (match encode_update_v1 r with
     | Some out -> "ok " ^ hex_of_bytes out ^ " wf=" ^ (if mrg_wf us then "1" else "0") ^ " wfn=" ^ (if mrg_wf_norm us then "1" else "0")
     | None -> "panic encode")
  (* merge_updates_v2 = decode_v2 each, Update::merge_updates, encode_v2 *)
  | "merge2" :: hexes ->
    let decs = List.map (fun hx -> match decode_update_v2 (bytes_of_hex hx) with Ok (u, _) -> Some u | _ -> None) hexes in
    if List.exists (fun x -> x = None) decs then "err undecodable-argument" else
    let us = List.filter_map (fun x -> x) decs in
    (match encode_update_v2 (mrg_merge_updates us) with
     | Some out -> "ok " ^ hex_of_bytes out ^ " wf=" ^ (if mrg_wf us then "1" else "0")
     | None -> "panic encode")
  | _ -> "err badcmd"

(* ---------- diff_updates / encode_state_vector_from_update (Crdt/Diff.v) ---------- *)
let cmd_dff (args : string list) : string =
  match args with
  | ["diff"; u; sv] ->
    let (ub, sb) = (bytes_of_hex u, bytes_of_hex sv) in
    let hyp = (match dff_hypotheses_v1 ub sb with Some ((w, c), k) -> " wf=" ^ (if w then "1" else "0") ^ " chain=" ^ (if c then "1" else "0") ^ " cut=" ^ (if k then "1" else "0") | None -> "") in
    (match dff_diff_updates_v1 ub sb with
     | Ok (o, _) -> "ok " ^ hex_of_bytes o ^ hyp
     | Err e -> "err " ^ err_name e | Panic s -> "panic " ^ hex_of_n s | Fuel -> "fuel")
  | ["sv"; u] -> pres print_sv (dff_state_vector_from_update_v1 (bytes_of_hex u))
  (* the v2 entry points: the same functions between the v2 codecs (Codec/UpdateV2.v, Codec/WireV2.v) *)
  | ["diff2"; u; sv] ->
    (match decode_update_v2 (bytes_of_hex u), w2_decode_sv (bytes_of_hex sv) with
     | Ok (up, _), Ok (v, _) -> (match encode_update_v2 (dff_diff_update up v) with Some o -> "ok " ^ hex_of_bytes o | None -> "panic encode")
     | _ -> "err undecodable")
  | ["sv2"; u] ->
    (match decode_update_v2 (bytes_of_hex u) with
     | Ok (up, _) -> "ok " ^ print_sv (dff_sv_sort (dff_state_vector up))
     | _ -> "err undecodable")
  | _ -> "err badcmd"

(* ---------- TransactionMut::apply_delete on block lists (Crdt/ApplyDelete.v) ---------- *)
(* store: "c=clk.len.K,clk.len.K;c=..." with K in L(ive item) D(eleted item) G(C) S(kip), "_" = empty; delete set: "c=s-e,s-e;..." *)
let adl_parse_store (s : string) =
  if s = "_" then [] else List.map (fun cs -> match String.split_on_char '=' cs with
    | [c; bs] -> (n_of_hex c, if bs = "" then [] else List.map (fun b -> match String.split_on_char '.' b with
        | [k; l; kd] -> ((n_of_hex k, n_of_hex l), (match kd with "L" -> Adl_live | "D" -> Adl_dead | "G" -> Adl_gc | _ -> Adl_skip))
        | _ -> failwith "block") (String.split_on_char ',' bs))
    | _ -> failwith "client") (String.split_on_char ';' s)
let adl_parse_ds (s : string) =
  if s = "_" then [] else List.map (fun cs -> match String.split_on_char '=' cs with
    | [c; rs] -> (n_of_hex c, List.map (fun r -> match String.split_on_char '-' r with [a; b] -> ((n_of_hex a, n_of_hex b), ()) | _ -> failwith "range") (String.split_on_char ',' rs))
    | _ -> failwith "client") (String.split_on_char ';' s)
let adl_print_store st =
  let cs = List.sort compare (List.map (fun (c, bs) -> (String.length (hex_of_n c), hex_of_n c, bs)) st) in
  match cs with [] -> "_" | _ -> String.concat ";" (List.map (fun (_, c, bs) -> c ^ "=" ^ String.concat "," (List.map (fun ((k, l), kd) ->
    hex_of_n k ^ "." ^ hex_of_n l ^ "." ^ (match kd with Adl_live -> "L" | Adl_dead -> "D" | Adl_gc -> "G" | Adl_skip -> "S")) bs)) cs)
let adl_print_ds ds =
  let cs = List.sort compare (List.map (fun (c, rs) -> (String.length (hex_of_n c), hex_of_n c, rs)) (List.filter (fun (_, rs) -> rs <> []) ds)) in
  match cs with [] -> "_" | _ -> String.concat ";" (List.map (fun (_, c, rs) -> c ^ "=" ^ String.concat "," (List.map (fun ((a, b), ()) -> hex_of_n a ^ "-" ^ hex_of_n b) rs)) cs)
let cmd_adl (args : string list) : string =
  match args with
  | ["apply"; st; ds] ->
    let (st, ds) = (adl_parse_store st, adl_parse_ds ds) in
    let hyp = " wf=" ^ (if adl_wf_store st then "1" else "0") ^ " ds=" ^ (if adl_ds_ok ds then "1" else "0") in
    (match adl_apply_delete_chk st ds with
     | Adl_ok (st', rest) -> "ok " ^ adl_print_store st' ^ " | " ^ adl_print_ds rest ^ hyp
     | Adl_panic -> "panic" ^ hyp)
  | _ -> "err badcmd"

(* ---------- StateVector::partial_cmp / merge / set_min / set_max (Crdt/SvOrder.v); vectors in the iteration order of the implementation's map ---------- *)
let svo_parse (s : string) : (n * n) list =
  if s = "_" then [] else List.map (fun t -> match String.split_on_char ':' t with [c; k] -> (n_of_hex c, n_of_hex k) | _ -> failwith "bad sv") (String.split_on_char ',' s)
let svo_print (l : (n * n) list) : string =
  let cs = List.sort compare (List.map (fun (c, k) -> (String.length (hex_of_n c), hex_of_n c, hex_of_n k)) l) in
  match cs with [] -> "_" | _ -> String.concat "," (List.map (fun (_, c, k) -> c ^ ":" ^ k) cs)
let cmd_svo (args : string list) : string =
  match args with
  | ["cmp"; a; b] ->
    let (a, b) = (svo_parse a, svo_parse b) in
    "ok " ^ (match svo_partial_cmp a b with Some SvLess -> "L" | Some SvEqual -> "E" | Some SvGreater -> "G" | None -> "N")
    ^ " wf=" ^ (if svo_wf a && svo_wf b then "1" else "0")
  | ["merge"; a; b] -> "ok " ^ svo_print (svo_merge (svo_parse a) (svo_parse b))
  | ["setmin"; a; c; k] -> "ok " ^ svo_print (svo_set_min (svo_parse a) (n_of_hex c) (n_of_hex k))
  | ["setmax"; a; c; k] -> "ok " ^ svo_print (svo_set_max (svo_parse a) (n_of_hex c) (n_of_hex k))
  | _ -> "err badcmd"

(* ---------- which blocks of an update are integrated, which are set aside (Crdt/Integrate.v: apply_update, Update::integrate, BlockPicker) ---------- *)
let itg_stores : (string, itg_store) Hashtbl.t = Hashtbl.create 8
let itg_print_runs (l : (n * (n * n) list) list) : string =
  let cs = List.sort compare (List.map (fun (c, rs) -> (String.length (hex_of_n c), hex_of_n c, rs)) (List.filter (fun (_, rs) -> rs <> []) l)) in
  match cs with [] -> "_" | _ -> String.concat ";" (List.map (fun (_, c, rs) -> c ^ "=" ^ String.concat "," (List.map (fun (a, b) -> hex_of_n a ^ "-" ^ hex_of_n b) rs)) cs)
let itg_print_sv (l : (n * n) list) : string =
  let cs = List.sort compare (List.map (fun (c, k) -> (String.length (hex_of_n c), hex_of_n c, hex_of_n k)) l) in
  match cs with [] -> "_" | _ -> String.concat "," (List.map (fun (_, c, k) -> c ^ ":" ^ k) cs)
let cmd_itg (args : string list) : string =
  match args with
  | ["new"; r] -> Hashtbl.replace itg_stores r itg_empty; "ok"
  | ["copy"; r; src] -> Hashtbl.replace itg_stores r (try Hashtbl.find itg_stores src with Not_found -> itg_empty); "ok"
  | ["apply"; r; hx] ->
    let bs = bytes_of_hex hx in
    let st = (try Hashtbl.find itg_stores r with Not_found -> itg_empty) in
    (match decode_update_v1 (fuel_for bs) bs with
     | Ok (u, _) ->
       let wf = (if itg_update_wf u.u_blocks then "1" else "0") in
       (match itg_drive_res st u.u_blocks with
        | Itg_ok st' -> Hashtbl.replace itg_stores r st';
          "ok ranges=" ^ itg_print_runs (itg_obs_ranges st') ^ " holes=" ^ itg_print_runs (itg_obs_holes st') ^ " pending=" ^ (if itg_obs_has_pending st' then "1" else "0")
          ^ " missing=" ^ itg_print_sv (itg_obs_missing st') ^ " wf=" ^ wf
        | Itg_undef _ -> "undef wf=" ^ wf
        | Itg_nofuel -> "fuel")
     | _ -> "err undecodable")
  | _ -> "err badcmd"

(* ---------- rich text: one local call on a text against its model and its sequential specification (Crdt/RichText.v) ---------- *)
(* items "c:k:d:X,..." with X = u<hex unit> | e<tok> | t<tok> | f<key tok>.<value tok> | g ; "_" = none
   op  "IW/idx/u-u-u/k=v;k=v" | "F/idx/len/k=v;k=v" | "I/idx/u-u" | "R/idx/len" | "E/idx/shared/v"
   diff "u<hex>{k=v;k=v},e<tok>{...}" *)
let rt_parse_attrs (s : string) : (n * n) list =
  if s = "" || s = "_" then [] else List.map (fun kv -> match String.split_on_char '=' kv with [k; v] -> (n_of_hex k, n_of_hex v) | _ -> failwith "attr") (String.split_on_char ';' s)
let rt_parse_items (s : string) : rt_item list =
  if s = "_" then [] else List.map (fun t -> match String.split_on_char ':' t with
    | [c; k; d; x] ->
      let cont = (match x.[0] with
        | 'u' -> RChar (n_of_hex (String.sub x 1 (String.length x - 1)))
        | 'e' -> REmbed (n_of_hex (String.sub x 1 (String.length x - 1)))
        | 't' -> RType (n_of_hex (String.sub x 1 (String.length x - 1)))
        | 'f' -> (match String.split_on_char '.' (String.sub x 1 (String.length x - 1)) with [a; b] -> RFormat (n_of_hex a, n_of_hex b) | _ -> failwith "format")
        | _ -> RGone) in
      { rt_id = { cl = n_of_hex c; ck = n_of_hex k }; rt_del = (d = "1"); rt_cont = cont }
    | _ -> failwith "item") (String.split_on_char ',' s)
let rt_parse_units (s : string) : n list = if s = "" || s = "_" then [] else List.map n_of_hex (String.split_on_char '-' s)
let rt_parse_op (s : string) : rt_op =
  match String.split_on_char '/' s with
  | ["IW"; i; us; at] -> RtInsertWith (nat_of_int (int_of_string i), rt_parse_units us, rt_parse_attrs at, [], [])
  | ["F"; i; n; at] -> RtFormat (nat_of_int (int_of_string i), nat_of_int (int_of_string n), rt_parse_attrs at, [], [])
  | ["I"; i; us] -> RtInsert (nat_of_int (int_of_string i), rt_parse_units us)
  | ["R"; i; n] -> RtRemove (nat_of_int (int_of_string i), nat_of_int (int_of_string n))
  | ["E"; i; sh; v] -> RtEmbed (nat_of_int (int_of_string i), sh = "1", n_of_hex v)
  | _ -> failwith "op"
let rt_parse_diff (s : string) : (elem * (n * n) list) list =
  if s = "_" then [] else List.map (fun t ->
    let i = String.index t '{' in
    let e = String.sub t 0 i and at = String.sub t (i + 1) (String.length t - i - 2) in
    ((if e.[0] = 'u' then EUnit (n_of_hex (String.sub e 1 (String.length e - 1))) else EEmb (n_of_hex (String.sub e 1 (String.length e - 1)))), rt_parse_attrs at)) (String.split_on_char ',' s)
let cmd_rt (args : string list) : string =
  match args with
  | ["step"; before; after; op; client; clock; diff] ->
    let (b, a, o, d) = (rt_parse_items before, rt_parse_items after, rt_parse_op op, rt_parse_diff diff) in
    let (c, k0) = (n_of_hex client, n_of_hex clock) in
    let rec n_of_nat (x : nat) : int = match x with O -> 0 | S y -> 1 + n_of_nat y in
    let ids (i : nat) = { cl = c; ck = N.add k0 (n_of_int (n_of_nat i)) } in
    let okp = rt_op_ok b o in
    (match rt_apply_auto b a o ids with
     | None -> "model-panics ok=" ^ (if okp then "1" else "0")
     | Some m ->
       let items = rt_items_eqb_gc m a in
       let render_impl = relems_eqb (rt_render a) d in
       let render_model = relems_eqb (rt_render m) d in
       let spec = relems_eqb (rt_spec_apply (rt_render b) o) d in
       if items && render_impl && render_model && (spec || not okp) && rt_wf b then "ok" ^ (if okp then " spec" else " nospec")
       else "differs items=" ^ (if items then "1" else "0") ^ " dump-renders-to-diff=" ^ (if render_impl then "1" else "0") ^ " model-renders-to-diff=" ^ (if render_model then "1" else "0")
            ^ " spec=" ^ (if spec then "1" else "0") ^ " op_ok=" ^ (if okp then "1" else "0") ^ " wf=" ^ (if rt_wf b then "1" else "0"))
  | _ -> "err badcmd"

(* ---------- XML read paths (Crdt/XmlWalk.v): every way of reading a node of a tree given by its item structure ---------- *)
(* rows "c:k,d,K,blen,clen,kid;kid/..." with K = e | t | f ; answer: the model's observation of one node in a canonical text *)
let xw_parse_rows (s : string) =
  List.map (fun r -> match String.split_on_char ',' r with
    | [i; d; k; bl; cl; kids] ->
      let (c, ck) = parse_ck i in
      ((((({ cl = c; ck = ck }, d = "1"), (match k with "e" -> Xw_k_elem [] | "t" -> Xw_k_text | _ -> Xw_k_frag)), nat_of_int (int_of_string bl)), nat_of_int (int_of_string cl)),
       (if kids = "" then [] else List.map (fun x -> let (c, k) = parse_ck x in { cl = c; ck = k }) (String.split_on_char ';' kids)))
    | _ -> failwith "row") (String.split_on_char '/' s)
let xw_pid (i : id) = print_ck (i.cl, i.ck)
let xw_pids l = "[" ^ String.concat " " (List.map xw_pid l) ^ "]"
let xw_poid = function None -> "-" | Some i -> xw_pid i
let xw_poids l = "[" ^ String.concat " " (List.map xw_poid l) ^ "]"
let rec int_of_nat (x : nat) : int = match x with O -> 0 | S y -> 1 + int_of_nat y
let cmd_xw (args : string list) : string =
  match args with
  | ["obs"; rows; root; node] ->
    let (rc, rk) = parse_ck root and (nc, nk) = parse_ck node in
    (match xw_build (xw_parse_rows rows) { cl = rc; ck = rk } with
     | None -> "err build"
     | Some t ->
       let wf = xw_wfb t in
       let spec = (match xw_find t { cl = nc; ck = nk } with Some c -> xw_check_spec c | None -> false) in
       (match xw_observe t { cl = nc; ck = nk } with
        | None -> "err node-not-found"
        | Some (((_, frag), sib), par) ->
          let f = (match frag with None -> "-" | Some ((((len, ch), first), gets), succ) ->
                    "len=" ^ string_of_int (int_of_nat len) ^ " children=" ^ xw_pids ch ^ " first=" ^ xw_poid first ^ " gets=" ^ xw_poids gets ^ " successors=" ^ xw_pids succ) in
          let sb = (match sib with None -> "-" | Some ((fw, bk), mixed) -> "fwd=" ^ xw_pids fw ^ " back=" ^ xw_pids bk ^ " mixed=" ^ xw_poids mixed) in
          "ok " ^ f ^ " | " ^ sb ^ " | parent=" ^ xw_poid par ^ " | wf=" ^ (if wf then "1" else "0") ^ " spec=" ^ (if spec then "1" else "0")))
  | _ -> "err badcmd"

(* ---------- what a document encodes for a peer / for one transaction (Crdt/WriteBlocks.v: write_blocks_from, encode_update) ---------- *)
(* the store is taken from the document's full state (blocks as the store has them; a block is deleted iff the delete set covers it) *)
let wbf_store_of (u : update) =
  let covered (c : n) (k : n) = (match im_contains u.u_ds c k with Some true -> true | _ -> false) in
  List.map (fun (c, bs) -> (c, List.map (fun b -> (b, (match b with BGC (_, _) -> true | BSkip (_, _) -> false | BItem (i, _, _, _, _, _) -> covered i.cl i.ck))) bs)) u.u_blocks
let cmd_wbf (args : string list) : string =
  let b3 ((a, b), c) = " wf=" ^ (if a then "1" else "0") ^ " args=" ^ (if b then "1" else "0") ^ " cut=" ^ (if c then "1" else "0") in
  match args with
  | ["diff"; full; sv] ->
    let (fb, sb) = (bytes_of_hex full, bytes_of_hex sv) in
    (match decode_update_v1 (fuel_for fb) fb, decode_sv_v1 (fuel_for sb) sb with
     | Ok (u, _), Ok (v, _) ->
       let st = wbf_store_of u in
       (match wbf_encode_diff_v1 st v with Ok (o, _) -> "ok " ^ hex_of_bytes o ^ b3 (wbf_hypotheses st v) | Panic s -> "panic " ^ hex_of_n s | Err e -> "err " ^ err_name e | Fuel -> "fuel")
     | _ -> "err undecodable")
  | ["txn"; full; ins; ds] ->
    let fb = bytes_of_hex full in
    (match decode_update_v1 (fuel_for fb) fb with
     | Ok (u, _) ->
       let st = wbf_store_of u in
       let (i, d) = (adl_parse_ds ins, adl_parse_ds ds) in
       (match wbf_encode_update_v1 st i d with Ok (o, _) -> "ok " ^ hex_of_bytes o ^ b3 (wbf_txn_hypotheses st i) | Panic s -> "panic " ^ hex_of_n s | Err e -> "err " ^ err_name e | Fuel -> "fuel")
     | _ -> "err undecodable")
  | _ -> "err badcmd"

(* ---------- the state of a document at a snapshot (Crdt/Snapshot.v: encode_state_from_snapshot, write_blocks_to, snapshot) ---------- *)
let b01 b = if b then "1" else "0"
let sort_clients l = List.sort (fun (a, _) (b, _) -> compare (String.length (hex_of_n a), hex_of_n a) (String.length (hex_of_n b), hex_of_n b)) l
(* the wire form of an item with an origin does not name its parent (the decoder takes it from the origin item): fill it in,
   so that a unit compares equal to itself after the block it lies in was split *)
let wbf_resolve_parents (st : (n * (block * bool) list) list) =
  let find (i : id) = List.find_map (fun (c, bs) -> if c <> i.cl then None else
    List.find_map (fun (b, _) -> match b with
      | BItem (j, _, _, _, _, _) when N.leb j.ck i.ck && N.ltb i.ck (N.add j.ck (block_len b)) -> Some b
      | _ -> None) bs) st in
  let rec par (d : int) (b : block) = match b with
    | BItem (_, o, ro, PUnknown, ps, _) when d < 100000 ->
      (match (match o with Some x -> Some x | None -> ro) with
       | Some x -> (match find x with Some bb -> par (d + 1) bb | None -> (PUnknown, ps))
       | None -> (PUnknown, ps))
    | BItem (_, _, _, p, ps, _) -> (p, ps)
    | _ -> (PUnknown, None) in
  List.map (fun (c, bs) -> (c, List.map (fun (b, d) -> match b with
    | BItem (i, o, ro, _, _, ct) -> let (p, ps) = par 0 b in (BItem (i, o, ro, p, ps, ct), d)
    | _ -> (b, d)) bs)) st
let cmd_snp (args : string list) : string =
  let store_of hx = let fb = bytes_of_hex hx in (match decode_update_v1 (fuel_for fb) fb with Ok (u, _) -> Some (wbf_store_of u) | _ -> None) in
  match args with
  | ["enc"; gc; full; snap] ->
    let sb = bytes_of_hex snap in
    (match store_of full, decode_snapshot_v1 (fuel_for sb) sb with
     | Some st, Ok ((ds, sv), _) ->
       let ((a, b), c) = snp_hypotheses st sv in
       let hyp = " wf=" ^ b01 a ^ " sv=" ^ b01 b ^ " cut=" ^ b01 c ^ " holes=" ^ b01 (not (snp_no_holes st)) in
       (match snp_encode_state_from_snapshot_v1 (gc = "1") st sv ds with
        | Ok (o, _) -> "ok " ^ hex_of_bytes o ^ hyp | Panic s -> "panic " ^ hex_of_n s ^ hyp | Err e -> "err " ^ err_name e ^ hyp | Fuel -> "fuel")
     | _ -> "err undecodable")
  | ["snap"; full] ->
    (match store_of full with
     | Some st -> let (sv, ds) = snp_snapshot_sorted st in "ok " ^ print_idset (sort_clients ds) ^ "@" ^ print_sv sv
     | None -> "err undecodable")
  | ["ext"; f0; f1] ->
    (match store_of f0, store_of f1 with
     | Some a, Some b -> let (a, b) = (wbf_resolve_parents a, wbf_resolve_parents b) in "ok ext=" ^ b01 (snp_extends_b a b) ^ " holes=" ^ b01 (not (snp_no_holes a))
     | _ -> "err undecodable")
  | _ -> "err badcmd"

(* ---------- sticky indexes at block level (Crdt/Sticky.v: StickyIndex::at / get_offset over one branch) ---------- *)
(* blocks "c:k:D:T,..." with D = 0|1 (deleted) and T = s<cp>.<cp>... (string, code points) | e<n> (n countable elements) | n<n> (not countable) *)
let stk_parse_blocks (s : string) : stk_block list =
  if s = "_" then [] else List.map (fun t -> match String.split_on_char ':' t with
    | [c; k; d; ty] ->
      let body = String.sub ty 1 (String.length ty - 1) in
      let cont = (match ty.[0] with
        | 's' -> StkStr (if body = "" then [] else List.map n_of_hex (String.split_on_char '.' body))
        | 'e' -> StkElems (n_of_hex body)
        | _ -> StkNon (n_of_hex body)) in
      { stk_cl = n_of_hex c; stk_ck = n_of_hex k; stk_cont = cont; stk_del = (d = "1") }
    | _ -> failwith "stk block") (String.split_on_char ',' s)
let stk_print_scope = function StkOk (StkRel (c, k)) -> "R" ^ print_ck (c, k) | StkOk StkBranch -> "B" | StkNone -> "N" | StkPanic -> "P" | StkFuel -> "F"
let stk_print_off = function StkOk n -> hex_of_n n | StkNone -> "N" | StkPanic -> "P" | StkFuel -> "F"
let cmd_stk (args : string list) : string =
  let kind k = if k = "b" then StkBytes else StkUtf16 in
  match args with
  | ["all"; k; clen; pdel; blocks] ->
    let br = { stk_blocks = stk_parse_blocks blocks; stk_clen = n_of_hex clen; stk_pdel = (pdel = "1") } in
    "ok wf=" ^ b01 (stk_wf (kind k) br) ^ " " ^
    String.concat ";" (List.map (fun (((i, a), r), o) -> hex_of_n i ^ (if a then "a" else "b") ^ stk_print_scope r ^ ">" ^ stk_print_off o) (stk_check_all (kind k) br))
  | ["off"; k; clen; pdel; blocks; sc; a] ->
    let br = { stk_blocks = stk_parse_blocks blocks; stk_clen = n_of_hex clen; stk_pdel = (pdel = "1") } in
    let scope = if sc = "B" then StkBranch else (let (c, ck) = parse_ck sc in StkRel (c, ck)) in
    "ok " ^ stk_print_off (stk_get_offset (kind k) br scope (if a = "a" then StkAfter else StkBefore))
  | _ -> "err badcmd"

(* ---------- the garbage collector at block level (Crdt/GcBlocks.v: TransactionMut::gc = GCCollector::collect_all) ---------- *)
(* store = the blocks of the document's full state + per block the flags deleted/keep/countable ("c=dkc,dkc;...") + the branches
   "P~seq~key=ids|key=ids/..." (P = r<name hex> | i<c:k>; ids comma separated, chains left-most first as the hook lists them) *)
let gcb_parse_ids (s : string) : id list = if s = "_" || s = "" then [] else List.map (fun t -> let (c, k) = parse_ck t in { cl = c; ck = k }) (String.split_on_char ',' s)
let gcb_parse_branches (s : string) =
  if s = "_" then [] else List.map (fun b -> match String.split_on_char '~' b with
    | [p; sq; mp] ->
      let par = (if p.[0] = 'r' then PNamed (bytes_of_hex (String.sub p 1 (String.length p - 1))) else (let (c, k) = parse_ck (String.sub p 1 (String.length p - 1)) in PId { cl = c; ck = k })) in
      let chains = if mp = "_" then [] else List.map (fun e -> match String.split_on_char '=' e with
        | [k; ids] -> (bytes_of_hex k, List.rev (gcb_parse_ids ids))
        | _ -> failwith "gcb chain") (String.split_on_char '|' mp) in
      (par, { gcb_seq = gcb_parse_ids sq; gcb_map = chains })
    | _ -> failwith "gcb branch") (String.split_on_char '/' s)
let gcb_print_units (v : (n * (((n * n) * n) * bool) list) list) : string =
  String.concat ";" (List.concat_map (fun (c, bs) -> List.concat_map (fun (((k, l), kd), d) ->
    List.init (int_of_n l) (fun j -> hex_of_n c ^ ":" ^ hex_of_n (N.add k (n_of_int j)) ^ ":" ^ hex_of_n kd ^ (if d then "d" else "l"))) bs) v)
let cmd_gcb (args : string list) : string =
  match args with
  | ["run"; full; flags; branches; ods] ->
    let fb = bytes_of_hex full in
    (match decode_update_v1 (fuel_for fb) fb with
     | Ok (u, _) ->
       let fl = if flags = "_" then [] else List.map (fun cs -> match String.split_on_char '=' cs with
         | [c; fs] -> (n_of_hex c, String.split_on_char ',' fs) | _ -> failwith "gcb flags") (String.split_on_char ';' flags) in
       (* parents the wire form leaves out are filled in from the origin item (Block::try_squash relies on self.right == other,
          which Crdt/Blocks.v states as "same parent, same key") *)
       let resolved = wbf_resolve_parents (List.map (fun (c, bs) -> (c, List.map (fun b -> (b, false)) bs)) u.u_blocks) in
       let clients = List.map (fun (c, bs0) ->
         let bs = List.map fst bs0 in
         let fs = (try List.assoc c fl with Not_found -> failwith "gcb flags client") in
         if List.length fs <> List.length bs then failwith "gcb flags length";
         (c, List.map2 (fun b f -> { gcb_blk = b; gcb_del = (f.[0] = '1'); gcb_keep = (f.[1] = '1'); gcb_cnt = (f.[2] = '1') }) bs fs)) resolved in
       let st = { gcb_clients = clients; gcb_branches = gcb_parse_branches branches } in
       let ods = if ods = "-" then None else Some (List.map (fun (c, rs) -> (c, List.map (fun ((a, b), ()) -> (a, b)) rs)) (adl_parse_ds ods)) in
       let hyp = " total_ok=" ^ b01 (gcb_total_ok st) ^ " clients_ok=" ^ b01 (gcb_clients_ok st) in
       (match gcb_run st ods with
        | Adl_ok st' ->
          let len_of (i : id) = (match List.concat_map (fun (c, bs) -> if c = i.cl then List.filter (fun (((k, _), _), _) -> k = i.ck) bs else []) (gcb_cells_view st') with (((_, l), _), _) :: _ -> int_of_n l | [] -> 1) in
          let units ids = String.concat "," (List.concat_map (fun (i : id) -> List.init (len_of i) (fun j -> print_ck (i.cl, N.add i.ck (n_of_int j)))) ids) in
          let pb (p, b) = (match p with PNamed nm -> "r" ^ rawhex nm | PId i -> "i" ^ print_ck (i.cl, i.ck) | PUnknown -> "?") ^ "~" ^ units b.gcb_seq ^ "~" ^
            String.concat "|" (List.sort compare (List.map (fun (k, ids) -> rawhex k ^ "=" ^ units (List.rev ids)) b.gcb_map)) in
          (* the block boundaries after the squash of the commit that follows (gcb_gc_api = collect_all + merge_blocks) *)
          let api = (match gcb_gc_api st (match ods with None -> None | Some l -> Some (List.map (fun (c, rs) -> (c, List.map (fun (a, b) -> ((a, b), ())) rs)) l)) with
            | Adl_ok st2 -> String.concat ";" (List.map (fun (c, bs) -> hex_of_n c ^ "[" ^ String.concat "," (List.map (fun (((k, l), kd), _) -> hex_of_n k ^ "+" ^ hex_of_n l ^ ":" ^ hex_of_n kd) bs) ^ "]") (gcb_cells_view st2))
            | Adl_panic -> "panic") in
          "ok " ^ gcb_print_units (gcb_cells_view st') ^ " " ^ String.concat "/" (List.sort compare (List.map pb (gcb_branches_view st'))) ^ " api=" ^ api ^ hyp
        | Adl_panic -> "panic" ^ hyp)
     | _ -> "err undecodable")
  | _ -> "err badcmd"

(* ---------- Item::integrate at block level (Crdt/YataBlocks.v): one incoming block into one sequence ---------- *)
(* the sequence = the blocks of the document's full state (with content) picked in document order by the ids the hook lists *)
let cmd_yib (args : string list) : string =
  match args with
  | ["step"; full; seq; upd] ->
    let (fb, ub) = (bytes_of_hex full, bytes_of_hex upd) in
    (match decode_update_v1 (fuel_for fb) fb, decode_update_v1 (fuel_for ub) ub with
     | Ok (u, _), Ok (inc, _) ->
       let st = wbf_resolve_parents (wbf_store_of u) in
       let find (i : id) = List.find_map (fun (c, bs) -> if c <> i.cl then None else List.find_map (fun (b, d) -> match b with BItem (j, _, _, _, _, _) when j.ck = i.ck -> Some { yib_b = b; yib_del = d } | _ -> None) bs) st in
       let ids = gcb_parse_ids seq in
       let s = List.map find ids in
       if List.exists (fun x -> x = None) s then "skip sequence-block-not-in-the-full-state" else
       let s = List.filter_map (fun x -> x) s in
       let items = List.concat_map (fun (_, bs) -> List.filter (fun b -> match b with BItem _ -> true | _ -> false) bs) inc.u_blocks in
       let others = List.concat_map (fun (_, bs) -> List.filter (fun b -> match b with BItem _ -> false | _ -> true) bs) inc.u_blocks in
       (match items, others with
        | [BItem (i, o, ro, p, ps, c) as b], [] when ps = None ->
          let nb = { yib_b = b; yib_del = (match im_contains inc.u_ds i.cl i.ck with Some true -> true | _ -> false) } in
          let hyp = " seq_ok=" ^ b01 (yib_seq_ok s) ^ " fresh=" ^ b01 (yib_fresh s nb) in
          (match yib_integrate_off s nb N0 false with
           | Yib_ok s' -> "ok " ^ String.concat "," (List.map (fun (d : ditem) -> print_ck (d.d_op.oid.cl, d.d_op.oid.ck) ^ (if d.d_del then "-" else "+")) (yib_expand s')) ^ hyp
           | Yib_fail t -> "fail " ^ hex_of_n t ^ hyp)
        | _ -> "skip not-exactly-one-sequence-item")
     | _ -> "err undecodable")
  | _ -> "err badcmd"

(* ---------- which deep observers are called with which events and paths (Crdt/Dispatch.v: call_observers / call_type_observers) ---------- *)
(* types "P;S;H;K;seq;links/..." parents first: P = - | parent index, S = - | key number, H = holder item number, K = TypeRef kind,
   seq = _ | id.len.d,... (the sequence at commit: item number, countable length, deleted), links = _ | i,i (linked_by of the holder) *)
let cmd_evd (args : string list) : string =
  let nums s = if s = "_" || s = "" then [] else List.map n_of_hex (String.split_on_char ',' s) in
  let opt s = if s = "-" then None else Some (n_of_hex s) in
  match args with
  | ["deep"; types; events; dobs] ->
    let tys = if types = "_" then [] else List.map (fun t -> match String.split_on_char ';' t with
      | [p; sb; h; k; sq; lk] ->
        let seq = if sq = "_" then [] else List.map (fun e -> match String.split_on_char '.' e with
          | [i; l; d] -> ((n_of_hex i, n_of_hex l), d = "1") | _ -> failwith "evd seq") (String.split_on_char ',' sq) in
        (((((opt p, opt sb), n_of_hex h), n_of_hex k), seq), nums lk)
      | _ -> failwith "evd type") (String.split_on_char '/' types) in
    (match evd_deep_calls tys (nums events) (nums dobs) with
     | None -> "none"
     | Some calls ->
       let cpt = (match evd_changed_parent_types tys (nums events) with Some l -> String.concat "," (List.map hex_of_n l) | None -> "none") in
       "ok " ^ (match calls with [] -> "_" | _ -> String.concat ";" (List.map (fun (o, es) ->
         hex_of_n o ^ "[" ^ String.concat "|" (List.map (fun (t, path) -> hex_of_n t ^ ":" ^ String.concat "." (List.map (fun (isk, v) -> (if isk then "k" else "i") ^ hex_of_n v) path)) es) ^ "]") calls)) ^ " cpt=" ^ cpt)
  | _ -> "err badcmd"

(* ---------- local edits of an array-like sequence through the cursor (Crdt/BlockIter.v: Array::insert / remove_range) ---------- *)
let cmd_bit (args : string list) : string =
  let seq_of full seq = let fb = bytes_of_hex full in
    (match decode_update_v1 (fuel_for fb) fb with
     | Ok (u, _) ->
       let st = wbf_resolve_parents (wbf_store_of u) in
       let find (i : id) = List.find_map (fun (c, bs) -> if c <> i.cl then None else List.find_map (fun (b, d) -> match b with BItem (j, _, _, _, _, _) when j.ck = i.ck -> Some { yib_b = b; yib_del = d } | _ -> None) bs) st in
       let s = List.map find (gcb_parse_ids seq) in
       if List.exists (fun x -> x = None) s then None else Some (List.filter_map (fun x -> x) s)
     | _ -> None) in
  let poid = function None -> "-" | Some (i : id) -> print_ck (i.cl, i.ck) in
  let show (br : bit_branch) = String.concat "," (List.map (fun (d : ditem) -> print_ck (d.d_op.oid.cl, d.d_op.oid.ck) ^ (if d.d_del then "-" else "+") ^ poid d.d_op.oorigin ^ "/" ^ poid d.d_op.ororigin) (yib_expand br.bit_seq)) ^ " clen=" ^ hex_of_n br.bit_clen in
  match args with
  | ["ins"; full; seq; clen; index; upd] ->
    let ub = bytes_of_hex upd in
    (match seq_of full seq, decode_update_v1 (fuel_for ub) ub with
     | Some s, Ok (inc, _) ->
       (match List.concat_map snd inc.u_blocks with
        | [BItem (i, _, _, p, _, c)] ->
          let br = { bit_seq = s; bit_clen = n_of_hex clen } in
          let hyp = " ok=" ^ b01 (bit_ok br) ^ " ncd=" ^ b01 (bit_noncountable_deleted s) in
          (match bit_array_insert br (n_of_hex index) i p c with
           | Yib_ok br' -> "ok " ^ show br' ^ hyp
           | Yib_fail t -> "fail " ^ hex_of_n t ^ hyp)
        | _ -> "skip not-exactly-one-item")
     | _ -> "skip sequence-block-not-in-the-full-state")
  | ["rem"; full; seq; clen; index; len] ->
    (match seq_of full seq with
     | Some s ->
       let br = { bit_seq = s; bit_clen = n_of_hex clen } in
       let hyp = " ok=" ^ b01 (bit_ok br) ^ " ncd=" ^ b01 (bit_noncountable_deleted s) in
       (match bit_array_remove_range br (n_of_hex index) (n_of_hex len) with
        | Yib_ok br' -> "ok " ^ show br' ^ hyp
        | Yib_fail t -> "fail " ^ hex_of_n t ^ hyp)
     | None -> "skip sequence-block-not-in-the-full-state")
  | _ -> "err badcmd"

(* ---------- undo / redo over nested scopes (Crdt/Redo.v): the renders of the roots after every action of a program ---------- *)
let cmd_rdo (args : string list) : string =
  let nums s = if s = "_" || s = "" then [] else List.map n_of_hex (String.split_on_char ',' s) in
  let path s = if s = "_" then [] else List.map (fun t -> let v = String.sub t 1 (String.length t - 1) in
    if t.[0] = 'i' then RdoIdx (nat_of_int (int_of_string ("0x" ^ v))) else RdoKey (n_of_hex v)) (String.split_on_char '/' s) in
  let cnt s = let v = n_of_hex (String.sub s 1 (String.length s - 1)) in if s.[0] = 'v' then RdoVal v else RdoType v in
  let nat s = nat_of_int (int_of_string ("0x" ^ s)) in
  let op s = (match String.split_on_char '.' s with
    | ["I"; r; p; pos; c] -> RdoOIns (n_of_hex r, path p, nat pos, cnt c)
    | ["D"; r; p; pos] -> RdoODel (n_of_hex r, path p, nat pos)
    | ["E"; r; p; k; c] -> RdoOSet (n_of_hex r, path p, n_of_hex k, cnt c)
    | ["M"; r; p; k] -> RdoORem (n_of_hex r, path p, n_of_hex k)
    | _ -> failwith "rdo op") in
  let ops s = if s = "_" then [] else List.map op (String.split_on_char ',' s) in
  match args with
  | ["run"; scope; roots; prog] ->
    let acts = List.map (fun a -> match a.[0] with
      | 'U' -> RdoAUndo | 'R' -> RdoARedo
      | 'O' -> RdoAOther (ops (String.sub a 1 (String.length a - 1)))
      | _ -> RdoAStep (List.map ops (String.split_on_char '|' (String.sub a 1 (String.length a - 1))))) (String.split_on_char ';' prog) in
    (* the transcription of the repaired tracing loops (80f8fe9: Crdt/RedoFix.v); the theorems of RedoProofs.v are about rdo_renders,
       which it is proved to equal wherever no element stands between a copy and its tombstone (RedoFixProofs.v) *)
    let rs = rdo_renders_fixed (rdo_state0 (nums scope)) (nums roots) acts in
    let rs_old = rdo_renders (rdo_state0 (nums scope)) (nums roots) acts in
    if rs <> rs_old then "fixed-and-old-transcription-differ" else
    if List.length rs <> List.length acts then "fail after " ^ string_of_int (List.length rs) ^ " actions" else
    "ok " ^ String.concat ";" (List.map (fun per_root -> String.concat "|" (List.map (fun l -> String.concat "," (List.map hex_of_n l)) per_root)) rs)
  | _ -> "err badcmd"

(* ---------- codecs ---------- *)
let print_idm (v : (n * ((n * n) * ((n list * any) option) list) list) list) : string =
  let pa = function None -> "?" | Some (nm, vl) -> rawhex nm ^ "=" ^ print_any vl in
  String.concat ";" (List.map (fun (c, rs) -> hex_of_n c ^ "[" ^ String.concat " " (List.map (fun ((s, e), ats) -> hex_of_n s ^ ".." ^ hex_of_n e ^ "{" ^ String.concat "," (List.sort compare (List.map pa ats)) ^ "}") rs) ^ "]") v)
let cmd_dec (args : string list) : string =
  match args with
  | ["varu32"; hx] -> pres hex_of_n (read_var_u32 (bytes_of_hex hx))
  | ["varu64"; hx] -> pres hex_of_n (read_var_u64 (bytes_of_hex hx))
  | ["vari64"; hx] -> pres str_of_z (read_var_i64 (bytes_of_hex hx))
  | ["signed"; hx] -> pres (fun (z, neg) -> str_of_z z ^ (if neg then "-" else "+")) (read_signed (bytes_of_hex hx))
  | ["buf"; hx] -> pres rawhex (read_buf (bytes_of_hex hx))
  | ["any"; hx] -> let bs = bytes_of_hex hx in pres print_any (decode_any (fuel_for bs) bs)
  | ["idset"; hx] -> let bs = bytes_of_hex hx in pres print_idset (decode_idset_v1 (fuel_for bs) bs)
  | ["sv"; hx] -> let bs = bytes_of_hex hx in pres print_sv (decode_sv_v1 (fuel_for bs) bs)
  | ["snapshot"; hx] -> let bs = bytes_of_hex hx in pres (fun (ds, s) -> print_idset ds ^ "@" ^ print_sv s) (decode_snapshot_v1 (fuel_for bs) bs)
  | ["update"; hx] -> let bs = bytes_of_hex hx in pres print_update (decode_update_v1 (fuel_for bs) bs)
  (* lib0 v2 forms of the small wire types (Codec/WireV2.v) *)
  | ["idset2"; hx] -> pres print_idset (w2_decode_idset (bytes_of_hex hx))
  | ["sv2"; hx] -> pres print_sv (w2_decode_sv (bytes_of_hex hx))
  | ["snapshot2"; hx] -> pres (fun (ds, s) -> print_idset ds ^ "@" ^ print_sv s) (w2_decode_snapshot (bytes_of_hex hx))
  | ["sticky2"; hx] -> pres (fun (sc, a) -> print_scope sc ^ (if a then "a" else "b")) (w2_decode_sticky (bytes_of_hex hx))
  | ["reenc_idset2"; hx] -> (match w2_decode_idset (bytes_of_hex hx) with Ok (v, _) -> (match w2_encode_idset_opt v with Some o -> "ok " ^ hex_of_bytes o | None -> "panic encode") | Err e -> "err " ^ err_name e | Panic s -> "panic " ^ hex_of_n s | Fuel -> "fuel")
  | ["reenc_sv2"; hx] -> (match w2_decode_sv (bytes_of_hex hx) with Ok (v, _) -> (match w2_encode_sv_opt v with Some o -> "ok " ^ hex_of_bytes o | None -> "panic encode") | Err e -> "err " ^ err_name e | Panic s -> "panic " ^ hex_of_n s | Fuel -> "fuel")
  | ["reenc_snapshot2"; hx] -> (match w2_decode_snapshot (bytes_of_hex hx) with Ok (v, _) -> (match w2_encode_snapshot_opt v with Some o -> "ok " ^ hex_of_bytes o | None -> "panic encode") | Err e -> "err " ^ err_name e | Panic s -> "panic " ^ hex_of_n s | Fuel -> "fuel")
  | ["reenc_sticky2"; hx] -> (match w2_decode_sticky (bytes_of_hex hx) with Ok (v, _) -> (match w2_encode_sticky_opt v with Some o -> "ok " ^ hex_of_bytes o | None -> "panic encode") | Err e -> "err " ^ err_name e | Panic s -> "panic " ^ hex_of_n s | Fuel -> "fuel")
  (* attributed id map (values are strings) *)
  | ["idmap"; hx] -> let bs = bytes_of_hex hx in pres (fun v -> print_idm (idm_resolve v)) (idm_decode_v1 (fuel_for bs) bs)
  (* the lib0 v2 form (Codec/IdMapV2.v) *)
  | ["idmap2"; hx] -> pres (fun v -> print_idm (idm_resolve v)) (im2_decode (bytes_of_hex hx))
  | ["reenc_idmap2"; hx] ->
    (match im2_decode (bytes_of_hex hx) with
     | Ok (v, _) -> (match im2_encode v with Some o -> "ok " ^ hex_of_bytes o | None -> "panic encode")
     | Err e -> "err " ^ err_name e | Panic s -> "panic " ^ hex_of_n s | Fuel -> "fuel")
  | ["reenc_idmap"; hx] ->
    let bs = bytes_of_hex hx in
    (match idm_decode_v1 (fuel_for bs) bs with
     | Ok (v, _) -> "ok " ^ hex_of_bytes (idm_encode_v1 v)
     | Err e -> "err " ^ err_name e | Panic s -> "panic " ^ hex_of_n s | Fuel -> "fuel")
  (* decode then re-encode with the model's encoder (clients in the order given on the wire) *)
  | ["sticky"; hx] -> pres (fun (sc, a) -> print_scope sc ^ (if a then "a" else "b")) (decode_sticky (bytes_of_hex hx))
  | ["reenc_sticky"; hx] ->
    (match decode_sticky (bytes_of_hex hx) with
     | Ok (x, _) -> "ok " ^ hex_of_bytes (encode_sticky x)
     | Err e -> "err " ^ err_name e | Panic s -> "panic " ^ hex_of_n s | Fuel -> "fuel")
  | ["awareness"; hx] -> let bs = bytes_of_hex hx in pres print_aw (decode_awareness (fuel_for bs) bs)
  | ["reenc_awareness"; hx] ->
    let bs = bytes_of_hex hx in
    (match decode_awareness (fuel_for bs) bs with
     | Ok (x, _) -> "ok " ^ hex_of_bytes (encode_awareness x)
     | Err e -> "err " ^ err_name e | Panic s -> "panic " ^ hex_of_n s | Fuel -> "fuel")
  | ["message"; hx] -> let bs = bytes_of_hex hx in pres print_message (decode_message (fuel_for bs) bs)
  | ["reenc_message"; hx] ->
    let bs = bytes_of_hex hx in
    (match decode_message (fuel_for bs) bs with
     | Ok (x, _) -> "ok " ^ hex_of_bytes (encode_message x)
     | Err e -> "err " ^ err_name e | Panic s -> "panic " ^ hex_of_n s | Fuel -> "fuel")
  (* unit-level view of a full-state update against the unit-level view of the updates its content came from: block splits and
     squashes must not change any unit (id, origin, right origin, parent when transmitted, content) *)
  | "unitcmp" :: full :: origs ->
    let dec hx = let bs = bytes_of_hex hx in (match decode_update_v1 (fuel_for bs) bs with Ok (u, _) -> Some (units_of_update u) | _ -> None) in
    let tbl : (string, op) Hashtbl.t = Hashtbl.create 64 in
    let bad = ref None in
    let same_known pa pb = (match pa, pb with PUnknown, _ | _, PUnknown -> true | _ -> print_parent pa = print_parent pb) in
    let same_sub sa sb = (match sa, sb with None, _ | _, None -> true | Some a, Some b -> a = b) in
    let same (a : op) (b : op) = print_oid a.oorigin = print_oid b.oorigin && print_oid a.ororigin = print_oid b.ororigin
                                 && same_known a.oparent b.oparent && same_sub a.osub b.osub
                                 && (print_ucontent a.ocont = print_ucontent b.ocont || a.ocont = UDeleted || b.ocont = UDeleted) in
    let show (o : op) = print_id o.oid ^ "<" ^ print_oid o.oorigin ^ ">" ^ print_oid o.ororigin ^ "^" ^ print_parent o.oparent ^ "=" ^ print_ucontent o.ocont in
    List.iter (fun hx -> match dec hx with
      | None -> bad := Some ("undecodable " ^ hx)
      | Some us -> List.iter (fun x -> match x with
          | XItem o -> let k = print_id o.oid in
            (match Hashtbl.find_opt tbl k with
             | None -> Hashtbl.replace tbl k o
             | Some o' -> if not (same o o') && !bad = None then bad := Some ("originals-disagree " ^ show o ^ " vs " ^ show o'))
          | XGC _ -> ()) us) origs;
    (match !bad with Some m -> "err " ^ m | None ->
      (match dec full with
       | None -> "err undecodable-full"
       | Some us ->
         let n = ref 0 and missing = ref 0 in
         List.iter (fun x -> match x with
           | XItem o -> (match Hashtbl.find_opt tbl (print_id o.oid) with
               | None -> incr missing
               | Some o' -> incr n; if not (same o o') && !bad = None then bad := Some ("diff full=" ^ show o ^ " orig=" ^ show o'))
           | XGC _ -> ()) us;
         (match !bad with Some m -> m | None -> "ok n=" ^ string_of_int !n ^ " missing=" ^ string_of_int !missing)))
  (* lib0 v2 (column) form of an update *)
  | ["update2"; hx] -> let bs = bytes_of_hex hx in pres print_update (decode_update_v2 bs)
  | ["reenc_update2"; hx] ->
    let bs = bytes_of_hex hx in
    (match decode_update_v2 bs with
     | Ok (u, _) -> (match encode_update_v2 u with Some out -> "ok " ^ hex_of_bytes out | None -> "panic encode")
     | Err e -> "err " ^ err_name e | Panic s -> "panic " ^ hex_of_n s | Fuel -> "fuel")
  (* v1 bytes -> the model's v2 encoding of the decoded update (embed / format payloads differ between the formats, the model keeps them as bytes) *)
  | ["v1_to_v2_blocks"; hx] ->
    let bs = bytes_of_hex hx in
    (match decode_update_v1 (fuel_for bs) bs with
     | Ok (u, _) -> (match encode_update_v2 u with Some out -> "ok " ^ hex_of_bytes out | None -> "panic encode")
     | Err e -> "err " ^ err_name e | Panic s -> "panic " ^ hex_of_n s | Fuel -> "fuel")
  (* the same update in the two wire formats: block structure (kind, id, length, origins, parent, key) and every content except the
     payload of embeds / format marks (JSON text in v1, Any in v2) must agree, and so must the delete sets *)
  | ["same12"; h1; h2] ->
    let b1 = bytes_of_hex h1 in
    (match decode_update_v1 (fuel_for b1) b1, decode_update_v2 (bytes_of_hex h2) with
     | Ok (u1, _), Ok (u2, _) ->
       let shape (b : block) = (match b with
         | BItem (i, o, ro, p, ps, (BEmbed _)) -> "I" ^ print_id i ^ "<" ^ print_oid o ^ ">" ^ print_oid ro ^ "^" ^ print_parent p ^ (match ps with Some k -> "/" ^ rawhex k | None -> "") ^ "=embed"
         | BItem (i, o, ro, p, ps, (BFormat (k, _))) -> "I" ^ print_id i ^ "<" ^ print_oid o ^ ">" ^ print_oid ro ^ "^" ^ print_parent p ^ (match ps with Some k -> "/" ^ rawhex k | None -> "") ^ "=format:" ^ rawhex k
         | _ -> print_block b) in
       let norm (u : update) = String.concat ";" (List.map (fun (c, bs) -> hex_of_n c ^ "[" ^ String.concat " " (List.map shape (List.filter (fun b -> match b with BSkip _ -> false | _ -> true) bs)) ^ "]") (sort_clients (List.filter (fun (_, bs) -> List.exists (fun b -> match b with BSkip _ -> false | _ -> true) bs) u.u_blocks))) ^ "D{" ^ print_idset (sort_clients u.u_ds) ^ "}" in
       let (a, b) = (norm u1, norm u2) in
       if a = b then "ok same" else "differ v1=" ^ a ^ " v2=" ^ b
     | _ -> "err undecodable")
  | ["reenc_update"; hx] ->
    let bs = bytes_of_hex hx in
    (match decode_update_v1 (fuel_for bs) bs with
     | Ok (u, _) -> (match encode_update_v1 u with Some out -> "ok " ^ hex_of_bytes out | None -> "panic encode")
     | Err e -> "err " ^ err_name e | Panic s -> "panic " ^ hex_of_n s | Fuel -> "fuel")
  | ["reenc_any"; hx] ->
    let bs = bytes_of_hex hx in
    (match decode_any (fuel_for bs) bs with
     | Ok (a, _) -> (match encode_any a with Some out -> "ok " ^ hex_of_bytes out | None -> "panic encode")
     | Err e -> "err " ^ err_name e | Panic s -> "panic " ^ hex_of_n s | Fuel -> "fuel")
  | ["reenc_idset"; hx] ->
    let bs = bytes_of_hex hx in
    (match decode_idset_v1 (fuel_for bs) bs with
     | Ok (a, _) -> "ok " ^ hex_of_bytes (encode_idset_v1 a)
     | Err e -> "err " ^ err_name e | Panic s -> "panic " ^ hex_of_n s | Fuel -> "fuel")
  | ["reenc_sv"; hx] ->
    let bs = bytes_of_hex hx in
    (match decode_sv_v1 (fuel_for bs) bs with
     | Ok (a, _) -> "ok " ^ hex_of_bytes (encode_sv_v1 a)
     | Err e -> "err " ^ err_name e | Panic s -> "panic " ^ hex_of_n s | Fuel -> "fuel")
  | _ -> "err badcmd"

let cmd_enc (args : string list) : string =
  match args with
  | ["varu32"; v] -> "ok " ^ hex_of_bytes (write_var_u32 (n_of_hex v))
  | ["varu64"; v] -> "ok " ^ hex_of_bytes (write_var_u64 (n_of_hex v))
  | ["vari64"; v] -> (match write_var_i64 (z_of_str v) with Some b -> "ok " ^ hex_of_bytes b | None -> "panic neg")
  | ["buf"; hx] -> "ok " ^ hex_of_bytes (write_buf (bytes_of_hex hx))
  | _ -> "err badcmd"

(* ---------- awareness ---------- *)
let aws : (string, (n * (n * (n * n list option)) list)) Hashtbl.t = Hashtbl.create 8   (* name -> (local, state) *)
let parse_aw_entries (s : string) : (n * (n * n list option)) list =
  if s = "_" then [] else
    List.map (fun t -> match String.split_on_char ':' t with
        | [c; k; j] -> (n_of_hex c, (n_of_hex k, if j = "null" then None else Some (bytes_of_hex (if j = "" then "_" else j))))
        | _ -> failwith "bad aw entry") (split_on ',' s)
let print_aw_state (st : (n * (n * n list option)) list) : string =
  let es = List.sort compare (List.map (fun (c, (k, d)) -> (String.length (hex_of_n c), hex_of_n c, hex_of_n k, (match d with None -> "null" | Some j -> rawhex j))) st) in
  match es with [] -> "_" | _ -> String.concat "," (List.map (fun (_, c, k, j) -> c ^ ":" ^ k ^ ":" ^ j) es)
let cmd_aw (args : string list) : string =
  match args with
  | ["new"; r; local] -> Hashtbl.replace aws r (n_of_hex local, []); "ok"
  | ["apply"; r; u] -> let (l, st) = Hashtbl.find aws r in Hashtbl.replace aws r (l, apply_update l st (parse_aw_entries u)); "ok"
  | ["set"; r; j] -> let (l, st) = Hashtbl.find aws r in Hashtbl.replace aws r (l, set_local l st (bytes_of_hex j)); "ok"
  | ["remove"; r; c] -> let (l, st) = Hashtbl.find aws r in Hashtbl.replace aws r (l, remove_state st (n_of_hex c)); "ok"
  | ["dump"; r] -> let (_, st) = Hashtbl.find aws r in "ok " ^ print_aw_state st
  | _ -> "err badcmd"

(* ---------- C11: change events ---------- *)
(* flags: three chars 0/1 = deleted, added (by this transaction), deleted by this transaction *)
let fl s i = s.[i] = '1'
let toks (s : string) : n list = if s = "" || s = "_" then [] else List.map n_of_hex (String.split_on_char '.' s)
let ptoks (l : n list) : string = match l with [] -> "_" | _ -> String.concat "." (List.map hex_of_n l)
let parse_sitems (s : string) : sitem list =
  if s = "_" then [] else List.map (fun t -> match String.split_on_char ',' t with
      | [len; f; vs] -> { s_len = n_of_hex len; s_vals = toks vs; s_deleted = fl f 0; s_added = fl f 1; s_deld = fl f 2 }
      | _ -> failwith "bad sitem") (split_on ';' s)
let print_change = function
  | Added vs -> "+" ^ ptoks vs
  | Removed k -> "-" ^ hex_of_n k
  | Retain k -> "=" ^ hex_of_n k
let popt f = function Some x -> f x | None -> "none"
let parse_kitems (s : string) : kitem list =
  if s = "_" then [] else List.map (fun t -> match String.split_on_char ',' t with
      | [v; f] -> { k_val = n_of_hex v; k_deleted = fl f 0; k_added = fl f 1; k_deld = fl f 2 }
      | _ -> failwith "bad kitem") (split_on ';' s)
let print_entry = function
  | None -> "-"
  | Some (EInserted v) -> "I" ^ hex_of_n v
  | Some (EUpdated (o, v)) -> "U" ^ hex_of_n o ^ ">" ^ hex_of_n v
  | Some (ERemoved o) -> "R" ^ hex_of_n o
let parse_titems (s : string) : titem list =
  if s = "_" then [] else List.map (fun t -> match String.split_on_char ',' t with
      | [c; f] ->
        let body = String.sub c 1 (String.length c - 1) in
        let content = (match c.[0] with
            | 'S' -> TStr (toks body)
            | 'E' -> TEmbed (n_of_hex body)
            | 'F' -> (match String.split_on_char ':' body with [k; v] -> TFormat (n_of_hex k, n_of_hex v) | _ -> failwith "bad format")
            | _ -> TOther) in
        { t_content = content; t_deleted = fl f 0; t_added = fl f 1; t_deld = fl f 2 }
      | _ -> failwith "bad titem") (split_on ';' s)
let print_amap (m : (n * n) list) : string =
  let l = List.sort compare (List.map (fun (k, v) -> (int_of_n k, int_of_n v)) m) in
  String.concat "&" (List.map (fun (k, v) -> Printf.sprintf "%x:%x" k v) l)
let print_delta = function
  | DInsStr (s, a) -> "+S" ^ ptoks s ^ "@" ^ print_amap a
  | DInsEmbed (v, a) -> "+E" ^ hex_of_n v ^ "@" ^ print_amap a
  | DDelete k -> "-" ^ hex_of_n k
  | DRetain (k, a) -> "=" ^ hex_of_n k ^ "@" ^ print_amap a
let cmd_ev (args : string list) : string =
  match args with
  | ["seq"; items] ->
    let it = parse_sitems items in
    Printf.sprintf "ok %s | exact=%s wf=%s | before=%s | after=%s"
      (String.concat "," (List.map print_change (change_set it)))
      (pb (seq_exact it)) (pb (List.for_all swf it)) (ptoks (seq_before it)) (ptoks (seq_after it))
  | ["keys"; chain] ->
    let ch = parse_kitems chain in
    Printf.sprintf "ok %s | exact=%s wf=%s | before=%s | after=%s"
      (print_entry (keys_change ch)) (pb (key_exact ch)) (pb (kwf ch)) (popt hex_of_n (key_before ch)) (popt hex_of_n (key_after ch))
  | ["text"; items] ->
    let it = parse_titems items in
    Printf.sprintf "ok %s | exact=%s wf=%s" (String.concat "," (List.map print_delta (text_delta it))) (pb (text_exact it)) (pb (List.for_all twf it))
  | ["path"; items; k] ->
    "ok " ^ hex_of_n (path_index (parse_sitems items) (nat_of_int (int_of_string k)))
  | _ -> "err badcmd"

(* ---------- C12: undo / redo (flat model) ---------- *)
let ustates : (string, ustate) Hashtbl.t = Hashtbl.create 8
let parse_call (t : string) : ucall =
  let body = String.sub t 1 (String.length t - 1) in
  match t.[0] with
  | 'i' -> (match String.split_on_char '.' body with [p; v] -> CIns (nat_of_int (int_of_string p), n_of_hex v) | _ -> failwith "bad ins")
  | 'd' -> CDel (nat_of_int (int_of_string body))
  | 's' -> (match String.split_on_char '.' body with [k; v] -> CSet (n_of_hex k, n_of_hex v) | _ -> failwith "bad set")
  | 'r' -> CRem (n_of_hex body)
  | _ -> failwith "bad call"
let parse_calls (s : string) : ucall list = if s = "_" then [] else List.map parse_call (split_on ',' s)
let print_ustate (s : ustate) : string =
  let es = List.sort compare (List.map (fun (k, v) -> (int_of_n k, int_of_n v)) (live_entries s)) in
  Printf.sprintf "seq=%s | map=%s | u=%d r=%d" (ptoks (uvisible s.seqc))
    (String.concat "," (List.map (fun (k, v) -> Printf.sprintf "%x:%x" k v) es)) (List.length s.ustack) (List.length s.rstack)
let cmd_undo (args : string list) : string =
  match args with
  | ["new"; r] -> Hashtbl.replace ustates r ustate0; "ok"
  | ["step"; r; txns] ->
    let s = Hashtbl.find ustates r in
    let s' = uact s (AStep (List.map parse_calls (String.split_on_char '|' txns))) in
    Hashtbl.replace ustates r s'; "ok " ^ print_ustate s'
  | ["other"; r; calls] ->
    let s = Hashtbl.find ustates r in
    let s' = uact s (AOther (parse_calls calls)) in
    Hashtbl.replace ustates r s'; "ok " ^ print_ustate s'
  | ["undo"; r] -> let s = Hashtbl.find ustates r in let (s', b) = undo s in Hashtbl.replace ustates r s'; "ok " ^ print_ustate s' ^ " | changed=" ^ pb b
  | ["redo"; r] -> let s = Hashtbl.find ustates r in let (s', b) = redo s in Hashtbl.replace ustates r s'; "ok " ^ print_ustate s' ^ " | changed=" ^ pb b
  | _ -> "err badcmd"

(* ---------- C19: value cells ---------- *)
(* jany syntax: N U T F n<16hex> i<16hex> s<hex> x<hex> [a,b] {hexkey=a,...} ; cell syntax: tag:len:payload *)
let parse_jany (s : string) : jany =
  let n = String.length s in
  let pos = ref 0 in
  let peek () = if !pos < n then s.[!pos] else '\000' in
  let adv () = incr pos in
  let hexrun () = let st = !pos in while !pos < n && (match s.[!pos] with '0'..'9' | 'a'..'f' -> true | _ -> false) do incr pos done; String.sub s st (!pos - st) in
  let rec value () : jany =
    match peek () with
    | 'N' -> adv (); JNull
    | 'U' -> adv (); JUndefined
    | 'T' -> adv (); JBool true
    | 'F' -> adv (); JBool false
    | 'n' -> adv (); JNumber (n_of_hex (hexrun ()))
    | 'i' -> adv (); JBigInt (n_of_hex (hexrun ()))
    | 's' -> adv (); JString (bytes_of_hex (hexrun ()))
    | 'x' -> adv (); JBuffer (bytes_of_hex (hexrun ()))
    | '[' -> adv ();
      let items = ref [] in
      if peek () = ']' then adv () else begin
        let continue = ref true in
        while !continue do
          items := value () :: !items;
          (match peek () with ',' -> adv () | ']' -> adv (); continue := false | _ -> failwith "bad array")
        done end;
      JArray (List.rev !items)
    | '{' -> adv ();
      let items = ref [] in
      if peek () = '}' then adv () else begin
        let continue = ref true in
        while !continue do
          let k = bytes_of_hex (hexrun ()) in
          if peek () <> '=' then failwith "bad map"; adv ();
          let v = value () in
          items := (k, v) :: !items;
          (match peek () with ',' -> adv () | '}' -> adv (); continue := false | _ -> failwith "bad map")
        done end;
      JMap (List.rev !items)
    | _ -> failwith "bad jany" in
  value ()
let hex16 (x : n) : string = let h = hex_of_n x in String.make (max 0 (16 - String.length h)) '0' ^ h
let rec print_cell (c : cell) : string =
  match c with
  | Cell (tag, len, p) ->
    Printf.sprintf "%s:%d:%s" (str_of_z tag) (int_of_n len)
      (match p with
       | PNone -> "-"
       | PFlag b -> "b" ^ string_of_int (int_of_n b)
       | PNum x -> "n" ^ hex16 x
       | PInt x -> "i" ^ hex16 x
       | PStr s0 -> "s" ^ rawhex s0
       | PBuf b -> "x" ^ rawhex b
       | PArr l -> "[" ^ String.concat "," (List.map print_cell l) ^ "]"
       | PMap l -> "{" ^ String.concat "," (List.map (fun (k, v) -> rawhex k ^ "=" ^ print_cell v) l) ^ "}")
let rec print_jany (a : jany) : string =
  match a with
  | JNull -> "N" | JUndefined -> "U" | JBool true -> "T" | JBool false -> "F"
  | JNumber x -> "n" ^ hex16 x | JBigInt x -> "i" ^ hex16 x
  | JString s0 -> "s" ^ rawhex s0 | JBuffer b -> "x" ^ rawhex b
  | JArray l -> "[" ^ String.concat "," (List.map print_jany l) ^ "]"
  | JMap l -> "{" ^ String.concat "," (List.map (fun (k, v) -> rawhex k ^ "=" ^ print_jany v) l) ^ "}"
let cmd_cell (args : string list) : string =
  match args with
  | [v] -> "ok " ^ print_cell (output_of (parse_jany v))
  | ["in"; v] -> (match into_any (input_of (parse_jany v)) with Some a -> "ok " ^ print_jany a | None -> "panic")
  | ["back"; v] -> (match read_back (output_of (parse_jany v)) with Some a -> "ok " ^ print_jany a | None -> "null")
  | _ -> "err badcmd"

let dispatch (line : string) : string =
  match String.split_on_char ' ' (String.trim line) with
  | "R" :: args -> cmd_ranges args
  | "D" :: args -> cmd_doc args
  | "A" :: args -> cmd_aw args
  | "EV" :: args -> cmd_ev args
  | "U" :: args -> cmd_undo args
  | "CELL" :: args -> cmd_cell args
  | "LK" :: args -> cmd_lk args
  | "MRG" :: args -> cmd_mrg args
  | "DFF" :: args -> cmd_dff args
  | "ADL" :: args -> cmd_adl args
  | "SVO" :: args -> cmd_svo args
  | "ITG" :: args -> cmd_itg args
  | "RT" :: args -> cmd_rt args
  | "XW" :: args -> cmd_xw args
  | "WBF" :: args -> cmd_wbf args
  | "SNP" :: args -> cmd_snp args
  | "STK" :: args -> cmd_stk args
  | "GCB" :: args -> cmd_gcb args
  | "YIB" :: args -> cmd_yib args
  | "EVD" :: args -> cmd_evd args
  | "BIT" :: args -> cmd_bit args
  | "RDO" :: args -> cmd_rdo args
  | "DEC" :: args -> cmd_dec args
  | "ENC" :: args -> cmd_enc args
  | ["PING"] -> "ok pong"
  | _ -> "err badcmd"

let () =
  try
    while true do
      let line = input_line stdin in
      let out = (try dispatch line with
          | Failure m -> "err exn " ^ m
          | Not_found -> "err exn notfound"
          | Invalid_argument m -> "err exn " ^ m
          | Stack_overflow -> "err exn stackoverflow") in
      print_string out; print_char '\n'; flush stdout
    done
  with End_of_file -> ()
