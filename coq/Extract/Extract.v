(* Extraction of the executable model to OCaml. ExtrOcamlBasic only: bool, option, list, prod,
   unit, sumbool map to the OCaml natives; N, Z, positive, nat stay Coq inductives. *)
From Coq Require Extraction.
From Coq Require Import ExtrOcamlBasic.
From Coq Require Import List NArith ZArith.
From YV Require Import Lib.Bytes Ids.Ranges Codec.Varint Codec.AnyCodec Codec.IdSetCodec Codec.UpdateV1 Codec.V2Cols Codec.UpdateV2 Codec.IdMapCodec Codec.WireV2 Codec.IdMapV2 Codec.Messages Codec.Cells Crdt.Doc Crdt.Local Crdt.Snapshot Crdt.Sticky Crdt.GcBlocks Crdt.YataBlocks Crdt.BlockIter Crdt.Dispatch Crdt.Redo Crdt.RedoFix Crdt.Links Crdt.Blocks Crdt.Merge Crdt.SvOrder Crdt.Diff Crdt.ApplyDelete Crdt.Integrate Crdt.RichText Crdt.XmlWalk Crdt.WriteBlocks Crdt.Events Crdt.Undo OpSet.Awareness.
Extraction Language OCaml.
Extraction "model.ml"
  N.add N.mul N.sub N.div_eucl N.eqb N.ltb N.leb N.of_nat N.to_nat
  Z.add Z.mul Z.opp Z.of_N Z.to_N Z.eqb Z.ltb Z.div_eucl
  insert_with remove merge exclude intersect subset_of contains_clock find_start
  im_get im_contains im_insert_range im_merge_with im_intersect_with im_remove_range im_diff_with
  read_var_u32 read_var_u64 read_var_i64 read_signed write_var_u32 write_var_u64 write_var_i64 read_buf write_buf
  decode_any encode_any decode_idset_v1 encode_idset_v1 decode_sv_v1 encode_sv_v1 decode_snapshot_v1 encode_snapshot_v1
  decode_update_v1 encode_update_v1 units_of_update
  decode_update_v2 encode_update_v2 idiff_encode idiff_decode uint_encode uint_decode rle_encode rle_decode str_encode str_decode
  apply_update set_local remove_state aget
  local_op local_insert local_delete contents sticky_at sticky_offset quoted split_live split_gap live
  decode_sticky encode_sticky decode_awareness encode_awareness decode_message encode_message
  empty_replica replica_apply replica_state render restrict_pool integrated_ids pending_ds visible seq_len map_value
  change_set seq_exact swf seq_before seq_after keys_change key_exact kwf key_before key_after text_delta text_exact twf path_index
  ustate0 uact undo redo live_entries uvisible
  input_of into_any output_of read_back jwf
  lk_should_notify lk_next_registered lk_initial_registered
  mrg_merge_updates mrg_wf mrg_wf_norm idm_decode_v1 idm_encode_v1 idm_resolve im2_decode im2_encode
  adl_apply_delete_chk adl_wf_store adl_ds_ok
  wbf_encode_diff_v1 wbf_encode_update_v1 wbf_hypotheses wbf_txn_hypotheses
  snp_encode_state_from_snapshot_v1 snp_snapshot_sorted snp_hypotheses snp_extends_b snp_no_holes
  stk_check_all stk_get_offset stk_wf
  yib_integrate_off yib_expand yib_seq_ok yib_fresh
  evd_deep_calls evd_changed_parent_types
  bit_array_insert bit_array_remove_range bit_ok bit_noncountable_deleted
  rdo_renders rdo_renders_fixed rdo_state0
  gcb_run gcb_gc_api gcb_cells_view gcb_total_ok gcb_clients_ok gcb_branches_view
  xw_build xw_observe xw_wfb xw_find xw_check_spec
  rt_apply_auto rt_render rt_spec_apply rt_op_ok rt_items_eqb_gc rt_wf relems_eqb
  itg_empty itg_drive_res itg_obs_ranges itg_obs_holes itg_obs_has_pending itg_obs_missing itg_update_wf itg_blocks_wf
  svo_partial_cmp svo_merge svo_wf svo_get svo_set_min svo_set_max
  dff_diff_updates_v1 dff_state_vector_from_update_v1 dff_hypotheses_v1
  w2_decode_idset w2_decode_sv w2_decode_snapshot w2_decode_sticky w2_encode_idset_opt w2_encode_sv_opt w2_encode_snapshot_opt w2_encode_sticky_opt
  ueq umerge idset_insert idset_insert_range attrs_eq attrs_merge idattr_insert idattr_remove idattr_as_set.
