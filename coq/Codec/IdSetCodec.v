(* v1 wire format of IdSet / IdRange (id_set.rs), StateVector and Snapshot (state_vector.rs) *)
From Coq Require Import List NArith ZArith Bool.
From YV Require Import Gen.Consts Lib.Bytes Codec.Varint Ids.Ranges.
Import ListNotations.
Open Scope N_scope.

(* ClientID::new: debug_assert!(value & MASK == 0) *)
(* ClientID::try_new(...).ok_or(Error::UnexpectedValue) *)
Definition client_id_new (v : N) (rest : list N) : res N :=
  if v <? two53 then Ok v rest else Err UnexpectedValue.

(* Range<u32>::decode: clock..(clock + len) *)
Definition decode_range_v1 (bs : list N) : res (N * N) :=
  let* (clock, r1) := read_var_u32 bs in
  let* (len, r2) := read_var_u32 r1 in
  match add32_checked clock len with
  | Some e => Ok (clock, e) r2
  | None => Err UnexpectedValue
  end.

Fixpoint decode_ranges_loop (fuel : nat) (n : N) (bs : list N) (acc : idrange) : res idrange :=
  if n =? 0 then Ok (rev acc) bs else
  match fuel with
  | O => Fuel
  | S f =>
    let* (r, rest) := decode_range_v1 bs in
    decode_ranges_loop f (n - 1) rest ((fst r, snd r, tt) :: acc)
  end.
(* IdRanges<()>::decode: canonical input is taken as is; anything else (empty, touching, overlapping or
   unsorted ranges) is sorted by start (stable) and rebuilt with insert *)
Fixpoint ranges_canonical (prev_end : option N) (l : idrange) : bool :=
  match l with
  | [] => true
  | x :: r =>
    negb (e_end x <=? e_start x)
    && (match prev_end with Some pe => pe <? e_start x | None => true end)
    && ranges_canonical (Some (e_end x)) r
  end.
Fixpoint insert_by_start (x : entry unit) (l : idrange) : idrange :=
  match l with
  | [] => [x]
  | y :: r => if e_start x <? e_start y then x :: l else y :: insert_by_start x r
  end.
Definition sort_by_start (l : idrange) : idrange := fold_left (fun acc x => insert_by_start x acc) l [].
Definition normalize_ranges (l : idrange) : option idrange :=
  if ranges_canonical None l then Some l
  else fold_left (fun acc x => match acc with
                               | Some a => insert_with ueq umerge a (e_start x) (e_end x) tt
                               | None => None end) (sort_by_start l) (Some []).
Definition decode_idrange_v1 (fuel : nat) (bs : list N) : res idrange :=
  let* (len, rest) := read_var_u32 bs in
  let* (raw, rest') := decode_ranges_loop fuel len rest [] in
  match normalize_ranges raw with
  | Some r => Ok r rest'
  | None => Panic P_INDEX
  end.

Fixpoint decode_idset_loop (fuel : nat) (n : N) (bs : list N) (acc : idset) : res idset :=
  if n =? 0 then Ok acc bs else
  match fuel with
  | O => Fuel
  | S f =>
    let* (client, r1) := read_var_u64 bs in
    let* (c, r1') := client_id_new client r1 in
    let* (range, r3) := decode_idrange_v1 f r1' in
    decode_idset_loop f (n - 1) r3 (match range with [] => acc | _ => im_set acc c range end)
  end.
Definition decode_idset_v1 (fuel : nat) (bs : list N) : res idset :=
  let* (n, rest) := read_var_u32 bs in decode_idset_loop fuel n rest [].

Definition encode_idrange_v1 (r : idrange) : list N :=
  write_var_u32 (N.of_nat (length r)) ++
  flat_map (fun x => write_var_u32 (e_start x) ++ write_var_u32 (e_end x - e_start x)) r.
Definition encode_idset_v1 (s : idset) : list N :=
  write_var_u32 (N.of_nat (length s)) ++
  flat_map (fun cr => write_var_u64 (fst cr) ++ encode_idrange_v1 (snd cr)) s.

(* ---- StateVector: HashMap<ClientID, u32>; the model keeps the wire order, last write wins ---- *)
Definition sv := list (N * N).
Fixpoint sv_get (s : sv) (c : N) : N :=
  match s with [] => 0 | (c', k) :: r => if c' =? c then k else sv_get r c end.
Fixpoint sv_set (s : sv) (c k : N) : sv :=
  match s with
  | [] => [(c, k)]
  | (c', k') :: r => if c' =? c then (c, k) :: r else (c', k') :: sv_set r c k
  end.

Fixpoint decode_sv_loop (fuel : nat) (n : N) (bs : list N) (acc : sv) : res sv :=
  if n =? 0 then Ok acc bs else
  match fuel with
  | O => Fuel
  | S f =>
    let* (client, r1) := read_var_u64 bs in
    let* (c, r1') := client_id_new client r1 in
    let* (clock, r3) := read_var_u32 r1' in
    decode_sv_loop f (n - 1) r3 (sv_set acc c clock)
  end.
Definition decode_sv_v1 (fuel : nat) (bs : list N) : res sv :=
  let* (n, rest) := read_var_u32 bs in decode_sv_loop fuel n rest [].
Definition encode_sv_v1 (s : sv) : list N :=
  write_var_usize (N.of_nat (length s)) ++ flat_map (fun ck => write_var_u64 (fst ck) ++ write_var_u32 (snd ck)) s.

(* ---- Snapshot = delete set, then state vector ---- *)
Definition decode_snapshot_v1 (fuel : nat) (bs : list N) : res (idset * sv) :=
  let* (ds, r1) := decode_idset_v1 fuel bs in
  let* (s, r2) := decode_sv_v1 fuel r1 in
  Ok (ds, s) r2.
Definition encode_snapshot_v1 (x : idset * sv) : list N := encode_idset_v1 (fst x) ++ encode_sv_v1 (snd x).
