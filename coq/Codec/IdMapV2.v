(* lib0 v2 wire form of the attributed id map, and the generic body it shares with the v1 form.

   Rust (worktree of /repo at 1f736a8):
     yrs/src/id_map.rs           impl Encode for IdMap<A> (fn encode), impl Decode for IdMap<A> (fn decode): ONE generic
                                 body each, over the traits Encoder / Decoder
     yrs/src/updates/encoder.rs  trait Encode (encode_v1 / encode_v2), impl Encoder for EncoderV1 / EncoderV2,
                                 impl Write for EncoderV2 (write_string -> StringEncoder), EncoderV2::to_vec
     yrs/src/updates/decoder.rs  trait Decode (decode_v1 / decode_v2), impl Decoder for DecoderV1 / DecoderV2,
                                 impl Read for DecoderV2 (read_string -> StringDecoder::read_str), DecoderV2::new
   A = String as in Codec/IdMapCodec.v, whose value type (idm_value: attribution table + per client the ranges with
   table indices), idm_nth / idm_find / idm_u32 / idm_enc_value / idm_normalize / idm_add64_checked / idm_canon /
   idm_resolve are reused unchanged.

   Which trait methods the generic body calls, and where they land under v2:
     encode                                       EncoderV2                                     DecoderV2
     write_var(u32) / write_var(u64)              Write default over write_u8: `buf` (rest)     read_var on self.cursor (rest)
     reset_ds_cur_val()                           ds_curr_val = 0                                ds_curr_val = 0
     write_ds_clock(start)                        buf.write_var(clock - ds_curr_val) [u32 `-`:   cursor.read_var::<u32>, checked_add to
                                                  panics in a debug build when clock < cur];     ds_curr_val (UnexpectedValue on overflow)
                                                  ds_curr_val = clock
     write_ds_len(end - start)                    debug_assert!(len != 0); buf.write_var(len-1); read_var::<u32> checked_add(1), checked_add
                                                  ds_curr_val += len                             to ds_curr_val; returns len
     write_string(name)                           string_encoder.write: the STRING column        string_decoder.read_str (UIntOptRle length in
                                                  (concatenated buffer + UIntOptRle of the       UTF-16 units, then a walk over the chars)
                                                  UTF-16 lengths)
     write_any(&to_any(value))                    EncoderV1 over `buf`: the v1 bytes of the Any  Any::decode(&mut self.cursor) (rest)
                                                  (an Any::String is written INLINE, not into
                                                  the string column)
   So a v2 id map is: feature flag 0, nine length-prefixed column buffers of which only the string column (names in
   order of first use) can be non-empty, then the rest buffer = the v1 byte stream without the names and with
   clock / len replaced by (clock - previous end) / (len - 1).

   Definitions:
     im2_r, im2_bind                 result of a read on an abstract decoder state D (Ok value state | Err | Panic | Fuel)
     im2_reader                      the Decoder / Read methods used by IdMap::decode, as a record of functions on D
     im2_from_any                    serde from_any::<String> (IdMapCodec.idm_from_any)
     im2_dec_attr / _attrs / _range / _ranges / _clients / im2_gen_decode
                                     IdMap::<A>::decode, loop by loop (`for _ in 0..attrs_len`, `for _ in 0..num_ranges`,
                                     `for _ in 0..num_clients`), same structure and same fuel discipline as
                                     IdMapCodec.idm_dec_*: every iteration consumes fuel, exhaustion gives Im2Fuel
     im2_reader_v1 / im2_decode_v1   DecoderV1 instance (IdMapV2Proofs.im2_decode_v1_eq: equal to idm_decode_v1)
     im2_reader_v2 / im2_decode      DecoderV2 instance over UpdateV2.dec2 (rd_var_u32, rd_ds_clock, rd_ds_len, rd_string,
                                     rd_any), run after DecoderV2::new (UpdateV2.new_decoder through WireV2.w2_run)
     im2_call                        the Encoder / Write methods IdMap::encode calls, with their argument
     im2_calls_attr / _attrs / _range / _ranges / _clients / im2_calls
                                     IdMap::<A>::encode as the sequence of calls it makes (the methods return nothing, so
                                     the body cannot depend on the encoder: the sequence IS the generic body); same
                                     visited_attributions / visited_attr_names state as IdMapCodec.idm_enc_*
     im2_w1 / im2_encode_v1          EncoderV1: each call appends bytes (IdMapV2Proofs.im2_encode_v1_eq: = idm_encode_v1)
     im2_wr2 / im2_encode            EncoderV2: each call appends to a column trace (UpdateV2.wr) with ds_curr_val threaded;
                                     None = panic of a debug build; then EncoderV2::to_vec (UpdateV2.wr_to_bytes)

   Where the model is more abstract than the code:
     - As in IdMapCodec.v: Arc pointer identity of attributions is the table index; IdMap::attrs (the de-duplication
       cache) is not modelled; HashMap lookups are list searches; `range.end - range.start` and
       `client - last_written_client_id` are truncated subtractions of N (the Rust would panic in a debug build on
       end < start resp. on a descending client list; a BTreeMap iterates ascending and IdRanges holds no inverted
       range; under v2 an inverted range gives IcLen 0 and hence None all the same).
     - A release build has no overflow checks and no debug_assert: there `clock - ds_curr_val` and `len - 1` wrap
       instead of panicking.  None models the debug build (as UpdateV2.enc_ranges does).
     - The column encoders are run over the complete value lists in wr_to_bytes instead of incrementally (UpdateV2.v).
     - The fuel of Any::decode under v2 is the length of the rest cursor (UpdateV2.decode_any_here); the loop fuel of
       im2_decode is S (length of the rest cursor after DecoderV2::new): every iteration of every loop reads at least
       one byte of the rest cursor (IdMapV2Proofs.im2_decode_total). *)
From Coq Require Import List NArith ZArith Bool.
From YV Require Import Gen.Consts Lib.Bytes Codec.Varint Codec.AnyCodec Codec.IdSetCodec Codec.UpdateV1 Ids.Ranges.
From YV Require Import Codec.V2Cols Codec.UpdateV2 Codec.WireV2 Codec.IdMapCodec.
Import ListNotations.
Open Scope N_scope.

(* ================================================================================================ *)
(* results over an abstract decoder state                                                            *)
(* ================================================================================================ *)

Inductive im2_r (D A : Type) :=
| Im2Ok (a : A) (d : D)
| Im2Err (e : err)
| Im2Panic (site : N)
| Im2Fuel.
Arguments Im2Ok {D A}. Arguments Im2Err {D A}. Arguments Im2Panic {D A}. Arguments Im2Fuel {D A}.

Definition im2_bind {D A B} (r : im2_r D A) (f : A -> D -> im2_r D B) : im2_r D B :=
  match r with
  | Im2Ok a d => f a d
  | Im2Err e => Im2Err e
  | Im2Panic s => Im2Panic s
  | Im2Fuel => Im2Fuel
  end.
Notation "'let^' ( x , d ) := e1 'in' e2" := (im2_bind e1 (fun x d => e2))
  (at level 200, x name, d name, e1 at level 100, e2 at level 200).

(* the methods of Decoder / Read that IdMap::decode calls *)
Record im2_reader (D : Type) := mk_im2_reader {
  im2_rd_var_u32 : D -> im2_r D N;                 (* read_var::<u32> *)
  im2_rd_var_u64 : D -> im2_r D N;                 (* read_var::<u64> *)
  im2_rd_var_usize : D -> im2_r D N;               (* read_var::<usize> *)
  im2_rd_reset_ds : D -> D;                        (* reset_ds_cur_val *)
  im2_rd_ds_clock : D -> im2_r D N;                (* read_ds_clock *)
  im2_rd_ds_len : D -> im2_r D N;                  (* read_ds_len *)
  im2_rd_string : D -> im2_r D (list N);           (* read_string *)
  im2_rd_any : nat -> D -> im2_r D any }.          (* read_any; the nat is the fuel of the Any model *)
Arguments im2_rd_var_u32 {D}. Arguments im2_rd_var_u64 {D}. Arguments im2_rd_var_usize {D}.
Arguments im2_rd_reset_ds {D}. Arguments im2_rd_ds_clock {D}. Arguments im2_rd_ds_len {D}.
Arguments im2_rd_string {D}. Arguments im2_rd_any {D}.

(* ================================================================================================ *)
(* IdMap::<A>::decode over a reader                                                                  *)
(* ================================================================================================ *)

Section Im2Decode.
Context {D : Type}.
Variable R : im2_reader D.

(* from_any::<String>(&any)? *)
Definition im2_from_any (a : any) (d : D) : im2_r D any :=
  match a with AString _ => Im2Ok a d | _ => Im2Err idm_E_TYPE_MISMATCH end.

(* one iteration of `for _ in 0..attrs_len` *)
Definition im2_dec_attr (fuel : nat) (st : idm_dstate) (d : D) : im2_r D (idm_dstate * N) :=
  let '(tbl, names) := st in
  let^ (attr_id, d1) := im2_rd_var_usize R d in
  let^ (st', d2) :=
    (if N.of_nat (length tbl) <=? attr_id then
       let^ (attr_name_id, d2) := im2_rd_var_usize R d1 in
       let^ (names', d3) :=
         (if N.of_nat (length names) <=? attr_name_id then
            let^ (name, d3) := im2_rd_string R d2 in Im2Ok (names ++ [name]) d3
          else Im2Ok names d2) in
       let^ (a, d4) := im2_rd_any R fuel d3 in
       let^ (value, d5) := im2_from_any a d4 in
       match idm_nth names' attr_name_id with
       | Some name => Im2Ok (tbl ++ [(name, value)], names') d5
       | None => Im2Err UnexpectedValue
       end
     else Im2Ok st d1) in
  match idm_nth (fst st') attr_id with
  | Some _ => Im2Ok (st', attr_id) d2
  | None => Im2Err UnexpectedValue
  end.

Fixpoint im2_dec_attrs (fuel : nat) (n : N) (st : idm_dstate) (d : D) (acc : attrs)
  : im2_r D (idm_dstate * attrs) :=
  if n =? 0 then Im2Ok (st, rev acc) d else
  match fuel with
  | O => Im2Fuel
  | S f =>
    let^ (x, d') := im2_dec_attr fuel st d in
    im2_dec_attrs f (n - 1) (fst x) d' (snd x :: acc)
  end.

(* one iteration of `for _ in 0..num_ranges`: read_ds_clock, read_ds_len, the attributes, then the checked sum *)
Definition im2_dec_range (fuel : nat) (st : idm_dstate) (d : D) : im2_r D (idm_dstate * entry attrs) :=
  let^ (range_clock, d1) := im2_rd_ds_clock R d in
  let^ (range_len, d2) := im2_rd_ds_len R d1 in
  let^ (attrs_len, d3) := im2_rd_var_u32 R d2 in
  let^ (x, d4) := im2_dec_attrs fuel attrs_len st d3 [] in
  match add32_checked range_clock range_len with
  | Some range_end => Im2Ok (fst x, (range_clock, range_end, snd x)) d4
  | None => Im2Err UnexpectedValue
  end.

Fixpoint im2_dec_ranges (fuel : nat) (n : N) (st : idm_dstate) (d : D) (acc : ranges attrs)
  : im2_r D (idm_dstate * ranges attrs) :=
  if n =? 0 then Im2Ok (st, rev acc) d else
  match fuel with
  | O => Im2Fuel
  | S f =>
    let^ (x, d') := im2_dec_range f st d in
    im2_dec_ranges f (n - 1) (fst x) d' (snd x :: acc)
  end.

(* ClientID::try_new(client).ok_or(Error::UnexpectedValue)? *)
Definition im2_client_new (c : N) (d : D) : im2_r D N :=
  if c <? two53 then Im2Ok c d else Im2Err UnexpectedValue.

(* `for _ in 0..num_clients`: reset_ds_cur_val, the client difference, the ranges, ClientID::try_new, insert_with of
   every entry (IdMapCodec.idm_normalize; None = an index panic inside insert_with), BTreeMap::insert *)
Fixpoint im2_dec_clients (fuel : nat) (n : N) (st : idm_dstate) (last : N) (d : D) (acc : idm_clients)
  : im2_r D (idm_dstate * idm_clients) :=
  if n =? 0 then Im2Ok (st, acc) d else
  match fuel with
  | O => Im2Fuel
  | S f =>
    let^ (diff, d1) := im2_rd_var_u64 R (im2_rd_reset_ds R d) in
    match idm_add64_checked last diff with
    | None => Im2Err UnexpectedValue
    | Some client =>
      let^ (num_ranges, d2) := im2_rd_var_u32 R d1 in
      let^ (x, d3) := im2_dec_ranges f num_ranges st d2 [] in
      let^ (c, d4) := im2_client_new client d3 in
      match idm_normalize (fst (fst x)) (snd x) with
      | None => Im2Panic P_INDEX
      | Some rs =>
        im2_dec_clients f (n - 1) (fst x) client d4 (match rs with [] => acc | _ => im_set acc c rs end)
      end
    end
  end.

Definition im2_gen_decode (fuel : nat) (d : D) : im2_r D idm_value :=
  let^ (num_clients, d1) := im2_rd_var_u32 R d in
  let^ (x, d2) := im2_dec_clients fuel num_clients ([], []) 0 d1 [] in
  Im2Ok (fst (fst x), snd x) d2.
End Im2Decode.

(* ================================================================================================ *)
(* DecoderV1                                                                                         *)
(* ================================================================================================ *)

Definition im2_of_res {A} (r : res A) : im2_r (list N) A :=
  match r with Ok a rest => Im2Ok a rest | Err e => Im2Err e | Panic s => Im2Panic s | Fuel => Im2Fuel end.
Definition im2_to_res {A} (r : im2_r (list N) A) : res A :=
  match r with Im2Ok a rest => Ok a rest | Im2Err e => Err e | Im2Panic s => Panic s | Im2Fuel => Fuel end.

(* impl Decoder for DecoderV1: reset_ds_cur_val is a no-op, read_ds_clock / read_ds_len are read_var::<u32>,
   read_string is Read::read_string (read_buf + from_utf8), read_any is Any::decode(self) *)
Definition im2_reader_v1 : im2_reader (list N) :=
  {| im2_rd_var_u32 := fun bs => im2_of_res (read_var_u32 bs);
     im2_rd_var_u64 := fun bs => im2_of_res (read_var_u64 bs);
     im2_rd_var_usize := fun bs => im2_of_res (read_var_usize bs);
     im2_rd_reset_ds := fun bs => bs;
     im2_rd_ds_clock := fun bs => im2_of_res (read_var_u32 bs);
     im2_rd_ds_len := fun bs => im2_of_res (read_var_u32 bs);
     im2_rd_string := fun bs => im2_of_res (read_string bs);
     im2_rd_any := fun fuel bs => im2_of_res (decode_any fuel bs) |}.

Definition im2_decode_v1 (fuel : nat) (bs : list N) : res idm_value :=
  im2_to_res (im2_gen_decode im2_reader_v1 fuel bs).

(* ================================================================================================ *)
(* DecoderV2                                                                                         *)
(* ================================================================================================ *)

Definition im2_of_r2 {A} (r : r2 A) : im2_r dec2 A :=
  match r with R2Ok a d => Im2Ok a d | R2Err e => Im2Err e | R2Panic s => Im2Panic s | R2Fuel => Im2Fuel end.
Definition im2_to_r2 {A} (r : im2_r dec2 A) : r2 A :=
  match r with Im2Ok a d => R2Ok a d | Im2Err e => R2Err e | Im2Panic s => R2Panic s | Im2Fuel => R2Fuel end.

(* impl Decoder for DecoderV2 / impl Read for DecoderV2 (UpdateV2.v): read_var on the rest cursor, read_ds_clock /
   read_ds_len against ds_curr_val, read_string on the string column, read_any on the rest cursor *)
Definition im2_reader_v2 : im2_reader dec2 :=
  {| im2_rd_var_u32 := fun d => im2_of_r2 (rd_var_u32 d);
     im2_rd_var_u64 := fun d => im2_of_r2 (on_rest read_var_u64 d);
     im2_rd_var_usize := fun d => im2_of_r2 (on_rest read_var_usize d);
     im2_rd_reset_ds := reset_ds;
     im2_rd_ds_clock := fun d => im2_of_r2 (rd_ds_clock d);
     im2_rd_ds_len := fun d => im2_of_r2 (rd_ds_len d);
     im2_rd_string := fun d => im2_of_r2 (rd_string d);
     im2_rd_any := fun _ d => im2_of_r2 (rd_any d) |}.

(* IdMap::<String>::decode(&mut decoder) on a DecoderV2 *)
Definition im2_dec_v2 (d : dec2) : r2 idm_value :=
  im2_to_r2 (im2_gen_decode im2_reader_v2 (S (length (d_rest d))) d).

(* IdMap::<String>::decode_v2(bytes): DecoderV2::new, then decode; the `rest` of the result is what is left on the
   rest cursor (decode_v2 drops it) *)
Definition im2_decode (bs : list N) : res idm_value := w2_run im2_dec_v2 bs.

(* ================================================================================================ *)
(* IdMap::<A>::encode as the sequence of Encoder calls                                               *)
(* ================================================================================================ *)

Inductive im2_call :=
| IcVar32 (v : N)            (* write_var(x as u32) *)
| IcVar64 (v : N)            (* write_var(x: u64) *)
| IcReset                    (* reset_ds_cur_val() *)
| IcClock (c : N)            (* write_ds_clock(c) *)
| IcLen (l : N)              (* write_ds_len(l) *)
| IcString (s : list N)      (* write_string(s) *)
| IcAny (a : any).           (* write_any(&a) *)

Definition im2_calls_attr (tbl : idm_table) (st : idm_estate) (a : N) : idm_estate * list im2_call :=
  let '(vis, names) := st in
  match idm_find (N.eqb a) vis 0 with
  | Some attr_id => (st, [IcVar32 (idm_u32 attr_id)])
  | None =>
    let new_attr_id := N.of_nat (length vis) in
    let '(name, value) := match idm_nth tbl a with Some d => d | None => ([], AUndefined) end in
    let '(names', name_calls) :=
      match idm_find (idm_bytes_eqb name) names 0 with
      | Some name_id => (names, [IcVar32 (idm_u32 name_id)])
      | None => (names ++ [name], [IcVar32 (idm_u32 (N.of_nat (length names))); IcString name])
      end in
    ((vis ++ [a], names'), IcVar32 (idm_u32 new_attr_id) :: name_calls ++ [IcAny value])
  end.

Fixpoint im2_calls_attrs (tbl : idm_table) (st : idm_estate) (l : attrs) : idm_estate * list im2_call :=
  match l with
  | [] => (st, [])
  | a :: r =>
    let '(st1, o1) := im2_calls_attr tbl st a in
    let '(st2, o2) := im2_calls_attrs tbl st1 r in
    (st2, o1 ++ o2)
  end.

(* write_ds_clock(range.start); write_ds_len(range.end - range.start); write_var(attrs.len() as u32); the attributes *)
Definition im2_calls_range (tbl : idm_table) (st : idm_estate) (x : entry attrs) : idm_estate * list im2_call :=
  let '(st', o) := im2_calls_attrs tbl st (e_val x) in
  (st', IcClock (e_start x) :: IcLen (e_end x - e_start x) :: IcVar32 (idm_u32 (N.of_nat (length (e_val x)))) :: o).

Fixpoint im2_calls_ranges (tbl : idm_table) (st : idm_estate) (l : ranges attrs) : idm_estate * list im2_call :=
  match l with
  | [] => (st, [])
  | x :: r =>
    let '(st1, o1) := im2_calls_range tbl st x in
    let '(st2, o2) := im2_calls_ranges tbl st1 r in
    (st2, o1 ++ o2)
  end.

(* reset_ds_cur_val(); write_var(client - last_written_client_id); write_var(ranges.len() as u32); the ranges *)
Fixpoint im2_calls_clients (tbl : idm_table) (st : idm_estate) (last : N) (l : idm_clients) : idm_estate * list im2_call :=
  match l with
  | [] => (st, [])
  | (c, rs) :: r =>
    let '(st1, o1) := im2_calls_ranges tbl st rs in
    let '(st2, o2) := im2_calls_clients tbl st1 c r in
    (st2, IcReset :: IcVar64 (c - last) :: IcVar32 (idm_u32 (N.of_nat (length rs))) :: o1 ++ o2)
  end.

Definition im2_calls (v : idm_value) : list im2_call :=
  IcVar32 (idm_u32 (N.of_nat (length (snd v)))) :: snd (im2_calls_clients (fst v) ([], []) 0 (snd v)).

(* ---- EncoderV1: every call appends bytes to the one buffer ---- *)
Definition im2_w1 (c : im2_call) : list N :=
  match c with
  | IcVar32 v => write_var_u32 v
  | IcVar64 v => write_var_u64 v
  | IcReset => []
  | IcClock k => write_var_u32 k
  | IcLen l => write_var_u32 l
  | IcString s => write_string s
  | IcAny a => idm_enc_value a
  end.
Definition im2_encode_v1 (v : idm_value) : list N := flat_map im2_w1 (im2_calls v).

(* ---- EncoderV2: the column traces, with ds_curr_val = cur before the first call; None = panic (debug build) ---- *)
Definition im2_opt_app (w : wr) (o : option wr) : option wr :=
  match o with Some k => Some (w +++ k) | None => None end.
Fixpoint im2_wr2 (cur : N) (l : list im2_call) : option wr :=
  match l with
  | [] => Some wr0
  | c :: r =>
    match c with
    | IcVar32 v => im2_opt_app (wB (write_var_u32 v)) (im2_wr2 cur r)
    | IcVar64 v => im2_opt_app (wB (write_var_u64 v)) (im2_wr2 cur r)
    | IcReset => im2_wr2 0 r
    | IcClock k =>
      (* let diff = clock - self.ds_curr_val; self.ds_curr_val = clock; self.buf.write_var(diff) *)
      if k <? cur then None else im2_opt_app (wB (write_var_u32 (k - cur))) (im2_wr2 k r)
    | IcLen n =>
      (* debug_assert!(len != 0); self.buf.write_var(len - 1); self.ds_curr_val += len *)
      if (n =? 0) || (two32 <=? cur + n) then None else im2_opt_app (wB (write_var_u32 (n - 1))) (im2_wr2 (cur + n) r)
    | IcString s => im2_opt_app (wS s) (im2_wr2 cur r)
    | IcAny a => im2_opt_app (wB (idm_enc_value a)) (im2_wr2 cur r)
    end
  end.

(* IdMap::<String>::encode_v2(): EncoderV2::new(), encode, to_vec *)
Definition im2_encode (v : idm_value) : option (list N) := w2_finish (im2_wr2 0 (im2_calls v)).
