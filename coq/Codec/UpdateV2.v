(* lib0 v2 wire format of updates: yrs/src/updates/encoder.rs (EncoderV2), yrs/src/updates/decoder.rs (DecoderV2)
   under the generic code of update.rs (Update::decode / encode_diff / decode_block), block.rs (Item::encode,
   ItemContent::encode / decode), types/mod.rs (TypeRef, weak links), doc.rs (Options), id_set.rs (IdSet, IdRanges,
   Range<u32>).  Same [update] type as Codec/UpdateV1.v.

   Decoder: [dec2] is the DecoderV2 struct (rest cursor, key table, ds_curr_val and nine column decoders, each a
   pair of its fields and its cursor bytes); every trait method is a function dec2 -> r2 A.  The loops whose
   count comes from the wire run [N.iter count] times (iter2, with an early exit on the first error): unlike v1, a v2 block need not consume any input byte (all
   its fields can come out of runs of the columns), so no fuel tied to the input length would do.  The only fuel
   left is the one of Codec/AnyCodec.decode_any, instantiated with the length of the rest cursor.

   Encoder: EncoderV2 feeds nine column encoders and a byte buffer and only assembles them in to_vec.  The
   model records, for each construct, the values it writes to each column (a [wr]: nine value lists and the
   bytes appended to `buf`); [wr_to_bytes] runs the column encoders of V2Cols.v over the complete lists and
   lays the result out as EncoderV2::to_vec does.  This is the same function as threading the nine encoder
   states, because a column encoder's state is the fold of its write over the values seen so far.
   The `seqeuncer` of write_key is threaded explicitly; key_table is never updated by the Rust code, so every
   key is written to the string column (and the decoder, whose key table grows with every key it reads, always
   finds key_clock = keys.len() and reads it there).

   Embed / Format payloads: v1 carries a JSON text (BEmbed / BFormat hold that text), v2 carries a lib0 Any
   (write_json = write_any).  The shared [bcontent] has one byte-list field for it: under v2 it holds the bytes
   of the Any as they stand on the wire. *)
From Coq Require Import List NArith ZArith Bool.
From YV Require Import Gen.Consts Lib.Bytes Codec.Varint Codec.AnyCodec Codec.IdSetCodec Codec.UpdateV1 Ids.Ranges.
From YV Require Import Codec.V2Cols.
Import ListNotations.
Open Scope N_scope.

(* ================================================================================================ *)
(* decoder state and result                                                                          *)
(* ================================================================================================ *)

Record dec2 := mkdec2 {
  d_rest : list N;                     (* cursor *)
  d_keys : list (list N);              (* keys *)
  d_ds : N;                            (* ds_curr_val *)
  d_keyclock : idiff_st * list N;
  d_client : uint_st * list N;
  d_left : idiff_st * list N;
  d_right : idiff_st * list N;
  d_info : rle_st * list N;
  d_string : str_st * list N;
  d_pinfo : rle_st * list N;
  d_tyref : uint_st * list N;
  d_len : uint_st * list N }.

Definition set_rest d x := mkdec2 x (d_keys d) (d_ds d) (d_keyclock d) (d_client d) (d_left d) (d_right d) (d_info d) (d_string d) (d_pinfo d) (d_tyref d) (d_len d).
Definition set_keys d x := mkdec2 (d_rest d) x (d_ds d) (d_keyclock d) (d_client d) (d_left d) (d_right d) (d_info d) (d_string d) (d_pinfo d) (d_tyref d) (d_len d).
Definition set_ds d x := mkdec2 (d_rest d) (d_keys d) x (d_keyclock d) (d_client d) (d_left d) (d_right d) (d_info d) (d_string d) (d_pinfo d) (d_tyref d) (d_len d).
Definition set_keyclock d x := mkdec2 (d_rest d) (d_keys d) (d_ds d) x (d_client d) (d_left d) (d_right d) (d_info d) (d_string d) (d_pinfo d) (d_tyref d) (d_len d).
Definition set_client d x := mkdec2 (d_rest d) (d_keys d) (d_ds d) (d_keyclock d) x (d_left d) (d_right d) (d_info d) (d_string d) (d_pinfo d) (d_tyref d) (d_len d).
Definition set_left d x := mkdec2 (d_rest d) (d_keys d) (d_ds d) (d_keyclock d) (d_client d) x (d_right d) (d_info d) (d_string d) (d_pinfo d) (d_tyref d) (d_len d).
Definition set_right d x := mkdec2 (d_rest d) (d_keys d) (d_ds d) (d_keyclock d) (d_client d) (d_left d) x (d_info d) (d_string d) (d_pinfo d) (d_tyref d) (d_len d).
Definition set_info d x := mkdec2 (d_rest d) (d_keys d) (d_ds d) (d_keyclock d) (d_client d) (d_left d) (d_right d) x (d_string d) (d_pinfo d) (d_tyref d) (d_len d).
Definition set_string d x := mkdec2 (d_rest d) (d_keys d) (d_ds d) (d_keyclock d) (d_client d) (d_left d) (d_right d) (d_info d) x (d_pinfo d) (d_tyref d) (d_len d).
Definition set_pinfo d x := mkdec2 (d_rest d) (d_keys d) (d_ds d) (d_keyclock d) (d_client d) (d_left d) (d_right d) (d_info d) (d_string d) x (d_tyref d) (d_len d).
Definition set_tyref d x := mkdec2 (d_rest d) (d_keys d) (d_ds d) (d_keyclock d) (d_client d) (d_left d) (d_right d) (d_info d) (d_string d) (d_pinfo d) x (d_len d).
Definition set_len d x := mkdec2 (d_rest d) (d_keys d) (d_ds d) (d_keyclock d) (d_client d) (d_left d) (d_right d) (d_info d) (d_string d) (d_pinfo d) (d_tyref d) x.

Inductive r2 (A : Type) :=
| R2Ok (a : A) (d : dec2)
| R2Err (e : err)
| R2Panic (site : N)
| R2Fuel.
Arguments R2Ok {A}. Arguments R2Err {A}. Arguments R2Panic {A}. Arguments R2Fuel {A}.

Definition bind2 {A B} (r : r2 A) (f : A -> dec2 -> r2 B) : r2 B :=
  match r with
  | R2Ok a d => f a d
  | R2Err e => R2Err e
  | R2Panic s => R2Panic s
  | R2Fuel => R2Fuel
  end.
Notation "'let+' ( x , d ) := e1 'in' e2" := (bind2 e1 (fun x d => e2))
  (at level 200, x name, d name, e1 at level 100, e2 at level 200).
Definition r2_map {A B} (f : A -> B) (r : r2 A) : r2 B := bind2 r (fun a d => R2Ok (f a) d).

(* `for _ in 0..n` with `?` inside the body *)
(* [N.iter n (fun r => bind2 r step) (R2Ok a d)] (V2Proofs.iter2_spec), written so that it stops at the first
   result that is not R2Ok: the count is a wire value (up to 2^32 - 1) and the executable model must not keep
   iterating over an error.  Same recursion as Pos.iter: f (iter (iter x)). *)
Fixpoint iter2_pos {A} (step : A -> dec2 -> r2 A) (p : positive) (r : r2 A) : r2 A :=
  match r with
  | R2Ok _ _ =>
    match p with
    | xH => bind2 r step
    | xO p' => iter2_pos step p' (iter2_pos step p' r)
    | xI p' => bind2 (iter2_pos step p' (iter2_pos step p' r)) step
    end
  | _ => r
  end.
Definition iter2 {A} (n : N) (step : A -> dec2 -> r2 A) (a : A) (d : dec2) : r2 A :=
  match n with N0 => R2Ok a d | Npos p => iter2_pos step p (R2Ok a d) end.

(* a read on the rest cursor (the Read impl of DecoderV2 forwards read_u8 / read_exact to self.cursor) *)
Definition on_rest {A} (f : list N -> res A) (d : dec2) : r2 A :=
  match f (d_rest d) with
  | Ok a rest => R2Ok a (set_rest d rest)
  | Err e => R2Err e
  | Panic s => R2Panic s
  | Fuel => R2Fuel
  end.
(* a read on one column *)
Definition on_col {S V} (read : S -> list N -> res (V * S)) (get : dec2 -> S * list N) (set : dec2 -> S * list N -> dec2)
    (d : dec2) : r2 V :=
  match read (fst (get d)) (snd (get d)) with
  | Ok vs rest => R2Ok (fst vs) (set d (snd vs, rest))
  | Err e => R2Err e
  | Panic s => R2Panic s
  | Fuel => R2Fuel
  end.

(* ---- DecoderV2::new ---- *)
Definition new_decoder (bs : list N) : r2 unit :=
  (* if cursor.has_content() { read the feature flag } *)
  let bs0 := match bs with [] => [] | _ :: r => r end in
  match (let* (key_clock, r1) := read_buf_v2 bs0 in
         let* (client, r2) := read_buf_v2 r1 in
         let* (left_clock, r3) := read_buf_v2 r2 in
         let* (right_clock, r4) := read_buf_v2 r3 in
         let* (info, r5) := read_buf_v2 r4 in
         let* (string, r6) := read_buf_v2 r5 in
         let* (parent_info, r7) := read_buf_v2 r6 in
         let* (type_ref, r8) := read_buf_v2 r7 in
         let* (len, r9) := read_buf_v2 r8 in
         match str_new string with
         | Ok sst lens =>
           Ok (mkdec2 r9 [] 0 (idiff_st0, key_clock) (uint_st0, client) (idiff_st0, left_clock) (idiff_st0, right_clock)
                      (rle_st0, info) (sst, lens) (rle_st0, parent_info) (uint_st0, type_ref) (uint_st0, len)) r9
         | Err e => Err e
         | Panic s => Panic s
         | Fuel => Fuel
         end) with
  | Ok d _ => R2Ok tt d
  | Err e => R2Err e
  | Panic s => R2Panic s
  | Fuel => R2Fuel
  end.

(* ---- trait methods of DecoderV2 ---- *)
Definition rd_u8 := on_rest read_u8.
Definition rd_var_u32 := on_rest read_var_u32.
Definition rd_buf := on_rest read_buf.
(* Read::read_client_id: read_var::<u64> and ClientID::try_new *)
Definition rd_client_id_rest := on_rest (fun bs => let* (c, r) := read_var_u64 bs in client_id_new c r).

Definition client_check (c : N) (d : dec2) : r2 N := if c <? two53 then R2Ok c d else R2Err UnexpectedValue.
Definition rd_client (d : dec2) : r2 N :=
  let+ (c, d1) := on_col uint_read d_client set_client d in client_check c d1.
Definition rd_left_id (d : dec2) : r2 id :=
  let+ (c, d1) := rd_client d in
  let+ (k, d2) := on_col idiff_read d_left set_left d1 in R2Ok (mkid c k) d2.
Definition rd_right_id (d : dec2) : r2 id :=
  let+ (c, d1) := rd_client d in
  let+ (k, d2) := on_col idiff_read d_right set_right d1 in R2Ok (mkid c k) d2.
Definition rd_info := on_col rle_read d_info set_info.
Definition rd_parent_info (d : dec2) : r2 bool := r2_map (fun v => v =? 1) (on_col rle_read d_pinfo set_pinfo d).
(* `as u8` / `as u32` of the u64 read from the column *)
Definition rd_type_ref (d : dec2) : r2 N := r2_map (fun v => v mod 256) (on_col uint_read d_tyref set_tyref d).
Definition rd_len (d : dec2) : r2 N := r2_map (fun v => v mod two32) (on_col uint_read d_len set_len d).
Definition rd_string := on_col str_read d_string set_string.
(* self.keys.get(key_clock as usize): [nth_error l (N.to_nat k)] (V2Proofs.nth_N_spec) without building the unary
   number of a wire value *)
Fixpoint nth_N {A} (l : list A) (k : N) : option A :=
  match l with
  | [] => None
  | x :: r => if k =? 0 then Some x else nth_N r (k - 1)
  end.
Definition rd_key (d : dec2) : r2 (list N) :=
  let+ (key_clock, d1) := on_col idiff_read d_keyclock set_keyclock d in
  match nth_N (d_keys d1) key_clock with
  | Some key => R2Ok key d1
  | None => let+ (key, d2) := rd_string d1 in R2Ok key (set_keys d2 (d_keys d2 ++ [key]))
  end.
(* read_any = read_json = Any::decode(&mut self.cursor); the fuel of the Any model is the length of what is left on
   the cursor (AnyProofs.decode_any_fuel: that is always enough) *)
Definition decode_any_here (bs : list N) : res any := decode_any (S (length bs)) bs.
Definition rd_any := on_rest decode_any_here.
(* the same read, keeping the bytes of the value instead of the value (Embed / Format payloads) *)
Definition rd_any_raw :=
  on_rest (fun bs => let* (_, r) := decode_any_here bs in Ok (firstn (length bs - length r) bs) r).

Definition reset_ds (d : dec2) : dec2 := set_ds d 0.
Definition rd_ds_clock (d : dec2) : r2 N :=
  let+ (diff, d1) := rd_var_u32 d in
  match add32_checked (d_ds d1) diff with
  | Some c => R2Ok c (set_ds d1 c)
  | None => R2Err UnexpectedValue
  end.
Definition rd_ds_len (d : dec2) : r2 N :=
  let+ (v, d1) := rd_var_u32 d in
  match add32_checked v 1 with
  | None => R2Err UnexpectedValue
  | Some diff =>
    match add32_checked (d_ds d1) diff with
    | Some c => R2Ok diff (set_ds d1 c)
    | None => R2Err UnexpectedValue
    end
  end.

(* ================================================================================================ *)
(* generic decoding code over the v2 methods                                                         *)
(* ================================================================================================ *)

(* weak link scopes: ids are read with read_client_id / read_var on the rest cursor, names with read_string *)
Definition dec_scope_id (d : dec2) : r2 id :=
  let+ (c, d1) := rd_client_id_rest d in
  let+ (k, d2) := rd_var_u32 d1 in R2Ok (mkid c k) d2.
Definition dec_scope (unbounded root : bool) (d : dec2) : r2 scope :=
  if unbounded then
    if root then r2_map SRoot (rd_string d) else r2_map SNested (dec_scope_id d)
  else r2_map SRelative (dec_scope_id d).
Definition dec_weak_link (d : dec2) : r2 weaklink :=
  let+ (flags, d0) := rd_u8 d in
  let single := negb (flag flags C_WEAK_REF_FLAGS_QUOTE) in
  let root := flag flags C_WEAK_REF_FLAGS_PARENT_ROOT in
  let+ (s, d1) := dec_scope (flag flags C_WEAK_REF_FLAGS_START_UNBOUNDED) root d0 in
  let+ (e, d2) := (if flag flags C_WEAK_REF_FLAGS_END_UNBOUNDED then dec_scope true root d1
                   else if single then R2Ok s d1 else dec_scope false root d1) in
  R2Ok {| wl_start := s; wl_start_after := flag flags C_WEAK_REF_FLAGS_START_ASSOC;
          wl_end := e; wl_end_after := flag flags C_WEAK_REF_FLAGS_END_ASSOC |} d2.

Definition dec_tyref (d : dec2) : r2 tyref :=
  let+ (t, d1) := rd_type_ref d in
  if t =? C_TYPE_REFS_ARRAY then R2Ok TArray d1
  else if t =? C_TYPE_REFS_MAP then R2Ok TMap d1
  else if t =? C_TYPE_REFS_TEXT then R2Ok TText d1
  else if t =? C_TYPE_REFS_XML_ELEMENT then r2_map TXmlElement (rd_key d1)
  else if t =? C_TYPE_REFS_XML_FRAGMENT then R2Ok TXmlFragment d1
  else if t =? C_TYPE_REFS_XML_HOOK then R2Ok TXmlHook d1
  else if t =? C_TYPE_REFS_XML_TEXT then R2Ok TXmlText d1
  else if t =? C_TYPE_REFS_DOC then R2Ok TSubDoc d1
  else if t =? C_TYPE_REFS_WEAK then r2_map TWeak (dec_weak_link d1)
  else if t =? C_TYPE_REFS_UNDEFINED then R2Ok TUndefined d1
  else R2Err UnexpectedValue.

Definition push_step {A} (rd : dec2 -> r2 A) (acc : list A) (d : dec2) : r2 (list A) :=
  let+ (x, d1) := rd d in R2Ok (acc ++ [x]) d1.

Definition dec_content (info : N) (d : dec2) : r2 bcontent :=
  let r := N.land info 15 in
  if r =? C_BLOCK_ITEM_DELETED_REF_NUMBER then r2_map BDeleted (rd_len d)
  else if r =? C_BLOCK_ITEM_JSON_REF_NUMBER then
    (* `decoder.read_len()? as i32`, `while remaining > 0` *)
    let+ (n, d1) := rd_len d in
    r2_map BJson (iter2 (if n <? two31 then n else 0) (push_step rd_string) [] d1)
  else if r =? C_BLOCK_ITEM_BINARY_REF_NUMBER then r2_map BBinary (rd_buf d)
  else if r =? C_BLOCK_ITEM_STRING_REF_NUMBER then r2_map BString (rd_string d)
  else if r =? C_BLOCK_ITEM_EMBED_REF_NUMBER then r2_map BEmbed (rd_any_raw d)
  else if r =? C_BLOCK_ITEM_FORMAT_REF_NUMBER then
    let+ (k, d1) := rd_key d in let+ (v, d2) := rd_any_raw d1 in R2Ok (BFormat k v) d2
  else if r =? C_BLOCK_ITEM_TYPE_REF_NUMBER then r2_map BType (dec_tyref d)
  else if r =? C_BLOCK_ITEM_ANY_REF_NUMBER then
    let+ (n, d1) := rd_len d in r2_map BAny (iter2 n (push_step rd_any) [] d1)
  else if r =? C_BLOCK_ITEM_DOC_REF_NUMBER then
    let+ (g, d1) := rd_string d in let+ (o, d2) := rd_any d1 in R2Ok (BDoc g o) d2
  else R2Err UnexpectedValue.

(* Update::decode_block: the length of a Skip is read with read_var (rest cursor), the length of a GC with
   read_len (length column) *)
Definition dec_block (i : id) (d : dec2) : r2 (option block) :=
  let+ (info, d0) := rd_info d in
  if info =? C_BLOCK_SKIP_REF_NUMBER then r2_map (fun n => Some (BSkip i n)) (rd_var_u32 d0)
  else if info =? C_BLOCK_GC_REF_NUMBER then r2_map (fun n => Some (BGC i n)) (rd_len d0)
  else
    let has_o := flag info C_HAS_ORIGIN in
    let has_r := flag info C_HAS_RIGHT_ORIGIN in
    let cant_copy := negb has_o && negb has_r in
    let+ (o, d1) := (if has_o then r2_map Some (rd_left_id d0) else R2Ok None d0) in
    let+ (ro, d2) := (if has_r then r2_map Some (rd_right_id d1) else R2Ok None d1) in
    let+ (p, d3) := (if cant_copy then
                       let+ (is_key, q) := rd_parent_info d2 in
                       if is_key then r2_map PNamed (rd_string q) else r2_map PId (rd_left_id q)
                     else R2Ok PUnknown d2) in
    let+ (ps, d4) := (if cant_copy && flag info C_HAS_PARENT_SUB then r2_map Some (rd_string d3) else R2Ok None d3) in
    let+ (c, d5) := dec_content info d4 in
    if content_len c =? 0 then R2Ok None d5 else R2Ok (Some (BItem i o ro p ps c)) d5.

Definition dec_block_step (client : N) (st : N * list block) (d : dec2) : r2 (N * list block) :=
  let+ (ob, d1) := dec_block (mkid client (fst st)) d in
  match ob with
  | None => R2Ok st d1
  | Some b =>
    match add32_checked (fst st) (block_len b) with
    | Some clock' => R2Ok (clock', snd st ++ [b]) d1
    | None => R2Err UnexpectedValue
    end
  end.

Definition dec_client_step (acc : list (N * list block)) (d : dec2) : r2 (list (N * list block)) :=
  let+ (nblocks, d1) := rd_var_u32 d in
  let+ (client, d2) := rd_client d1 in
  let+ (clock, d3) := rd_var_u32 d2 in
  let+ (st, d4) := iter2 nblocks (dec_block_step client) (clock, []) d3 in
  R2Ok (add_client_blocks acc client (snd st)) d4.

(* ---- delete set ---- *)
Definition dec_range (d : dec2) : r2 (N * N) :=
  let+ (clock, d1) := rd_ds_clock d in
  let+ (len, d2) := rd_ds_len d1 in
  match add32_checked clock len with
  | Some e => R2Ok (clock, e) d2
  | None => R2Err UnexpectedValue
  end.
Definition dec_range_step (acc : idrange) (d : dec2) : r2 idrange :=
  let+ (r, d') := dec_range d in R2Ok (acc ++ [(fst r, snd r, tt)]) d'.
Definition dec_idrange (d : dec2) : r2 idrange :=
  let+ (len, d1) := rd_var_u32 d in
  let+ (raw, d2) := iter2 len dec_range_step [] d1 in
  match normalize_ranges raw with
  | Some r => R2Ok r d2
  | None => R2Panic P_INDEX
  end.
Definition dec_idset_step (acc : idset) (d : dec2) : r2 idset :=
  let+ (c, d1) := rd_client_id_rest (reset_ds d) in
  let+ (range, d2) := dec_idrange d1 in
  R2Ok (match range with [] => acc | _ => im_set acc c range end) d2.
Definition dec_idset (d : dec2) : r2 idset :=
  let+ (n, d1) := rd_var_u32 d in iter2 n dec_idset_step [] d1.

Definition dec_update (d : dec2) : r2 update :=
  let+ (n, d1) := rd_var_u32 d in
  let+ (cs, d2) := iter2 n dec_client_step [] d1 in
  let+ (ds, d3) := dec_idset d2 in
  R2Ok {| u_blocks := cs; u_ds := ds |} d3.

(* Update::decode_v2; the `rest` of the result is what is left on the rest cursor *)
Definition decode_update_v2 (bs : list N) : res update :=
  match (let+ (_, d) := new_decoder bs in dec_update d) with
  | R2Ok u d => Ok u (d_rest d)
  | R2Err e => Err e
  | R2Panic s => Panic s
  | R2Fuel => Fuel
  end.

(* ================================================================================================ *)
(* encoder                                                                                           *)
(* ================================================================================================ *)

Record wr := mkwr {
  w_keyclock : list N; w_client : list N; w_left : list N; w_right : list N; w_info : list N;
  w_string : list (list N); w_pinfo : list N; w_tyref : list N; w_len : list N; w_rest : list N }.
Definition wr0 : wr := mkwr [] [] [] [] [] [] [] [] [] [].
Definition wr_app (a b : wr) : wr :=
  mkwr (w_keyclock a ++ w_keyclock b) (w_client a ++ w_client b) (w_left a ++ w_left b) (w_right a ++ w_right b)
       (w_info a ++ w_info b) (w_string a ++ w_string b) (w_pinfo a ++ w_pinfo b) (w_tyref a ++ w_tyref b)
       (w_len a ++ w_len b) (w_rest a ++ w_rest b).
Infix "+++" := wr_app (at level 60, right associativity).

Definition wK (v : N) : wr := mkwr [v] [] [] [] [] [] [] [] [] [].        (* key_clock_encoder.write_u32 *)
Definition wC (v : N) : wr := mkwr [] [v] [] [] [] [] [] [] [] [].        (* write_client *)
Definition wL (v : N) : wr := mkwr [] [] [v] [] [] [] [] [] [] [].        (* left_clock_encoder.write_u32 *)
Definition wR (v : N) : wr := mkwr [] [] [] [v] [] [] [] [] [] [].        (* right_clock_encoder.write_u32 *)
Definition wI (v : N) : wr := mkwr [] [] [] [] [v] [] [] [] [] [].        (* write_info *)
Definition wS (s : list N) : wr := mkwr [] [] [] [] [] [s] [] [] [] [].   (* write_string *)
Definition wP (v : N) : wr := mkwr [] [] [] [] [] [] [v] [] [] [].        (* write_parent_info *)
Definition wT (v : N) : wr := mkwr [] [] [] [] [] [] [] [v] [] [].        (* write_type_ref *)
Definition wN (v : N) : wr := mkwr [] [] [] [] [] [] [] [] [v] [].        (* write_len *)
Definition wB (b : list N) : wr := mkwr [] [] [] [] [] [] [] [] [] b.     (* bytes appended to buf *)

Definition wr_concat (l : list wr) : wr := fold_right wr_app wr0 l.

Definition enc_left_id (i : id) : wr := wC (cl i) +++ wL (ck i).
Definition enc_right_id (i : id) : wr := wC (cl i) +++ wR (ck i).
(* write_key: the sequencer value goes to the key clock column, the key to the string column (always:
   key_table.get(key) is None because nothing is ever inserted) *)
Definition enc_key (seq : N) (k : list N) : wr := wK seq +++ wS k.

Definition enc_scope (s : scope) : wr :=
  match s with SRoot n => wS n | SNested i | SRelative i => wB (write_var_u64 (cl i) ++ write_var_u32 (ck i)) end.
Definition weak_info (w : weaklink) : N :=
  (if wl_single w then 0 else C_WEAK_REF_FLAGS_QUOTE)
  + (if scope_root (wl_start w) || scope_root (wl_end w) then C_WEAK_REF_FLAGS_PARENT_ROOT else 0)
  + (if scope_unbounded (wl_start w) then C_WEAK_REF_FLAGS_START_UNBOUNDED else 0)
  + (if scope_unbounded (wl_end w) then C_WEAK_REF_FLAGS_END_UNBOUNDED else 0)
  + (if wl_start_after w then C_WEAK_REF_FLAGS_START_ASSOC else 0)
  + (if wl_end_after w then C_WEAK_REF_FLAGS_END_ASSOC else 0).
Definition enc_weak_link (w : weaklink) : wr :=
  wT C_TYPE_REFS_WEAK +++ wB [weak_info w] +++ enc_scope (wl_start w) +++
  (match wl_end w with
   | SRelative i => if wl_single w then wr0 else enc_scope (SRelative i)
   | s => enc_scope s
   end).

(* the result carries the sequencer after the construct *)
Definition enc_tyref (seq : N) (t : tyref) : wr * N :=
  match t with
  | TArray => (wT C_TYPE_REFS_ARRAY, seq) | TMap => (wT C_TYPE_REFS_MAP, seq) | TText => (wT C_TYPE_REFS_TEXT, seq)
  | TXmlElement n => (wT C_TYPE_REFS_XML_ELEMENT +++ enc_key seq n, seq + 1)
  | TXmlFragment => (wT C_TYPE_REFS_XML_FRAGMENT, seq) | TXmlHook => (wT C_TYPE_REFS_XML_HOOK, seq)
  | TXmlText => (wT C_TYPE_REFS_XML_TEXT, seq) | TSubDoc => (wT C_TYPE_REFS_DOC, seq)
  | TWeak w => (enc_weak_link w, seq)
  | TUndefined => (wT C_TYPE_REFS_UNDEFINED, seq)
  end.

(* None = the encoder panics (an Any that cannot be written) *)
Definition enc_content (seq : N) (c : bcontent) : option (wr * N) :=
  match c with
  | BDeleted n => Some (wN n, seq)
  | BJson l => Some (wN (N.of_nat (length l)) +++ wr_concat (map wS l), seq)
  | BBinary b => Some (wB (write_buf b), seq)
  | BString s => Some (wS s, seq)
  | BEmbed j => Some (wB j, seq)
  | BFormat k j => Some (enc_key seq k +++ wB j, seq + 1)
  | BType t => Some (enc_tyref seq t)
  | BAny l => match encode_anys l with Some body => Some (wN (N.of_nat (length l)) +++ wB body, seq) | None => None end
  | BDoc g o => match encode_any o with Some body => Some (wS g +++ wB body, seq) | None => None end
  end.

(* Item::encode / Block::encode; None = panic (TypePtr::Unknown without origins, unencodable Any) *)
Definition enc_block (seq : N) (b : block) : option (wr * N) :=
  match b with
  | BSkip _ n => Some (wI C_BLOCK_SKIP_REF_NUMBER +++ wB (write_var_u32 n), seq)
  | BGC _ n => Some (wI C_BLOCK_GC_REF_NUMBER +++ wN n, seq)
  | BItem _ o ro p ps c =>
    let info := (match o with Some _ => C_HAS_ORIGIN | None => 0 end)
              + (match ro with Some _ => C_HAS_RIGHT_ORIGIN | None => 0 end)
              + (match ps with Some _ => C_HAS_PARENT_SUB | None => 0 end)
              + N.land (content_ref c) 15 in
    let cant_copy := match o, ro with None, None => true | _, _ => false end in
    let ids := (match o with Some i => enc_left_id i | None => wr0 end) +++
               (match ro with Some i => enc_right_id i | None => wr0 end) in
    let par := if cant_copy then
                 match p with
                 | PNamed n => Some (wP 1 +++ wS n +++ match ps with Some s => wS s | None => wr0 end)
                 | PId i => Some (wP 0 +++ enc_left_id i +++ match ps with Some s => wS s | None => wr0 end)
                 | PUnknown => None
                 end
               else Some wr0 in
    match par, enc_content seq c with
    | Some pb, Some (cb, seq') => Some (wI info +++ ids +++ pb +++ cb, seq')
    | _, _ => None
    end
  end.

Fixpoint enc_blocks (seq : N) (l : list block) : option (wr * N) :=
  match l with
  | [] => Some (wr0, seq)
  | b :: r =>
    match enc_block seq b with
    | Some (x, seq1) => match enc_blocks seq1 r with Some (y, seq2) => Some (x +++ y, seq2) | None => None end
    | None => None
    end
  end.

Fixpoint enc_clients (seq : N) (l : list (N * list block)) : option (wr * N) :=
  match l with
  | [] => Some (wr0, seq)
  | (c, bs) :: r =>
    match bs with
    | [] => enc_clients seq r
    | b0 :: _ =>
      match enc_blocks seq bs with
      | Some (x, seq1) =>
        match enc_clients seq1 r with
        | Some (y, seq2) =>
          Some (wB (write_var_usize (N.of_nat (length bs))) +++ wC c +++ wB (write_var_u32 (ck (block_id b0))) +++ x +++ y, seq2)
        | None => None
        end
      | None => None
      end
    end
  end.

(* delete set: write_ds_clock writes `clock - ds_curr_val`, write_ds_len writes `len - 1` (debug_assert len != 0)
   and advances ds_curr_val.  None = a u32 subtraction / addition overflows or the assertion fails. *)
Fixpoint enc_ranges (cur : N) (r : idrange) : option (list N) :=
  match r with
  | [] => Some []
  | x :: r' =>
    if (e_start x <? cur) || (e_end x <=? e_start x) || (two32 <=? e_end x) then None
    else match enc_ranges (e_end x) r' with
         | Some t => Some (write_var_u32 (e_start x - cur) ++ write_var_u32 (e_end x - e_start x - 1) ++ t)
         | None => None
         end
  end.
Fixpoint enc_idset_clients (s : idset) : option (list N) :=
  match s with
  | [] => Some []
  | (c, r) :: s' =>
    match enc_ranges 0 r, enc_idset_clients s' with
    | Some x, Some y => Some (write_var_u64 c ++ write_var_u32 (N.of_nat (length r)) ++ x ++ y)
    | _, _ => None
    end
  end.
Definition enc_idset (s : idset) : option (list N) :=
  match enc_idset_clients s with
  | Some body => Some (write_var_u32 (N.of_nat (length s)) ++ body)
  | None => None
  end.

(* EncoderV2::to_vec *)
Definition wr_to_bytes (w : wr) : option (list N) :=
  match uint_encode (w_client w), str_encode (w_string w), uint_encode (w_tyref w), uint_encode (w_len w) with
  | Some client, Some string, Some type_ref, Some len =>
    Some (0 :: write_buf (idiff_encode (w_keyclock w)) ++ write_buf client ++
          write_buf (idiff_encode (w_left w)) ++ write_buf (idiff_encode (w_right w)) ++
          write_buf (rle_encode (w_info w)) ++ write_buf string ++ write_buf (rle_encode (w_pinfo w)) ++
          write_buf type_ref ++ write_buf len ++ w_rest w)
  | _, _, _, _ => None
  end.

(* the column traces of an update; the caller passes clients in wire order (Update::encode: descending id) *)
Definition enc_update (u : update) : option wr :=
  let cs := nonempty_clients (u_blocks u) in
  match enc_clients 0 cs, enc_idset (u_ds u) with
  | Some (body, _), Some ds => Some (wB (write_var_usize (N.of_nat (length cs))) +++ body +++ wB ds)
  | _, _ => None
  end.

Definition encode_update_v2 (u : update) : option (list N) :=
  match enc_update u with Some w => wr_to_bytes w | None => None end.
