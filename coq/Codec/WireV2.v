(* lib0 v2 forms of IdSet (DeleteSet), StateVector, Snapshot and StickyIndex.

   Rust: `X::decode_v2(data)` (updates/decoder.rs, trait Decode) is
       let mut decoder = DecoderV2::new(Cursor::new(data))?;  X::decode(&mut decoder)
   and `x.encode_v2()` (updates/encoder.rs, trait Encode) is
       let mut encoder = EncoderV2::new();  x.encode(&mut encoder);  encoder.to_vec()
   for every X, however small: the bytes carry the feature flag and the nine length-prefixed column buffers of a v2
   update, and then the "rest" buffer.  DecoderV2::new is UpdateV2.new_decoder, EncoderV2::to_vec is
   UpdateV2.wr_to_bytes over the column traces [wr].

   Where each trait call goes under v2 (decoder.rs `impl Decoder for DecoderV2`, `impl Read for DecoderV2`;
   encoder.rs `impl Encoder for EncoderV2`, `impl Write for EncoderV2`):
     read_var::<T> / write_var       default methods of Read / Write over read_u8 / write_u8: the REST cursor / `buf`
     read_client_id                  default method of Read: read_var::<u64> on the rest cursor + ClientID::try_new
     read_ds_clock / read_ds_len     rest cursor, differences against the running ds_curr_val (UpdateV2.rd_ds_clock,
                                     rd_ds_len); reset_ds_cur_val sets it to 0 (UpdateV2.reset_ds)
     read_string / write_string      overridden: the STRING column (UpdateV2.rd_string / wS)
   None of the four types touches the other eight columns: they are written empty (one 0 byte each) and the string
   column of a value without strings is the two bytes [1; 0] (an empty string buffer, no lengths).

   In-memory values are those of the v1 model: Codec/IdSetCodec.v [idset], [sv], the pair for snapshots;
   Codec/Messages.v (scope, assoc) with assoc = true for Assoc::After. *)
From Coq Require Import List NArith ZArith Bool.
From YV Require Import Gen.Consts Lib.Bytes Codec.Varint Codec.IdSetCodec Codec.UpdateV1 Codec.Messages Ids.Ranges.
From YV Require Import Codec.V2Cols Codec.UpdateV2.
Import ListNotations.
Open Scope N_scope.

(* ================================================================================================ *)
(* X::decode_v2 / x.encode_v2() around a body                                                        *)
(* ================================================================================================ *)

(* Decode::decode_v2: the `rest` of the result is what is left on the rest cursor (decode_v2 itself drops it) *)
Definition w2_run {A} (dec : dec2 -> r2 A) (bs : list N) : res A :=
  match (let+ (_, d) := new_decoder bs in dec d) with
  | R2Ok a d => Ok a (d_rest d)
  | R2Err e => Err e
  | R2Panic s => Panic s
  | R2Fuel => Fuel
  end.

(* Encode::encode_v2 over the column traces of the body; None = the encoder panics *)
Definition w2_finish (o : option wr) : option (list N) :=
  match o with Some w => wr_to_bytes w | None => None end.
Definition w2_bytes (o : option (list N)) : list N := match o with Some b => b | None => [] end.

(* what to_vec puts in front of `rest` when nothing was written to any column: the feature flag, five empty
   columns, the string column (empty string buffer, no lengths), three empty columns *)
Definition w2_header : list N := [0; 0; 0; 0; 0; 0; 1; 0; 0; 0; 0].

(* ================================================================================================ *)
(* IdSet (id_set.rs: impl Encode / Decode for IdSet, IdRanges<()>, Range<u32>)                       *)
(* ================================================================================================ *)

(* the generic code over the v2 methods is the delete set of an update: UpdateV2.dec_idset (dec_idset_step:
   reset_ds_cur_val, read_client_id, IdRange::decode; dec_range: read_ds_clock, read_ds_len, checked_add) and
   UpdateV2.enc_idset (write_var(len as u32), per client reset_ds_cur_val + write_var(client) + ranges with
   write_ds_clock = clock - ds_curr_val and write_ds_len = len - 1; None = a u32 `-` / `+` overflows or the
   debug_assert!(len != 0) fails, which needs a range list that is not canonical) *)
Definition w2_dec_idset : dec2 -> r2 idset := dec_idset.
Definition w2_enc_idset (s : idset) : option wr :=
  match enc_idset s with Some b => Some (wB b) | None => None end.

Definition w2_decode_idset (bs : list N) : res idset := w2_run w2_dec_idset bs.
Definition w2_encode_idset_opt (s : idset) : option (list N) := w2_finish (w2_enc_idset s).
Definition w2_encode_idset (s : idset) : list N := w2_bytes (w2_encode_idset_opt s).

(* ================================================================================================ *)
(* StateVector (state_vector.rs)                                                                     *)
(* ================================================================================================ *)

(* let len = decoder.read_var::<u32>()? as usize; while i < len { read_client_id()?; read_var()?; sv.insert } *)
Definition w2_dec_sv_step (acc : sv) (d : dec2) : r2 sv :=
  let+ (c, d1) := rd_client_id_rest d in
  let+ (k, d2) := rd_var_u32 d1 in
  R2Ok (sv_set acc c k) d2.
Definition w2_dec_sv (d : dec2) : r2 sv :=
  let+ (n, d1) := rd_var_u32 d in iter2 n w2_dec_sv_step [] d1.
(* encoder.write_var(self.len()) [usize]; for each entry write_var(client.get()) [u64], write_var(clock) [u32]:
   all on `buf`, i.e. the bytes of the v1 form *)
Definition w2_enc_sv (s : sv) : wr :=
  wB (write_var_usize (N.of_nat (length s)) ++ flat_map (fun ck => write_var_u64 (fst ck) ++ write_var_u32 (snd ck)) s).

Definition w2_decode_sv (bs : list N) : res sv := w2_run w2_dec_sv bs.
Definition w2_encode_sv_opt (s : sv) : option (list N) := w2_finish (Some (w2_enc_sv s)).
Definition w2_encode_sv (s : sv) : list N := w2_bytes (w2_encode_sv_opt s).

(* ================================================================================================ *)
(* Snapshot (state_vector.rs): delete set, then state vector, through the same decoder / encoder     *)
(* ================================================================================================ *)

Definition w2_dec_snapshot (d : dec2) : r2 (idset * sv) :=
  let+ (ds, d1) := w2_dec_idset d in
  let+ (s, d2) := w2_dec_sv d1 in
  R2Ok (ds, s) d2.
Definition w2_enc_snapshot (x : idset * sv) : option wr :=
  match w2_enc_idset (fst x) with Some w => Some (w +++ w2_enc_sv (snd x)) | None => None end.

Definition w2_decode_snapshot (bs : list N) : res (idset * sv) := w2_run w2_dec_snapshot bs.
Definition w2_encode_snapshot_opt (x : idset * sv) : option (list N) := w2_finish (w2_enc_snapshot x).
Definition w2_encode_snapshot (x : idset * sv) : list N := w2_bytes (w2_encode_snapshot_opt x).

(* ================================================================================================ *)
(* StickyIndex = IndexScope + Assoc (sticky_index.rs)                                                *)
(* ================================================================================================ *)

(* let tag: u8 = decoder.read_var()?;  0 / 2: read_client_id, read_var (clock);  1: read_string -- the string
   column under v2 *)
Definition w2_dec_index_scope (d : dec2) : r2 scope :=
  let+ (tag, d0) := on_rest read_var_u8 d in
  if tag =? 0 then r2_map SRelative (dec_scope_id d0)
  else if tag =? 1 then r2_map SRoot (rd_string d0)
  else if tag =? 2 then r2_map SNested (dec_scope_id d0)
  else R2Err UnexpectedValue.
(* let tag: i8 = decoder.read_var()?; tag >= 0 -> After *)
Definition w2_dec_assoc : dec2 -> r2 bool := on_rest decode_assoc.
Definition w2_dec_sticky (d : dec2) : r2 (scope * bool) :=
  let+ (s, d1) := w2_dec_index_scope d in
  let+ (a, d2) := w2_dec_assoc d1 in
  R2Ok (s, a) d2.

(* encoder.write_var(0) / (1) / (2): the literal is an i32, written as a signed var-int (one byte, the value) *)
Definition w2_tag (t : Z) : list N := write_var_i64_bytes t.
Definition w2_enc_index_scope (s : scope) : wr :=
  match s with
  | SRelative i => wB (w2_tag 0) +++ wB (write_var_u64 (cl i) ++ write_var_u32 (ck i))
  | SNested i => wB (w2_tag 2) +++ wB (write_var_u64 (cl i) ++ write_var_u32 (ck i))
  | SRoot n => wB (w2_tag 1) +++ wS n
  end.
Definition w2_enc_sticky (x : scope * bool) : wr := w2_enc_index_scope (fst x) +++ wB (encode_assoc (snd x)).

Definition w2_decode_sticky (bs : list N) : res (scope * bool) := w2_run w2_dec_sticky bs.
Definition w2_encode_sticky_opt (x : scope * bool) : option (list N) := w2_finish (Some (w2_enc_sticky x)).
Definition w2_encode_sticky (x : scope * bool) : list N := w2_bytes (w2_encode_sticky_opt x).
