(* lib0 v1 wire format of the attributed id map: yrs/src/id_map.rs
     impl Encode for IdMap<A>   (the encoder numbers attributions / names in order of first use)
     impl Decode for IdMap<A>   (two growing tables, per client normalisation through IdRanges::insert_with)
   with A = String (the attribution value travels as a lib0 Any; serde turns a String into Any::String and
   accepts nothing but Any::String back).

   The value.  An IdMap<A> is a BTreeMap client -> IdRanges<ContentAttributes<A>>; a ContentAttribute<A> is an
   Arc<(name, value)>.  Two things are observable about the attributes of a range:
     - their content (name, value): `==` on ContentAttribute compares the content (Arc<T: Eq> compares by
       pointer first, then by value), and this is the equality IdRanges::insert_with coalesces / merges with;
     - their identity (the Arc pointer): the encoder writes an attribution once per *object*, so two equal
       but distinct objects are written twice.
   The model names the objects: a value is an attribution table (one entry per object: name, value) and, per
   client in ascending order, the ranges with a list of indices into the table.  Two table entries with the
   same content are two equal-but-distinct objects.  Which index an object has is not observable in Rust; the
   normal form is "indices in order of first use, every entry used" (idm_first_use in IdMapProofs.v), and this
   is what the decoder produces from what the encoder wrote.

   The encoder is a function of any value: like the Rust it keeps the objects it has seen (here: the list of
   their table indices, the position in the list being the number on the wire) and the names it has seen
   (compared as strings), so it renumbers a value that is not in normal form exactly as yrs does; idm_canon is
   the same pass producing the renumbered value (what decoding the encoding gives: idm_roundtrip_gen).

   Rust head 7f9cd1e: `==` on ContentAttributes is "same length and each list included in the other".        *)
From Coq Require Import List NArith ZArith Bool.
From YV Require Import Gen.Consts Lib.Bytes Codec.Varint Codec.AnyCodec Codec.IdSetCodec Ids.Ranges.
Import ListNotations.
Open Scope N_scope.

(* ---- the value ---- *)
Definition idm_attr : Type := (list N * any)%type.                (* name (UTF-8 bytes), value (to_any) *)
Definition idm_table : Type := list idm_attr.
Definition idm_clients : Type := idmap attrs.                     (* = list (client * list (start * end * list index)) *)
Definition idm_value : Type := (idm_table * idm_clients)%type.

(* Vec::get with an index read from the wire (usize): no conversion of a huge number to nat *)
Definition idm_nth {A} (l : list A) (i : N) : option A :=
  if i <? N.of_nat (length l) then nth_error l (N.to_nat i) else None.

(* ---- equality and merge of attribute lists (ContentAttributes<A>), relative to a table ---- *)
Fixpoint idm_bytes_eqb (a b : list N) : bool :=
  match a, b with
  | [], [] => true
  | x :: a', y :: b' => (x =? y) && idm_bytes_eqb a' b'
  | _, _ => false
  end.
(* A = String: String == String.  (Other Any values do not occur: from_any::<String> rejects them.) *)
Definition idm_val_eqb (a b : any) : bool :=
  match a, b with AString s, AString t => idm_bytes_eqb s t | _, _ => false end.
Definition idm_def_eqb (p q : idm_attr) : bool := idm_bytes_eqb (fst p) (fst q) && idm_val_eqb (snd p) (snd q).
(* ContentAttribute == ContentAttribute: by content; an index outside the table only equals itself *)
Definition idm_attr_eqb (tbl : idm_table) (x y : N) : bool :=
  match idm_nth tbl x, idm_nth tbl y with
  | Some p, Some q => idm_def_eqb p q
  | _, _ => x =? y
  end.
Definition idm_mem (tbl : idm_table) (x : N) (l : attrs) : bool := existsb (fun y => idm_attr_eqb tbl y x) l.
(* PartialEq for ContentAttributes (as repaired in 7f9cd1e): same length, every element of self is in other and
   every element of other is in self (a list may name an attribute twice, so one inclusion is not enough) *)
Definition idm_attrs_eq (tbl : idm_table) (a b : attrs) : bool :=
  Nat.eqb (length a) (length b) && forallb (fun x => idm_mem tbl x b) a && forallb (fun x => idm_mem tbl x a) b.
(* Merge::merge: push the attributes of other that self does not contain *)
Definition idm_attrs_merge (tbl : idm_table) (a b : attrs) : attrs :=
  fold_left (fun acc x => if idm_mem tbl x acc then acc else acc ++ [x]) b a.

(* ---- encoder ---- *)
(* position of the first element satisfying p: HashMap lookup in a map whose values are 0, 1, 2 ... in
   insertion order *)
Fixpoint idm_find {A} (p : A -> bool) (l : list A) (i : N) : option N :=
  match l with
  | [] => None
  | x :: r => if p x then Some i else idm_find p r (i + 1)
  end.
(* `x as u32` *)
Definition idm_u32 (x : N) : N := x mod two32.
(* encoder.write_any(&to_any(value).unwrap()): for a String this is Any::String, which always encodes *)
Definition idm_enc_value (v : any) : list N := match encode_any v with Some bs => bs | None => [] end.

(* visited_attributions (table indices, position = attr id), visited_attr_names (position = name id) *)
Definition idm_estate : Type := (list N * list (list N))%type.

Definition idm_enc_attr (tbl : idm_table) (st : idm_estate) (a : N) : idm_estate * list N :=
  let '(vis, names) := st in
  match idm_find (N.eqb a) vis 0 with
  | Some attr_id => (st, write_var_u32 (idm_u32 attr_id))
  | None =>
    let new_attr_id := N.of_nat (length vis) in
    let '(name, value) := match idm_nth tbl a with Some d => d | None => ([], AUndefined) end in
    let '(names', name_bytes) :=
      match idm_find (idm_bytes_eqb name) names 0 with
      | Some name_id => (names, write_var_u32 (idm_u32 name_id))
      | None => (names ++ [name], write_var_u32 (idm_u32 (N.of_nat (length names))) ++ write_string name)
      end in
    ((vis ++ [a], names'), write_var_u32 (idm_u32 new_attr_id) ++ name_bytes ++ idm_enc_value value)
  end.

Fixpoint idm_enc_attrs (tbl : idm_table) (st : idm_estate) (l : attrs) : idm_estate * list N :=
  match l with
  | [] => (st, [])
  | a :: r =>
    let '(st1, o1) := idm_enc_attr tbl st a in
    let '(st2, o2) := idm_enc_attrs tbl st1 r in
    (st2, o1 ++ o2)
  end.

(* write_ds_clock(start); write_ds_len(end - start); write_var(attrs.len() as u32); the attributes *)
Definition idm_enc_range (tbl : idm_table) (st : idm_estate) (x : entry attrs) : idm_estate * list N :=
  let '(st', o) := idm_enc_attrs tbl st (e_val x) in
  (st', write_var_u32 (e_start x) ++ write_var_u32 (e_end x - e_start x)
        ++ write_var_u32 (idm_u32 (N.of_nat (length (e_val x)))) ++ o).

Fixpoint idm_enc_ranges (tbl : idm_table) (st : idm_estate) (l : ranges attrs) : idm_estate * list N :=
  match l with
  | [] => (st, [])
  | x :: r =>
    let '(st1, o1) := idm_enc_range tbl st x in
    let '(st2, o2) := idm_enc_ranges tbl st1 r in
    (st2, o1 ++ o2)
  end.

(* write_var(client - last_written_client_id: u64); write_var(ranges.len() as u32); the ranges *)
Fixpoint idm_enc_clients (tbl : idm_table) (st : idm_estate) (last : N) (l : idm_clients) : idm_estate * list N :=
  match l with
  | [] => (st, [])
  | (c, rs) :: r =>
    let '(st1, o1) := idm_enc_ranges tbl st rs in
    let '(st2, o2) := idm_enc_clients tbl st1 c r in
    (st2, write_var_u64 (c - last) ++ write_var_u32 (idm_u32 (N.of_nat (length rs))) ++ o1 ++ o2)
  end.

Definition idm_encode_v1 (v : idm_value) : list N :=
  write_var_u32 (idm_u32 (N.of_nat (length (snd v)))) ++ snd (idm_enc_clients (fst v) ([], []) 0 (snd v)).

(* ---- decoder ---- *)
(* from_any::<String>: AnyDeserializer::deserialize_string gives Error::TypeMismatch("alloc::string::String")
   for everything but Any::String.  Lib/Bytes.err has no TypeMismatch constructor: the kind the development
   keeps for "other" errors is used (one definition to change when a constructor is added). *)
Definition idm_E_TYPE_MISMATCH : err := Custom.
Definition idm_from_any (a : any) (rest : list N) : res any :=
  match a with AString _ => Ok a rest | _ => Err idm_E_TYPE_MISMATCH end.

(* visited_attributions, visited_attr_names *)
Definition idm_dstate : Type := (idm_table * list (list N))%type.

(* one iteration of `for _ in 0..attrs_len` *)
Definition idm_dec_attr (fuel : nat) (st : idm_dstate) (bs : list N) : res (idm_dstate * N) :=
  let '(tbl, names) := st in
  let* (attr_id, r1) := read_var_usize bs in
  let* (st', r2) :=
    (if N.of_nat (length tbl) <=? attr_id then
       let* (attr_name_id, r2) := read_var_usize r1 in
       let* (names', r3) :=
         (if N.of_nat (length names) <=? attr_name_id then
            let* (name, r3) := read_string r2 in Ok (names ++ [name]) r3
          else Ok names r2) in
       let* (a, r4) := decode_any fuel r3 in
       let* (value, r5) := idm_from_any a r4 in
       match idm_nth names' attr_name_id with
       | Some name => Ok (tbl ++ [(name, value)], names') r5
       | None => Err UnexpectedValue
       end
     else Ok st r1) in
  match idm_nth (fst st') attr_id with
  | Some _ => Ok (st', attr_id) r2
  | None => Err UnexpectedValue
  end.

Fixpoint idm_dec_attrs (fuel : nat) (n : N) (st : idm_dstate) (bs : list N) (acc : attrs)
  : res (idm_dstate * attrs) :=
  if n =? 0 then Ok (st, rev acc) bs else
  match fuel with
  | O => Fuel
  | S f =>
    let* (x, rest) := idm_dec_attr fuel st bs in
    idm_dec_attrs f (n - 1) (fst x) rest (snd x :: acc)
  end.

(* one iteration of `for _ in 0..num_ranges`: the sum is checked after the attributes have been read *)
Definition idm_dec_range (fuel : nat) (st : idm_dstate) (bs : list N) : res (idm_dstate * entry attrs) :=
  let* (range_clock, r1) := read_var_u32 bs in
  let* (range_len, r2) := read_var_u32 r1 in
  let* (attrs_len, r3) := read_var_u32 r2 in
  let* (x, r4) := idm_dec_attrs fuel attrs_len st r3 [] in
  match add32_checked range_clock range_len with
  | Some range_end => Ok (fst x, (range_clock, range_end, snd x)) r4
  | None => Err UnexpectedValue
  end.

Fixpoint idm_dec_ranges (fuel : nat) (n : N) (st : idm_dstate) (bs : list N) (acc : ranges attrs)
  : res (idm_dstate * ranges attrs) :=
  if n =? 0 then Ok (st, rev acc) bs else
  match fuel with
  | O => Fuel
  | S f =>
    let* (x, rest) := idm_dec_range f st bs in
    idm_dec_ranges f (n - 1) (fst x) rest (snd x :: acc)
  end.

(* `for (range, attrs) in entries { ranges.insert_with(range, attrs) }`: equality / merge of attribute lists
   look at the attributions decoded so far.  None is an index panic inside insert_with (never: idm_normalize_some) *)
Definition idm_norm_step (tbl : idm_table) (acc : option (ranges attrs)) (x : entry attrs) : option (ranges attrs) :=
  match acc with
  | Some a => insert_with (idm_attrs_eq tbl) (idm_attrs_merge tbl) a (e_start x) (e_end x) (e_val x)
  | None => None
  end.
Definition idm_normalize (tbl : idm_table) (raw : ranges attrs) : option (ranges attrs) :=
  fold_left (idm_norm_step tbl) raw (Some []).

(* last_client_id.checked_add(diff) on u64 *)
Definition idm_add64_checked (a b : N) : option N := let s := a + b in if s <? two64 then Some s else None.

(* `for _ in 0..num_clients`; acc is id_map.inner (BTreeMap::insert replaces an existing entry) *)
Fixpoint idm_dec_clients (fuel : nat) (n : N) (st : idm_dstate) (last : N) (bs : list N) (acc : idm_clients)
  : res (idm_dstate * idm_clients) :=
  if n =? 0 then Ok (st, acc) bs else
  match fuel with
  | O => Fuel
  | S f =>
    let* (diff, r1) := read_var_u64 bs in
    match idm_add64_checked last diff with
    | None => Err UnexpectedValue
    | Some client =>
      let* (num_ranges, r2) := read_var_u32 r1 in
      let* (x, r3) := idm_dec_ranges f num_ranges st r2 [] in
      let* (c, r4) := client_id_new client r3 in
      match idm_normalize (fst (fst x)) (snd x) with
      | None => Panic P_INDEX
      | Some rs =>
        idm_dec_clients f (n - 1) (fst x) client r4 (match rs with [] => acc | _ => im_set acc c rs end)
      end
    end
  end.

(* the decoded value: visited_attributions (in wire order) and the map.  The Rust also adds every decoded
   attribution to the de-duplication cache IdMap::attrs, which neither `==` nor the encoder look at. *)
Definition idm_decode_v1 (fuel : nat) (bs : list N) : res idm_value :=
  let* (num_clients, r1) := read_var_u32 bs in
  let* (x, r2) := idm_dec_clients fuel num_clients ([], []) 0 r1 [] in
  Ok (fst (fst x), snd x) r2.

(* ---- the normal form: attributions numbered in order of first use, unused table entries dropped ----
   (the same pass as the encoder, producing the renumbered map instead of bytes; idm_roundtrip_gen: this is what
   decoding the encoding of a value gives) *)
Definition idm_rn_attr (vis : list N) (a : N) : list N * N :=
  match idm_find (N.eqb a) vis 0 with
  | Some i => (vis, i)
  | None => (vis ++ [a], N.of_nat (length vis))
  end.
Fixpoint idm_rn_attrs (vis : list N) (l : attrs) : list N * attrs :=
  match l with
  | [] => (vis, [])
  | a :: r =>
    let '(vis1, a') := idm_rn_attr vis a in
    let '(vis2, r') := idm_rn_attrs vis1 r in
    (vis2, a' :: r')
  end.
Fixpoint idm_rn_ranges (vis : list N) (l : ranges attrs) : list N * ranges attrs :=
  match l with
  | [] => (vis, [])
  | x :: r =>
    let '(vis1, v') := idm_rn_attrs vis (e_val x) in
    let '(vis2, r') := idm_rn_ranges vis1 r in
    (vis2, (e_start x, e_end x, v') :: r')
  end.
Fixpoint idm_rn_clients (vis : list N) (l : idm_clients) : list N * idm_clients :=
  match l with
  | [] => (vis, [])
  | (c, rs) :: r =>
    let '(vis1, rs') := idm_rn_ranges vis rs in
    let '(vis2, r') := idm_rn_clients vis1 r in
    (vis2, (c, rs') :: r')
  end.
Definition idm_sel (tbl : idm_table) (vis : list N) : idm_table :=
  map (fun a => match idm_nth tbl a with Some d => d | None => ([], AUndefined) end) vis.
Definition idm_canon (v : idm_value) : idm_value :=
  let '(vis, cs) := idm_rn_clients [] (snd v) in (idm_sel (fst v) vis, cs).

(* ---- index free view (what IdMap::iter shows): per client the ranges with the content of their attributes ---- *)
Definition idm_resolve (v : idm_value) : list (N * list (N * N * list (option idm_attr))) :=
  map (fun cr => (fst cr, map (fun x => (e_start x, e_end x, map (idm_nth (fst v)) (e_val x))) (snd cr))) (snd v).
