(* Totality, fuel sufficiency and round trip for the lib0 `Any` codec model (Codec/AnyCodec.v). *)
From Coq Require Import List NArith ZArith Bool Lia ZifyBool ZifyN ZifyNat.
From YV Require Import Gen.Consts Lib.Bytes Codec.Varint Codec.AnyCodec Codec.VarintProofs.
Import ListNotations.
Open Scope N_scope.
Ltac Zify.zify_post_hook ::= Z.div_mod_to_equations.

(* ------------------------------------------------------------------------------------------------ *)
(* named versions of the local fixpoints of encode_any / decode_any and unfolding equations         *)
(* ------------------------------------------------------------------------------------------------ *)

Section Loops.
  Variable dec : list N -> res any.

  Fixpoint dec_entries (k : nat) (n : N) (bs : list N) (acc : list (list N * any)) {struct k} : res any :=
    if n =? 0 then Ok (AMap (rev acc)) bs else
    match k with
    | O => Fuel
    | S k' =>
      let* (key, r1) := read_string bs in
      let* (v, r2) := dec r1 in
      dec_entries k' (n - 1) r2 ((key, v) :: acc)
    end.

  Fixpoint dec_elems (k : nat) (n : N) (bs : list N) (acc : list any) {struct k} : res any :=
    if n =? 0 then Ok (AArray (rev acc)) bs else
    match k with
    | O => Fuel
    | S k' =>
      let* (v, r2) := dec bs in
      dec_elems k' (n - 1) r2 (v :: acc)
    end.

  Lemma dec_entries_eq : forall k n bs acc,
    dec_entries k n bs acc =
    if n =? 0 then Ok (AMap (rev acc)) bs else
    match k with
    | O => Fuel
    | S k' =>
      let* (key, r1) := read_string bs in
      let* (v, r2) := dec r1 in
      dec_entries k' (n - 1) r2 ((key, v) :: acc)
    end.
  Proof. destruct k; reflexivity. Qed.

  Lemma dec_elems_eq : forall k n bs acc,
    dec_elems k n bs acc =
    if n =? 0 then Ok (AArray (rev acc)) bs else
    match k with
    | O => Fuel
    | S k' =>
      let* (v, r2) := dec bs in
      dec_elems k' (n - 1) r2 (v :: acc)
    end.
  Proof. destruct k; reflexivity. Qed.
End Loops.

Section EncLoops.
  Variable enc : any -> option (list N).
  Fixpoint enc_list (l : list any) : option (list N) :=
    match l with
    | [] => Some []
    | x :: r => match enc x, enc_list r with Some a, Some b => Some (a ++ b) | _, _ => None end
    end.
  Fixpoint enc_map (l : list (list N * any)) : option (list N) :=
    match l with
    | [] => Some []
    | (k, x) :: r => match enc x, enc_map r with Some a, Some b => Some (write_string k ++ a ++ b) | _, _ => None end
    end.
End EncLoops.

Lemma encode_any_array : forall l,
  encode_any (AArray l) =
  match enc_list encode_any l with
  | Some body => Some (ANY_ENC_ARRAY :: write_var_usize (N.of_nat (length l)) ++ body)
  | None => None
  end.
Proof. reflexivity. Qed.

Lemma encode_any_map : forall l,
  encode_any (AMap l) =
  match enc_map encode_any l with
  | Some body => Some (ANY_ENC_MAP :: write_var_usize (N.of_nat (length l)) ++ body)
  | None => None
  end.
Proof. reflexivity. Qed.

Lemma decode_any_at_S : forall f d bs,
  decode_any_at (S f) d bs =
  if ANY_MAX_DEPTH <? d then Err UnexpectedValue else
  let* (tag, rest) := read_u8 bs in
  if tag =? ANY_DEC_UNDEFINED then Ok AUndefined rest
  else if tag =? ANY_DEC_NULL then Ok ANull rest
  else if tag =? ANY_DEC_INT then rmap AInt (read_var_i64 rest)
  else if tag =? ANY_DEC_F32 then rmap (fun b => AF32 (be_value b 0)) (read_exact 4 rest)
  else if tag =? ANY_DEC_F64 then rmap (fun b => AF64 (be_value b 0)) (read_exact 8 rest)
  else if tag =? ANY_DEC_BIGINT then rmap (fun b => ABigInt (be_value b 0)) (read_exact 8 rest)
  else if tag =? ANY_DEC_FALSE then Ok (ABool false) rest
  else if tag =? ANY_DEC_TRUE then Ok (ABool true) rest
  else if tag =? ANY_DEC_STRING then rmap AString (read_string rest)
  else if tag =? ANY_DEC_MAP then
    let* (len, rest1) := read_var_usize rest in dec_entries (decode_any_at f (d + 1)) f len rest1 []
  else if tag =? ANY_DEC_ARRAY then
    let* (len, rest1) := read_var_usize rest in dec_elems (decode_any_at f (d + 1)) f len rest1 []
  else if tag =? ANY_DEC_BUFFER then rmap ABuffer (read_buf rest)
  else Err UnexpectedValue.
Proof. reflexivity. Qed.

Lemma decode_any_eq : forall fuel bs, decode_any fuel bs = decode_any_at fuel 0 bs.
Proof. reflexivity. Qed.

(* ------------------------------------------------------------------------------------------------ *)
(* the generated tags: encoder and decoder agree and the decoder tags are pairwise distinct.        *)
(* If the Rust source changes one of them, the build breaks here (intended).                        *)
(* ------------------------------------------------------------------------------------------------ *)

Theorem any_tags_agree :
  ANY_ENC_UNDEFINED = ANY_DEC_UNDEFINED /\ ANY_ENC_NULL = ANY_DEC_NULL /\
  ANY_ENC_TRUE = ANY_DEC_TRUE /\ ANY_ENC_FALSE = ANY_DEC_FALSE /\
  ANY_ENC_STRING = ANY_DEC_STRING /\ ANY_ENC_INT = ANY_DEC_INT /\
  ANY_ENC_F32 = ANY_DEC_F32 /\ ANY_ENC_F64 = ANY_DEC_F64 /\ ANY_ENC_BIGINT = ANY_DEC_BIGINT /\
  ANY_ENC_ARRAY = ANY_DEC_ARRAY /\ ANY_ENC_MAP = ANY_DEC_MAP /\ ANY_ENC_BUFFER = ANY_DEC_BUFFER.
Proof. repeat split; reflexivity. Qed.

Definition any_dec_tags : list N :=
  [ANY_DEC_UNDEFINED; ANY_DEC_NULL; ANY_DEC_INT; ANY_DEC_F32; ANY_DEC_F64; ANY_DEC_BIGINT;
   ANY_DEC_FALSE; ANY_DEC_TRUE; ANY_DEC_STRING; ANY_DEC_MAP; ANY_DEC_ARRAY; ANY_DEC_BUFFER].

Theorem any_tags_distinct : NoDup any_dec_tags.
Proof.
  unfold any_dec_tags.
  repeat (constructor; [cbn [In]; intro H; repeat (destruct H as [H|H]; [discriminate H|]); exact H|]).
  constructor.
Qed.

Theorem any_tags_bytes : bytes_ok any_dec_tags = true.
Proof. reflexivity. Qed.

(* the decoder on each encoder tag, below the depth limit: closed computations on the generated constants *)
Lemma dec_tag_undefined : forall f d rest, (ANY_MAX_DEPTH <? d) = false ->
  decode_any_at (S f) d (ANY_ENC_UNDEFINED :: rest) = Ok AUndefined rest.
Proof. intros f d rest Hd. rewrite decode_any_at_S, Hd. reflexivity. Qed.
Lemma dec_tag_null : forall f d rest, (ANY_MAX_DEPTH <? d) = false ->
  decode_any_at (S f) d (ANY_ENC_NULL :: rest) = Ok ANull rest.
Proof. intros f d rest Hd. rewrite decode_any_at_S, Hd. reflexivity. Qed.
Lemma dec_tag_true : forall f d rest, (ANY_MAX_DEPTH <? d) = false ->
  decode_any_at (S f) d (ANY_ENC_TRUE :: rest) = Ok (ABool true) rest.
Proof. intros f d rest Hd. rewrite decode_any_at_S, Hd. reflexivity. Qed.
Lemma dec_tag_false : forall f d rest, (ANY_MAX_DEPTH <? d) = false ->
  decode_any_at (S f) d (ANY_ENC_FALSE :: rest) = Ok (ABool false) rest.
Proof. intros f d rest Hd. rewrite decode_any_at_S, Hd. reflexivity. Qed.
Lemma dec_tag_int : forall f d rest, (ANY_MAX_DEPTH <? d) = false ->
  decode_any_at (S f) d (ANY_ENC_INT :: rest) = rmap AInt (read_var_i64 rest).
Proof. intros f d rest Hd. rewrite decode_any_at_S, Hd. reflexivity. Qed.
Lemma dec_tag_f32 : forall f d rest, (ANY_MAX_DEPTH <? d) = false ->
  decode_any_at (S f) d (ANY_ENC_F32 :: rest) = rmap (fun b => AF32 (be_value b 0)) (read_exact 4 rest).
Proof. intros f d rest Hd. rewrite decode_any_at_S, Hd. reflexivity. Qed.
Lemma dec_tag_f64 : forall f d rest, (ANY_MAX_DEPTH <? d) = false ->
  decode_any_at (S f) d (ANY_ENC_F64 :: rest) = rmap (fun b => AF64 (be_value b 0)) (read_exact 8 rest).
Proof. intros f d rest Hd. rewrite decode_any_at_S, Hd. reflexivity. Qed.
Lemma dec_tag_bigint : forall f d rest, (ANY_MAX_DEPTH <? d) = false ->
  decode_any_at (S f) d (ANY_ENC_BIGINT :: rest) = rmap (fun b => ABigInt (be_value b 0)) (read_exact 8 rest).
Proof. intros f d rest Hd. rewrite decode_any_at_S, Hd. reflexivity. Qed.
Lemma dec_tag_string : forall f d rest, (ANY_MAX_DEPTH <? d) = false ->
  decode_any_at (S f) d (ANY_ENC_STRING :: rest) = rmap AString (read_string rest).
Proof. intros f d rest Hd. rewrite decode_any_at_S, Hd. reflexivity. Qed.
Lemma dec_tag_buffer : forall f d rest, (ANY_MAX_DEPTH <? d) = false ->
  decode_any_at (S f) d (ANY_ENC_BUFFER :: rest) = rmap ABuffer (read_buf rest).
Proof. intros f d rest Hd. rewrite decode_any_at_S, Hd. reflexivity. Qed.
Lemma dec_tag_array : forall f d rest, (ANY_MAX_DEPTH <? d) = false ->
  decode_any_at (S f) d (ANY_ENC_ARRAY :: rest) = (let* (len, rest1) := read_var_usize rest in dec_elems (decode_any_at f (d + 1)) f len rest1 []).
Proof. intros f d rest Hd. rewrite decode_any_at_S, Hd. reflexivity. Qed.
Lemma dec_tag_map : forall f d rest, (ANY_MAX_DEPTH <? d) = false ->
  decode_any_at (S f) d (ANY_ENC_MAP :: rest) = (let* (len, rest1) := read_var_usize rest in dec_entries (decode_any_at f (d + 1)) f len rest1 []).
Proof. intros f d rest Hd. rewrite decode_any_at_S, Hd. reflexivity. Qed.

(* beyond the limit everything is rejected before a byte is read *)
Lemma decode_any_at_too_deep : forall f d bs, ANY_MAX_DEPTH < d -> decode_any_at (S f) d bs = Err UnexpectedValue.
Proof. intros f d bs Hd. rewrite decode_any_at_S. replace (ANY_MAX_DEPTH <? d) with true by lia. reflexivity. Qed.

(* ------------------------------------------------------------------------------------------------ *)
(* totality: decode_any never panics (the signed varint reader wraps, strings are validated)        *)
(* ------------------------------------------------------------------------------------------------ *)

Definition okp {A} (r : res A) : Prop :=
  match r with Panic _ => False | _ => True end.

Lemma okp_bind : forall A B (r : res A) (f : A -> list N -> res B),
  okp r -> (forall a rest, okp (f a rest)) -> okp (bind r f).
Proof. intros A B r f Hr Hf. destruct r; cbn [bind]; auto. Qed.

Lemma okp_rmap : forall A B (g : A -> B) (r : res A), okp r -> okp (rmap g r).
Proof. intros A B g r Hr. unfold rmap. apply okp_bind; [exact Hr|]. intros; exact I. Qed.

Lemma okp_of_total : forall A (r : res A),
  match r with Panic _ | Fuel => False | _ => True end -> okp r.
Proof. intros A r H. destruct r; cbn; auto. Qed.

Lemma dec_entries_okp : forall dec, (forall bs, okp (dec bs)) ->
  forall k n bs acc, okp (dec_entries dec k n bs acc).
Proof.
  intros dec Hd. induction k as [|k IH]; intros n bs acc; rewrite dec_entries_eq;
    destruct (n =? 0); try exact I.
  apply okp_bind; [apply okp_of_total, read_string_total|]. intros key r1.
  apply okp_bind; [apply Hd|]. intros v r2. apply IH.
Qed.

Lemma dec_elems_okp : forall dec, (forall bs, okp (dec bs)) ->
  forall k n bs acc, okp (dec_elems dec k n bs acc).
Proof.
  intros dec Hd. induction k as [|k IH]; intros n bs acc; rewrite dec_elems_eq;
    destruct (n =? 0); try exact I.
  apply okp_bind; [apply Hd|]. intros v r2. apply IH.
Qed.

Lemma decode_any_at_okp : forall fuel d bs, okp (decode_any_at fuel d bs).
Proof.
  induction fuel as [|f IH]; intros d bs; [exact I|].
  rewrite decode_any_at_S. destruct (ANY_MAX_DEPTH <? d); [exact I|].
  destruct bs as [|tag rest]; cbn [read_u8 bind]; [exact I|].
  repeat match goal with |- okp (if ?t =? ?c then _ else _) => destruct (t =? c) end;
    try exact I.
  - apply okp_rmap, okp_of_total, read_var_i64_total.
  - apply okp_rmap, okp_of_total, read_exact_total.
  - apply okp_rmap, okp_of_total, read_exact_total.
  - apply okp_rmap, okp_of_total, read_exact_total.
  - apply okp_rmap, okp_of_total, read_string_total.
  - apply okp_bind; [apply okp_of_total, read_var_u64_total|]. intros len rest1.
    apply dec_entries_okp, IH.
  - apply okp_bind; [apply okp_of_total, read_var_u64_total|]. intros len rest1.
    apply dec_elems_okp, IH.
  - apply okp_rmap, okp_of_total, read_buf_total.
Qed.

Theorem decode_any_at_total : forall fuel d bs,
  match decode_any_at fuel d bs with Panic _ => False | _ => True end.
Proof. exact decode_any_at_okp. Qed.

Theorem decode_any_total : forall fuel bs,
  match decode_any fuel bs with Panic _ => False | _ => True end.
Proof. intros fuel bs. apply decode_any_at_okp. Qed.
Print Assumptions decode_any_total.

(* the inputs that used to panic through tag 125 now decode *)
Example decode_any_former_witnesses : forall fuel,
  decode_any (S fuel) (ANY_ENC_INT :: shl_i64_witness) = Ok (AInt 0) [] /\
  decode_any (S fuel) (ANY_ENC_INT :: neg_i64_witness) = Ok (AInt (- Z.of_N two63)) [].
Proof.
  intro fuel. unfold decode_any. rewrite !dec_tag_int by reflexivity. split; vm_compute; reflexivity.
Qed.

(* ------------------------------------------------------------------------------------------------ *)
(* fuel: every recursive call consumes at least the tag byte, so [length bs + 1] suffices           *)
(* ------------------------------------------------------------------------------------------------ *)

(* r is not Fuel and an Ok result leaves strictly less / at most the input *)
Definition consumes {A} (bs : list N) (r : res A) : Prop :=
  match r with Ok _ rest => (length rest < length bs)%nat | Fuel => False | _ => True end.
Definition keeps {A} (bs : list N) (r : res A) : Prop :=
  match r with Ok _ rest => (length rest <= length bs)%nat | Fuel => False | _ => True end.

Lemma keeps_rmap : forall A B (g : A -> B) bs (r : res A), keeps bs r -> keeps bs (rmap g r).
Proof. intros A B g bs r H. destruct r; cbn in *; auto. Qed.

Lemma keeps_cons : forall A t bs (r : res A), keeps bs r -> consumes (t :: bs) r.
Proof. intros A t bs r H. destruct r; cbn in *; auto. lia. Qed.

Lemma keeps_le : forall A bs bs' (r : res A), (length bs' <= length bs)%nat -> keeps bs' r -> keeps bs r.
Proof. intros A bs bs' r Hl H. destruct r; cbn in *; auto. lia. Qed.

Lemma consumes_keeps : forall A bs (r : res A), consumes bs r -> keeps bs r.
Proof. intros A bs r H. destruct r; cbn in *; auto. lia. Qed.

Lemma consumes_read_var_i64 : forall bs, consumes bs (read_var_i64 bs).
Proof.
  intro bs. pose proof (read_var_i64_total bs) as Hp. pose proof (read_var_i64_shrinks bs) as Hs.
  destruct (read_var_i64 bs); cbn; auto. eapply Hs; reflexivity.
Qed.

Lemma consumes_read_var_u64 : forall bs, consumes bs (read_var_u64 bs).
Proof.
  intro bs. pose proof (read_var_u64_total bs) as Hp. pose proof (read_var_u64_shrinks bs) as Hs.
  destruct (read_var_u64 bs); cbn; auto. eapply Hs; reflexivity.
Qed.

Lemma consumes_read_buf : forall bs, consumes bs (read_buf bs).
Proof.
  intro bs. pose proof (read_buf_total bs) as Hp. pose proof (read_buf_shrinks bs) as Hs.
  destruct (read_buf bs); cbn; auto. eapply Hs; reflexivity.
Qed.

Lemma consumes_read_string : forall bs, consumes bs (read_string bs).
Proof.
  intro bs. pose proof (read_string_total bs) as Hp. pose proof (read_string_shrinks bs) as Hs.
  destruct (read_string bs); cbn; auto. eapply Hs; reflexivity.
Qed.

Lemma keeps_read_exact : forall n bs, keeps bs (read_exact n bs).
Proof.
  intros n bs. pose proof (read_exact_total n bs) as Hp. pose proof (read_exact_shrinks n bs) as Hs.
  destruct (read_exact n bs); cbn; auto. edestruct Hs as [H _]; [reflexivity|exact H].
Qed.

Lemma dec_elems_keeps : forall dec f,
  (forall bs, (length bs < f)%nat -> consumes bs (dec bs)) ->
  forall k n bs acc, (k <= f)%nat -> (length bs < k)%nat -> keeps bs (dec_elems dec k n bs acc).
Proof.
  intros dec f Hd. induction k as [|k IH]; intros n bs acc Hk Hl; [lia|].
  rewrite dec_elems_eq. destruct (n =? 0); [cbn; lia|].
  assert (Hc : consumes bs (dec bs)) by (apply Hd; lia).
  destruct (dec bs) as [v r2| | |]; cbn [bind]; cbn in Hc; try exact I; try exact Hc.
  eapply keeps_le; [|apply IH; lia]. lia.
Qed.

Lemma dec_entries_keeps : forall dec f,
  (forall bs, (length bs < f)%nat -> consumes bs (dec bs)) ->
  forall k n bs acc, (k <= f)%nat -> (length bs < k)%nat -> keeps bs (dec_entries dec k n bs acc).
Proof.
  intros dec f Hd. induction k as [|k IH]; intros n bs acc Hk Hl; [lia|].
  rewrite dec_entries_eq. destruct (n =? 0); [cbn; lia|].
  pose proof (consumes_read_string bs) as Hb.
  destruct (read_string bs) as [key r1| | |]; cbn [bind]; cbn in Hb; try exact I; try exact Hb.
  assert (Hc : consumes r1 (dec r1)) by (apply Hd; lia).
  destruct (dec r1) as [v r2| | |]; cbn [bind]; cbn in Hc; try exact I; try exact Hc.
  eapply keeps_le; [|apply IH; lia]. lia.
Qed.

Lemma decode_any_at_consumes : forall fuel d bs, (length bs < fuel)%nat -> consumes bs (decode_any_at fuel d bs).
Proof.
  induction fuel as [|f IH]; intros d bs Hl; [lia|].
  rewrite decode_any_at_S. destruct (ANY_MAX_DEPTH <? d); [exact I|].
  destruct bs as [|tag rest]; cbn [read_u8 bind]; [exact I|].
  cbn [length] in Hl.
  repeat match goal with |- consumes _ (if ?t =? ?c then _ else _) => destruct (t =? c) end;
    try exact I; try (cbn; lia).
  - apply keeps_cons, keeps_rmap, consumes_keeps, consumes_read_var_i64.
  - apply keeps_cons, keeps_rmap, keeps_read_exact.
  - apply keeps_cons, keeps_rmap, keeps_read_exact.
  - apply keeps_cons, keeps_rmap, keeps_read_exact.
  - apply keeps_cons, keeps_rmap, consumes_keeps, consumes_read_string.
  - apply keeps_cons. unfold read_var_usize. pose proof (consumes_read_var_u64 rest) as Hu.
    destruct (read_var_u64 rest) as [len rest1| | |]; cbn [bind]; cbn in Hu; try exact I; try exact Hu.
    eapply keeps_le; [|apply (dec_entries_keeps _ f (IH (d + 1))); lia]. lia.
  - apply keeps_cons. unfold read_var_usize. pose proof (consumes_read_var_u64 rest) as Hu.
    destruct (read_var_u64 rest) as [len rest1| | |]; cbn [bind]; cbn in Hu; try exact I; try exact Hu.
    eapply keeps_le; [|apply (dec_elems_keeps _ f (IH (d + 1))); lia]. lia.
  - apply keeps_cons, keeps_rmap, consumes_keeps, consumes_read_buf.
Qed.

Lemma decode_any_consumes : forall fuel bs, (length bs < fuel)%nat -> consumes bs (decode_any fuel bs).
Proof. intros fuel bs. apply decode_any_at_consumes. Qed.

Theorem decode_any_fuel : forall bs, decode_any (S (length bs)) bs <> Fuel.
Proof.
  intros bs E. pose proof (decode_any_consumes (S (length bs)) bs (Nat.lt_succ_diag_r _)) as H.
  rewrite E in H. exact H.
Qed.
Print Assumptions decode_any_fuel.

(* more generally any fuel above the input length, and a successful decode consumes at least one byte *)
Theorem decode_any_fuel_ge : forall fuel bs, (length bs < fuel)%nat -> decode_any fuel bs <> Fuel.
Proof. intros fuel bs Hl E. pose proof (decode_any_consumes fuel bs Hl) as H. rewrite E in H. exact H. Qed.

Theorem decode_any_shrinks : forall fuel bs a rest, (length bs < fuel)%nat ->
  decode_any fuel bs = Ok a rest -> (length rest < length bs)%nat.
Proof. intros fuel bs a rest Hl E. pose proof (decode_any_consumes fuel bs Hl) as H. rewrite E in H. exact H. Qed.

(* ------------------------------------------------------------------------------------------------ *)
(* round trip                                                                                       *)
(* ------------------------------------------------------------------------------------------------ *)

Lemma be_bytes_length : forall n v, length (be_bytes n v) = n.
Proof.
  induction n as [|n IH]; intro v; cbn [be_bytes]; [reflexivity|].
  rewrite app_length, IH. cbn [length]. lia.
Qed.

Lemma be_value_app : forall a b acc, be_value (a ++ b) acc = be_value b (be_value a acc).
Proof. induction a as [|x a IH]; intros b acc; cbn [app be_value]; [reflexivity|apply IH]. Qed.

Lemma be_value_bytes_acc : forall n v acc, v < 256 ^ N.of_nat n ->
  be_value (be_bytes n v) acc = acc * 256 ^ N.of_nat n + v.
Proof.
  induction n as [|n IH]; intros v acc Hv.
  - change (256 ^ N.of_nat 0) with 1 in *. cbn [be_bytes be_value]. lia.
  - rewrite Nat2N.inj_succ, N.pow_succ_r' in *. cbn [be_bytes]. rewrite be_value_app.
    rewrite IH by (apply N.div_lt_upper_bound; lia). cbn [be_value].
    pose proof (N.div_mod v 256). generalize dependent (256 ^ N.of_nat n). intros. nia.
Qed.

Theorem be_value_bytes : forall n v, v < 256 ^ N.of_nat n -> be_value (be_bytes n v) 0 = v.
Proof. intros n v Hv. rewrite be_value_bytes_acc by exact Hv. lia. Qed.

Lemma be_bytes_ok : forall n v, bytes_ok (be_bytes n v) = true.
Proof.
  induction n as [|n IH]; intro v; cbn [be_bytes]; [reflexivity|].
  unfold bytes_ok in *. rewrite forallb_app, IH. cbn [forallb]. unfold is_byte. lia.
Qed.

Lemma read_exact_be : forall n v rest,
  read_exact (N.of_nat n) (be_bytes n v ++ rest) = Ok (be_bytes n v) rest.
Proof.
  intros n v rest. rewrite <- (be_bytes_length n v) at 1. apply read_exact_app.
Qed.

Lemma read_exact_be4 : forall v rest, read_exact 4 (be_bytes 4 v ++ rest) = Ok (be_bytes 4 v) rest.
Proof. exact (read_exact_be 4). Qed.
Lemma read_exact_be8 : forall v rest, read_exact 8 (be_bytes 8 v ++ rest) = Ok (be_bytes 8 v) rest.
Proof. exact (read_exact_be 8). Qed.

(* well-formed values: what the wire format can represent *)
Fixpoint wf_any (a : any) : bool :=
  match a with
  | AUndefined | ANull | ABool _ => true
  | AInt z => (- Z.of_N two63 <? z)%Z && (z <? Z.of_N two63)%Z
  | AF32 bits => bits <? two32
  | AF64 bits | ABigInt bits => bits <? two64
  | AString s => wf_str s
  | ABuffer s => wf_bin s
  | AArray l => (N.of_nat (length l) <? two64) && forallb wf_any l
  | AMap l =>
      (N.of_nat (length l) <? two64) &&
      forallb (fun kx => match kx with (k, x) => wf_str k && wf_any x end) l
  end.

(* fuel needed by decode_any: nesting depth + element count *)
Fixpoint any_fuel (a : any) : nat :=
  match a with
  | AArray l => S (Nat.max (length l) (list_max (map any_fuel l)))
  | AMap l => S (Nat.max (length l) (list_max (map (fun kx => match kx with (_, x) => any_fuel x end) l)))
  | _ => 1
  end.

(* number of levels: 1 for a scalar and for an empty container, 1 + the deepest child otherwise.
   A value nested k levels below the top is decoded at depth k and rejected when ANY_MAX_DEPTH < k,
   so [decode_any_at _ d] accepts a value exactly when d + any_depth a <= ANY_MAX_DEPTH + 1. *)
Definition nmax_list (l : list N) : N := fold_right N.max 0 l.
Fixpoint any_depth (a : any) : N :=
  match a with
  | AArray l => 1 + nmax_list (map any_depth l)
  | AMap l => 1 + nmax_list (map (fun kx => match kx with (_, x) => any_depth x end) l)
  | _ => 1
  end.

Definition flat_any (a : any) : bool :=
  match a with AArray _ | AMap _ => false | _ => true end.

Lemma any_fuel_pos : forall a, (1 <= any_fuel a)%nat.
Proof. destruct a; cbn [any_fuel]; lia. Qed.

Lemma any_depth_pos : forall a, 1 <= any_depth a.
Proof. destruct a; cbn [any_depth]; lia. Qed.

Lemma list_max_map_le : forall A (g : A -> nat) l n,
  (list_max (map g l) <= n)%nat -> Forall (fun x => (g x <= n)%nat) l.
Proof.
  intros A g. induction l as [|x l IH]; intros n H; constructor.
  - cbn [map list_max fold_right] in H. change (fold_right Nat.max 0%nat (map g l)) with (list_max (map g l)) in H. lia.
  - apply IH. cbn [map list_max fold_right] in H. change (fold_right Nat.max 0%nat (map g l)) with (list_max (map g l)) in H. lia.
Qed.

Lemma nmax_list_cons : forall x l, nmax_list (x :: l) = N.max x (nmax_list l).
Proof. reflexivity. Qed.

Lemma nmax_list_le : forall A (g : A -> N) l D B,
  D <= B -> Forall (fun x => D + g x <= B) l -> D + nmax_list (map g l) <= B.
Proof.
  intros A g l D B HD H. induction H as [|x l Hx Hl IH]; cbn [map]; [cbn; lia|].
  rewrite nmax_list_cons. lia.
Qed.

Lemma nmax_list_le_inv : forall A (g : A -> N) l D B,
  D + nmax_list (map g l) <= B -> Forall (fun x => D + g x <= B) l.
Proof.
  intros A g l D B. induction l as [|x l IH]; intro H; constructor; cbn [map] in H; rewrite nmax_list_cons in H.
  - lia.
  - apply IH. lia.
Qed.

(* ------------------------------------------------------------------------------------------------ *)
(* the nesting of a decoded value is bounded                                                        *)
(* ------------------------------------------------------------------------------------------------ *)

Lemma rmap_ok : forall A B (g : A -> B) (r : res A) b rest,
  rmap g r = Ok b rest -> exists a, r = Ok a rest /\ b = g a.
Proof.
  intros A B g r b rest H. destruct r as [a r'| | |]; cbn in H; try discriminate.
  inversion H; subst. exists a. split; reflexivity.
Qed.

Section DepthLoops.
  Variable dec : list N -> res any.
  Variables D B : N.
  Hypothesis Hdec : forall bs a rest, dec bs = Ok a rest -> D + any_depth a <= B.

  Lemma dec_elems_depth : forall k n bs acc a rest,
    Forall (fun x => D + any_depth x <= B) acc ->
    dec_elems dec k n bs acc = Ok a rest ->
    exists l, a = AArray l /\ Forall (fun x => D + any_depth x <= B) l.
  Proof.
    induction k as [|k IH]; intros n bs acc a rest Hacc H; rewrite dec_elems_eq in H;
      destruct (n =? 0).
    - inversion H; subst. eexists. split; [reflexivity|]. apply Forall_rev. exact Hacc.
    - discriminate.
    - inversion H; subst. eexists. split; [reflexivity|]. apply Forall_rev. exact Hacc.
    - destruct (dec bs) as [v r2| | |] eqn:E; cbn [bind] in H; try discriminate.
      eapply IH; [|exact H]. constructor; [eapply Hdec; exact E|exact Hacc].
  Qed.

  Lemma dec_entries_depth : forall k n bs acc a rest,
    Forall (fun kx : list N * any => D + any_depth (snd kx) <= B) acc ->
    dec_entries dec k n bs acc = Ok a rest ->
    exists l, a = AMap l /\ Forall (fun kx : list N * any => D + any_depth (snd kx) <= B) l.
  Proof.
    induction k as [|k IH]; intros n bs acc a rest Hacc H; rewrite dec_entries_eq in H;
      destruct (n =? 0).
    - inversion H; subst. eexists. split; [reflexivity|]. apply Forall_rev. exact Hacc.
    - discriminate.
    - inversion H; subst. eexists. split; [reflexivity|]. apply Forall_rev. exact Hacc.
    - destruct (read_string bs) as [key r1| | |]; cbn [bind] in H; try discriminate.
      destruct (dec r1) as [v r2| | |] eqn:E; cbn [bind] in H; try discriminate.
      eapply IH; [|exact H]. constructor; [cbn [snd]; eapply Hdec; exact E|exact Hacc].
  Qed.
End DepthLoops.

Lemma any_depth_map_snd : forall l : list (list N * any),
  map (fun kx => match kx with (_, x) => any_depth x end) l = map (fun kx => any_depth (snd kx)) l.
Proof. intro l. apply map_ext. intros [k x]. reflexivity. Qed.

Theorem decode_any_at_depth : forall fuel d bs a rest,
  decode_any_at fuel d bs = Ok a rest -> d + any_depth a <= ANY_MAX_DEPTH + 1.
Proof.
  induction fuel as [|f IH]; intros d bs a rest H; [discriminate|].
  rewrite decode_any_at_S in H. destruct (N.ltb_spec ANY_MAX_DEPTH d) as [Hd|Hd]; [discriminate|].
  destruct bs as [|tag r0]; cbn [read_u8 bind] in H; [discriminate|].
  repeat match type of H with (if ?t =? ?c then _ else _) = _ => destruct (t =? c) end;
    try discriminate;
    try (inversion H; subst; cbn [any_depth]; lia);
    try (apply rmap_ok in H; destruct H as (x & _ & ->); cbn [any_depth]; lia).
  - unfold read_var_usize in H. destruct (read_var_u64 r0) as [len rest1| | |]; cbn [bind] in H; try discriminate.
    apply (dec_entries_depth _ (d + 1) (ANY_MAX_DEPTH + 1) (IH (d + 1))) in H; [|constructor].
    destruct H as (l & -> & Hl). cbn [any_depth]. rewrite any_depth_map_snd.
    pose proof (nmax_list_le _ (fun kx : list N * any => any_depth (snd kx)) l (d + 1) (ANY_MAX_DEPTH + 1)) as Hm.
    specialize (Hm ltac:(lia) Hl). lia.
  - unfold read_var_usize in H. destruct (read_var_u64 r0) as [len rest1| | |]; cbn [bind] in H; try discriminate.
    apply (dec_elems_depth _ (d + 1) (ANY_MAX_DEPTH + 1) (IH (d + 1))) in H; [|constructor].
    destruct H as (l & -> & Hl). cbn [any_depth].
    pose proof (nmax_list_le _ any_depth l (d + 1) (ANY_MAX_DEPTH + 1)) as Hm.
    specialize (Hm ltac:(lia) Hl). lia.
Qed.

(* every successfully decoded value has at most ANY_MAX_DEPTH + 1 = 257 levels, and (decode_any_fuel)
   fuel [length bs + 1] is always enough: the recursion of the decoder is bounded on every input *)
Lemma any_max_depth_succ : ANY_MAX_DEPTH + 1 = 257.
Proof. reflexivity. Qed.

Theorem decode_any_depth_bound : forall fuel bs a rest,
  decode_any fuel bs = Ok a rest -> any_depth a <= ANY_MAX_DEPTH + 1.
Proof. intros fuel bs a rest H. apply decode_any_at_depth in H. lia. Qed.
Print Assumptions decode_any_depth_bound.

(* with the generated value of the constant *)
Corollary decode_any_depth_bound_257 : forall fuel bs a rest,
  decode_any fuel bs = Ok a rest -> any_depth a <= 257.
Proof. intros fuel bs a rest H. apply decode_any_depth_bound in H. rewrite any_max_depth_succ in H. exact H. Qed.

(* both halves together: the recursion of the decoder is bounded on every input *)
Theorem decode_any_bounded : forall bs,
  decode_any (S (length bs)) bs <> Fuel /\
  forall fuel a rest, decode_any fuel bs = Ok a rest -> any_depth a <= ANY_MAX_DEPTH + 1.
Proof. intro bs. split; [apply decode_any_fuel|]. intros fuel a rest. apply decode_any_depth_bound. Qed.
Print Assumptions decode_any_bounded.

(* hence a value with more levels is never the result of a decode: it cannot round trip *)
Corollary any_too_deep_no_roundtrip : forall a fuel bs rest,
  ANY_MAX_DEPTH + 1 < any_depth a -> decode_any fuel bs <> Ok a rest.
Proof. intros a fuel bs rest Hd H. apply decode_any_depth_bound in H. lia. Qed.

(* ------------------------------------------------------------------------------------------------ *)
(* round trip                                                                                       *)
(* ------------------------------------------------------------------------------------------------ *)

Section RoundTripLoops.
  Variable f : nat.
  Variable D : N.
  Hypothesis IH : forall a bs rest,
    (any_fuel a <= f)%nat -> D + any_depth a <= ANY_MAX_DEPTH + 1 -> wf_any a = true -> encode_any a = Some bs ->
    decode_any_at f D (bs ++ rest) = Ok a rest.

  Lemma dec_elems_roundtrip : forall l k acc body rest,
    (length l <= k)%nat ->
    Forall (fun x => (any_fuel x <= f)%nat) l ->
    Forall (fun x => D + any_depth x <= ANY_MAX_DEPTH + 1) l -> forallb wf_any l = true ->
    enc_list encode_any l = Some body ->
    dec_elems (decode_any_at f D) k (N.of_nat (length l)) (body ++ rest) acc = Ok (AArray (rev acc ++ l)) rest.
  Proof.
    induction l as [|x l IHl]; intros k acc body rest Hk Hf Hd Hwf Henc; rewrite dec_elems_eq.
    - cbn [enc_list] in Henc. inversion Henc; subst. cbn [length app]. change (N.of_nat 0 =? 0) with true.
      cbv iota. rewrite app_nil_r. reflexivity.
    - cbn [length] in *. replace (N.of_nat (S (length l)) =? 0) with false by lia.
      destruct k as [|k]; [lia|].
      cbn [enc_list] in Henc.
      destruct (encode_any x) as [bx|] eqn:Ex; [|discriminate].
      destruct (enc_list encode_any l) as [bl|] eqn:El; [|discriminate].
      inversion Henc; subst. inversion Hf; subst. inversion Hd; subst.
      cbn [forallb] in Hwf. apply andb_prop in Hwf. destruct Hwf as [Hwx Hwl].
      rewrite <- app_assoc. rewrite (IH x bx (bl ++ rest)) by assumption. cbn [bind].
      replace (N.of_nat (S (length l)) - 1) with (N.of_nat (length l)) by lia.
      rewrite (IHl k (x :: acc) bl rest) by (try assumption; try reflexivity; lia).
      cbn [rev]. rewrite <- app_assoc. reflexivity.
  Qed.

  Lemma dec_entries_roundtrip : forall l k acc body rest,
    (length l <= k)%nat ->
    Forall (fun kx => (match kx with (_, x) => any_fuel x end <= f)%nat) l ->
    Forall (fun kx : list N * any => D + any_depth (snd kx) <= ANY_MAX_DEPTH + 1) l ->
    forallb (fun kx => match kx with (k, x) => wf_str k && wf_any x end) l = true ->
    enc_map encode_any l = Some body ->
    dec_entries (decode_any_at f D) k (N.of_nat (length l)) (body ++ rest) acc = Ok (AMap (rev acc ++ l)) rest.
  Proof.
    induction l as [|[key x] l IHl]; intros k acc body rest Hk Hf Hd Hwf Henc; rewrite dec_entries_eq.
    - cbn [enc_map] in Henc. inversion Henc; subst. cbn [length app]. change (N.of_nat 0 =? 0) with true.
      cbv iota. rewrite app_nil_r. reflexivity.
    - cbn [length] in *. replace (N.of_nat (S (length l)) =? 0) with false by lia.
      destruct k as [|k]; [lia|].
      cbn [enc_map] in Henc.
      destruct (encode_any x) as [bx|] eqn:Ex; [|discriminate].
      destruct (enc_map encode_any l) as [bl|] eqn:El; [|discriminate].
      inversion Henc; subst. inversion Hf; subst. inversion Hd; subst. cbn [snd] in *.
      cbn [forallb] in Hwf. apply andb_prop in Hwf. destruct Hwf as [Hwx Hwl].
      apply andb_prop in Hwx. destruct Hwx as [Hwk Hwx].
      rewrite <- app_assoc. rewrite str_roundtrip by exact Hwk. cbn [bind].
      rewrite <- app_assoc. rewrite (IH x bx (bl ++ rest)) by assumption. cbn [bind].
      replace (N.of_nat (S (length l)) - 1) with (N.of_nat (length l)) by lia.
      rewrite (IHl k ((key, x) :: acc) bl rest) by (try assumption; try reflexivity; lia).
      cbn [rev]. rewrite <- app_assoc. reflexivity.
  Qed.
End RoundTripLoops.

Lemma pow256_4 : 256 ^ N.of_nat 4 = two32. Proof. reflexivity. Qed.
Lemma pow256_8 : 256 ^ N.of_nat 8 = two64. Proof. reflexivity. Qed.

Lemma some_inj : forall A (x y : A), Some x = Some y -> x = y.
Proof. intros A x y H. congruence. Qed.

(* round trip at any start depth [d]: the value must fit below the depth limit *)
Theorem any_roundtrip_at : forall fuel d a bs rest,
  (any_fuel a <= fuel)%nat -> d + any_depth a <= ANY_MAX_DEPTH + 1 -> wf_any a = true -> encode_any a = Some bs ->
  decode_any_at fuel d (bs ++ rest) = Ok a rest.
Proof.
  induction fuel as [|f IH]; intros d a bs rest Hf Hdep Hwf Henc.
  - pose proof (any_fuel_pos a). lia.
  - assert (Hd : (ANY_MAX_DEPTH <? d) = false) by (pose proof (any_depth_pos a); lia).
    destruct a as [| |b|z|bits|bits|bits|s|s|l|l].
    + cbn [encode_any] in Henc. apply some_inj in Henc; subst bs. apply dec_tag_undefined, Hd.
    + cbn [encode_any] in Henc. apply some_inj in Henc; subst bs. apply dec_tag_null, Hd.
    + cbn [encode_any] in Henc. apply some_inj in Henc; subst bs.
      destruct b; [apply dec_tag_true|apply dec_tag_false]; exact Hd.
    + cbn [encode_any wf_any] in *.
      destruct (var_i64_roundtrip z rest) as (bz & Hw & Hr); [lia|].
      rewrite Hw in Henc. apply some_inj in Henc; subst bs. rewrite <- app_comm_cons.
      rewrite dec_tag_int by exact Hd. rewrite Hr. reflexivity.
    + cbn [wf_any] in Hwf. change (encode_any _) with (Some (ANY_ENC_F32 :: be_bytes 4 bits)) in Henc.
      apply some_inj in Henc; subst bs. rewrite <- app_comm_cons. rewrite dec_tag_f32 by exact Hd.
      rewrite read_exact_be4. unfold rmap. cbn [bind].
      rewrite be_value_bytes by (rewrite pow256_4; lia). reflexivity.
    + cbn [wf_any] in Hwf. change (encode_any _) with (Some (ANY_ENC_F64 :: be_bytes 8 bits)) in Henc.
      apply some_inj in Henc; subst bs. rewrite <- app_comm_cons. rewrite dec_tag_f64 by exact Hd.
      rewrite read_exact_be8. unfold rmap. cbn [bind].
      rewrite be_value_bytes by (rewrite pow256_8; lia). reflexivity.
    + cbn [wf_any] in Hwf. change (encode_any _) with (Some (ANY_ENC_BIGINT :: be_bytes 8 bits)) in Henc.
      apply some_inj in Henc; subst bs. rewrite <- app_comm_cons. rewrite dec_tag_bigint by exact Hd.
      rewrite read_exact_be8. unfold rmap. cbn [bind].
      rewrite be_value_bytes by (rewrite pow256_8; lia). reflexivity.
    + cbn [encode_any wf_any] in *. apply some_inj in Henc; subst bs. rewrite <- app_comm_cons.
      rewrite dec_tag_string by exact Hd. rewrite str_roundtrip by exact Hwf. reflexivity.
    + cbn [encode_any wf_any] in *. apply some_inj in Henc; subst bs. rewrite <- app_comm_cons.
      rewrite dec_tag_buffer by exact Hd. rewrite bin_roundtrip by exact Hwf. reflexivity.
    + rewrite encode_any_array in Henc.
      destruct (enc_list encode_any l) as [body|] eqn:El; [|discriminate].
      apply some_inj in Henc; subst bs. cbn [wf_any any_fuel any_depth] in *.
      apply andb_prop in Hwf. destruct Hwf as [Hlen Hwl].
      rewrite <- app_comm_cons. rewrite dec_tag_array by exact Hd. unfold read_var_usize, write_var_usize.
      rewrite <- app_assoc. rewrite var_u64_roundtrip by lia. cbn [bind].
      apply (dec_elems_roundtrip f (d + 1) (IH (d + 1)) l f [] body rest); try assumption; [lia| |].
      * apply list_max_map_le. lia.
      * apply nmax_list_le_inv. lia.
    + rewrite encode_any_map in Henc.
      destruct (enc_map encode_any l) as [body|] eqn:El; [|discriminate].
      apply some_inj in Henc; subst bs. cbn [wf_any any_fuel any_depth] in *.
      apply andb_prop in Hwf. destruct Hwf as [Hlen Hwl].
      rewrite <- app_comm_cons. rewrite dec_tag_map by exact Hd. unfold read_var_usize, write_var_usize.
      rewrite <- app_assoc. rewrite var_u64_roundtrip by lia. cbn [bind].
      apply (dec_entries_roundtrip f (d + 1) (IH (d + 1)) l f [] body rest); try assumption; [lia| |].
      * apply (list_max_map_le _ (fun kx : list N * any => match kx with (_, x) => any_fuel x end)). lia.
      * rewrite any_depth_map_snd in Hdep.
        apply (nmax_list_le_inv _ (fun kx : list N * any => any_depth (snd kx))). lia.
Qed.
Print Assumptions any_roundtrip_at.

(* top level: at most ANY_MAX_DEPTH + 1 = 257 levels *)
Theorem any_roundtrip_full : forall fuel a bs rest,
  (any_fuel a <= fuel)%nat -> any_depth a <= ANY_MAX_DEPTH + 1 -> wf_any a = true -> encode_any a = Some bs ->
  decode_any fuel (bs ++ rest) = Ok a rest.
Proof.
  intros fuel a bs rest Hf Hd Hwf Henc. unfold decode_any. apply any_roundtrip_at; try assumption; lia.
Qed.
Print Assumptions any_roundtrip_full.

(* the bound is exact: with enough fuel a well-formed value that is too deep for the start depth is rejected *)
Theorem any_too_deep_rejected : forall fuel d a bs rest,
  ANY_MAX_DEPTH + 1 < d + any_depth a -> encode_any a = Some bs ->
  match decode_any_at fuel d (bs ++ rest) with Ok a' rest' => a' <> a | _ => True end.
Proof.
  intros fuel d a bs rest Hd Henc. destruct (decode_any_at fuel d (bs ++ rest)) as [a' rest'| | |] eqn:E; try exact I.
  intros ->. apply decode_any_at_depth in E. lia.
Qed.

(* the non-recursive constructors need one unit of fuel only (and have one level) *)
Theorem any_roundtrip : forall a fuel bs rest,
  flat_any a = true -> wf_any a = true -> encode_any a = Some bs ->
  decode_any (S fuel) (bs ++ rest) = Ok a rest.
Proof.
  intros a fuel bs rest Hflat Hwf Henc. apply any_roundtrip_full; try assumption.
  - destruct a; try discriminate Hflat; cbn [any_fuel]; lia.
  - destruct a; try discriminate Hflat; cbn [any_depth]; rewrite any_max_depth_succ; lia.
Qed.
Print Assumptions any_roundtrip.

(* well-formed at the top level: wf_any plus the depth limit *)
Definition wf_any_top (a : any) : bool := wf_any a && (any_depth a <=? ANY_MAX_DEPTH + 1).

(* the encoder is defined exactly on the values whose integers are not below i64::MIN + 1 *)
Theorem encode_any_wf_some : forall a, wf_any a = true -> encode_any a <> None.
Proof.
  fix rec 1. intros a Hwf. destruct a as [| |b|z|bits|bits|bits|s|s|l|l]; try (cbn [encode_any]; discriminate).
  - cbn [encode_any wf_any] in *. destruct (write_var_i64 z) eqn:E; [discriminate|].
    apply write_var_i64_none in E. lia.
  - rewrite encode_any_array. cbn [wf_any] in Hwf. apply andb_prop in Hwf. destruct Hwf as [_ Hwl].
    assert (Hl : enc_list encode_any l <> None).
    { clear -rec Hwl. induction l as [|x l IHl]; cbn [enc_list]; [discriminate|].
      cbn [forallb] in Hwl. apply andb_prop in Hwl. destruct Hwl as [Hx Hl].
      pose proof (rec x Hx). specialize (IHl Hl).
      destruct (encode_any x); [|congruence]. destruct (enc_list encode_any l); [discriminate|congruence]. }
    destruct (enc_list encode_any l); [discriminate|congruence].
  - rewrite encode_any_map. cbn [wf_any] in Hwf. apply andb_prop in Hwf. destruct Hwf as [_ Hwl].
    assert (Hl : enc_map encode_any l <> None).
    { clear -rec Hwl. induction l as [|[k x] l IHl]; cbn [enc_map]; [discriminate|].
      cbn [forallb] in Hwl. apply andb_prop in Hwl. destruct Hwl as [Hx Hl].
      apply andb_prop in Hx. destruct Hx as [_ Hx].
      pose proof (rec x Hx). specialize (IHl Hl).
      destruct (encode_any x); [|congruence]. destruct (enc_map encode_any l); [discriminate|congruence]. }
    destruct (enc_map encode_any l); [discriminate|congruence].
Qed.
Print Assumptions encode_any_wf_some.

(* non-vacuity: a nested value with a non-ASCII key round trips; 257 levels are accepted, 258 are not *)
Fixpoint nest (n : nat) (a : any) : any := match n with O => a | S k => AArray [nest k a] end.

Example any_roundtrip_example :
  let a := AMap [([104; 195; 169], AArray [AInt (-5)%Z; AString [240; 159; 152; 128]; ABuffer [255; 0]])] in
  wf_any_top a = true /\
  exists bs, encode_any a = Some bs /\ decode_any (S (length bs)) bs = Ok a [].
Proof. split; [vm_compute; reflexivity|]. eexists. split; [vm_compute; reflexivity|]. vm_compute. reflexivity. Qed.

Example any_depth_limit_example :
  any_depth (nest 256 ANull) = 257 /\
  (exists bs, encode_any (nest 256 ANull) = Some bs /\ decode_any (S (length bs)) bs = Ok (nest 256 ANull) []) /\
  any_depth (nest 257 ANull) = 258 /\
  (exists bs, encode_any (nest 257 ANull) = Some bs /\ decode_any (S (length bs)) bs = Err UnexpectedValue).
Proof.
  split; [vm_compute; reflexivity|].
  split; [eexists; split; [vm_compute; reflexivity|]; vm_compute; reflexivity|].
  split; [vm_compute; reflexivity|].
  eexists; split; [vm_compute; reflexivity|]; vm_compute; reflexivity.
Qed.
