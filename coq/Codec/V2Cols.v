(* lib0 v2 column codecs: yrs/src/updates/encoder.rs (IntDiffOptRleEncoder, UIntOptRleEncoder, RleEncoder,
   StringEncoder) and yrs/src/updates/decoder.rs (IntDiffOptRleDecoder, UIntOptRleDecoder, RleDecoder,
   StringDecoder, DecoderV2::read_usize / read_buf).

   Every encoder is a state machine (init / write / flush / to_bytes); [X_encode l] folds [write] over the list
   of values.  Every decoder is a function [X_read : state -> bytes -> res (value * state)] in the conventions of
   Lib/Bytes.v: the `rest` of the result is the column cursor after the read, the state is the decoder's
   (last, count, ...) fields.  [X_read_n n] reads n values in a row.

   Integer types: u32 / u64 values are N; i32 / i64 values are Z (two's complement made explicit by to_i32,
   wrap_i32, to_i64).  The u32 run counters of the encoders are modelled by unbounded N: `count += 1` overflows
   (panics) only at the 2^32-th element of a run, which the theorems exclude by a length hypothesis. *)
From Coq Require Import List NArith ZArith Bool.
From YV Require Import Gen.Consts Lib.Bytes Codec.Varint Codec.UpdateV1.
Import ListNotations.
Open Scope N_scope.

Definition two31 : N := 2147483648.
Definition Ztwo31 : Z := 2147483648%Z.
Definition Ztwo32 : Z := 4294967296%Z.
Definition Ztwo63 : Z := 9223372036854775808%Z.
Definition Ztwo64 : Z := 18446744073709551616%Z.

(* `x as i32` for a u32 x, `z as u32` for an i32 (or any integer) z, wrapping of an integer into i32 *)
Definition to_i32 (n : N) : Z := if n <? two31 then Z.of_N n else (Z.of_N n - Ztwo32)%Z.
Definition of_i32 (z : Z) : N := Z.to_N (z mod Ztwo32).
Definition wrap_i32 (z : Z) : Z := to_i32 (of_i32 z).
(* `x as i64` for a u64 x, `z as u64` *)
Definition to_i64 (n : N) : Z := if n <? two63 then Z.of_N n else (Z.of_N n - Ztwo64)%Z.
Definition of_i64 (z : Z) : N := Z.to_N (z mod Ztwo64).

(* write_var(i64) for a value that is known to be above i64::MIN (twice an i32 plus one is): never panics *)
Definition write_var_i64_bytes (z : Z) : list N := match write_var_i64 z with Some b => b | None => [] end.

(* i64::write_signed(&Signed { value, is_negative }): `-value` when the flag is set (panics on i64::MIN),
   then the same loop as write_var_i64.  With a negative [v] after the sign step the first byte holds the low
   six bits of the two's complement pattern and the `while value > 0` loop does not run. *)
Definition write_signed_i64 (value : Z) (neg : bool) : option (list N) :=
  if neg && (value <=? - Ztwo63)%Z then None
  else
    let v := if neg then (- value)%Z else value in
    Some (((if (63 <? v)%Z then 128 else 0) + (if neg then 64 else 0) + Z.to_N (v mod 64))
          :: write_var_i64_tail 10 (Z.to_N (v / 64))).

(* read_var::<u32>()?.checked_add(2).ok_or(UnexpectedValue) *)
Definition read_count2 (bs : list N) : res N :=
  let* (c, rest) := read_var_u32 bs in
  match add32_checked c 2 with Some c' => Ok c' rest | None => Err UnexpectedValue end.

(* ================================================================================================ *)
(* IntDiffOptRle: key clocks, left clocks, right clocks                                              *)
(* ================================================================================================ *)

Record idiff_enc := { ie_buf : list N; ie_last : N; ie_count : N; ie_diff : Z }.
Definition idiff_init : idiff_enc := {| ie_buf := []; ie_last := 0; ie_count := 0; ie_diff := 0%Z |}.

(* the bytes flush appends: `(self.diff as i64) << 1 | (count == 1 ? 0 : 1)` (the i32 difference is widened first, so
   no bit is lost), written as an i64 var-int, then `count - 2` when count > 1 *)
Definition idiff_run_bytes (diff : Z) (count : N) : list N :=
  if count =? 0 then []
  else
    let has_count : Z := if count =? 1 then 0%Z else 1%Z in
    let encode_diff := (2 * diff + has_count)%Z in
    write_var_i64_bytes encode_diff ++ (if 1 <? count then write_var_u32 (count - 2) else []).
Definition idiff_flush (e : idiff_enc) : idiff_enc :=
  {| ie_buf := ie_buf e ++ idiff_run_bytes (ie_diff e) (ie_count e);
     ie_last := ie_last e; ie_count := ie_count e; ie_diff := ie_diff e |}.
(* write_u32: diff = (value as i32).wrapping_sub(self.last as i32) *)
Definition idiff_write (e : idiff_enc) (value : N) : idiff_enc :=
  let diff := wrap_i32 (to_i32 value - to_i32 (ie_last e)) in
  if (ie_diff e =? diff)%Z then
    {| ie_buf := ie_buf e; ie_last := value; ie_count := ie_count e + 1; ie_diff := ie_diff e |}
  else
    let f := idiff_flush e in
    {| ie_buf := ie_buf f; ie_last := value; ie_count := 1; ie_diff := diff |}.
Definition idiff_to_bytes (e : idiff_enc) : list N := ie_buf (idiff_flush e).
Definition idiff_encode (l : list N) : list N := idiff_to_bytes (fold_left idiff_write l idiff_init).

Record idiff_st := { id_last : N; id_count : N; id_diff : Z }.
Definition idiff_st0 : idiff_st := {| id_last := 0; id_count := 0; id_diff := 0%Z |}.
Definition idiff_read (st : idiff_st) (bs : list N) : res (N * idiff_st) :=
  let* (dc, rest) :=
    (if id_count st =? 0 then
       (* read_var::<i64>; has_count = diff & 1; self.diff = (diff >> 1) as i32: arithmetic shift of the i64, then
          the truncating cast (a malformed stream may carry any i64 here) *)
       let* (d, r1) := read_var_i64 bs in
       let* (c, r2) := (if Z.odd d then read_count2 r1 else Ok 1 r1) in
       Ok (wrap_i32 (d / 2), c) r2
     else Ok (id_diff st, id_count st) bs) in
  (* self.last = (self.last as i32).wrapping_add(self.diff) as u32; self.count -= 1 (count >= 1 here) *)
  let last := of_i32 (to_i32 (id_last st) + fst dc) in
  Ok (last, {| id_last := last; id_count := snd dc - 1; id_diff := fst dc |}) rest.

(* ================================================================================================ *)
(* UIntOptRle: clients, type refs, lengths, string lengths                                           *)
(* ================================================================================================ *)

Record uint_enc := { ue_buf : list N; ue_last : N; ue_count : N }.
Definition uint_init : uint_enc := {| ue_buf := []; ue_last := 0; ue_count := 0 |}.

(* count == 1: write_var(last as i64).  count > 1: write_var_signed(Signed::new(-(last as i64), true)) and
   write_var(count - 2): the sign flag alone says "a count follows" (so 0 is written as "negative zero").
   None = `-(last as i64)` overflows, i.e. last = 2^63.  A value above 2^63 is written as a negative i64. *)
Definition uint_run_bytes (last count : N) : option (list N) :=
  if count =? 0 then Some []
  else if count =? 1 then write_var_i64 (to_i64 last)
  else
    if (to_i64 last <=? - Ztwo63)%Z then None
    else match write_signed_i64 (- to_i64 last)%Z true with
         | Some b => Some (b ++ write_var_u32 (count - 2))
         | None => None
         end.
Definition uint_flush (e : uint_enc) : option uint_enc :=
  match uint_run_bytes (ue_last e) (ue_count e) with
  | Some b => Some {| ue_buf := ue_buf e ++ b; ue_last := ue_last e; ue_count := ue_count e |}
  | None => None
  end.
Definition uint_write (e : uint_enc) (value : N) : option uint_enc :=
  if ue_last e =? value then Some {| ue_buf := ue_buf e; ue_last := ue_last e; ue_count := ue_count e + 1 |}
  else match uint_flush e with
       | Some f => Some {| ue_buf := ue_buf f; ue_last := value; ue_count := 1 |}
       | None => None
       end.
Definition uint_write_opt (o : option uint_enc) (value : N) : option uint_enc :=
  match o with Some e => uint_write e value | None => None end.
Definition uint_to_bytes (e : uint_enc) : option (list N) :=
  match uint_flush e with Some f => Some (ue_buf f) | None => None end.
(* None = the encoder panics *)
Definition uint_encode (l : list N) : option (list N) :=
  match fold_left uint_write_opt l (Some uint_init) with Some e => uint_to_bytes e | None => None end.

Record uint_st := { ud_last : N; ud_count : N }.
Definition uint_st0 : uint_st := {| ud_last := 0; ud_count := 0 |}.
Definition uint_read (st : uint_st) (bs : list N) : res (N * uint_st) :=
  let* (lc, rest) :=
    (if ud_count st =? 0 then
       let* (s, r1) := read_signed bs in
       if snd s then
         let* (c, r2) := read_count2 r1 in
         (* s.value().wrapping_neg() as u64 *)
         Ok (of_i64 (- fst s), c) r2
       else Ok (of_i64 (fst s), 1) r1
     else Ok (ud_last st, ud_count st) bs) in
  Ok (fst lc, {| ud_last := fst lc; ud_count := snd lc - 1 |}) rest.

(* ================================================================================================ *)
(* Rle: info bytes, parent info                                                                      *)
(* ================================================================================================ *)

Record rle_enc := { re_buf : list N; re_last : option N; re_count : N }.
Definition rle_init : rle_enc := {| re_buf := []; re_last := None; re_count := 0 |}.
Definition rle_write (e : rle_enc) (value : N) : rle_enc :=
  if match re_last e with Some x => x =? value | None => false end then
    {| re_buf := re_buf e; re_last := re_last e; re_count := re_count e + 1 |}
  else
    {| re_buf := re_buf e ++ (if 0 <? re_count e then write_var_u32 (re_count e - 1) else []) ++ [value];
       re_last := Some value; re_count := 1 |}.
(* to_vec does not flush: the count of the last run is never written *)
Definition rle_to_bytes (e : rle_enc) : list N := re_buf e.
Definition rle_encode (l : list N) : list N := rle_to_bytes (fold_left rle_write l rle_init).

(* count is an i32 *)
Record rle_st := { rd_last : N; rd_count : Z }.
Definition rle_st0 : rle_st := {| rd_last := 0; rd_count := 0%Z |}.
Definition rle_read (st : rle_st) (bs : list N) : res (N * rle_st) :=
  let* (lc, rest) :=
    (if (rd_count st =? 0)%Z then
       let* (b, r1) := read_u8 bs in
       match r1 with
       | [] => Ok (b, (-1)%Z) r1                                  (* read the current value forever *)
       | _ :: _ =>
         (* (read_var::<u32>()? as i32).wrapping_add(1) *)
         let* (c, r2) := read_var_u32 r1 in Ok (b, wrap_i32 (to_i32 c + 1)) r2
       end
     else Ok (rd_last st, rd_count st) bs) in
  (* self.count = self.count.wrapping_sub(1): i32::MIN - 1 = i32::MAX *)
  Ok (fst lc, {| rd_last := fst lc; rd_count := wrap_i32 (snd lc - 1) |}) rest.

(* ================================================================================================ *)
(* DecoderV2::read_usize / read_buf (used for the nine column prefixes and inside the string column) *)
(* ================================================================================================ *)

(* checked_shl(len) on usize fails (InvalidVarInt) from len = 64 on, so the `len > 128` test is never reached
   with a true condition; it is transcribed all the same *)
Fixpoint read_usize_loop (bs : list N) (num len : N) : res N :=
  match bs with
  | [] => Err EndOfBuffer
  | r :: rest =>
    if 64 <=? len then Err InvalidVarInt
    else
      let num' := N.lor num ((N.shiftl (r mod 128) len) mod two64) in
      let len' := len + 7 in
      if r <? 128 then Ok num' rest
      else if 128 <? len' then Err InvalidVarInt
      else read_usize_loop rest num' len'
  end.
Definition read_usize_v2 (bs : list N) : res N :=
  match bs with [] => Err InvalidVarInt | _ => read_usize_loop bs 0 0 end.
(* start.checked_add(len) failing and end > buf.len() both give EndOfBuffer *)
Definition read_buf_v2 (bs : list N) : res (list N) :=
  let* (len, rest) := read_usize_v2 bs in read_exact len rest.

(* ================================================================================================ *)
(* String column                                                                                     *)
(* ================================================================================================ *)

Record str_enc := { se_buf : list N; se_lens : option uint_enc }.
Definition str_init : str_enc := {| se_buf := []; se_lens := Some uint_init |}.
(* str.encode_utf16().count() is utf16_len on well-formed UTF-8 *)
Definition str_write (e : str_enc) (s : list N) : str_enc :=
  {| se_buf := se_buf e ++ s; se_lens := uint_write_opt (se_lens e) (utf16_len s) |}.
Definition str_to_bytes (e : str_enc) : option (list N) :=
  match se_lens e with
  | Some le => match uint_to_bytes le with
               | Some lengths => Some (write_string (se_buf e) ++ lengths)
               | None => None
               end
  | None => None
  end.
Definition str_encode (l : list (list N)) : option (list N) := str_to_bytes (fold_left str_write l str_init).

(* StringDecoder::read_str walks the chars of the remaining buffer: while remaining > 0, take the char and
   subtract its UTF-16 length (saturating).  The buffer was validated by from_utf8 and the position is always
   a char boundary, so the walk is done here byte by byte: a continuation byte belongs to the char being taken,
   a lead byte starts a char worth utf16_len_byte units. *)
Fixpoint take16 (remaining : N) (s : list N) : list N * list N :=
  match s with
  | [] => ([], [])
  | b :: r =>
    if cont b then let p := take16 remaining r in (b :: fst p, snd p)
    else if remaining =? 0 then ([], s)
    else let p := take16 (remaining - utf16_len_byte b) r in (b :: fst p, snd p)
  end.

(* remaining string bytes (buf[pos..]) and the length decoder state; the cursor bytes are the lengths *)
Record str_st := { sd_str : list N; sd_lens : uint_st }.
(* StringDecoder::new *)
Definition str_new (bs : list N) : res str_st :=
  let* (str_bin, rest) := read_buf_v2 bs in
  if utf8_valid str_bin then Ok {| sd_str := str_bin; sd_lens := uint_st0 |} rest else Err UnexpectedValue.
Definition str_read (st : str_st) (bs : list N) : res (list N * str_st) :=
  let* (ls, rest) := uint_read (sd_lens st) bs in
  let p := take16 (fst ls) (sd_str st) in
  Ok (fst p, {| sd_str := snd p; sd_lens := snd ls |}) rest.

(* ================================================================================================ *)
(* reading n values in a row                                                                         *)
(* ================================================================================================ *)

Section ReadN.
  Context {S V : Type}.
  Variable read : S -> list N -> res (V * S).
  Fixpoint read_n (n : nat) (st : S) (bs : list N) : res (list V * S) :=
    match n with
    | O => Ok ([], st) bs
    | Datatypes.S k =>
      let* (vs, r1) := read st bs in
      let* (ls, r2) := read_n k (snd vs) r1 in
      Ok (fst vs :: fst ls, snd ls) r2
    end.
End ReadN.

Definition idiff_decode (n : nat) (bs : list N) : res (list N * idiff_st) := read_n idiff_read n idiff_st0 bs.
Definition uint_decode (n : nat) (bs : list N) : res (list N * uint_st) := read_n uint_read n uint_st0 bs.
Definition rle_decode (n : nat) (bs : list N) : res (list N * rle_st) := read_n rle_read n rle_st0 bs.
Definition str_decode (n : nat) (bs : list N) : res (list (list N) * str_st) :=
  let* (st, rest) := str_new bs in read_n str_read n st rest.
